(* C14: State.__eq__ decides set / map equality of what the states denote; copies; order of construction. *)
From Coq Require Import List Ascii String Bool Arith Lia PrimFloat Permutation.
From Verif Require Import Base.Result Base.Str Base.Sexp Base.PyDict Base.Float Model.State Spec.Pddl Spec.State
  Proofs.C14_Text Proofs.C14_Spec Proofs.C14_Eq.
Import ListNotations.
Open Scope string_scope.
Open Scope list_scope.

(* what a model state denotes *)
Definition den (s : mstate) : state := {| facts := den_facts s; fluents := den_fluents s |}.

(* well-formed: facts are positive literals, every name is a clean token (non-empty, lower case, no blank, no parenthesis),
   and no predicate is called "=" (both readers of a state take such an item for a fluent assignment) *)
Definition gp_ok (g : gpred) : bool := gp_pos g && atom_ok (gp_atom g) && negb (String.eqb (gp_name g) "=").
(* ... and every fluent value is a float: what the parsers and the effects store (an int -- the never-set default 0 or an
   int handed to set_value -- prints as "3", not "3.0": finding D90, C14_eq_int_refuted) *)
Definition pf_ok (f : pfun) : bool := atom_ok (pf_atom f) && negb (pf_int f).

Lemma pf_ok_atom f : pf_ok f = true -> atom_ok (pf_atom f) = true.
Proof. unfold pf_ok. intros H. apply andb_true_iff in H as [H _]. exact H. Qed.
Lemma pf_ok_float f : pf_ok f = true -> pf_int f = false.
Proof. unfold pf_ok. intros H. apply andb_true_iff in H as [_ H]. apply negb_true_iff in H. exact H. Qed.
Definition state_ok (s : mstate) : bool :=
  forallb gp_ok (all_preds s) && forallb pf_ok (dvalues (st_fluents s)).
Definition values (s : mstate) : list float := map pf_val (dvalues (st_fluents s)).
(* the names alone (what [state_ok] demanded before int values were modelled) *)
Definition state_names_ok (s : mstate) : bool :=
  forallb gp_ok (all_preds s) && forallb (fun f => atom_ok (pf_atom f)) (dvalues (st_fluents s)).

Lemma set_map_inj {A B} (f : A -> B) (P : A -> Prop) (la lb : list A) :
  (forall x y, P x -> P y -> f x = f y -> x = y) -> Forall P la -> Forall P lb ->
  ((forall y, In y (map f la) <-> In y (map f lb)) <-> (forall x, In x la <-> In x lb)).
Proof.
  intros Hinj Fa Fb. rewrite Forall_forall in Fa, Fb. split; intros H.
  - intros x. split; intros Hx.
    + assert (Hy : In (f x) (map f lb)) by (apply H, in_map, Hx).
      apply in_map_iff in Hy as (x' & E & Hx'). rewrite <- (Hinj x' x); auto.
    + assert (Hy : In (f x) (map f la)) by (apply H, in_map, Hx).
      apply in_map_iff in Hy as (x' & E & Hx'). rewrite <- (Hinj x' x); auto.
  - intros y. rewrite !in_map_iff. split; intros (x & E & Hx); exists x; (split; [exact E|apply H; exact Hx]).
Qed.

Lemma fact_texts_den s : forallb gp_ok (all_preds s) = true -> fact_texts s = map atom_text (den_facts s).
Proof.
  intros H. unfold fact_texts, den_facts. rewrite map_map. apply map_ext_in. intros g Hg.
  rewrite forallb_forall in H. specialize (H g Hg). unfold gp_ok in H. apply andb_true_iff in H as [H _]. apply andb_true_iff in H as [Hp _].
  apply gp_untyped_atom. exact Hp.
Qed.

Lemma den_facts_ok s : forallb gp_ok (all_preds s) = true -> Forall (fun a => atom_ok a = true) (den_facts s).
Proof.
  intros H. rewrite forallb_forall in H. apply Forall_forall. intros a Ha.
  apply in_map_iff in Ha as (g & <- & Hg). specialize (H g Hg). unfold gp_ok in H.
  apply andb_true_iff in H as [H _]. apply andb_true_iff in H as [_ H]. exact H.
Qed.

Section Main.
  Variable num_text : float -> string.
  Variable parse_num : string -> option float.

  (* repr / float(): what is assumed of the two functions, only on the values that occur *)
  Definition num_ok (x : float) : Prop := exists y, parse_num (num_text x) = Some y /\ same_value x y = true.
  Definition num_stable (x y : float) : Prop := same_value x y = true -> num_text x = num_text y.
  Definition nums_ok (vs : list float) : Prop :=
    (forall x, In x vs -> num_ok x) /\ (forall x y, In x vs -> In y vs -> num_stable x y).

  Lemma num_text_inj x y : num_ok x -> num_ok y -> num_text x = num_text y -> same_value x y = true.
  Proof.
    intros (x' & Px & Ex) (y' & Py & Ey) E. rewrite E in Px. rewrite Px in Py. injection Py as <-.
    eapply same_value_trans; [exact Ex|apply same_value_sym; exact Ey].
  Qed.

  Definition ftext (kv : atom * float) : string := valued_text (fst kv) (num_text (snd kv)).

  Lemma fluent_texts_den s : forallb pf_ok (dvalues (st_fluents s)) = true ->
    fluent_texts num_text s = map ftext (den_fluents s).
  Proof.
    intros H. rewrite forallb_forall in H.
    unfold fluent_texts, den_fluents. rewrite map_map. apply map_ext_in. intros f Hf.
    apply pf_state_text_valued. apply pf_ok_float. exact (H f Hf).
  Qed.

  Lemma den_fluents_ok s : forallb pf_ok (dvalues (st_fluents s)) = true ->
    Forall (fun kv => atom_ok (fst kv) = true) (den_fluents s).
  Proof.
    intros H. rewrite forallb_forall in H. apply Forall_forall. intros kv Hkv.
    apply in_map_iff in Hkv as (f & <- & Hf). apply pf_ok_atom. exact (H f Hf).
  Qed.

  Lemma in_den_fluents_value s k v : In (k, v) (den_fluents s) -> In v (values s).
  Proof.
    intros H. apply in_map_iff in H as (f & E & Hf). injection E as _ <-. apply in_map. exact Hf.
  Qed.

  Lemma fluents_texts_iff (la lb : list (atom * float)) :
    Forall (fun kv => atom_ok (fst kv) = true) la -> Forall (fun kv => atom_ok (fst kv) = true) lb ->
    nums_ok (map snd la ++ map snd lb) ->
    ((forall y, In y (map ftext la) <-> In y (map ftext lb)) <-> same_fluents la lb).
  Proof.
    intros Fa Fb [Hok Hst]. rewrite Forall_forall in Fa, Fb.
    assert (Va : forall k v, In (k, v) la -> In v (map snd la ++ map snd lb)).
    { intros k v H. apply in_or_app. left. apply (in_map snd) in H. exact H. }
    assert (Vb : forall k v, In (k, v) lb -> In v (map snd la ++ map snd lb)).
    { intros k v H. apply in_or_app. right. apply (in_map snd) in H. exact H. }
    assert (Step : forall l1 l2,
               (forall kv, In kv l1 -> atom_ok (fst kv) = true) -> (forall kv, In kv l2 -> atom_ok (fst kv) = true) ->
               (forall k v, In (k, v) l1 -> In v (map snd la ++ map snd lb)) ->
               (forall k v, In (k, v) l2 -> In v (map snd la ++ map snd lb)) ->
               (forall y, In y (map ftext l1) -> In y (map ftext l2)) ->
               forall k v, has_value l1 k v -> has_value l2 k v).
    { intros l1 l2 F1 F2 V1 V2 H k v (v' & Hin & E).
      assert (Hy : In (ftext (k, v')) (map ftext l2)) by (apply H, in_map, Hin).
      apply in_map_iff in Hy as ([k2 v2] & Et & Hin2).
      unfold ftext in Et. cbn [fst snd] in Et.
      apply valued_text_inj in Et as [-> En]; [|exact (F2 _ Hin2)|exact (F1 _ Hin)].
      exists v2. split; [exact Hin2|].
      eapply same_value_trans; [exact E|].
      apply same_value_sym. apply num_text_inj; [apply Hok, (V2 _ _ Hin2)|apply Hok, (V1 _ _ Hin)|exact En]. }
    assert (Back : forall l1 l2,
               (forall k v, In (k, v) l1 -> In v (map snd la ++ map snd lb)) ->
               (forall k v, In (k, v) l2 -> In v (map snd la ++ map snd lb)) ->
               (forall k v, has_value l1 k v -> has_value l2 k v) ->
               forall y, In y (map ftext l1) -> In y (map ftext l2)).
    { intros l1 l2 V1 V2 H y Hy. apply in_map_iff in Hy as ([k v] & <- & Hin).
      destruct (H k v) as (v' & Hin2 & E); [exists v; split; [exact Hin|apply same_value_refl]|].
      apply in_map_iff. exists (k, v'). split; [|exact Hin2].
      unfold ftext. cbn [fst snd]. f_equal. symmetry. apply Hst; [apply (V1 _ _ Hin)|apply (V2 _ _ Hin2)|exact E]. }
    unfold same_fluents. split.
    - intros H k v. split; [apply (Step la lb)|apply (Step lb la)]; auto; intros y Hy; apply H; exact Hy.
    - intros H y. split; [apply (Back la lb)|apply (Back lb la)]; auto; intros k v; apply H.
  Qed.

  Lemma map_snd_den_fluents s : map snd (den_fluents s) = values s.
  Proof. unfold den_fluents, values. rewrite map_map. reflexivity. Qed.

  (* ---------- C14_eq ---------- *)
  Theorem state_eq_same s t :
    state_ok s = true -> state_ok t = true -> nums_ok (values s ++ values t) ->
    (state_eq num_text s t = true <-> State_same (den s) (den t)).
  Proof.
    unfold state_ok. rewrite !andb_true_iff. intros [Hs1 Hs2] [Ht1 Ht2] Hn.
    rewrite state_eq_iff. unfold State_same, den. cbn [facts fluents].
    rewrite (fact_texts_den s Hs1), (fact_texts_den t Ht1), (fluent_texts_den s Hs2), (fluent_texts_den t Ht2).
    rewrite (set_map_inj atom_text (fun a => atom_ok a = true));
      [|intros x y Hx Hy; apply atom_text_inj; assumption|apply den_facts_ok; assumption..].
    rewrite fluents_texts_iff;
      [|apply den_fluents_ok; assumption|apply den_fluents_ok; assumption|rewrite !map_snd_den_fluents; exact Hn].
    reflexivity.
  Qed.
End Main.

(* ---------- copy ---------- *)
Lemma gp_copy_id g : gp_copy g = g.
Proof. destruct g; reflexivity. Qed.
Lemma pf_copy_id f : pf_copy f = f.
Proof. destruct f; reflexivity. Qed.

Lemma state_copy_id s : state_copy s = s.
Proof.
  destruct s as [i p f]. unfold state_copy. cbn [st_init st_preds st_fluents]. f_equal.
  - rewrite <- (map_id p) at 2. apply map_ext. intros [k l]. cbn [fst snd]. f_equal.
    rewrite <- (map_id l) at 2. apply map_ext. apply gp_copy_id.
  - rewrite <- (map_id f) at 2. apply map_ext. intros [k x]. cbn [fst snd]. rewrite pf_copy_id. reflexivity.
Qed.

(* ---------- order: only the collections of facts and of fluent objects matter, as sets ---------- *)
Lemma state_eq_perm num_text s s' :
  Permutation (all_preds s) (all_preds s') ->
  Permutation (dvalues (st_fluents s)) (dvalues (st_fluents s')) ->
  state_eq num_text s s' = true.
Proof.
  intros P1 P2. apply state_eq_iff. split; intros x.
  - unfold fact_texts. split; apply Permutation_in; [|apply Permutation_sym]; apply Permutation_map; exact P1.
  - unfold fluent_texts. split; apply Permutation_in; [|apply Permutation_sym]; apply Permutation_map; exact P2.
Qed.

(* ---------- building a state from its components, in any order ---------- *)
Definition comp_facts (cs : list component) : list gpred :=
  flat_map (fun c => match c with CFact g => [g] | CFluent _ => [] end) cs.
Definition comp_fluents (cs : list component) : list pfun :=
  flat_map (fun c => match c with CFact _ => [] | CFluent f => [f] end) cs.

(* a fact is well-formed when its object_mapping lists the parameters in the signature's order, once each *)
Definition gp_wf (g : gpred) : Prop := dkeys (gp_map g) = dkeys (gp_sig g) /\ NoDup (dkeys (gp_map g)).

Lemma strs_eqb_eq a : forall b, strs_eqb a b = true <-> a = b.
Proof.
  induction a as [|x a IH]; intros [|y b]; simpl; try (split; [discriminate|intros H; discriminate H]).
  - tauto.
  - rewrite andb_true_iff, String.eqb_eq, IH. split; [intros [-> ->]; reflexivity|intros H; injection H; auto].
Qed.

Lemma dget_in_nodup {V} (d : pydict V) k v : NoDup (dkeys d) -> In (k, v) d -> dget d k = Some v.
Proof.
  induction d as [|[k' v'] d IH]; intros Hnd Hin; [destruct Hin|].
  simpl in Hnd. inversion Hnd as [|? ? Hni Hnd']; subst. simpl.
  destruct Hin as [E|Hin].
  - injection E as -> ->. rewrite String.eqb_refl. reflexivity.
  - destruct (String.eqb k k') eqn:E.
    + apply String.eqb_eq in E. subst k'. exfalso. apply Hni. apply (in_map fst) in Hin. exact Hin.
    + apply IH; assumption.
Qed.

Lemma sdict_eqb_values a : forall b,
  dkeys a = dkeys b -> NoDup (dkeys a) -> sdict_eqb a b = true -> dvalues a = dvalues b.
Proof.
  induction a as [|[k v] a IH]; intros [|[k' v'] b] Hk Hnd H; try discriminate; [reflexivity|].
  simpl in Hk. injection Hk as <- Hk. inversion Hnd as [|? ? Hni Hnd']; subst.
  unfold sdict_eqb in H. apply andb_true_iff in H as [Hlen H]. simpl in H.
  rewrite String.eqb_refl in H. apply andb_true_iff in H as [Hv H]. apply String.eqb_eq in Hv. subst v'.
  simpl. f_equal. apply IH; [exact Hk|exact Hnd'|].
  unfold sdict_eqb. apply andb_true_iff. split; [simpl in Hlen; exact Hlen|].
  rewrite forallb_forall in *. intros [k2 v2] Hin. specialize (H _ Hin). cbn [fst snd] in *.
  simpl in H. destruct (String.eqb k2 k) eqn:E; [|exact H].
  apply String.eqb_eq in E. subst k2. exfalso. apply Hni. apply (in_map fst) in Hin. exact Hin.
Qed.

Lemma gp_same_atom a b : gp_wf a -> gp_wf b -> gp_same a b = true -> gp_untyped a = gp_untyped b.
Proof.
  intros [Ka Na] [Kb Nb]. unfold gp_same.
  destruct (gp_typed a) as [ta|]; [|discriminate]. destruct (gp_typed b) as [tb|]; [|discriminate].
  rewrite !andb_true_iff. intros [[[[_ En] Ep] Ek] Em].
  apply String.eqb_eq in En. apply Bool.eqb_prop in Ep. apply strs_eqb_eq in Ek.
  assert (Ev : dvalues (gp_map a) = dvalues (gp_map b)).
  { apply sdict_eqb_values; [congruence|exact Na|exact Em]. }
  unfold gp_untyped, gp_objects. rewrite En, Ep, Ev. reflexivity.
Qed.

(* the facts held after adding one *)
Lemma flat_map_dset_present {V} (d : pydict (list V)) k l l' :
  dget d k = Some l -> (forall x, In x l -> In x l') ->
  forall x, In x (flat_map snd (dset d k l')) <-> In x (flat_map snd d) \/ In x l'.
Proof.
  induction d as [|[k' v'] d IH]; intros Hg Hsub x; [discriminate|].
  simpl in Hg. simpl. destruct (String.eqb k k') eqn:E.
  - injection Hg as ->. simpl. rewrite !in_app_iff. split; [tauto|]. intros [[H|H]|H]; auto.
  - simpl. rewrite !in_app_iff, (IH Hg Hsub x). tauto.
Qed.

Lemma flat_map_dset_absent {V} (d : pydict (list V)) k l' :
  dget d k = None -> forall x, In x (flat_map snd (dset d k l')) <-> In x (flat_map snd d) \/ In x l'.
Proof.
  induction d as [|[k' v'] d IH]; intros Hg x.
  - simpl. rewrite app_nil_r. tauto.
  - simpl in Hg. simpl. destruct (String.eqb k k') eqn:E; [discriminate|].
    simpl. rewrite !in_app_iff, (IH Hg x). tauto.
Qed.

Lemma in_dget_sub {V} (d : pydict (list V)) k l : dget d k = Some l -> forall x, In x l -> In x (flat_map snd d).
Proof.
  induction d as [|[k' v'] d IH]; intros Hg x Hx; [discriminate|].
  simpl in Hg. simpl. apply in_or_app. destruct (String.eqb k k'); [injection Hg as ->; auto|right; eauto].
Qed.

Definition all_wf (l : list gpred) : Prop := Forall gp_wf l.

Lemma preds_add_texts key g d :
  gp_wf g -> all_wf (flat_map snd d) ->
  (forall x, In x (map gp_untyped (flat_map snd (preds_add key g d))) <->
             In x (map gp_untyped (flat_map snd d)) \/ x = gp_untyped g) /\
  all_wf (flat_map snd (preds_add key g d)).
Proof.
  intros Wg Wd. unfold preds_add. destruct (dget d key) as [l|] eqn:G.
  - unfold set_add. destruct (existsb (gp_same g) l) eqn:Ex.
    + (* an equal element is present: nothing new, and its text is the text of g *)
      apply existsb_exists in Ex as (h & Hh & Es).
      assert (Hin : In h (flat_map snd d)) by (eapply in_dget_sub; eauto).
      assert (Wh : gp_wf h) by (unfold all_wf in Wd; rewrite Forall_forall in Wd; auto).
      assert (Et : gp_untyped g = gp_untyped h) by (apply gp_same_atom; assumption).
      assert (Same : forall y, In y (flat_map snd (dset d key l)) <-> In y (flat_map snd d)).
      { intros y. rewrite (flat_map_dset_present d key l l G (fun _ H => H) y).
        split; [intros [H|H]; [exact H|eapply in_dget_sub; eauto]|auto]. }
      split.
      * intros x. rewrite !in_map_iff. split.
        -- intros (y & E & Hy). left. exists y. split; [exact E|apply Same; exact Hy].
        -- intros [(y & E & Hy)| ->]; [exists y; split; [exact E|apply Same; exact Hy]|].
           exists h. split; [symmetry; exact Et|apply Same; exact Hin].
      * unfold all_wf in *. rewrite Forall_forall in *. intros y Hy. apply Wd, Same, Hy.
    + assert (Sub : forall y, In y l -> In y (l ++ [g])) by (intros y Hy; apply in_or_app; auto).
      pose proof (flat_map_dset_present d key l (l ++ [g]) G Sub) as P.
      assert (P' : forall y, In y (flat_map snd (dset d key (l ++ [g]))) <-> In y (flat_map snd d) \/ y = g).
      { intros y. rewrite P, in_app_iff. simpl. split.
        - intros [H|[H|[H|[]]]]; auto. left. eapply in_dget_sub; eauto.
        - intros [H|H]; auto. }
      split.
      * intros x. rewrite !in_map_iff. split.
        -- intros (y & E & Hy). apply P' in Hy as [Hy| ->]; [left; exists y; auto|right; auto].
        -- intros [(y & E & Hy)| ->]; [exists y; split; [exact E|apply P'; auto]|exists g; split; [reflexivity|apply P'; auto]].
      * unfold all_wf in *. rewrite Forall_forall in *. intros y Hy. apply P' in Hy as [Hy| ->]; auto.
  - pose proof (flat_map_dset_absent d key [g] G) as P.
    assert (P' : forall y, In y (flat_map snd (dset d key [g])) <-> In y (flat_map snd d) \/ y = g).
    { intros y. rewrite P. simpl. split; [intros [H|[H|[]]]; auto|intros [H|H]; auto]. }
    split.
    + intros x. rewrite !in_map_iff. split.
      * intros (y & E & Hy). apply P' in Hy as [Hy| ->]; [left; exists y; auto|right; auto].
      * intros [(y & E & Hy)| ->]; [exists y; split; [exact E|apply P'; auto]|exists g; split; [reflexivity|apply P'; auto]].
    + unfold all_wf in *. rewrite Forall_forall in *. intros y Hy. apply P' in Hy as [Hy| ->]; auto.
Qed.

(* fluents: a fresh key appends *)
Lemma dset_fresh {V} (d : pydict V) k v : ~ In k (dkeys d) -> dset d k v = d ++ [(k, v)].
Proof.
  induction d as [|[k' v'] d IH]; intros H; [reflexivity|].
  simpl in *. destruct (String.eqb k k') eqn:E.
  - apply String.eqb_eq in E. subst. exfalso. auto.
  - rewrite IH; [reflexivity|]. intros Hin. apply H. auto.
Qed.

Lemma build_invariant cs : forall s,
  all_wf (all_preds s) -> Forall gp_wf (comp_facts cs) ->
  NoDup (dkeys (st_fluents s) ++ map pf_untyped (comp_fluents cs)) ->
  let s' := fold_left add_component cs s in
  (forall x, In x (fact_texts s') <-> In x (fact_texts s) \/ In x (map gp_untyped (comp_facts cs))) /\
  dvalues (st_fluents s') = dvalues (st_fluents s) ++ comp_fluents cs /\
  st_init s' = st_init s.
Proof.
  induction cs as [|c cs IH]; intros s Ws Wc Nd.
  - simpl. rewrite app_nil_r. split; [intros x; simpl; tauto|auto].
  - cbn [fold_left]. destruct c as [g|f].
    + cbn [comp_facts flat_map app] in Wc. change (g :: comp_facts cs) with ([g] ++ comp_facts cs) in Wc.
      inversion Wc as [|? ? Wg Wc']; subst.
      destruct (preds_add_texts (gp_lifted_untyped g) g (st_preds s) Wg Ws) as [T W].
      specialize (IH (add_component s (CFact g))). cbn [add_component] in IH.
      destruct IH as (I1 & I2 & I3); [exact W|exact Wc'|exact Nd|].
      cbv zeta. split; [|split; [exact I2|exact I3]].
      intros x. rewrite (I1 x). unfold fact_texts, all_preds at 1. cbn [st_preds].
      rewrite (T x). cbn [comp_facts flat_map app map]. simpl. unfold fact_texts, all_preds, comp_facts. intuition congruence.
    + cbn [comp_fluents flat_map app map] in Nd.
      assert (Hfresh : ~ In (pf_untyped f) (dkeys (st_fluents s))).
      { intros Hin. apply NoDup_remove_2 in Nd. apply Nd. apply in_or_app. left. exact Hin. }
      specialize (IH (add_component s (CFluent f))). cbn [add_component st_preds st_fluents st_init] in IH.
      unfold fluents_put in IH. rewrite (dset_fresh _ _ _ Hfresh) in IH.
      destruct IH as (I1 & I2 & I3); [exact Ws|exact Wc| |].
      { unfold dkeys. rewrite map_app. simpl. rewrite <- app_assoc. simpl.
        apply NoDup_remove_1 in Nd as Nd1.
        apply Permutation_NoDup with (l := pf_untyped f :: dkeys (st_fluents s) ++ map pf_untyped (comp_fluents cs)).
        - apply Permutation_middle.
        - constructor; [apply NoDup_remove_2 in Nd; exact Nd|exact Nd1]. }
      cbv zeta. cbn [add_component]. unfold fluents_put. rewrite (dset_fresh _ _ _ Hfresh).
      split; [|split; [|exact I3]].
      * intros x. rewrite (I1 x). cbn [comp_facts flat_map app]. unfold fact_texts, all_preds. cbn [st_preds]. tauto.
      * rewrite I2. unfold dvalues. rewrite map_app. simpl. rewrite <- app_assoc. reflexivity.
Qed.

Lemma comp_facts_perm cs cs' : Permutation cs cs' -> Permutation (comp_facts cs) (comp_facts cs').
Proof.
  induction 1 as [|c l l' _ IH|a b l|l1 l2 l3 _ IH1 _ IH2]; simpl.
  - constructor.
  - apply Permutation_app_head. exact IH.
  - rewrite !app_assoc. apply Permutation_app_tail. apply Permutation_app_comm.
  - eapply Permutation_trans; eassumption.
Qed.
Lemma comp_fluents_perm cs cs' : Permutation cs cs' -> Permutation (comp_fluents cs) (comp_fluents cs').
Proof.
  induction 1 as [|c l l' _ IH|a b l|l1 l2 l3 _ IH1 _ IH2]; simpl.
  - constructor.
  - apply Permutation_app_head. exact IH.
  - rewrite !app_assoc. apply Permutation_app_tail. apply Permutation_app_comm.
  - eapply Permutation_trans; eassumption.
Qed.

(* the same components inserted in two different orders (and with different is_init flags) give equal states,
   provided no fluent is assigned twice *)
Theorem build_order num_text init init' cs cs' :
  Permutation cs cs' -> Forall gp_wf (comp_facts cs) -> NoDup (map pf_untyped (comp_fluents cs)) ->
  state_eq num_text (build_state init cs) (build_state init' cs') = true.
Proof.
  intros P W Nd.
  assert (W' : Forall gp_wf (comp_facts cs')).
  { rewrite Forall_forall in *. intros g Hg. apply W. eapply Permutation_in; [apply Permutation_sym, comp_facts_perm; exact P|exact Hg]. }
  assert (Nd' : NoDup (map pf_untyped (comp_fluents cs'))).
  { eapply Permutation_NoDup; [apply Permutation_map, comp_fluents_perm; exact P|exact Nd]. }
  destruct (build_invariant cs (empty_state init)) as (A1 & A2 & _); [constructor|exact W|exact Nd|].
  destruct (build_invariant cs' (empty_state init')) as (B1 & B2 & _); [constructor|exact W'|exact Nd'|].
  cbv zeta in *. fold (build_state init cs) in A1, A2. fold (build_state init' cs') in B1, B2.
  apply state_eq_iff. split; intros x.
  - rewrite (A1 x), (B1 x). simpl.
    split; intros [[]|H]; right; (eapply Permutation_in; [|exact H]); apply Permutation_map;
      [|apply Permutation_sym]; apply comp_facts_perm; exact P.
  - unfold fluent_texts. rewrite A2, B2. simpl.
    split; apply Permutation_in; apply Permutation_map; [|apply Permutation_sym]; apply comp_fluents_perm; exact P.
Qed.

(* ---------- copy, as used by Props ---------- *)
Lemma state_copy_props (num_text : float -> string) s :
  state_eq num_text (state_copy s) s = true /\ state_eq num_text s (state_copy s) = true /\
  serialize_in_order num_text (state_copy s) = serialize_in_order num_text s.
Proof. rewrite state_copy_id. repeat split; apply state_eq_refl. Qed.

(* ---------- adding a fact, seen through any function that equal set members agree on ---------- *)
Lemma gp_same_fields a b : gp_wf a -> gp_wf b -> gp_same a b = true ->
  gp_name a = gp_name b /\ gp_pos a = gp_pos b /\ gp_objects a = gp_objects b.
Proof.
  intros [Ka Na] [Kb Nb]. unfold gp_same.
  destruct (gp_typed a) as [ta|]; [|discriminate]. destruct (gp_typed b) as [tb|]; [|discriminate].
  rewrite !andb_true_iff. intros [[[[_ En] Ep] Ek] Em].
  apply String.eqb_eq in En. apply Bool.eqb_prop in Ep. apply strs_eqb_eq in Ek.
  split; [exact En|]. split; [exact Ep|].
  unfold gp_objects. apply sdict_eqb_values; [congruence|exact Na|exact Em].
Qed.

Lemma preds_add_image {B} (f : gpred -> B) key g d :
  (forall a b, gp_wf a -> gp_wf b -> gp_same a b = true -> f a = f b) ->
  gp_wf g -> all_wf (flat_map snd d) ->
  (forall x, In x (map f (flat_map snd (preds_add key g d))) <-> In x (map f (flat_map snd d)) \/ x = f g) /\
  all_wf (flat_map snd (preds_add key g d)).
Proof.
  intros Hf Wg Wd. unfold preds_add. destruct (dget d key) as [l|] eqn:G.
  - unfold set_add. destruct (existsb (gp_same g) l) eqn:Ex.
    + apply existsb_exists in Ex as (h & Hh & Es).
      assert (Hin : In h (flat_map snd d)) by (eapply in_dget_sub; eauto).
      assert (Wh : gp_wf h) by (unfold all_wf in Wd; rewrite Forall_forall in Wd; auto).
      assert (Et : f g = f h) by (apply Hf; assumption).
      assert (Same : forall y, In y (flat_map snd (dset d key l)) <-> In y (flat_map snd d)).
      { intros y. rewrite (flat_map_dset_present d key l l G (fun _ H => H) y).
        split; [intros [H|H]; [exact H|eapply in_dget_sub; eauto]|auto]. }
      split.
      * intros x. rewrite !in_map_iff. split.
        -- intros (y & E & Hy). left. exists y. split; [exact E|apply Same; exact Hy].
        -- intros [(y & E & Hy)| ->]; [exists y; split; [exact E|apply Same; exact Hy]|].
           exists h. split; [symmetry; exact Et|apply Same; exact Hin].
      * unfold all_wf in *. rewrite Forall_forall in *. intros y Hy. apply Wd, Same, Hy.
    + assert (Sub : forall y, In y l -> In y (l ++ [g])) by (intros y Hy; apply in_or_app; auto).
      pose proof (flat_map_dset_present d key l (l ++ [g]) G Sub) as P.
      assert (P' : forall y, In y (flat_map snd (dset d key (l ++ [g]))) <-> In y (flat_map snd d) \/ y = g).
      { intros y. rewrite P, in_app_iff. simpl. split.
        - intros [H|[H|[H|[]]]]; auto. left. eapply in_dget_sub; eauto.
        - intros [H|H]; auto. }
      split.
      * intros x. rewrite !in_map_iff. split.
        -- intros (y & E & Hy). apply P' in Hy as [Hy| ->]; [left; exists y; auto|right; auto].
        -- intros [(y & E & Hy)| ->]; [exists y; split; [exact E|apply P'; auto]|exists g; split; [reflexivity|apply P'; auto]].
      * unfold all_wf in *. rewrite Forall_forall in *. intros y Hy. apply P' in Hy as [Hy| ->]; auto.
  - pose proof (flat_map_dset_absent d key [g] G) as P.
    assert (P' : forall y, In y (flat_map snd (dset d key [g])) <-> In y (flat_map snd d) \/ y = g).
    { intros y. rewrite P. simpl. split; [intros [H|[H|[]]]; auto|intros [H|H]; auto]. }
    split.
    + intros x. rewrite !in_map_iff. split.
      * intros (y & E & Hy). apply P' in Hy as [Hy| ->]; [left; exists y; auto|right; auto].
      * intros [(y & E & Hy)| ->]; [exists y; split; [exact E|apply P'; auto]|exists g; split; [reflexivity|apply P'; auto]].
    + unfold all_wf in *. rewrite Forall_forall in *. intros y Hy. apply P' in Hy as [Hy| ->]; auto.
Qed.

Lemma preds_add_atoms key g d :
  gp_wf g -> all_wf (flat_map snd d) ->
  (forall x, In x (map gp_atom (flat_map snd (preds_add key g d))) <-> In x (map gp_atom (flat_map snd d)) \/ x = gp_atom g) /\
  all_wf (flat_map snd (preds_add key g d)).
Proof.
  apply preds_add_image. intros a b Wa Wb E. destruct (gp_same_fields a b Wa Wb E) as (En & _ & Eo).
  unfold gp_atom. rewrite En, Eo. reflexivity.
Qed.
