(* C11, round 3: the token stream does not depend on how the text is cut into lines, nor on the input mode.
   - tokenize_split_at_newline: cutting the text after any line feed and tokenizing the pieces separately gives
     the same tokens (what a reader that works line by line, or chunk by chunk with chunks ending at a line end, does);
   - tokenize_modes_agree: file input (universal newlines: CR ends a comment) and string input (only LF does) give the
     same tokens for every text in which a CR is always followed by LF or by the end of the text. *)
From Coq Require Import List Ascii String Bool Arith Lia.
From Verif Require Import Base.Result Base.Str Base.Sexp Model.Tokenizer Spec.Layout Proofs.C11_Tokenizer.
Import ListNotations.
Open Scope list_scope.

Lemma flush_app cur x y : flush cur (x ++ y) = flush cur x ++ y.
Proof. destruct cur; reflexivity. Qed.

Lemma lf_facts : Ascii.eqb LF SEMI = false /\ is_paren LF = false /\ is_ws LF = true.
Proof. repeat split; vm_compute; reflexivity. Qed.

Lemma ends_comment_lf m : ends_comment m LF = true.
Proof. destruct m; reflexivity. Qed.

Lemma tk_split_aux m b : forall a,
  (forall cur, tk m (a ++ LF :: b) cur = tk m a cur ++ tk m b []) /\
  tkc m (a ++ LF :: b) = tkc m a ++ tk m b [].
Proof.
  destruct lf_facts as (L1 & L2 & L3).
  induction a as [|c a [IHt IHc]]; split.
  - intros cur. cbn [app tk]. rewrite L1, L2, L3. rewrite <- flush_app. reflexivity.
  - cbn [app tkc]. rewrite ends_comment_lf. reflexivity.
  - intros cur. cbn [app tk].
    destruct (Ascii.eqb c SEMI); [rewrite IHc; apply flush_app|].
    destruct (is_paren c); [rewrite IHt; rewrite <- flush_app; reflexivity|].
    destruct (is_ws c); [rewrite IHt; apply flush_app|].
    apply IHt.
  - cbn [app tkc]. destruct (ends_comment m c); [apply IHt | exact IHc].
Qed.

Theorem tokenize_split_at_newline m a b :
  tokenize m (a ++ LF :: b) = tokenize m a ++ tokenize m b.
Proof. unfold tokenize. apply (proj1 (tk_split_aux m b a)). Qed.

Lemma ends_comment_modes c :
  ends_comment MFile c = ends_comment MStr c || Ascii.eqb c CR.
Proof. unfold ends_comment. destruct (Ascii.eqb c LF), (Ascii.eqb c CR); reflexivity. Qed.

Lemma cr_not_lf : Ascii.eqb CR LF = false. Proof. reflexivity. Qed.

Lemma tk_modes_aux : forall s, cr_then_lf s = true ->
  (forall cur, tk MFile s cur = tk MStr s cur) /\ tkc MFile s = tkc MStr s.
Proof.
  destruct lf_facts as (L1 & L2 & L3).
  induction s as [|c s IH]; intros H; [split; reflexivity|].
  cbn [cr_then_lf] in H. apply andb_true_iff in H as [Hc Hs].
  destruct (IH Hs) as [IHt IHc]. split.
  - intros cur. cbn [tk]. rewrite IHc, !IHt. reflexivity.
  - cbn [tkc]. destruct (Ascii.eqb c CR) eqn:Ecr.
    + apply Ascii.eqb_eq in Ecr. subst c.
      replace (ends_comment MFile CR) with true by reflexivity.
      replace (ends_comment MStr CR) with false by reflexivity.
      rewrite IHt. destruct s as [|c2 s']; [reflexivity|].
      apply Ascii.eqb_eq in Hc. subst c2.
      cbn [tk tkc]. rewrite L1, L2, L3, (ends_comment_lf MStr). reflexivity.
    + rewrite ends_comment_modes, Ecr, orb_false_r.
      destruct (ends_comment MStr c); [apply IHt | exact IHc].
Qed.

Theorem tokenize_modes_agree s : cr_then_lf s = true -> tokenize MFile s = tokenize MStr s.
Proof. intros H. unfold tokenize. apply (proj1 (tk_modes_aux s H)). Qed.

(* the hypothesis is needed: a lone CR inside a comment ends it in file mode only *)
Lemma modes_differ_on_lone_cr :
  tokenize MFile (s2t "(a ;c" ++ CR :: s2t " b)") <> tokenize MStr (s2t "(a ;c" ++ CR :: s2t " b)").
Proof. vm_compute. discriminate. Qed.

(* and it is satisfiable by a text with comments and CRLF line ends *)
Lemma cr_then_lf_example : cr_then_lf (s2t "(a ;c" ++ CR :: LF :: s2t " b)" ++ [CR]) = true.
Proof. reflexivity. Qed.

(* ---------- the code's loop, literally: split into lines, cut each line at its first ';', tokenize what is left ---------- *)
Lemma tokenize_join_lf m ls : tokenize m (join_lf ls) = flat_map (tokenize m) ls.
Proof.
  induction ls as [|l [|l2 r] IH].
  - reflexivity.
  - cbn [join_lf flat_map]. rewrite app_nil_r. reflexivity.
  - change (join_lf (l :: l2 :: r)) with (l ++ LF :: join_lf (l2 :: r)).
    rewrite tokenize_split_at_newline, IH. reflexivity.
Qed.

Lemma tk_before_semi m l : Forall (fun c => ends_comment m c = false) l ->
  forall cur, tk m l cur = tk m (before_semi l) cur.
Proof.
  induction 1 as [|c l Hc Hl IH]; intros cur; [reflexivity|].
  cbn [tk before_semi]. destruct (Ascii.eqb c SEMI) eqn:E.
  - rewrite (tkc_open m l Hl). reflexivity.
  - cbn [tk]. rewrite E, !IH. reflexivity.
Qed.

Theorem tokenize_line_by_line m ls :
  Forall (Forall (fun c => ends_comment m c = false)) ls ->
  tokenize m (join_lf ls) = flat_map (fun l => tokenize m (before_semi l)) ls.
Proof.
  intros H. rewrite tokenize_join_lf. induction H as [|l ls Hl _ IH]; [reflexivity|].
  cbn [flat_map]. rewrite IH. f_equal. unfold tokenize. apply tk_before_semi. exact Hl.
Qed.

Lemma line_by_line_example :
  Forall (Forall (fun c => ends_comment MStr c = false)) [s2t "(a ;x ("; s2t "; y"; s2t " B)"] /\
  tokenize MStr (join_lf [s2t "(a ;x ("; s2t "; y"; s2t " B)"]) = ["("; "a"; "b"; ")"]%string.
Proof. split; [repeat constructor | reflexivity]. Qed.

Lemma parse_modes_agree s :
  cr_then_lf s = true -> parse MFile s = parse MStr s /\ tokenize MFile s = tokenize MStr s.
Proof. intros H. unfold parse. rewrite (tokenize_modes_agree s H). split; reflexivity. Qed.

Lemma modes_differ_witness : exists s, cr_then_lf s = false /\ tokenize MFile s <> tokenize MStr s.
Proof. exists (s2t "(a ;c" ++ CR :: s2t " b)"). split; [reflexivity | exact modes_differ_on_lone_cr]. Qed.
