(* C06: the main theorems - closure, fuel, acceptance of forests, rejection of cycles, order independence. *)
From Coq Require Import List String Bool Arith Lia Relations Permutation.
From Verif Require Import Base.Result Base.Str Base.Sexp Base.PyDict Model.Types Spec.Types
  Proofs.C06_Walk Proofs.C06_Parse.
Import ListNotations.
Open Scope string_scope.
Open Scope list_scope.

(* a section that reads as its groups, with one parent per child and object as nobody's child *)
Definition wf_section (gs : list group) (tr : list tname) : Prop :=
  plain_section gs tr /\ one_parent (decls gs tr) /\ object_is_root (decls gs tr).

(* ---------- parse result of a well-formed section ---------- *)
Lemma parse_ok_table gs tr T :
  wf_section gs tr -> parse_types (render gs tr) = Ok T -> T = the_table gs tr.
Proof.
  intros [Hp [H1 _]] H. rewrite (parse_rendered gs tr Hp H1) in H.
  destruct (forallb _ _); [injection H as <-; reflexivity|discriminate].
Qed.

Lemma parsed_reaches toks T x :
  parse_types toks = Ok T -> walk (S (S (List.length T))) T x "object" = Ok true.
Proof.
  intros H. pose proof (acyclic_reaches T (parsed_tacyclic _ _ H) x) as Hr.
  destruct (walk_total_S T _ x "object" Hr) as [b Hb].
  (* one more unit of fuel keeps the answer *)
  assert (Hmono : forall f a, walk f T a "object" = Ok true -> walk (S f) T a "object" = Ok true).
  { induction f as [|f IH]; intros a Ha.
    - simpl in Ha. simpl. destruct (String.eqb a "object"); [reflexivity|discriminate].
    - change (walk (S (S f)) T a "object") with
        (if String.eqb a "object" then Ok true else
           if String.eqb a "object" then Ok false else
             match dget T a with Some p => walk (S f) T p "object" | None => walk (S f) T "object" "object" end).
      simpl in Ha. destruct (String.eqb a "object"); [reflexivity|].
      destruct (dget T a); apply IH; exact Ha. }
  apply Hmono, Hr.
Qed.

Theorem closure_lemma : forall gs tr T,
  wf_section gs tr ->
  parse_types (render gs tr) = Ok T ->
  forall x y, is_sub_type T x y = true <-> subtype (decls gs tr) x y.
Proof.
  intros gs tr T Hwf H x y. pose proof (parse_ok_table _ _ _ Hwf H) as HT.
  destruct Hwf as [Hp [H1 Hr]].
  unfold is_sub_type. split.
  - intros Hb. destruct (walk _ T x y) as [b|k] eqn:E; [|discriminate]. subst b.
    apply (walk_sound T (decls gs tr)) with (fuel := S (S (List.length T))); [|exact E].
    subst T. apply table_sound; assumption.
  - intros Hs. rewrite (walk_complete T (decls gs tr)); [reflexivity| | | |exact Hs].
    + subst T. apply table_complete; assumption.
    + exact Hr.
    + apply (parsed_reaches _ _ x H).
Qed.

(* the fuel of is_sub_type is enough on every table the parser returns, whatever the tokens *)
Theorem fuel_lemma : forall toks T,
  parse_types toks = Ok T -> forall x y, exists b, walk (S (S (List.length T))) T x y = Ok b.
Proof. intros toks T H x y. apply acyclic_total. eapply parsed_tacyclic. exact H. Qed.

Theorem accepts_lemma : forall gs tr,
  wf_section gs tr -> acyclic (decls gs tr) -> exists T, parse_types (render gs tr) = Ok T.
Proof.
  intros gs tr [Hp [H1 Hr]] Hac. rewrite (parse_rendered gs tr Hp H1).
  assert (Hta : tacyclic (the_table gs tr)).
  { apply (acyclic_table _ (decls gs tr)); [apply table_sound; assumption|apply final_no_object_key|exact Hac]. }
  assert (Hall : forallb (fun kv => reaches_object (the_table gs tr) (fst kv)) (the_table gs tr) = true).
  { apply forallb_forall. intros kv _. unfold reaches_object.
    pose proof (acyclic_reaches _ Hta (fst kv)) as Hr1.
    set (T := the_table gs tr) in *.
    assert (Hmono : forall f a, walk f T a "object" = Ok true -> walk (S f) T a "object" = Ok true).
    { induction f as [|f IH]; intros a Ha.
      - simpl in Ha. simpl. destruct (String.eqb a "object"); [reflexivity|discriminate].
      - change (walk (S (S f)) T a "object") with
          (if String.eqb a "object" then Ok true else
             if String.eqb a "object" then Ok false else
               match dget T a with Some p => walk (S f) T p "object" | None => walk (S f) T "object" "object" end).
        simpl in Ha. destruct (String.eqb a "object"); [reflexivity|].
        destruct (dget T a); apply IH; exact Ha. }
    rewrite (Hmono _ _ Hr1). reflexivity. }
  rewrite Hall. eexists. reflexivity.
Qed.

Theorem cyclic_rejected_lemma : forall gs tr,
  wf_section gs tr -> cyclic (decls gs tr) -> parse_types (render gs tr) = Err ESyntax.
Proof.
  intros gs tr [Hp [H1 Hr]] [x Hx]. rewrite (parse_rendered gs tr Hp H1).
  assert (Hc : clos_trans string (tedge (the_table gs tr)) x x).
  { apply (declared_tedge _ (decls gs tr)); [apply table_complete; assumption|exact Hx]. }
  destruct (cycle_step _ (final_no_object_key _) x Hc) as [_ [p [Hp' _]]].
  destruct (forallb _ _) eqn:E; [|reflexivity].
  rewrite forallb_forall in E. specialize (E (x, p) (dget_In _ _ _ Hp')). simpl in E.
  exfalso. revert Hc. apply reaches_not_cyclic; [apply final_no_object_key|exact E].
Qed.

Lemma ok_acyclic gs tr T :
  wf_section gs tr -> parse_types (render gs tr) = Ok T -> acyclic (decls gs tr).
Proof.
  intros Hwf H x Hx. rewrite (cyclic_rejected_lemma gs tr Hwf) in H; [discriminate|]. exists x. exact Hx.
Qed.

(* ---------- the set of type names ---------- *)
Theorem type_names_lemma : forall gs tr T,
  wf_section gs tr -> parse_types (render gs tr) = Ok T ->
  forall n, In n (type_names T) <-> is_type_name (decls gs tr) n.
Proof.
  intros gs tr T Hwf H n. rewrite (parse_ok_table _ _ _ Hwf H). destruct Hwf as [Hp [H1 Hr]].
  unfold type_names, dkeys, is_type_name. rewrite in_app_iff. rewrite (table_keys gs tr). simpl.
  destruct (String.eqb n "object") eqn:E.
  - apply String.eqb_eq in E. subst n. split; intros _; [left; reflexivity|right; left; reflexivity].
  - apply String.eqb_neq in E. split.
    + intros [[_ H2]|[H2|[]]]; [right; exact H2|left; symmetry; exact H2].
    + intros [H2|H2]; [contradiction|left; split; assumption].
Qed.

(* ---------- order / grouping independence ---------- *)
Lemma same_decls_clos_trans a b x y :
  same_decls a b -> clos_trans tname (declared a) x y -> clos_trans tname (declared b) x y.
Proof.
  intros Hs H. induction H as [x y Hxy|x z y _ IH1 _ IH2].
  - apply t_step. apply Hs, Hxy.
  - apply t_trans with z; assumption.
Qed.

Lemma same_decls_subtype a b x y : same_decls a b -> subtype a x y -> subtype b x y.
Proof.
  intros Hs H. induction H as [x y Hxy|x|x z y _ IH1 _ IH2].
  - apply rt_step. destruct Hxy as [Hd|Ho]; [left; apply Hs, Hd|right; exact Ho].
  - apply rt_refl.
  - apply rt_trans with z; assumption.
Qed.

Lemma same_decls_sym a b : same_decls a b -> same_decls b a.
Proof. intros H c p. symmetry. apply H. Qed.

Lemma same_decls_type_name a b n : same_decls a b -> is_type_name a n -> is_type_name b n.
Proof.
  intros Hs [H|[H|H]]; [left; exact H| |].
  - apply in_map_iff in H. destruct H as [[c p] [<- Hin]]. right. left. apply in_map_iff.
    exists (c, p). split; [reflexivity|apply Hs, Hin].
  - apply in_map_iff in H. destruct H as [[c p] [<- Hin]]. right. right. apply in_map_iff.
    exists (c, p). split; [reflexivity|apply Hs, Hin].
Qed.

Theorem order_lemma : forall gs tr gs' tr' T,
  wf_section gs tr -> wf_section gs' tr' ->
  same_decls (decls gs tr) (decls gs' tr') ->
  parse_types (render gs tr) = Ok T ->
  exists T', parse_types (render gs' tr') = Ok T' /\
             (forall x y, is_sub_type T x y = is_sub_type T' x y) /\
             (forall n, In n (type_names T) <-> In n (type_names T')).
Proof.
  intros gs tr gs' tr' T Hwf Hwf' Hs H.
  assert (Hac' : acyclic (decls gs' tr')).
  { intros x Hx. apply (ok_acyclic gs tr T Hwf H x). apply (same_decls_clos_trans _ _ _ _ (same_decls_sym _ _ Hs) Hx). }
  destruct (accepts_lemma gs' tr' Hwf' Hac') as [T' H'].
  exists T'. split; [exact H'|]. split.
  - intros x y.
    pose proof (closure_lemma gs tr T Hwf H x y) as C1.
    pose proof (closure_lemma gs' tr' T' Hwf' H' x y) as C2.
    destruct (is_sub_type T x y) eqn:E1; destruct (is_sub_type T' x y) eqn:E2; try reflexivity.
    + assert (Hsub : subtype (decls gs' tr') x y) by (apply (same_decls_subtype _ _ _ _ Hs), C1; reflexivity).
      apply C2 in Hsub. discriminate.
    + assert (Hsub : subtype (decls gs tr) x y) by (apply (same_decls_subtype _ _ _ _ (same_decls_sym _ _ Hs)), C2; reflexivity).
      apply C1 in Hsub. discriminate.
  - intros n. rewrite (type_names_lemma gs tr T Hwf H n), (type_names_lemma gs' tr' T' Hwf' H' n).
    split; apply same_decls_type_name; [exact Hs|apply same_decls_sym, Hs].
Qed.

(* also the rejections agree *)
Theorem order_rejection_lemma : forall gs tr gs' tr',
  wf_section gs tr -> wf_section gs' tr' ->
  same_decls (decls gs tr) (decls gs' tr') ->
  is_ok (parse_types (render gs tr)) = is_ok (parse_types (render gs' tr')).
Proof.
  intros gs tr gs' tr' Hwf Hwf' Hs.
  destruct (parse_types (render gs tr)) as [T|k] eqn:E; destruct (parse_types (render gs' tr')) as [T'|k'] eqn:E';
    try reflexivity.
  - destruct (order_lemma _ _ _ _ _ Hwf Hwf' Hs E) as [T2 [H2 _]]. rewrite H2 in E'. discriminate.
  - destruct (order_lemma _ _ _ _ _ Hwf' Hwf (same_decls_sym _ _ Hs) E') as [T2 [H2 _]]. rewrite H2 in E. discriminate.
Qed.

(* ---------- the ways of rewriting a section keep well-formedness and the declarations ---------- *)
Lemma Permutation_flat_map {A B} (f : A -> list B) l l' :
  Permutation l l' -> Permutation (flat_map f l) (flat_map f l').
Proof.
  intros H. induction H as [|x l l' _ IH|x y l|l l' l'' _ IH1 _ IH2]; simpl.
  - constructor.
  - apply Permutation_app_head, IH.
  - rewrite !app_assoc. apply Permutation_app_tail, Permutation_app_comm.
  - eapply Permutation_trans; eassumption.
Qed.

Lemma perm_decls gs gs' tr tr' :
  Permutation gs gs' -> Permutation tr tr' -> Permutation (decls gs tr) (decls gs' tr').
Proof.
  intros Hg Ht. unfold decls. apply Permutation_app.
  - apply Permutation_flat_map, Hg.
  - apply Permutation_map, Ht.
Qed.

Lemma perm_wf_same (gs gs' : list group) (tr tr' : list tname) :
  Permutation (decls gs tr) (decls gs' tr') ->
  plain_section gs' tr' ->
  wf_section gs tr -> wf_section gs' tr' /\ same_decls (decls gs tr) (decls gs' tr').
Proof.
  intros Hperm Hplain [_ [H1 Hr]]. split; [split; [exact Hplain|split]|].
  - unfold one_parent in *. eapply Permutation_NoDup; [|exact H1]. apply Permutation_map, Hperm.
  - unfold object_is_root in *. intros Hin. apply Hr.
    eapply Permutation_in; [|exact Hin]. apply Permutation_sym, Permutation_map, Hperm.
  - intros c p. split; intros Hin; (eapply Permutation_in; [|exact Hin]); [exact Hperm|apply Permutation_sym, Hperm].
Qed.

Lemma perm_plain gs gs' tr tr' :
  Permutation gs gs' -> Permutation tr tr' -> plain_section gs tr -> plain_section gs' tr'.
Proof.
  intros Hg Ht [H1 H2]. split.
  - rewrite Forall_forall in *. intros g Hin. apply H1. eapply Permutation_in; [apply Permutation_sym, Hg|exact Hin].
  - rewrite Forall_forall in *. intros g Hin. apply H2. eapply Permutation_in; [apply Permutation_sym, Ht|exact Hin].
Qed.

Lemma permuted_section gs gs' tr tr' :
  Permutation gs gs' -> Permutation tr tr' -> wf_section gs tr ->
  wf_section gs' tr' /\ same_decls (decls gs tr) (decls gs' tr').
Proof.
  intros Hg Ht Hwf. apply perm_wf_same.
  - apply perm_decls; assumption.
  - apply (perm_plain gs gs' tr tr' Hg Ht). apply Hwf.
  - exact Hwf.
Qed.

Lemma group_decls_app cs1 cs2 p :
  group_decls (cs1 ++ cs2, p) = group_decls (cs1, p) ++ group_decls (cs2, p).
Proof. unfold group_decls. simpl. apply map_app. Qed.

Lemma regroup_decls gs gs' tr : regroup1 gs gs' -> Permutation (decls gs tr) (decls gs' tr).
Proof.
  intros H. unfold decls. apply Permutation_app_tail. destruct H as [pre post cs1 cs2 p|pre post cs1 cs2 p|pre post cs cs' p Hp];
    rewrite !flat_map_app; apply Permutation_app_head; cbn [flat_map].
  - rewrite group_decls_app, <- app_assoc. apply Permutation_refl.
  - rewrite group_decls_app, <- app_assoc. apply Permutation_refl.
  - apply Permutation_app_tail. unfold group_decls. simpl. apply Permutation_map, Hp.
Qed.

Lemma regroup_plain gs gs' tr : regroup1 gs gs' -> plain_section gs tr -> plain_section gs' tr.
Proof.
  intros H [H1 H2]. split; [|exact H2].
  destruct H as [pre post cs1 cs2 p|pre post cs1 cs2 p|pre post cs cs' p Hp];
    rewrite Forall_app in *; destruct H1 as [Hpre Hrest]; (split; [exact Hpre|]).
  - inversion Hrest as [|a l Ha Hl]; subst. simpl in Ha. rewrite Forall_app in Ha. destruct Ha as [Ha1 Ha2].
    constructor; [exact Ha1|]. constructor; [exact Ha2|exact Hl].
  - inversion Hrest as [|a l Ha Hl]; subst. inversion Hl as [|a' l' Ha' Hl']; subst.
    constructor; [|exact Hl']. simpl in *. rewrite Forall_app. split; assumption.
  - inversion Hrest as [|a l Ha Hl]; subst. constructor; [|exact Hl]. simpl in *.
    rewrite Forall_forall in *. intros x Hx. apply Ha. eapply Permutation_in; [apply Permutation_sym, Hp|exact Hx].
Qed.

Lemma regrouped_section gs gs' tr :
  regroup1 gs gs' -> wf_section gs tr -> wf_section gs' tr /\ same_decls (decls gs tr) (decls gs' tr).
Proof.
  intros H Hwf. apply perm_wf_same.
  - apply regroup_decls, H.
  - apply (regroup_plain gs gs' tr H). apply Hwf.
  - exact Hwf.
Qed.

(* trailing untyped names are the same declarations as a last group '... - object' *)
Lemma trailing_as_group gs tr : decls (gs ++ [(tr, "object")]) [] = decls gs tr.
Proof.
  unfold decls. rewrite flat_map_app. simpl. rewrite !app_nil_r. reflexivity.
Qed.

Lemma trailing_section gs tr :
  wf_section gs tr ->
  wf_section (gs ++ [(tr, "object")]) [] /\ same_decls (decls gs tr) (decls (gs ++ [(tr, "object")]) []).
Proof.
  intros [[Hp1 Hp2] [H1 Hr]]. unfold wf_section. rewrite !trailing_as_group. split; [split; [|split; assumption]|].
  - split; [|constructor]. rewrite Forall_app. split; [exact Hp1|]. constructor; [exact Hp2|constructor].
  - intros c p. reflexivity.
Qed.
