(* C17: the combination of well-formed per-agent files is well-formed (every name an entry refers to is
   declared in the combination), hence it lies in the domain of the export/re-parse round trip (C08/C09).
   The round trip itself is a parameter of the section: its model belongs to C08/C09. *)
From Coq Require Import List Ascii String Bool Permutation.
From Verif Require Import Base.Result Base.Str Model.Combine Spec.Combine Proofs.C17_Dict Proofs.C17_Domains
  Proofs.C17_Problems.
Import ListNotations.
Open Scope string_scope.
Open Scope list_scope.

(* every name that an entry of [d] refers to (as read off its text by [refs]) is a key of [tgt] *)
Definition closed_in (refs : string -> list string) (d tgt : alist) : Prop :=
  forall k v r, In (k, v) d -> In r (refs v) -> In r (keys tgt).

Definition set_closed_in (refs : string -> list string) (l : list string) (tgt : alist) : Prop :=
  forall x r, In x l -> In r (refs x) -> In r (keys tgt).

Definition facts_closed_in (refs : string -> list string) (c : flist) (tgt : alist) : Prop :=
  forall k x r, fact_in c k x -> In r (refs x) -> In r (keys tgt).

Lemma closed_combine {R} (refs : string -> list string) (A B : R -> alist) (files : list R) (a0 b0 cA cB : alist) :
  weak_union_of (a0 :: map A files) cA -> weak_union_of (b0 :: map B files) cB ->
  closed_in refs a0 b0 -> (forall f, In f files -> closed_in refs (A f) (B f)) ->
  closed_in refs cA cB.
Proof.
  intros (_ & FromA & _) (_ & _ & KeysB) H0 Hf k v r Hin Hr.
  destruct (FromA k v Hin) as [d [[Hd|Hd] Hkv]].
  - subst d. pose proof (H0 k v r Hkv Hr) as Hk. unfold keys in Hk. apply in_map_iff in Hk.
    destruct Hk as [[r' w] [E Hrw]]. simpl in E. subst r'. apply (KeysB b0 r w); [now left|assumption].
  - apply in_map_iff in Hd. destruct Hd as [f [E Hfin]]. subst d.
    pose proof (Hf f Hfin k v r Hkv Hr) as Hk. unfold keys in Hk. apply in_map_iff in Hk.
    destruct Hk as [[r' w] [E Hrw]]. simpl in E. subst r'. apply (KeysB (B f) r w); [|assumption].
    right. now apply in_map.
Qed.

Section WellFormed.
  (* how the names are read off the entry texts: types named by a type / constant / signature / action entry,
     predicates, functions and constants named by an action entry; objects named by a fact / fluent / goal *)
  Variables refsT refsP refsF refsC refsO : string -> list string.

  Record wf_domain (c : domainv) : Prop := {
    wf_nd_types : NoDup (keys (d_types c));
    wf_nd_consts : NoDup (keys (d_consts c));
    wf_nd_preds : NoDup (keys (d_preds c));
    wf_nd_funcs : NoDup (keys (d_funcs c));
    wf_nd_acts : NoDup (keys (d_acts c));
    wf_types : closed_in refsT (d_types c) (d_types c);
    wf_consts : closed_in refsT (d_consts c) (d_types c);
    wf_preds : closed_in refsT (d_preds c) (d_types c);
    wf_funcs : closed_in refsT (d_funcs c) (d_types c);
    wf_acts_t : closed_in refsT (d_acts c) (d_types c);
    wf_acts_p : closed_in refsP (d_acts c) (d_preds c);
    wf_acts_f : closed_in refsF (d_acts c) (d_funcs c);
    wf_acts_c : closed_in refsC (d_acts c) (d_consts c)
  }.

  Lemma closed_nil refs (tgt : alist) : closed_in refs [] tgt.
  Proof. intros k v r []. Qed.

  Lemma C17_wellformed_domains_lemma : forall defaults files,
    NoDup (keys defaults) -> closed_in refsT defaults defaults ->
    (forall f, In f files -> wf_domain f) ->
    wf_domain (combine_domains defaults files).
  Proof.
    intros defaults files Hnd Hd Hf.
    destruct (C17_union_domains_weak_lemma defaults files Hnd) as (Wt & Wc & Wp & Wfn & Wa).
    constructor.
    - apply Wt. - apply Wc. - apply Wp. - apply Wfn. - apply Wa.
    - apply (closed_combine refsT d_types d_types files defaults defaults); try assumption.
      intros f Hin. apply (wf_types f (Hf f Hin)).
    - apply (closed_combine refsT d_consts d_types files [] defaults); try assumption; [apply closed_nil|].
      intros f Hin. apply (wf_consts f (Hf f Hin)).
    - apply (closed_combine refsT d_preds d_types files [] defaults); try assumption; [apply closed_nil|].
      intros f Hin. apply (wf_preds f (Hf f Hin)).
    - apply (closed_combine refsT d_funcs d_types files [] defaults); try assumption; [apply closed_nil|].
      intros f Hin. apply (wf_funcs f (Hf f Hin)).
    - apply (closed_combine refsT d_acts d_types files [] defaults); try assumption; [apply closed_nil|].
      intros f Hin. apply (wf_acts_t f (Hf f Hin)).
    - apply (closed_combine refsP d_acts d_preds files [] []); try assumption; [apply closed_nil|].
      intros f Hin. apply (wf_acts_p f (Hf f Hin)).
    - apply (closed_combine refsF d_acts d_funcs files [] []); try assumption; [apply closed_nil|].
      intros f Hin. apply (wf_acts_f f (Hf f Hin)).
    - apply (closed_combine refsC d_acts d_consts files [] []); try assumption; [apply closed_nil|].
      intros f Hin. apply (wf_acts_c f (Hf f Hin)).
  Qed.

  (* problems: every object named by a fact, a fluent, a goal or a numeric goal is declared *)
  Record wf_problem (c : problemv) : Prop := {
    wfp_nd_objs : NoDup (keys (p_objs c));
    wfp_nd_fluents : NoDup (keys (p_fluents c));
    wfp_fluents : closed_in refsO (p_fluents c) (p_objs c);
    wfp_facts : facts_closed_in refsO (p_facts c) (p_objs c);
    wfp_goals : set_closed_in refsO (p_goals c) (p_objs c);
    wfp_ngoals : set_closed_in refsO (p_ngoals c) (p_objs c)
  }.

  Lemma objs_keys files f r : In f files -> In r (keys (p_objs f)) -> In r (keys (p_objs (combine_problems files))).
  Proof.
    intros Hin Hr. rewrite cp_objs.
    destruct (In_fold_update_weak (map p_objs files) [] (NoDup_nil _)) as [_ K]. apply K. simpl.
    unfold keys in *. apply in_map_iff in Hr. destruct Hr as [[r' w] [E Hrw]]. simpl in E. subst r'.
    apply in_map_iff. exists (r, w). split; [reflexivity|]. apply in_concat. exists (p_objs f). split; [|assumption].
    now apply in_map.
  Qed.

  Lemma C17_wellformed_problems_lemma : forall files,
    (forall f, In f files -> wf_problem f) -> wf_problem (combine_problems files).
  Proof.
    intros files Hf. constructor.
    - rewrite cp_objs. apply NoDup_fold_update. constructor.
    - rewrite cp_fluents. apply NoDup_fold_update. constructor.
    - intros k v r Hin Hr. rewrite cp_fluents in Hin.
      destruct (In_fold_update_weak (map p_fluents files) [] (NoDup_nil _)) as [F _].
      apply F in Hin. simpl in Hin. apply in_concat in Hin. destruct Hin as [d [Hd Hkv]].
      apply in_map_iff in Hd. destruct Hd as [f [E Hfin]]. subst d.
      apply (objs_keys files f r Hfin). exact (wfp_fluents f (Hf f Hfin) k v r Hkv Hr).
    - intros k x r Hin Hr. rewrite cp_facts in Hin.
      assert (Nk := fold_merge_facts_keys (map p_facts files) [] (NoDup_nil _)).
      rewrite (fact_in_facts_at _ _ _ Nk), fold_merge_facts_In in Hin.
      destruct Hin as [[]|[d [Hd Hx]]]. apply in_map_iff in Hd. destruct Hd as [f [E Hfin]]. subst d.
      apply (objs_keys files f r Hfin). exact (wfp_facts f (Hf f Hfin) k x r Hx Hr).
    - intros x r Hin Hr. rewrite cp_goals, fold_goals_In in Hin.
      destruct Hin as [[]|[l [Hl Hx]]]. apply in_map_iff in Hl. destruct Hl as [f [E Hfin]]. subst l.
      apply (objs_keys files f r Hfin). exact (wfp_goals f (Hf f Hfin) x r Hx Hr).
    - intros x r Hin Hr. rewrite cp_ngoals, In_fold_add_new in Hin.
      destruct Hin as [[]|[l [Hl Hx]]]. apply in_map_iff in Hl. destruct Hl as [f [E Hfin]]. subst l.
      apply (objs_keys files f r Hfin). exact (wfp_ngoals f (Hf f Hfin) x r Hx Hr).
  Qed.

  (* relative to the export / re-parse round trip: whatever function [rt] is, if it preserves well-formed
     domains (problems) then it preserves the combination of well-formed files *)
  Variable rt_domain : domainv -> result domainv.
  Variable rt_problem : problemv -> result problemv.
  Hypothesis rt_domain_ok : forall c, wf_domain c -> exists c', rt_domain c = Ok c' /\ domain_equiv c c'.
  Hypothesis rt_problem_ok : forall c, wf_problem c -> exists c', rt_problem c = Ok c' /\ problem_equiv c c'.

  Lemma C17_roundtrip_domains_lemma : forall defaults files,
    NoDup (keys defaults) -> closed_in refsT defaults defaults -> (forall f, In f files -> wf_domain f) ->
    exists c', rt_domain (combine_domains defaults files) = Ok c' /\
               domain_equiv (combine_domains defaults files) c'.
  Proof. intros. apply rt_domain_ok. now apply C17_wellformed_domains_lemma. Qed.

  Lemma C17_roundtrip_problems_lemma : forall files,
    (forall f, In f files -> wf_problem f) ->
    exists c', rt_problem (combine_problems files) = Ok c' /\ problem_equiv (combine_problems files) c'.
  Proof. intros. apply rt_problem_ok. now apply C17_wellformed_problems_lemma. Qed.
End WellFormed.

(* ---------------------------------------------------------------- non-vacuity: a concrete reading of the texts *)
(* the words of a text that follow a "-" (type positions of a typed list), or all words for a type chain *)
Fixpoint after_dash (ws : list string) : list string :=
  match ws with
  | "-" :: t :: r => t :: after_dash r
  | _ :: r => after_dash r
  | [] => []
  end.

Definition is_sep (c : Ascii.ascii) : bool :=
  orb (Ascii.eqb c " "%char) (orb (Ascii.eqb c "("%char) (Ascii.eqb c ")"%char)).

Fixpoint words_aux (cur : string) (s : string) : list string :=
  match s with
  | EmptyString => match cur with EmptyString => [] | _ => [cur] end
  | String c r =>
      if is_sep c then match cur with EmptyString => words_aux "" r | _ => cur :: words_aux "" r end
      else words_aux (cur ++ String c "") r
  end.
Definition words (s : string) : list string := words_aux "" s.

Definition has_paren (s : string) : bool := existsb (fun c => Ascii.eqb c "("%char) (list_ascii_of_string s).

(* types named by an entry: the words after "-" of a typed list, or every word of a type chain / type name *)
Definition ex_refsT (v : string) : list string := if has_paren v then after_dash (words v) else words v.
(* the words of an action entry that belong to a given vocabulary *)
Definition ex_refs_of (vocab : list string) (v : string) : list string := filter (fun w => str_in w vocab) (words v).
Definition ex_refsP := ex_refs_of ["at"; "free"; "sky"].
Definition ex_refsF := ex_refs_of ["fuel"].
Definition ex_refsC := ex_refs_of ["hq"; "base"].
Definition ex_refsO := ex_refs_of ["l1"; "l2"; "t1"; "p1"].

Definition closed_in_b (refs : string -> list string) (d tgt : alist) : bool :=
  forallb (fun kv => forallb (fun r => str_in r (keys tgt)) (refs (snd kv))) d.

Lemma closed_in_b_sound refs d tgt : closed_in_b refs d tgt = true -> closed_in refs d tgt.
Proof.
  unfold closed_in_b. rewrite forallb_forall. intros H k v r Hin Hr.
  specialize (H (k, v) Hin). simpl in H. rewrite forallb_forall in H. apply str_in_In. now apply H.
Qed.

Definition set_closed_in_b (refs : string -> list string) (l : list string) (tgt : alist) : bool :=
  forallb (fun x => forallb (fun r => str_in r (keys tgt)) (refs x)) l.

Lemma set_closed_in_b_sound refs l tgt : set_closed_in_b refs l tgt = true -> set_closed_in refs l tgt.
Proof.
  unfold set_closed_in_b. rewrite forallb_forall. intros H x r Hin Hr.
  specialize (H x Hin). rewrite forallb_forall in H. apply str_in_In. now apply H.
Qed.

Lemma facts_closed_in_b_sound refs (c : flist) tgt :
  forallb (fun kl => set_closed_in_b refs (snd kl) tgt) c = true -> facts_closed_in refs c tgt.
Proof.
  rewrite forallb_forall. intros H k x r [l [Hin Hx]] Hr.
  specialize (H (k, l) Hin). simpl in H. exact (set_closed_in_b_sound refs l tgt H x r Hx Hr).
Qed.

Lemma ex_wf_domains :
  closed_in ex_refsT ex_defaults ex_defaults /\
  forall f, In f [ex_a; ex_b] -> wf_domain ex_refsT ex_refsP ex_refsF ex_refsC f.
Proof.
  split; [apply closed_in_b_sound; vm_compute; reflexivity|].
  intros f [H|[H|[]]]; subst f;
    (constructor; try (apply nodup_of_b; vm_compute; reflexivity); apply closed_in_b_sound; vm_compute; reflexivity).
Qed.

(* the example reads something: the shared predicate's signature names two types, the action one predicate *)
Lemma ex_refs_nontrivial :
  ex_refsT "(at ?a - agent ?l - loc)" = ["agent"; "loc"] /\ ex_refsT "agent object" = ["agent"; "object"] /\
  ex_refsP "(fly ?a - plane ?x - loc ?y - loc) :pre (and (at ?a ?x)) :eff (at ?a ?y)" = ["at"; "at"].
Proof. vm_compute. repeat split. Qed.

Lemma ex_wf_problems : forall f, In f [ex_pa; ex_pb] -> wf_problem ex_refsO f.
Proof.
  intros f [H|[H|[]]]; subst f;
    (constructor;
     [apply nodup_of_b; vm_compute; reflexivity | apply nodup_of_b; vm_compute; reflexivity
     | apply closed_in_b_sound; vm_compute; reflexivity | apply facts_closed_in_b_sound; vm_compute; reflexivity
     | apply set_closed_in_b_sound; vm_compute; reflexivity | apply set_closed_in_b_sound; vm_compute; reflexivity]).
Qed.
