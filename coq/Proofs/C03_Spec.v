(* C03, spec level: the successor [succ s groups] of Spec.Pddl read as sets.
   - [state_eq]: facts as sets, fluents as finite maps (values Leibniz-equal, i.e. bit-equal).
   - characterisation of [succ] under [consistent]: a fact is in the successor iff some firing group adds it, or it
     was there and no firing group deletes it; a fluent has the value some firing group assigns, else its old value.
   - hence the frame property, delete-then-add, and invariance under every rearrangement of the firing groups
     (permutation of the groups, permutation inside each group): commutation, by induction on [Permutation]. *)
From Coq Require Import List String Bool PrimFloat Permutation Arith Lia.
From Verif Require Import Base.Str Spec.Pddl.
Import ListNotations.
Open Scope string_scope.
Open Scope list_scope.

(* ---------- atoms ---------- *)
Lemma list_eqb_string_eq : forall l1 l2 : list string, list_eqb String.eqb l1 l2 = true <-> l1 = l2.
Proof.
  induction l1 as [|x xs IH]; intros [|y ys]; simpl; split; intros H; try reflexivity; try discriminate.
  - apply andb_true_iff in H. destruct H as [H1 H2]. apply String.eqb_eq in H1. apply IH in H2. congruence.
  - inversion H; subst. rewrite String.eqb_refl. simpl. apply IH. reflexivity.
Qed.

Lemma atom_eqb_eq : forall a b : atom, atom_eqb a b = true <-> a = b.
Proof.
  intros [p x] [q y]. unfold atom_eqb. simpl. split; intros H.
  - apply andb_true_iff in H. destruct H as [H1 H2]. apply String.eqb_eq in H1. apply list_eqb_string_eq in H2. congruence.
  - inversion H; subst. rewrite String.eqb_refl. simpl. apply list_eqb_string_eq. reflexivity.
Qed.

Lemma atom_eqb_refl : forall a, atom_eqb a a = true.
Proof. intros a. apply atom_eqb_eq. reflexivity. Qed.

Lemma atom_eqb_neq : forall a b : atom, atom_eqb a b = false <-> a <> b.
Proof.
  intros a b. split; intros H.
  - intros E. apply atom_eqb_eq in E. congruence.
  - destruct (atom_eqb a b) eqn:E; [apply atom_eqb_eq in E; contradiction | reflexivity].
Qed.

Lemma atom_eqb_sym : forall a b, atom_eqb a b = atom_eqb b a.
Proof.
  intros a b. destruct (atom_eqb a b) eqn:E.
  - apply atom_eqb_eq in E. subst. symmetry. apply atom_eqb_refl.
  - symmetry. apply atom_eqb_neq. apply atom_eqb_neq in E. congruence.
Qed.

Lemma atom_in_In : forall a l, atom_in a l = true <-> In a l.
Proof.
  intros a l. unfold atom_in. rewrite existsb_exists. split.
  - intros [x [Hx E]]. apply atom_eqb_eq in E. subst. exact Hx.
  - intros H. exists a. split; [exact H | apply atom_eqb_refl].
Qed.

Lemma atom_in_false : forall a l, atom_in a l = false <-> ~ In a l.
Proof.
  intros a l. split; intros H.
  - intros HI. apply atom_in_In in HI. congruence.
  - destruct (atom_in a l) eqn:E; [apply atom_in_In in E; contradiction | reflexivity].
Qed.

Lemma atom_in_app : forall a l1 l2, atom_in a (l1 ++ l2) = atom_in a l1 || atom_in a l2.
Proof. intros. unfold atom_in. apply existsb_app. Qed.

Lemma atom_in_cons : forall a b l, atom_in a (b :: l) = atom_eqb a b || atom_in a l.
Proof. reflexivity. Qed.

Lemma atom_in_ext : forall l l', (forall a, In a l <-> In a l') -> forall a, atom_in a l = atom_in a l'.
Proof.
  intros l l' H a. destruct (atom_in a l) eqn:E.
  - symmetry. apply atom_in_In. apply H. apply atom_in_In. exact E.
  - symmetry. apply atom_in_false. intros HI. apply H in HI. apply atom_in_In in HI. congruence.
Qed.

Lemma atom_in_perm : forall l l', Permutation l l' -> forall a, atom_in a l = atom_in a l'.
Proof.
  intros l l' HP. apply atom_in_ext. intros a. split; apply Permutation_in; [exact HP | apply Permutation_sym; exact HP].
Qed.

Lemma atom_in_remove : forall a b l, atom_in a (remove_atom b l) = atom_in a l && negb (atom_eqb a b).
Proof.
  intros a b l. induction l as [|x r IH]; simpl; [reflexivity|].
  destruct (atom_eqb b x) eqn:Ebx; simpl.
  - apply atom_eqb_eq in Ebx. subst x. rewrite IH.
    destruct (atom_eqb a b); simpl; [rewrite andb_false_r; reflexivity | reflexivity].
  - rewrite IH. destruct (atom_eqb a x) eqn:Eax; simpl; [|reflexivity].
    apply atom_eqb_eq in Eax. subst x. rewrite (atom_eqb_sym a b), Ebx. reflexivity.
Qed.

Lemma atom_in_add : forall a b l, atom_in a (add_atom b l) = atom_in a l || atom_eqb a b.
Proof.
  intros a b l. unfold add_atom. destruct (atom_in b l) eqn:E.
  - destruct (atom_eqb a b) eqn:Eab; [|rewrite orb_false_r; reflexivity].
    apply atom_eqb_eq in Eab. subst. rewrite E. reflexivity.
  - rewrite atom_in_app. simpl. rewrite orb_false_r. reflexivity.
Qed.

Lemma fluent_get_set : forall a b v l,
  fluent_get a (fluent_set b v l) = if atom_eqb a b then Some v else fluent_get a l.
Proof.
  intros a b v l. induction l as [|[k w] r IH]; simpl.
  - reflexivity.
  - destruct (atom_eqb b k) eqn:Ebk; simpl.
    + apply atom_eqb_eq in Ebk. subst k. destruct (atom_eqb a b); reflexivity.
    + destruct (atom_eqb a k) eqn:Eak.
      * apply atom_eqb_eq in Eak. subst k. rewrite (atom_eqb_sym a b), Ebk. reflexivity.
      * exact IH.
Qed.

(* ---------- states as sets / finite maps ---------- *)
Definition state_eq (s t : state) : Prop :=
  (forall a, atom_in a (facts s) = atom_in a (facts t)) /\
  (forall a, fluent_get a (fluents s) = fluent_get a (fluents t)).

Lemma state_eq_refl : forall s, state_eq s s.
Proof. intros s. split; reflexivity. Qed.
Lemma state_eq_sym : forall s t, state_eq s t -> state_eq t s.
Proof. intros s t [H1 H2]. split; intros a; symmetry; auto. Qed.
Lemma state_eq_trans : forall s t u, state_eq s t -> state_eq t u -> state_eq s u.
Proof. intros s t u [H1 H2] [H3 H4]. split; intros a; [rewrite H1; apply H3 | rewrite H2; apply H4]. Qed.

(* ---------- one group ---------- *)
Definition nondel (x : gprim) : bool := negb (is_del x).

Lemma fold_dels_facts : forall a g s,
  atom_in a (facts (fold_left apply_gprim (filter is_del g) s)) = atom_in a (facts s) && negb (atom_in a (dels_of g)).
Proof.
  intros a g. induction g as [|x r IH]; intros s; simpl.
  - rewrite andb_true_r. reflexivity.
  - destruct x as [b|b|b v]; simpl; rewrite IH; simpl; try reflexivity.
    rewrite atom_in_remove. rewrite negb_orb. rewrite andb_assoc. reflexivity.
Qed.

Lemma fold_dels_fluents : forall g s, fluents (fold_left apply_gprim (filter is_del g) s) = fluents s.
Proof.
  induction g as [|x r IH]; intros s; simpl; [reflexivity|].
  destruct x; simpl; try rewrite IH; reflexivity.
Qed.

Lemma fold_nondel_facts : forall a g s,
  atom_in a (facts (fold_left apply_gprim (filter (fun x => negb (is_del x)) g) s)) =
  atom_in a (facts s) || atom_in a (adds_of g).
Proof.
  intros a g. induction g as [|x r IH]; intros s; simpl.
  - rewrite orb_false_r. reflexivity.
  - destruct x as [b|b|b v]; simpl; rewrite IH; simpl; try reflexivity.
    rewrite atom_in_add. rewrite orb_assoc. reflexivity.
Qed.

Lemma group_facts : forall a g s,
  atom_in a (facts (apply_group s g)) =
  atom_in a (adds_of g) || (atom_in a (facts s) && negb (atom_in a (dels_of g))).
Proof.
  intros a g s. unfold apply_group. rewrite fold_nondel_facts, fold_dels_facts. apply orb_comm.
Qed.

(* the value a list of primitive effects leaves in fluent [a]: the last assignment to it *)
Fixpoint last_set (a : atom) (g : list gprim) : option float :=
  match g with
  | [] => None
  | x :: r =>
      match last_set a r with
      | Some v => Some v
      | None => match x with GSet b v => if atom_eqb a b then Some v else None | _ => None end
      end
  end.

Definition or_else (o : option float) (d : option float) : option float :=
  match o with Some v => Some v | None => d end.

Lemma fold_fluents : forall a g s,
  fluent_get a (fluents (fold_left apply_gprim g s)) = or_else (last_set a g) (fluent_get a (fluents s)).
Proof.
  intros a g. induction g as [|x r IH]; intros s; simpl; [reflexivity|].
  rewrite IH. destruct (last_set a r); simpl; [reflexivity|].
  destruct x as [b|b|b v]; simpl; try reflexivity.
  rewrite fluent_get_set. destruct (atom_eqb a b); reflexivity.
Qed.

Lemma last_set_app : forall a g h, last_set a (g ++ h) = or_else (last_set a h) (last_set a g).
Proof.
  intros a g h. induction g as [|x r IH]; simpl.
  - destruct (last_set a h); reflexivity.
  - rewrite IH. destruct (last_set a h); simpl; reflexivity.
Qed.

Lemma last_set_filter_nondel : forall a g, last_set a (filter (fun x => negb (is_del x)) g) = last_set a g.
Proof.
  intros a g. induction g as [|x r IH]; simpl; [reflexivity|].
  destruct x as [b|b|b v]; simpl; rewrite IH; try reflexivity.
  destruct (last_set a r); reflexivity.
Qed.

Lemma group_fluents : forall a g s,
  fluent_get a (fluents (apply_group s g)) = or_else (last_set a g) (fluent_get a (fluents s)).
Proof.
  intros a g s. unfold apply_group. rewrite fold_fluents, last_set_filter_nondel, fold_dels_fluents. reflexivity.
Qed.

(* ---------- all groups ---------- *)
Lemma succ_fluents : forall a gs s,
  fluent_get a (fluents (succ s gs)) = or_else (last_set a (List.concat gs)) (fluent_get a (fluents s)).
Proof.
  intros a gs. unfold succ. induction gs as [|g r IH]; intros s; simpl; [reflexivity|].
  rewrite IH, group_fluents, last_set_app.
  destruct (last_set a (List.concat r)); simpl; reflexivity.
Qed.

(* cross_ok as a property of ordered pairs *)
Definition compat (g h : list gprim) : Prop :=
  (forall a, In a (adds_of g) -> ~ In a (dels_of h)) /\ (forall a, In a (dels_of g) -> ~ In a (adds_of h)).

Lemma compat_sym : forall g h, compat g h -> compat h g.
Proof. intros g h [H1 H2]. split; intros a Ha Hb; [apply (H2 a Hb Ha) | apply (H1 a Hb Ha)]. Qed.

Lemma compat_b : forall g h,
  (forallb (fun a => negb (atom_in a (dels_of h))) (adds_of g) &&
   forallb (fun a => negb (atom_in a (adds_of h))) (dels_of g)) = true <-> compat g h.
Proof.
  intros g h. rewrite andb_true_iff, !forallb_forall. unfold compat. split; intros [H1 H2]; split; intros a Ha.
  - apply H1 in Ha. apply negb_true_iff in Ha. apply atom_in_false in Ha. exact Ha.
  - apply H2 in Ha. apply negb_true_iff in Ha. apply atom_in_false in Ha. exact Ha.
  - apply negb_true_iff. apply atom_in_false. apply H1. exact Ha.
  - apply negb_true_iff. apply atom_in_false. apply H2. exact Ha.
Qed.

Lemma cross_ok_pairs : forall gs, cross_ok gs = true <-> ForallOrdPairs compat gs.
Proof.
  induction gs as [|g r IH]; simpl.
  - split; intros _; [constructor | reflexivity].
  - rewrite andb_true_iff, forallb_forall. split.
    + intros [H1 H2]. constructor; [|apply IH; exact H2].
      apply Forall_forall. intros h Hh. apply compat_b. apply H1. exact Hh.
    + intros H. inversion H as [|x l HF HP]; subst. split; [|apply IH; exact HP].
      intros h Hh. apply compat_b. rewrite Forall_forall in HF. apply HF. exact Hh.
Qed.

Lemma FOP_perm : forall (A : Type) (R : A -> A -> Prop), (forall x y, R x y -> R y x) ->
  forall l l', Permutation l l' -> ForallOrdPairs R l -> ForallOrdPairs R l'.
Proof.
  intros A R Hsym l l' HP. induction HP as [|x l l' HP IH|x y l|l l' l'' HP1 IH1 HP2 IH2]; intros H.
  - exact H.
  - inversion H as [|a b HF HO]; subst. constructor; [|apply IH; exact HO].
    eapply Permutation_Forall; [exact HP | exact HF].
  - inversion H as [|a b HF HO]; subst. inversion HO as [|a' b' HF' HO']; subst.
    inversion HF as [|a'' b'' Hyx HFy]; subst.
    constructor; [constructor; [apply Hsym; exact Hyx | exact HF'] | constructor; [exact HFy | exact HO']].
  - apply IH2. apply IH1. exact H.
Qed.

Lemma FOP_Forall2 : forall (A : Type) (R : A -> A -> Prop) (P : A -> A -> Prop),
  (forall x y x' y', P x x' -> P y y' -> R x y -> R x' y') ->
  forall l l', Forall2 P l l' -> ForallOrdPairs R l -> ForallOrdPairs R l'.
Proof.
  intros A R P Hresp l l' HF. induction HF as [|x x' l l' Hx HF IH]; intros H; [exact H|].
  inversion H as [|a b Hall HO]; subst. constructor; [|apply IH; exact HO].
  clear IH H HO. induction HF as [|y y' l l' Hy HF IH]; [constructor|].
  inversion Hall as [|a b Hxy Hall']; subst. constructor; [eapply Hresp; eauto | apply IH; exact Hall'].
Qed.

Lemma succ_facts : forall a gs s, cross_ok gs = true ->
  atom_in a (facts (succ s gs)) =
  atom_in a (flat_map adds_of gs) || (atom_in a (facts s) && negb (atom_in a (flat_map dels_of gs))).
Proof.
  intros a gs. unfold succ. induction gs as [|g r IH]; intros s Hc; simpl.
  - rewrite andb_true_r. reflexivity.
  - simpl in Hc. apply andb_true_iff in Hc. destruct Hc as [Hg Hr].
    rewrite (IH _ Hr), group_facts, !atom_in_app.
    destruct (atom_in a (adds_of g)) eqn:Ea; simpl.
    + (* added by g: nobody later deletes it *)
      assert (Hnd : atom_in a (flat_map dels_of r) = false).
      { apply atom_in_false. intros HI. apply in_flat_map in HI. destruct HI as [h [Hh Hah]].
        rewrite forallb_forall in Hg. specialize (Hg h Hh). apply compat_b in Hg. destruct Hg as [H1 _].
        apply atom_in_In in Ea. exact (H1 a Ea Hah). }
      rewrite Hnd. simpl. rewrite orb_true_r. reflexivity.
    + rewrite negb_orb, andb_assoc. reflexivity.
Qed.

(* ---------- no fluent assigned twice ---------- *)
Lemma no_dup_atoms_NoDup : forall l, no_dup_atoms l = true <-> NoDup l.
Proof.
  induction l as [|a r IH]; simpl.
  - split; intros _; [constructor | reflexivity].
  - rewrite andb_true_iff, negb_true_iff, atom_in_false. split.
    + intros [H1 H2]. constructor; [exact H1 | apply IH; exact H2].
    + intros H. inversion H; subst. split; [assumption | apply IH; assumption].
Qed.

Lemma sets_of_In : forall a g, In a (sets_of g) <-> exists v, In (GSet a v) g.
Proof.
  intros a g. unfold sets_of. rewrite in_flat_map. split.
  - intros [x [Hx Ha]]. destruct x as [b|b|b v]; simpl in Ha; try contradiction.
    destruct Ha as [E|[]]. subst. exists v. exact Hx.
  - intros [v Hv]. exists (GSet a v). split; [exact Hv | left; reflexivity].
Qed.

Lemma last_set_Some_In : forall a g v, last_set a g = Some v -> In (GSet a v) g.
Proof.
  intros a g v. induction g as [|x r IH]; simpl; [discriminate|].
  destruct (last_set a r) eqn:E.
  - intros H. right. apply IH. exact H.
  - destruct x as [b|b|b w]; try discriminate.
    destruct (atom_eqb a b) eqn:Eab; [|discriminate].
    intros H. inversion H; subst. apply atom_eqb_eq in Eab. subst. left. reflexivity.
Qed.

Lemma last_set_None : forall a g, last_set a g = None <-> ~ In a (sets_of g).
Proof.
  intros a g. induction g as [|x r IH]; simpl.
  - split; [intros _ [] | reflexivity].
  - unfold sets_of in *. simpl. rewrite in_app_iff. destruct (last_set a r) eqn:E.
    + split; [discriminate|]. intros H. exfalso. apply H. right.
      destruct (in_dec (fun x y : atom => ltac:(destruct (atom_eqb x y) eqn:Q; [left; apply atom_eqb_eq; exact Q | right; apply atom_eqb_neq; exact Q]))
                       a (flat_map (fun x0 => match x0 with GSet a0 _ => [a0] | _ => [] end) r)) as [Hi|Hn]; [exact Hi|].
      apply IH in Hn. discriminate.
    + destruct IH as [IH1 _]. specialize (IH1 eq_refl).
      destruct x as [b|b|b w]; simpl.
      * split; [intros _ [[]|H]; contradiction | reflexivity].
      * split; [intros _ [[]|H]; contradiction | reflexivity].
      * destruct (atom_eqb a b) eqn:Eab.
        -- apply atom_eqb_eq in Eab. subst. split; [discriminate|]. intros H. exfalso. apply H. left. left. reflexivity.
        -- apply atom_eqb_neq in Eab. split; [|reflexivity]. intros _ [[E2|[]]|H]; [congruence | contradiction].
Qed.

Lemma last_set_In : forall a g v, NoDup (sets_of g) -> In (GSet a v) g -> last_set a g = Some v.
Proof.
  intros a g v. induction g as [|x r IH]; simpl; [intros _ []|].
  intros Hnd [E|Hin].
  - subst x. unfold sets_of in Hnd. simpl in Hnd. inversion Hnd as [|a' l' Hnotin Hnd']; subst.
    apply last_set_None in Hnotin. rewrite Hnotin. rewrite atom_eqb_refl. reflexivity.
  - assert (Hnd' : NoDup (sets_of r)).
    { unfold sets_of in *. simpl in Hnd. destruct x as [b|b|b w]; simpl in Hnd; try exact Hnd.
      inversion Hnd; assumption. }
    rewrite (IH Hnd' Hin). reflexivity.
Qed.

Lemma last_set_perm : forall a g g', NoDup (sets_of g) -> Permutation g g' -> last_set a g = last_set a g'.
Proof.
  intros a g g' Hnd HP.
  assert (Hnd' : NoDup (sets_of g')).
  { eapply Permutation_NoDup; [|exact Hnd]. unfold sets_of. apply Permutation_flat_map. exact HP. }
  destruct (last_set a g) eqn:E.
  - symmetry. apply last_set_In; [exact Hnd'|]. eapply Permutation_in; [exact HP|]. apply last_set_Some_In. exact E.
  - destruct (last_set a g') eqn:E'; [|reflexivity].
    apply last_set_Some_In in E'. apply Permutation_sym in HP. apply (Permutation_in _ HP) in E'.
    apply (last_set_In _ _ _ Hnd) in E'. congruence.
Qed.

Lemma flat_map_sets_concat : forall gs, flat_map sets_of gs = sets_of (List.concat gs).
Proof.
  induction gs as [|g r IH]; simpl; [reflexivity|]. unfold sets_of in *. rewrite flat_map_app, IH. reflexivity.
Qed.

(* ---------- rearrangements of the firing groups ---------- *)
(* [rearr gs gs']: the groups permuted, and the primitive effects permuted inside each group *)
Definition rearr (gs gs' : list (list gprim)) : Prop :=
  exists gs1, Permutation gs gs1 /\ Forall2 (@Permutation gprim) gs1 gs'.

Lemma rearr_perm : forall gs gs', Permutation gs gs' -> rearr gs gs'.
Proof.
  intros gs gs' H. exists gs'. split; [exact H|].
  clear H. induction gs'; constructor; [apply Permutation_refl | assumption].
Qed.

Lemma Forall2_perm_concat : forall (A : Type) (l l' : list (list A)),
  Forall2 (@Permutation A) l l' -> Permutation (List.concat l) (List.concat l').
Proof. intros A l l' H. induction H; simpl; [constructor | apply Permutation_app; assumption]. Qed.

Lemma Forall2_perm_flat_map : forall (A B : Type) (f : list A -> list B),
  (forall x y, Permutation x y -> Permutation (f x) (f y)) ->
  forall l l', Forall2 (@Permutation A) l l' -> Permutation (flat_map f l) (flat_map f l').
Proof. intros A B f Hf l l' H. induction H; simpl; [constructor | apply Permutation_app; auto]. Qed.

Lemma adds_of_perm : forall g g', Permutation g g' -> Permutation (adds_of g) (adds_of g').
Proof. intros. unfold adds_of. apply Permutation_flat_map. assumption. Qed.
Lemma dels_of_perm : forall g g', Permutation g g' -> Permutation (dels_of g) (dels_of g').
Proof. intros. unfold dels_of. apply Permutation_flat_map. assumption. Qed.
Lemma sets_of_perm : forall g g', Permutation g g' -> Permutation (sets_of g) (sets_of g').
Proof. intros. unfold sets_of. apply Permutation_flat_map. assumption. Qed.

Lemma perm_concat : forall (A : Type) (l l' : list (list A)),
  Permutation l l' -> Permutation (List.concat l) (List.concat l').
Proof.
  intros A l l' H. induction H; simpl.
  - constructor.
  - apply Permutation_app_head. assumption.
  - rewrite !app_assoc. apply Permutation_app_tail. apply Permutation_app_comm.
  - eapply Permutation_trans; eauto.
Qed.

Lemma rearr_concat : forall gs gs', rearr gs gs' -> Permutation (List.concat gs) (List.concat gs').
Proof.
  intros gs gs' [gs1 [H1 H2]]. eapply Permutation_trans; [apply perm_concat; exact H1|].
  apply Forall2_perm_concat. exact H2.
Qed.

Lemma rearr_flat_map : forall (B : Type) (f : list gprim -> list B),
  (forall x y, Permutation x y -> Permutation (f x) (f y)) ->
  forall gs gs', rearr gs gs' -> Permutation (flat_map f gs) (flat_map f gs').
Proof.
  intros B f Hf gs gs' [gs1 [H1 H2]]. eapply Permutation_trans; [apply Permutation_flat_map; exact H1|].
  apply Forall2_perm_flat_map; assumption.
Qed.

Lemma consistent_rearr : forall gs gs', rearr gs gs' -> consistent gs = true -> consistent gs' = true.
Proof.
  intros gs gs' HR Hc. unfold consistent in *. apply andb_true_iff in Hc. destruct Hc as [Hn Hx].
  apply andb_true_iff. split.
  - apply no_dup_atoms_NoDup. apply no_dup_atoms_NoDup in Hn.
    eapply Permutation_NoDup; [|exact Hn]. apply rearr_flat_map; [apply sets_of_perm | exact HR].
  - apply cross_ok_pairs. apply cross_ok_pairs in Hx. destruct HR as [gs1 [H1 H2]].
    eapply FOP_Forall2; [|exact H2|eapply FOP_perm; [apply compat_sym | exact H1 | exact Hx]].
    intros x y x' y' Px Py [Ha Hb]. split; intros a Hin Hin'.
    + apply (Ha a).
      * eapply Permutation_in; [apply Permutation_sym; apply adds_of_perm; exact Px | exact Hin].
      * eapply Permutation_in; [apply Permutation_sym; apply dels_of_perm; exact Py | exact Hin'].
    + apply (Hb a).
      * eapply Permutation_in; [apply Permutation_sym; apply dels_of_perm; exact Px | exact Hin].
      * eapply Permutation_in; [apply Permutation_sym; apply adds_of_perm; exact Py | exact Hin'].
Qed.

(* The commutation theorem: consistent firing groups may be applied in any order, and the primitive effects inside
   each group visited in any order: the successor is the same set of facts and the same fluent map. *)
Theorem succ_rearr : forall s gs gs', consistent gs = true -> rearr gs gs' -> state_eq (succ s gs) (succ s gs').
Proof.
  intros s gs gs' Hc HR. pose proof (consistent_rearr _ _ HR Hc) as Hc'.
  unfold consistent in Hc, Hc'. apply andb_true_iff in Hc, Hc'. destruct Hc as [Hn Hx], Hc' as [Hn' Hx'].
  split; intros a.
  - rewrite (succ_facts _ _ _ Hx), (succ_facts _ _ _ Hx').
    rewrite (atom_in_perm _ _ (rearr_flat_map _ adds_of adds_of_perm _ _ HR) a).
    rewrite (atom_in_perm _ _ (rearr_flat_map _ dels_of dels_of_perm _ _ HR) a). reflexivity.
  - rewrite !succ_fluents. f_equal. apply last_set_perm; [|apply rearr_concat; exact HR].
    rewrite <- flat_map_sets_concat. apply no_dup_atoms_NoDup. exact Hn.
Qed.

Corollary succ_perm : forall s gs gs', consistent gs = true -> Permutation gs gs' -> state_eq (succ s gs) (succ s gs').
Proof. intros s gs gs' Hc HP. apply succ_rearr; [exact Hc | apply rearr_perm; exact HP]. Qed.

(* two compatible groups commute (the primitive commutation step) *)
Corollary groups_commute : forall s g h, consistent [g; h] = true ->
  state_eq (apply_group (apply_group s g) h) (apply_group (apply_group s h) g).
Proof. intros s g h Hc. apply (succ_perm s [g; h] [h; g] Hc). apply perm_swap. Qed.

(* ---------- the successor read as sets ---------- *)
Theorem succ_char_facts : forall s gs a, consistent gs = true ->
  atom_in a (facts (succ s gs)) =
  atom_in a (flat_map adds_of gs) || (atom_in a (facts s) && negb (atom_in a (flat_map dels_of gs))).
Proof. intros s gs a Hc. apply succ_facts. unfold consistent in Hc. apply andb_true_iff in Hc. apply Hc. Qed.

Theorem succ_char_fluents : forall s gs a v, consistent gs = true ->
  In (GSet a v) (List.concat gs) -> fluent_get a (fluents (succ s gs)) = Some v.
Proof.
  intros s gs a v Hc Hin. rewrite succ_fluents. rewrite (last_set_In a (List.concat gs) v); [reflexivity| |exact Hin].
  rewrite <- flat_map_sets_concat. apply no_dup_atoms_NoDup. unfold consistent in Hc. apply andb_true_iff in Hc. apply Hc.
Qed.

(* frame: what no firing effect mentions is unchanged (no consistency needed for fluents) *)
Theorem succ_frame_fact : forall s gs a, consistent gs = true ->
  ~ In a (flat_map adds_of gs) -> ~ In a (flat_map dels_of gs) ->
  atom_in a (facts (succ s gs)) = atom_in a (facts s).
Proof.
  intros s gs a Hc Ha Hd. rewrite succ_char_facts by exact Hc.
  apply atom_in_false in Ha, Hd. rewrite Ha, Hd. simpl. apply andb_true_r.
Qed.

Theorem succ_frame_fluent : forall s gs a,
  ~ In a (flat_map sets_of gs) -> fluent_get a (fluents (succ s gs)) = fluent_get a (fluents s).
Proof.
  intros s gs a Hn. rewrite succ_fluents. rewrite flat_map_sets_concat in Hn. apply last_set_None in Hn.
  rewrite Hn. reflexivity.
Qed.

(* delete-then-add: an atom a firing group adds is in the successor, even if the same group deletes it *)
Theorem succ_add_wins : forall s gs a, consistent gs = true ->
  In a (flat_map adds_of gs) -> atom_in a (facts (succ s gs)) = true.
Proof.
  intros s gs a Hc Ha. rewrite succ_char_facts by exact Hc. apply atom_in_In in Ha. rewrite Ha. reflexivity.
Qed.

Theorem succ_deleted : forall s gs a, consistent gs = true ->
  ~ In a (flat_map adds_of gs) -> In a (flat_map dels_of gs) -> atom_in a (facts (succ s gs)) = false.
Proof.
  intros s gs a Hc Ha Hd. rewrite succ_char_facts by exact Hc.
  apply atom_in_false in Ha. apply atom_in_In in Hd. rewrite Ha, Hd. simpl. apply andb_false_r.
Qed.

(* ---------- the order inside the effect lists is immaterial too ---------- *)
(* the same effect with its primitive effects listed in another order (the library keeps them in hash sets) *)
Inductive eff_perm : eff -> eff -> Prop :=
| EP_prims : forall ps ps', Permutation ps ps' -> eff_perm (EPrims ps) (EPrims ps')
| EP_when : forall c ps ps', Permutation ps ps' -> eff_perm (EWhen c ps) (EWhen c ps')
| EP_forall : forall v ty c ps ps', Permutation ps ps' -> eff_perm (EForall v ty c ps) (EForall v ty c ps').

(* the effects of an action listed in another order, each with its primitive effects in another order *)
Definition effs_perm (l l' : list eff) : Prop := exists l1, Permutation l l1 /\ Forall2 eff_perm l1 l'.

Lemma Forall2_perm_refl : forall (A : Type) (l : list (list A)), Forall2 (@Permutation A) l l.
Proof. induction l; constructor; [apply Permutation_refl | assumption]. Qed.

Lemma Forall2_app' : forall (A : Type) (R : A -> A -> Prop) l1 l1' l2 l2',
  Forall2 R l1 l1' -> Forall2 R l2 l2' -> Forall2 R (l1 ++ l2) (l1' ++ l2').
Proof. intros A R l1 l1' l2 l2' H1 H2. induction H1; simpl; [exact H2 | constructor; assumption]. Qed.

Lemma fires_eff_perm : forall eps tt objs e s x x', eff_perm x x' ->
  Forall2 (@Permutation gprim) (fires eps tt objs e s x) (fires eps tt objs e s x').
Proof.
  intros eps tt objs e s x x' H. destruct H as [ps ps' HP | c ps ps' HP | v ty c ps ps' HP]; simpl.
  - constructor; [apply Permutation_map; exact HP | constructor].
  - destruct (holds eps tt objs e s c); [constructor; [apply Permutation_map; exact HP | constructor] | constructor].
  - induction (objects_of_type tt objs ty) as [|o r IH]; simpl; [constructor|].
    apply Forall2_app'; [|exact IH].
    destruct (holds eps tt objs ((v, o) :: e) s c); [constructor; [apply Permutation_map; exact HP | constructor] | constructor].
Qed.

Lemma all_groups_effs_perm : forall eps tt objs A A' args s,
  a_params A = a_params A' -> effs_perm (a_effs A) (a_effs A') ->
  rearr (all_groups eps tt objs A args s) (all_groups eps tt objs A' args s).
Proof.
  intros eps tt objs A A' args s Hp [l1 [H1 H2]]. unfold all_groups, bind_args. rewrite <- Hp.
  exists (flat_map (fires eps tt objs (combine (map fst (a_params A)) args) s) l1). split.
  - apply Permutation_flat_map. exact H1.
  - clear H1. induction H2 as [|x x' l l' Hx HF IH]; simpl; [constructor|].
    apply Forall2_app'; [apply fires_eff_perm; exact Hx | exact IH].
Qed.

Theorem successor_effs_perm : forall eps tt objs A A' args s,
  a_params A = a_params A' -> effs_perm (a_effs A) (a_effs A') ->
  consistent (all_groups eps tt objs A args s) = true ->
  state_eq (successor eps tt objs A args s) (successor eps tt objs A' args s) /\
  consistent (all_groups eps tt objs A' args s) = true.
Proof.
  intros eps tt objs A A' args s Hp He Hc. pose proof (all_groups_effs_perm eps tt objs A A' args s Hp He) as HR.
  split; [apply succ_rearr; assumption | eapply consistent_rearr; eauto].
Qed.
