(* C03 composed with C02 (b-C02C20's theorem C02_applicable_spec): "applicable" read on the SPEC side.
   Kept outside the dependency closure of Props/C03.v on purpose (it depends on another builder's proof files);
   it is built with everything else and re-checked by `make`. *)
From Coq Require Import List String Bool PrimFloat Permutation.
From Verif Require Import Base.Result Base.Str Base.PyDict Model.Types Model.Domain Model.Exec Spec.Pddl Spec.Subst
  Proofs.C02_Sub Proofs.C20_Defs Proofs.C20_Subst Proofs.C02_Eval Proofs.C02_Main
  Proofs.C03_Spec Proofs.C03_Defs Proofs.C03_Refine Proofs.C03_Main.
Import ListNotations.

(* for an action whose precondition denotes [phi]: if the call is applicable in the sense of Spec.Pddl.applicable, the
   model returns - in every visiting order - the PDDL successor *)
Theorem C03_successor_spec_applicable :
  forall (d : mdomain) (eps : float) (a : maction) (effs : list eff) (phi : form) (args : list string) (ga : gaction)
         (objs : objects) (s : state),
    denote_effs a = Some effs -> denote_pre (ma_pre a) = Some phi -> names_ok d a = true ->
    ground_action d a args = Ok ga ->
    no_shadow (d_consts d) (dkeys (call_map a args) ++ pre_bvars (ma_pre a)) = true ->
    pre_ok d true (dkeys (call_map a args)) (ma_pre a) = true ->
    fdiv0 (d_types d) objs (bind_args (spec_action a effs) args) s phi = false ->
    applicable eps (d_types d) objs (spec_action a effs) args s = true ->
    evaluates d eps objs ga s ->
    consistent (all_groups eps (d_types d) objs (spec_action a effs) args s) = true ->
    forall order uorder, is_order order (List.length (ga_groups ga)) -> is_order uorder (List.length (ma_univ a)) ->
    exists s', apply_op d eps ga (Some objs) false false order uorder s = Ok s' /\
               state_eq s' (successor eps (d_types d) objs (spec_action a effs) args s).
Proof.
  intros d eps a effs phi args ga objs s Hd Hp Hn Hg Hns Hpo Hdiv Happ Hev Hc order uorder Ho Hu.
  assert (Hpre : a_pre (spec_action a effs) = phi) by (unfold spec_action; simpl; rewrite Hp; reflexivity).
  assert (Hmodel : is_applicable d eps (Some objs) ga s = Ok true).
  { rewrite <- Happ. apply (C02_applicable_spec_lemma d eps a (spec_action a effs) args objs s ga); auto.
    - rewrite Hpre. exact Hp.
    - rewrite Hpre. exact Hdiv. }
  exact (successor_gen d eps a effs args ga objs s Hd Hn Hg Hev false true Hmodel (or_introl eq_refl) Hc order uorder Ho Hu).
Qed.

Print Assumptions C03_successor_spec_applicable.
