(* C14: the spec's notions (Spec/State.v): same_value is an equivalence; the decidable reading reflects the Prop reading;
   IEEE equality differs from it exactly on NaN and on the two zeros. *)
From Coq Require Import List Ascii String Bool Arith ZArith Lia PrimFloat FloatOps SpecFloat.
From Verif Require Import Base.Result Base.Str Base.Sexp Base.PyDict Base.Float Spec.Pddl Spec.State.
Import ListNotations.
Open Scope string_scope.
Open Scope list_scope.

(* ---------- same_value ---------- *)
Lemma sf_eqb_eq a b : sf_eqb a b = true <-> a = b.
Proof.
  destruct a as [s|s| |s m e], b as [t|t| |t n f]; simpl; try (split; [discriminate|intros H; discriminate H]);
    try (split; reflexivity).
  - rewrite Bool.eqb_true_iff. split; congruence.
  - rewrite Bool.eqb_true_iff. split; congruence.
  - rewrite !andb_true_iff, Bool.eqb_true_iff, Pos.eqb_eq, Z.eqb_eq. split; [intros [[-> ->] ->]; reflexivity|].
    intros H. injection H as -> -> ->. auto.
Qed.

Lemma same_value_iff x y : same_value x y = true <-> Prim2SF x = Prim2SF y.
Proof. unfold same_value, float_beq. apply sf_eqb_eq. Qed.

Lemma same_value_refl x : same_value x x = true.
Proof. apply same_value_iff. reflexivity. Qed.
Lemma same_value_sym x y : same_value x y = true -> same_value y x = true.
Proof. rewrite !same_value_iff. congruence. Qed.
Lemma same_value_trans x y z : same_value x y = true -> same_value y z = true -> same_value x z = true.
Proof. rewrite !same_value_iff. congruence. Qed.

(* ---------- atoms ---------- *)
Lemma list_eqb_str_eq a : forall b, list_eqb String.eqb a b = true <-> a = b.
Proof.
  induction a as [|x a IH]; intros [|y b]; simpl; try (split; [discriminate|intros H; discriminate H]).
  - tauto.
  - rewrite andb_true_iff, String.eqb_eq, IH. split; [intros [-> ->]; reflexivity|intros H; injection H; auto].
Qed.

Lemma atom_eqb_eq (a b : atom) : atom_eqb a b = true <-> a = b.
Proof.
  unfold atom_eqb. rewrite andb_true_iff, String.eqb_eq, list_eqb_str_eq.
  destruct a, b; simpl. split; [intros [-> ->]; reflexivity|intros H; injection H; auto].
Qed.

Lemma atom_in_In a l : atom_in a l = true <-> In a l.
Proof.
  unfold atom_in. rewrite existsb_exists. split.
  - intros (x & Hx & E). apply atom_eqb_eq in E. subst. exact Hx.
  - intros H. exists a. split; [exact H|apply atom_eqb_eq; reflexivity].
Qed.

Lemma facts_equiv_iff a b : facts_equiv a b = true <-> same_facts a b.
Proof.
  unfold facts_equiv, facts_subset, same_facts. rewrite andb_true_iff, !forallb_forall. split.
  - intros [H1 H2] x. split; intros Hx; apply atom_in_In; auto.
  - intros H. split; intros x Hx; apply atom_in_In; apply H; exact Hx.
Qed.

(* ---------- valued fluents ---------- *)
Lemma valued_in_iff k v l : valued_in (k, v) l = true <-> has_value l k v.
Proof.
  unfold valued_in, has_value. rewrite existsb_exists. split.
  - intros ([k' v'] & Hin & E). simpl in E. apply andb_true_iff in E as [E1 E2].
    apply atom_eqb_eq in E1. subst k'. exists v'. auto.
  - intros (v' & Hin & E). exists (k, v'). split; [exact Hin|]. simpl.
    rewrite E. rewrite (proj2 (atom_eqb_eq k k) eq_refl). reflexivity.
Qed.

Lemma has_value_compat l k v w : same_value v w = true -> has_value l k v -> has_value l k w.
Proof.
  intros E (v' & Hin & E'). exists v'. split; [exact Hin|].
  eapply same_value_trans; [apply same_value_sym; exact E|exact E'].
Qed.

Lemma valued_subset_iff a b : valued_subset a b = true <-> (forall k v, has_value a k v -> has_value b k v).
Proof.
  unfold valued_subset. rewrite forallb_forall. split.
  - intros H k v (v' & Hin & E). specialize (H _ Hin). apply valued_in_iff in H.
    eapply has_value_compat; [apply same_value_sym; exact E|exact H].
  - intros H [k v] Hin. apply valued_in_iff. apply H. exists v. split; [exact Hin|apply same_value_refl].
Qed.

Theorem state_same_iff a b : state_same a b = true <-> State_same a b.
Proof.
  unfold state_same, State_same, same_fluents. rewrite !andb_true_iff, facts_equiv_iff, !valued_subset_iff.
  split.
  - intros [[H1 H2] H3]. split; [exact H1|]. intros k v. split; auto.
  - intros [H1 H2]. split; [split; [exact H1|]|]; intros k v; apply (H2 k v).
Qed.

(* ---------- State_same is an equivalence ---------- *)
Lemma State_same_refl a : State_same a a.
Proof. split; [intros x|intros k v]; tauto. Qed.
Lemma State_same_sym a b : State_same a b -> State_same b a.
Proof. intros [H1 H2]. split; [intros x; symmetry; exact (H1 x)|intros k v; symmetry; exact (H2 k v)]. Qed.
Lemma State_same_trans a b c : State_same a b -> State_same b c -> State_same a c.
Proof.
  intros [H1 H2] [H3 H4]. split; [intros x; rewrite (H1 x); exact (H3 x)|intros k v; rewrite (H2 k v); exact (H4 k v)].
Qed.

(* ---------- IEEE comparison is not the meaning of "the same value" ---------- *)
(* it differs from same_value on NaN (irreflexive) and on the two zeros (identified) ... *)
Lemma ieee_nan_irreflexive : (nan =? nan)%float = false /\ same_value nan nan = true.
Proof. split; reflexivity. Qed.
Lemma ieee_zeros_identified : (0 =? -0)%float = true /\ same_value 0%float (-0)%float = false.
Proof. split; reflexivity. Qed.
