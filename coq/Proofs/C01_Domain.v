(* C01, the whole domain: DomainParser.parse_domain of the model against read_domain. *)
From Coq Require Import List Ascii String Bool Arith Lia PrimFloat Permutation.
From Verif Require Import Base.Result Base.Str Base.Sexp Base.PyDict Model.Types Model.Domain Model.Exec
  Spec.Pddl Spec.Grammar Spec.Faithful Proofs.C01_Defs Proofs.C01_Typed Proofs.C01_Vocab Proofs.C01_Pre
  Proofs.C01_Eff Proofs.C01_Action.
Import ListNotations.
Open Scope string_scope.
Open Scope list_scope.

Lemma match_define {T} (h : string) (a b : T) :
  (match h with "define" => a | _ => b end) = if String.eqb h "define" then a else b.
Proof. chars h. Qed.

Lemma parse_domain_shape num e m :
  parse_domain num e = Ok m ->
  exists sections, e = SList (Atom "define" :: sections) /\
                   foldM (parse_domain_section num) sections empty_domain = Ok m.
Proof.
  unfold parse_domain. destruct e as [s|[|[h|sub] sections]]; try discriminate.
  rewrite match_define. destruct (String.eqb h "define") eqn:E; [|discriminate].
  apply String.eqb_eq in E. subst h. eauto.
Qed.

Definition parse_functions (tt : typetable) (body : list sexp) : result (pydict signature) :=
  foldM (fun acc f => do ns <- parse_function tt f; Ok (dset acc (fst ns) (snd ns))) body [].

Definition with_types d v := {| d_name := d_name d; d_reqs := d_reqs d; d_types := v; d_consts := d_consts d;
                               d_preds := d_preds d; d_funcs := d_funcs d; d_actions := d_actions d |}.
Definition with_consts d v := {| d_name := d_name d; d_reqs := d_reqs d; d_types := d_types d; d_consts := v;
                                d_preds := d_preds d; d_funcs := d_funcs d; d_actions := d_actions d |}.
Definition with_preds d v := {| d_name := d_name d; d_reqs := d_reqs d; d_types := d_types d; d_consts := d_consts d;
                               d_preds := v; d_funcs := d_funcs d; d_actions := d_actions d |}.
Definition with_funcs d v := {| d_name := d_name d; d_reqs := d_reqs d; d_types := d_types d; d_consts := d_consts d;
                               d_preds := d_preds d; d_funcs := v; d_actions := d_actions d |}.
Definition with_actions d v := {| d_name := d_name d; d_reqs := d_reqs d; d_types := d_types d; d_consts := d_consts d;
                                 d_preds := d_preds d; d_funcs := d_funcs d; d_actions := v |}.

(* what one section does to the tables *)
Inductive section_effect (num : numparser) (d : mdomain) : sexp -> mdomain -> Prop :=
| SE_types body v : parse_types body = Ok v -> section_effect num d (SList (Atom ":types" :: body)) (with_types d v)
| SE_consts body v : parse_constants (d_types d) body = Ok v ->
    section_effect num d (SList (Atom ":constants" :: body)) (with_consts d v)
| SE_preds body v : parse_predicates (d_types d) body [] = Ok v ->
    section_effect num d (SList (Atom ":predicates" :: body)) (with_preds d v)
| SE_funcs body v : parse_functions (d_types d) body = Ok v ->
    section_effect num d (SList (Atom ":functions" :: body)) (with_funcs d v)
| SE_action body a : parse_action num (d_types d) (d_consts d) (d_preds d) (d_funcs d) body = Ok a ->
    section_effect num d (SList (Atom ":action" :: body)) (with_actions d (dset (d_actions d) (ma_name a) a))
| SE_other e d' : (forall key, In key [":types"; ":constants"; ":predicates"; ":functions"; ":action"] ->
                               section_bodies key [e] = []) ->
    d_types d' = d_types d -> d_consts d' = d_consts d -> d_preds d' = d_preds d -> d_funcs d' = d_funcs d ->
    d_actions d' = d_actions d ->
    section_effect num d e d'.

Lemma parse_domain_section_effect num d e d' :
  parse_domain_section num d e = Ok d' -> section_effect num d e d'.
Proof.
  unfold parse_domain_section. intros H.
  destruct e as [s|[|[h|sub] body]].
  - injection H as <-. apply SE_other; reflexivity.
  - discriminate.
  - destruct (String.eqb h "domain") eqn:E1.
    { apply String.eqb_eq in E1. subst h. destruct body as [|[n|sub] r]; try discriminate. injection H as <-.
      apply SE_other; [intros key [<-|[<-|[<-|[<-|[<-|[]]]]]]|..]; reflexivity. }
    destruct (String.eqb h ":requirements") eqn:E2.
    { apply String.eqb_eq in E2. subst h. destruct (atoms_of body); [|discriminate]. injection H as <-.
      apply SE_other; [intros key [<-|[<-|[<-|[<-|[<-|[]]]]]]|..]; reflexivity. }
    destruct (String.eqb h ":types") eqn:E3.
    { apply String.eqb_eq in E3. subst h. destruct (parse_types body) as [v|] eqn:Ev; [|discriminate].
      injection H as <-. apply (SE_types num d body v Ev). }
    destruct (String.eqb h ":constants") eqn:E4.
    { apply String.eqb_eq in E4. subst h. destruct (parse_constants (d_types d) body) as [v|] eqn:Ev; [|discriminate].
      injection H as <-. apply (SE_consts num d body v Ev). }
    destruct (String.eqb h ":predicates") eqn:E5.
    { apply String.eqb_eq in E5. subst h. destruct (parse_predicates (d_types d) body []) as [v|] eqn:Ev; [|discriminate].
      injection H as <-. apply (SE_preds num d body v Ev). }
    destruct (String.eqb h ":functions") eqn:E6.
    { apply String.eqb_eq in E6. subst h. fold (parse_functions (d_types d) body) in H.
      destruct (parse_functions (d_types d) body) as [v|] eqn:Ev; [|discriminate].
      injection H as <-. apply (SE_funcs num d body v Ev). }
    destruct (String.eqb h ":action") eqn:E7.
    { apply String.eqb_eq in E7. subst h.
      destruct (parse_action num (d_types d) (d_consts d) (d_preds d) (d_funcs d) body) as [a|] eqn:Ea; [|discriminate].
      injection H as <-. apply (SE_action num d body a Ea). }
    injection H as <-. apply SE_other; [|reflexivity..].
    intros key [<-|[<-|[<-|[<-|[<-|[]]]]]]; simpl; rewrite ?E3, ?E4, ?E5, ?E6, ?E7; reflexivity.
  - injection H as <-. apply SE_other; reflexivity.
Qed.

(* ---------- the fold over the sections ---------- *)
Lemma foldM_snoc {A S} (f : S -> A -> result S) l x s :
  foldM f (l ++ [x]) s = (do s' <- foldM f l s; f s' x).
Proof.
  revert s. induction l as [|y ys IH]; intros s; simpl.
  - destruct (f s x); reflexivity.
  - destruct (f s y) as [s1|]; simpl; [apply IH|reflexivity].
Qed.

Lemma section_bodies_app key a b : section_bodies key (a ++ b) = section_bodies key a ++ section_bodies key b.
Proof. unfold section_bodies. apply flat_map_app. Qed.

(* the value of a table after the sections seen so far: empty before its section, afterwards the parse of one
   of the bodies seen *)
Definition sec_inv {V} (bodies : list (list sexp)) (value empty : V) (parses : list sexp -> V -> Prop) : Prop :=
  match bodies with [] => value = empty | _ => exists b, In b bodies /\ parses b value end.
Definition sec_sub {V} (bodies : list (list sexp)) (value empty : V) (parses : list sexp -> V -> Prop) : Prop :=
  value = empty \/ exists b, In b bodies /\ parses b value.

Lemma sec_inv_sub {V} bodies (value empty : V) parses : sec_inv bodies value empty parses -> sec_sub bodies value empty parses.
Proof. unfold sec_inv, sec_sub. destruct bodies; [left; assumption|right; assumption]. Qed.

Lemma sec_sub_app {V} a b (value empty : V) parses : sec_sub a value empty parses -> sec_sub (a ++ b) value empty parses.
Proof. intros [H|(x & Hin & Hp)]; [left; exact H|right; exists x; split; [apply in_or_app; left; exact Hin|exact Hp]]. Qed.

Lemma sec_inv_same {V} a (value empty : V) parses : sec_inv a value empty parses -> sec_inv (a ++ []) value empty parses.
Proof. rewrite app_nil_r. exact (fun H => H). Qed.

Lemma sec_inv_new {V} a b (value empty : V) (parses : list sexp -> V -> Prop) :
  parses b value -> sec_inv (a ++ [b]) value empty parses.
Proof.
  intros Hp. unfold sec_inv. destruct (a ++ [b]) eqn:E; [destruct a; discriminate|].
  exists b. split; [rewrite <- E; apply in_or_app; right; left; reflexivity|exact Hp].
Qed.

Definition p_types (b : list sexp) (v : typetable) : Prop := parse_types b = Ok v.
Definition p_consts (b : list sexp) (v : pydict string) : Prop := exists tt, parse_constants tt b = Ok v.
Definition p_preds (b : list sexp) (v : pydict signature) : Prop := exists tt, parse_predicates tt b [] = Ok v.
Definition p_funcs (b : list sexp) (v : pydict signature) : Prop := exists tt, parse_functions tt b = Ok v.

(* the tables an action was parsed against *)
Definition ctx_sub (prefix : list sexp) (d0 : mdomain) : Prop :=
  sec_sub (section_bodies ":predicates" prefix) (d_preds d0) [] p_preds /\
  sec_sub (section_bodies ":functions" prefix) (d_funcs d0) [] p_funcs.


Record inv (num : numparser) (prefix : list sexp) (d : mdomain) : Prop := {
  inv_types : sec_inv (section_bodies ":types" prefix) (d_types d) [] p_types;
  inv_consts : sec_inv (section_bodies ":constants" prefix) (d_consts d) [] p_consts;
  inv_preds : sec_inv (section_bodies ":predicates" prefix) (d_preds d) [] p_preds;
  inv_funcs : sec_inv (section_bodies ":functions" prefix) (d_funcs d) [] p_funcs;
  inv_actions : exists parsed,
      Forall2 (fun body a => exists d0, ctx_sub prefix d0 /\
                 parse_action num (d_types d0) (d_consts d0) (d_preds d0) (d_funcs d0) body = Ok a)
              (section_bodies ":action" prefix) parsed /\
      d_actions d = dupdate [] (map name_pair parsed)
}.

Lemma ctx_sub_app prefix s d0 : ctx_sub prefix d0 -> ctx_sub (prefix ++ s) d0.
Proof. intros [Hp Hf]. split; rewrite section_bodies_app; apply sec_sub_app; assumption. Qed.

Lemma actions_weaken num prefix s bodies parsed :
  Forall2 (fun body a => exists d0, ctx_sub prefix d0 /\
             parse_action num (d_types d0) (d_consts d0) (d_preds d0) (d_funcs d0) body = Ok a) bodies parsed ->
  Forall2 (fun body a => exists d0, ctx_sub (prefix ++ s) d0 /\
             parse_action num (d_types d0) (d_consts d0) (d_preds d0) (d_funcs d0) body = Ok a) bodies parsed.
Proof.
  induction 1 as [|b a bs as_ (d0 & Hc & Hp) _ IH]; constructor; [|exact IH].
  exists d0. split; [apply ctx_sub_app; exact Hc|exact Hp].
Qed.

Lemma fold_sections_inv num : forall prefix d,
  foldM (parse_domain_section num) prefix empty_domain = Ok d -> inv num prefix d.
Proof.
  induction prefix as [|s prefix IH] using rev_ind; intros d H.
  - simpl in H. injection H as <-. constructor; try reflexivity. exists []. split; [constructor|reflexivity].
  - rewrite foldM_snoc in H.
    destruct (foldM (parse_domain_section num) prefix empty_domain) as [d'|] eqn:Ed'; cbn [bind] in H; [|discriminate].
    specialize (IH d' eq_refl). destruct IH as [It Ic Ip If (parsed & Hf2 & Hact)].
    apply parse_domain_section_effect in H.
    inversion H as [body v Hv|body v Hv|body v Hv|body v Hv|body a Ha|e0 d0 Hk Ht Hc Hp Hf Ha]; subst.
    + constructor; rewrite section_bodies_app; cbn [with_types d_types d_consts d_preds d_funcs d_actions].
      * apply sec_inv_new. exact Hv.
      * apply sec_inv_same. exact Ic.
      * apply sec_inv_same. exact Ip.
      * apply sec_inv_same. exact If.
      * exists parsed. simpl. rewrite app_nil_r. split; [apply actions_weaken; exact Hf2|exact Hact].
    + constructor; rewrite section_bodies_app; cbn [with_consts d_types d_consts d_preds d_funcs d_actions].
      * apply sec_inv_same. exact It.
      * apply sec_inv_new. eexists. exact Hv.
      * apply sec_inv_same. exact Ip.
      * apply sec_inv_same. exact If.
      * exists parsed. simpl. rewrite app_nil_r. split; [apply actions_weaken; exact Hf2|exact Hact].
    + constructor; rewrite section_bodies_app; cbn [with_preds d_types d_consts d_preds d_funcs d_actions].
      * apply sec_inv_same. exact It.
      * apply sec_inv_same. exact Ic.
      * apply sec_inv_new. eexists. exact Hv.
      * apply sec_inv_same. exact If.
      * exists parsed. simpl. rewrite app_nil_r. split; [apply actions_weaken; exact Hf2|exact Hact].
    + constructor; rewrite section_bodies_app; cbn [with_funcs d_types d_consts d_preds d_funcs d_actions].
      * apply sec_inv_same. exact It.
      * apply sec_inv_same. exact Ic.
      * apply sec_inv_same. exact Ip.
      * apply sec_inv_new. eexists. exact Hv.
      * exists parsed. simpl. rewrite app_nil_r. split; [apply actions_weaken; exact Hf2|exact Hact].
    + constructor; rewrite section_bodies_app; cbn [with_actions d_types d_consts d_preds d_funcs d_actions].
      * apply sec_inv_same. exact It.
      * apply sec_inv_same. exact Ic.
      * apply sec_inv_same. exact Ip.
      * apply sec_inv_same. exact If.
      * exists (parsed ++ [a]). split.
        -- apply Forall2_app; [apply actions_weaken; exact Hf2|].
           constructor; [|constructor]. exists d'. split; [|exact Ha].
           apply ctx_sub_app. split; apply sec_inv_sub; assumption.
        -- rewrite Hact, map_app, dupdate_app. reflexivity.
    + constructor; rewrite section_bodies_app, Hk by (simpl; tauto); rewrite ?Ht, ?Hc, ?Hp, ?Hf, ?Ha.
      * apply sec_inv_same. exact It.
      * apply sec_inv_same. exact Ic.
      * apply sec_inv_same. exact Ip.
      * apply sec_inv_same. exact If.
      * exists parsed. rewrite app_nil_r. split; [apply actions_weaken; exact Hf2|exact Hact].
Qed.

(* ---------- tables again ---------- *)
Lemma lookup_dget {V} (l : list (string * V)) k : lookup k l = dget l k.
Proof. induction l as [|[k' v] r IH]; simpl; [reflexivity|]. rewrite IH. reflexivity. Qed.

Lemma dget_dset_in {V} (d : pydict V) k v k' v' :
  dget (dset d k v) k' = Some v' -> (k' = k /\ v' = v) \/ dget d k' = Some v'.
Proof.
  destruct (string_dec k' k) as [->|Hne].
  - rewrite dget_dset_same. intros H. injection H as <-. left. split; reflexivity.
  - rewrite dget_dset_other by exact Hne. right. assumption.
Qed.

Lemma dget_dupdate_in {V} (l : list (string * V)) : forall d k v,
  dget (dupdate d l) k = Some v -> In (k, v) l \/ dget d k = Some v.
Proof.
  induction l as [|[k0 v0] r IH]; intros d k v H.
  - right. exact H.
  - rewrite dupdate_cons in H. apply IH in H. destruct H as [H|H]; [left; right; exact H|].
    simpl in H. apply dget_dset_in in H. destruct H as [[-> ->]|H]; [left; left; reflexivity|right; exact H].
Qed.

Lemma dict_of_in {V} (l : list (string * V)) k v : dget (dict_of l) k = Some v -> In (k, v) l.
Proof. intros H. apply dget_dupdate_in in H. destruct H as [H|H]; [exact H|discriminate]. Qed.

Lemma map_dset {V W} (f : V -> W) (d : pydict V) k v :
  map (fun kv => (fst kv, f (snd kv))) (dset d k v) = dset (map (fun kv => (fst kv, f (snd kv))) d) k (f v).
Proof.
  induction d as [|[k' v'] r IH]; simpl; [reflexivity|].
  destruct (String.eqb k k'); simpl; [reflexivity|]. rewrite IH. reflexivity.
Qed.

Lemma map_dupdate {V W} (f : V -> W) (l : list (string * V)) : forall d,
  map (fun kv => (fst kv, f (snd kv))) (dupdate d l) =
  dupdate (map (fun kv => (fst kv, f (snd kv))) d) (map (fun kv => (fst kv, f (snd kv))) l).
Proof.
  induction l as [|[k v] r IH]; intros d; [reflexivity|].
  rewrite dupdate_cons. cbn [map]. rewrite dupdate_cons. cbn [fst snd]. rewrite IH, map_dset. reflexivity.
Qed.

(* ---------- the sections as the grammar reads them ---------- *)
Definition first_or {A} (bodies : list (list sexp)) (f : list sexp -> option (list A)) : option (list A) :=
  match bodies with b :: _ => f b | [] => Some [] end.

Lemma read_domain_unfold num sections :
  read_domain num (SList (Atom "define" :: sections)) =
  match first_or (section_bodies ":types" sections) read_types,
        first_or (section_bodies ":constants" sections) read_typed,
        first_or (section_bodies ":predicates" sections) (fun b => all_some (map read_decl b)),
        first_or (section_bodies ":functions" sections) (fun b => all_some (map read_decl b)),
        all_some (map (read_action num) (section_bodies ":action" sections)) with
  | Some t, Some c, Some p, Some f, Some a =>
      Some {| sd_types := t; sd_consts := c; sd_preds := p; sd_funcs := f; sd_actions := a |}
  | _, _, _, _, _ => None
  end.
Proof. reflexivity. Qed.

Lemma once_cases (bodies : list (list sexp)) : List.length bodies <= 1 -> bodies = [] \/ exists b, bodies = [b].
Proof. destruct bodies as [|b [|c r]]; simpl; intros H; [left; reflexivity|right; eauto|lia]. Qed.

(* a table whose section occurs at most once is the parse of that section *)
Lemma sec_inv_once {V} bodies (value empty : V) parses :
  List.length bodies <= 1 -> sec_inv bodies value empty parses ->
  (bodies = [] /\ value = empty) \/ (exists b, bodies = [b] /\ parses b value).
Proof.
  intros Hlen H. destruct (once_cases bodies Hlen) as [->|[b ->]].
  - left. split; [reflexivity|exact H].
  - right. exists b. split; [reflexivity|]. destruct H as (b' & [<-|[]] & Hp). exact Hp.
Qed.

Lemma sec_sub_once {V} bodies (value empty : V) parses :
  List.length bodies <= 1 -> sec_sub bodies value empty parses ->
  value = empty \/ (exists b, bodies = [b] /\ parses b value).
Proof.
  intros Hlen [H|(b' & Hin & Hp)]; [left; exact H|].
  destruct (once_cases bodies Hlen) as [->|[b ->]]; [destruct Hin|].
  right. exists b. split; [reflexivity|]. destruct Hin as [<-|[]]. exact Hp.
Qed.

(* ---------- C01_vocabulary ---------- *)
Theorem vocabulary_faithful num e m sd :
  parse_domain num e = Ok m -> read_domain num e = Some sd ->
  sections_once e ->
  ~ In ":private" (map fst (sd_preds sd)) ->
  model_vocabulary m = spec_vocabulary sd.
Proof.
  intros Hp Hr Honce Hpriv.
  destruct (parse_domain_shape num e m Hp) as (sections & -> & Hfold).
  rewrite read_domain_unfold in Hr.
  destruct (first_or (section_bodies ":types" sections) read_types) as [t|] eqn:Et; [|discriminate].
  destruct (first_or (section_bodies ":constants" sections) read_typed) as [c|] eqn:Ec; [|discriminate].
  destruct (first_or (section_bodies ":predicates" sections) (fun b => all_some (map read_decl b))) as [p|] eqn:Epd;
    [|discriminate].
  destruct (first_or (section_bodies ":functions" sections) (fun b => all_some (map read_decl b))) as [f|] eqn:Efn;
    [|discriminate].
  destruct (all_some (map (read_action num) (section_bodies ":action" sections))) as [acts|] eqn:Ea; [|discriminate].
  injection Hr as <-. cbn [sd_preds] in Hpriv.
  destruct (fold_sections_inv num sections m Hfold) as [It Ic Ip If (parsed & Hf2 & Hact)].
  cbn [sections_once] in Honce.
  inversion Honce as [|k1 r1 Ot Honce1]; subst. inversion Honce1 as [|k2 r2 Oc Honce2]; subst.
  inversion Honce2 as [|k3 r3 Op Honce3]; subst. inversion Honce3 as [|k4 r4 Of _]; subst.
  unfold model_vocabulary, spec_vocabulary. cbn [sd_types sd_consts sd_preds sd_funcs sd_actions]. f_equal.
  - (* types *)
    destruct (sec_inv_once _ _ _ _ Ot It) as [[Hb ->]|(b & Hb & Hv)]; rewrite Hb in Et; simpl in Et.
    + injection Et as <-. reflexivity.
    + apply (parse_types_spec b _ t Hv Et).
  - (* constants *)
    destruct (sec_inv_once _ _ _ _ Oc Ic) as [[Hb ->]|(b & Hb & tt & Hv)]; rewrite Hb in Ec; simpl in Ec.
    + injection Ec as <-. reflexivity.
    + unfold read_typed in Ec. destruct (atom_names b) as [names|] eqn:En; [|discriminate].
      exact (parse_constants_spec tt b _ names c Hv En Ec).
  - (* predicates *)
    destruct (sec_inv_once _ _ _ _ Op Ip) as [[Hb ->]|(b & Hb & tt & Hv)]; rewrite Hb in Epd; simpl in Epd.
    + injection Epd as <-. reflexivity.
    + apply (parse_predicates_spec tt b [] _ p Hv Epd Hpriv).
  - (* functions *)
    destruct (sec_inv_once _ _ _ _ Of If) as [[Hb ->]|(b & Hb & tt & Hv)]; rewrite Hb in Efn; simpl in Efn.
    + injection Efn as <-. reflexivity.
    + apply (parse_functions_spec tt b [] _ f Hv Efn).
  - (* actions *)
    rewrite Hact.
    change (fun na : string * maction => (fst na, ma_sig (snd na))) with
        (fun kv : string * maction => (fst kv, ma_sig (snd kv))).
    rewrite map_dupdate. cbn [map]. unfold dict_of. f_equal. rewrite map_map.
    clear Hact. revert acts Ea. induction Hf2 as [|body a bodies parsed' (d0 & _ & Hpa) _ IH]; intros acts Ea.
    + simpl in Ea. injection Ea as <-. reflexivity.
    + cbn [map] in Ea. rewrite all_some_cons in Ea.
      destruct (read_action num body) as [sa|] eqn:Esa; [|discriminate].
      destruct (all_some (map (read_action num) bodies)) as [acts0|] eqn:Eacts; [|discriminate]. injection Ea as <-.
      cbn [map]. rewrite (IH acts0 eq_refl).
      destruct (parse_action_signature num _ _ _ _ body a sa Hpa Esa) as [Hn Hs].
      unfold name_pair, action_row. cbn [fst snd]. rewrite Hn, Hs. reflexivity.
Qed.

(* ---------- C01_faithful ---------- *)

Lemma names_not_keywords_in names n : names_not_keywords names = true -> In n names -> str_in n keywords = false.
Proof.
  unfold names_not_keywords. rewrite forallb_forall. intros H Hin. apply negb_true_iff. apply H. exact Hin.
Qed.

Lemma dmem_dict_of_in {V} (l : list (string * V)) k : dmem (dict_of l) k = true -> In k (map fst l).
Proof.
  unfold dmem. destruct (dget (dict_of l) k) as [v|] eqn:E; [|discriminate]. intros _.
  apply dict_of_in in E. apply in_map_iff. exists (k, v). split; [reflexivity|exact E].
Qed.

Theorem faithful_partial num e m sd :
  parse_domain num e = Ok m -> read_domain num e = Some sd ->
  sections_once e ->
  names_not_keywords (map fst (sd_preds sd)) = true ->
  names_not_keywords (map fst (sd_funcs sd)) = true ->
  ~ In ":private" (map fst (sd_preds sd)) ->
  exists parsed,
    d_actions m = dict_of (map name_pair parsed) /\
    Forall2 (fun ma sa => ma_name ma = lower_string (a_name sa) /\
                          (action_ok sa = true -> action_faithful ma sa))
            parsed (sd_actions sd).
Proof.
  intros Hp Hr Honce Hpk Hfk Hpriv.
  destruct (parse_domain_shape num e m Hp) as (sections & -> & Hfold).
  rewrite read_domain_unfold in Hr.
  destruct (first_or (section_bodies ":types" sections) read_types) as [t|] eqn:Et; [|discriminate].
  destruct (first_or (section_bodies ":constants" sections) read_typed) as [c|] eqn:Ec; [|discriminate].
  destruct (first_or (section_bodies ":predicates" sections) (fun b => all_some (map read_decl b))) as [p|] eqn:Epd;
    [|discriminate].
  destruct (first_or (section_bodies ":functions" sections) (fun b => all_some (map read_decl b))) as [f|] eqn:Efn;
    [|discriminate].
  destruct (all_some (map (read_action num) (section_bodies ":action" sections))) as [acts|] eqn:Ea; [|discriminate].
  injection Hr as <-. cbn [sd_preds sd_funcs sd_actions] in *.
  destruct (fold_sections_inv num sections m Hfold) as [_ _ _ _ (parsed & Hf2 & Hact)].
  cbn [sections_once] in Honce.
  inversion Honce as [|k1 r1 Ot Honce1]; subst. inversion Honce1 as [|k2 r2 Oc Honce2]; subst.
  inversion Honce2 as [|k3 r3 Op Honce3]; subst. inversion Honce3 as [|k4 r4 Of _]; subst.
  exists parsed. split; [exact Hact|].
  clear Hact. revert acts Ea. induction Hf2 as [|body a bodies parsed' (d0 & [Hcp Hcf] & Hpa) _ IH]; intros acts Ea.
  - simpl in Ea. injection Ea as <-. constructor.
  - cbn [map] in Ea. rewrite all_some_cons in Ea.
    destruct (read_action num body) as [sa|] eqn:Esa; [|discriminate].
    destruct (all_some (map (read_action num) bodies)) as [acts0|] eqn:Eacts; [|discriminate]. injection Ea as <-.
    constructor; [|apply IH; reflexivity].
    split; [apply (parse_action_signature num _ _ _ _ body a sa Hpa Esa)|].
    intros Hok.
    (* the tables the action was parsed against are empty or the final ones *)
    assert (Hfuncs : d_funcs d0 = [] \/ d_funcs d0 = dict_of (map decl_row f)).
    { destruct (sec_sub_once _ _ _ _ Of Hcf) as [H|(b & Hb & tt & Hv)]; [left; exact H|right].
      rewrite Hb in Efn. simpl in Efn. apply (parse_functions_spec tt b [] _ f Hv Efn). }
    assert (Hpreds : d_preds d0 = [] \/ d_preds d0 = dict_of (map decl_row p)).
    { destruct (sec_sub_once _ _ _ _ Op Hcp) as [H|(b & Hb & tt & Hv)]; [left; exact H|right].
      rewrite Hb in Epd. simpl in Epd. apply (parse_predicates_spec tt b [] _ p Hv Epd Hpriv). }
    assert (HK : forall g sg, dget (d_funcs d0) g = Some sg -> str_in g keywords = false).
    { intros g sg Hg. destruct Hfuncs as [H|H]; rewrite H in Hg; [discriminate|].
      apply dict_of_in in Hg. apply (names_not_keywords_in _ _ Hfk).
      apply in_map_iff in Hg. destruct Hg as ([n rows] & Heq & Hin). unfold decl_row in Heq. simpl in Heq.
      injection Heq as <- _. apply in_map_iff. exists (n, rows). split; [reflexivity|exact Hin]. }
    assert (HP : forall q, dmem (d_preds d0) q = true -> str_in q keywords = false).
    { intros q Hq. destruct Hpreds as [H|H]; rewrite H in Hq; [discriminate|].
      apply dmem_dict_of_in in Hq. apply (names_not_keywords_in _ _ Hpk).
      rewrite map_map in Hq. exact Hq. }
    exact (parse_action_faithful num (d_types d0) (d_consts d0) (d_preds d0) (d_funcs d0)
             HK HP body a sa Hpa Esa Hok).
Qed.

(* every action of the parsed domain comes from one action block of the text *)
Corollary faithful_action num e m sd n ma :
  parse_domain num e = Ok m -> read_domain num e = Some sd ->
  sections_once e ->
  names_not_keywords (map fst (sd_preds sd)) = true ->
  names_not_keywords (map fst (sd_funcs sd)) = true ->
  ~ In ":private" (map fst (sd_preds sd)) ->
  dget (d_actions m) n = Some ma ->
  exists sa, In sa (sd_actions sd) /\ n = lower_string (a_name sa) /\
             (action_ok sa = true -> action_faithful ma sa).
Proof.
  intros Hp Hr Honce Hpk Hfk Hpriv Hget.
  destruct (faithful_partial num e m sd Hp Hr Honce Hpk Hfk Hpriv) as (parsed & Hact & Hf2).
  rewrite Hact in Hget. apply dict_of_in in Hget. apply in_map_iff in Hget.
  destruct Hget as (a & Heq & Hin). unfold name_pair in Heq. injection Heq as <- ->.
  clear Hact. induction Hf2 as [|a0 sa parsed' acts [Hname Hrel] _ IH]; [destruct Hin|].
  destruct Hin as [->|Hin].
  - exists sa. split; [left; reflexivity|]. split; [exact Hname|exact Hrel].
  - destruct (IH Hin) as (sa' & Hin' & Hn & Hf). exists sa'. split; [right; exact Hin'|]. split; assumption.
Qed.

(* ---------- on declarations with pairwise distinct names the tables are the declarations as written ---------- *)
Lemma decl_rows_plain (l : list (string * typed)) :
  Forall (fun d => NoDup (map fst (snd d))) l -> map decl_row l = l.
Proof.
  induction 1 as [|[n ps] r Hd _ IH]; [reflexivity|]. simpl. rewrite IH. unfold decl_row. simpl.
  rewrite dict_of_nodup by exact Hd. reflexivity.
Qed.

Lemma spec_vocabulary_plain sd : distinct_names sd -> spec_vocabulary sd = plain_vocabulary sd.
Proof.
  intros (Ht & Hc & Hp & Hpp & Hf & Hfp & Ha & Hap).
  unfold spec_vocabulary, plain_vocabulary. f_equal.
  - unfold type_rows. rewrite dict_of_nodup by exact Ht. reflexivity.
  - apply dict_of_nodup. exact Hc.
  - rewrite decl_rows_plain by exact Hpp. apply dict_of_nodup. exact Hp.
  - rewrite decl_rows_plain by exact Hfp. apply dict_of_nodup. exact Hf.
  - assert (Hrows : map action_row (sd_actions sd) = map (fun a => (lower_string (a_name a), a_params a)) (sd_actions sd)).
    { clear Ha. induction Hap as [|a r Hd _ IH]; [reflexivity|]. simpl. rewrite IH. unfold action_row.
      rewrite dict_of_nodup by exact Hd. reflexivity. }
    rewrite Hrows. apply dict_of_nodup. rewrite map_map. simpl. exact Ha.
Qed.

Lemma faithful_action_ok num e m sd n ma :
  parse_domain num e = Ok m -> read_domain num e = Some sd -> sections_once e -> names_ok sd ->
  dget (d_actions m) n = Some ma ->
  exists sa, In sa (sd_actions sd) /\ n = lower_string (a_name sa) /\
             (action_ok sa = true -> action_faithful ma sa).
Proof.
  intros Hp Hr Ho (Hpk & Hfk & Hpriv) Hget. exact (faithful_action num e m sd n ma Hp Hr Ho Hpk Hfk Hpriv Hget).
Qed.

Lemma faithful_all_ok num e m sd :
  parse_domain num e = Ok m -> read_domain num e = Some sd -> sections_once e -> names_ok sd ->
  exists parsed,
    d_actions m = dict_of (map name_pair parsed) /\
    Forall2 (fun ma sa => ma_name ma = lower_string (a_name sa) /\
                          (action_ok sa = true -> action_faithful ma sa))
            parsed (sd_actions sd).
Proof.
  intros Hp Hr Ho (Hpk & Hfk & Hpriv). exact (faithful_partial num e m sd Hp Hr Ho Hpk Hfk Hpriv).
Qed.
