(* C20/C02: definitions the statements need (no proofs here).
   - [subst_pre], [subst_group], [subst_action]: grounding AS A PURE SUBSTITUTION on the library's object model:
     the same tree, every name replaced; nothing else.  The theorems say the model's [ground_*] functions compute
     exactly this whenever they return, and say exactly when they do not return.
   - [*_ok]: the static conditions under which grounding succeeds (declared predicate, matching arity, every name a
     constant or bound).
   - [no_shadow]: no domain constant has the name of a bound variable (the library looks a name up among the
     constants FIRST, PDDL scoping binds the variable first; with PDDL's lexical rules -- variables start with '?',
     names do not -- the two cannot clash). *)
From Coq Require Import List Ascii String Bool Arith PrimFloat.
From Verif Require Import Base.Result Base.Str Base.PyDict Model.Types Model.Domain Model.Exec Spec.Pddl.
Import ListNotations.
Open Scope string_scope.
Open Scope list_scope.

(* what the library does with a name: a constant stays, otherwise the parameter map decides *)
Definition gname (consts : pydict string) (pm : pmap) (t : string) : string :=
  if dmem consts t then t else subst pm t.

Section SubstStruct.
  Variable sigma : string -> string.          (* substitution applied inside literals and fluent applications *)

  Fixpoint subst_tree (t : mtree) : gtree :=
    match t with
    | TNum x => GTNum x
    | TFn f args => GTFn (f, map sigma args)
    | TNode op l r => GTNode op (subst_tree l) (subst_tree r)
    end.

  Definition subst_pairs (pm : pmap) (l : list (string * string)) : list (string * string) :=
    map (fun ab => (subst pm (fst ab), subst pm (snd ab))) l.

  (* a quantified condition is kept lifted together with the parameter map (the library grounds it per object
     when it is evaluated) *)
  Fixpoint subst_pre (pm : pmap) (p : mpre) : gpre :=
    match p with
    | MPre op os eqs neqs =>
        GPre op ((fix go (l : list mcond) : list gcond :=
                    match l with [] => [] | c :: r => subst_cond pm c :: go r end) os)
             (subst_pairs pm eqs) (subst_pairs pm neqs)
    end
  with subst_cond (pm : pmap) (c : mcond) : gcond :=
    match c with
    | MLit pos p args => GLit pos (p, map sigma args)
    | MNum t => GNum (subst_tree t)
    | MNested q => GNested (subst_pre pm q)
    | MUniv v ty body => GUniv v ty body pm
    end.

  Definition subst_lit (l : mlit) : bool * atom := (l_pos l, (l_name l, map sigma (l_args l))).

  Definition subst_group (pm : pmap) (ante : option mpre) (disc : list mlit) (nums : list mtree) : ggroup :=
    {| gg_ante := match ante with None => None | Some a => Some (subst_pre pm a) end;
       gg_disc := map subst_lit disc;
       gg_num := map subst_tree nums |}.

  Definition subst_action (pm : pmap) (a : maction) : gaction :=
    {| ga_action := a; ga_pm := pm; ga_pre := subst_pre pm (ma_pre a);
       ga_groups := subst_group pm None (ma_disc a) (ma_num a)
                    :: map (fun ce => subst_group pm (Some (ce_ante ce)) (ce_disc ce) (ce_num ce)) (ma_cond a) |}.
End SubstStruct.

(* ---------- when grounding returns ---------- *)
Section Ok.
  Variable dom : mdomain.

  Definition resolvable (scope : list string) (t : string) : bool := dmem (d_consts dom) t || str_in t scope.

  Definition lit_ok (scope : list string) (p : string) (args : list string) : bool :=
    match dget (d_preds dom) p with
    | Some sg => Nat.eqb (List.length sg) (List.length args) && forallb (resolvable scope) args
    | None => false
    end.

  Fixpoint tree_ok (scope : list string) (t : mtree) : bool :=
    match t with
    | TNum _ => true
    | TFn _ args => forallb (resolvable scope) args
    | TNode _ l r => tree_ok scope l && tree_ok scope r
    end.

  (* (in)equalities go through the parameter map only: a constant there is a KeyError *)
  Definition pairs_ok (scope : list string) (l : list (string * string)) : bool :=
    forallb (fun ab => str_in (fst ab) scope && str_in (snd ab) scope) l.

  (* [deep = false]: what Operator.ground() needs (quantified bodies are not touched);
     [deep = true]: also every quantified body, with its variable in scope (needed when it is evaluated) *)
  Fixpoint pre_ok (deep : bool) (scope : list string) (p : mpre) : bool :=
    match p with
    | MPre _ os eqs neqs =>
        pairs_ok scope eqs && pairs_ok scope neqs &&
        (fix go (l : list mcond) : bool :=
           match l with [] => true | c :: r => cond_ok deep scope c && go r end) os
    end
  with cond_ok (deep : bool) (scope : list string) (c : mcond) : bool :=
    match c with
    | MLit _ p args => lit_ok scope p args
    | MNum t => tree_ok scope t
    | MNested q => pre_ok deep scope q
    | MUniv v _ body => if deep then pre_ok deep (v :: scope) body else true
    end.

  Definition group_ok (scope : list string) (ante : option mpre) (disc : list mlit) (nums : list mtree) : bool :=
    match ante with None => true | Some a => pre_ok false scope a end &&
    forallb (fun l => lit_ok scope (l_name l) (l_args l)) disc &&
    forallb (tree_ok scope) nums.

  Definition action_ok (scope : list string) (a : maction) : bool :=
    pre_ok false scope (ma_pre a) &&
    group_ok scope None (ma_disc a) (ma_num a) &&
    forallb (fun ce => group_ok scope (Some (ce_ante ce)) (ce_disc ce) (ce_num ce)) (ma_cond a).
End Ok.

(* ---------- no constant is named like a bound variable ---------- *)
Fixpoint pre_bvars (p : mpre) : list string :=
  match p with
  | MPre _ os _ _ =>
      (fix go (l : list mcond) : list string :=
         match l with [] => [] | c :: r => cond_bvars c ++ go r end) os
  end
with cond_bvars (c : mcond) : list string :=
  match c with
  | MLit _ _ _ | MNum _ => []
  | MNested q => pre_bvars q
  | MUniv v _ body => v :: pre_bvars body
  end.

Definition no_shadow (consts : pydict string) (vars : list string) : bool :=
  forallb (fun v => negb (dmem consts v)) vars.

(* the variables an action binds: its parameters, and the variables quantified in its precondition / antecedents *)
Definition action_vars (a : maction) : list string :=
  dkeys (ma_sig a) ++ pre_bvars (ma_pre a) ++ flat_map (fun ce => pre_bvars (ce_ante ce)) (ma_cond a).

(* ---------- flattening: the literals / numeric trees / pairs a (grounded) condition consists of, in order ---------- *)
Fixpoint gpre_lits (g : gpre) : list (bool * atom) :=
  match g with
  | GPre _ os _ _ =>
      (fix go (l : list gcond) : list (bool * atom) :=
         match l with [] => [] | c :: r => gcond_lits c ++ go r end) os
  end
with gcond_lits (c : gcond) : list (bool * atom) :=
  match c with
  | GLit pos a => [(pos, a)]
  | GNum _ => []
  | GNested q => gpre_lits q
  | GUniv _ _ _ _ => []
  end.

Fixpoint gpre_trees (g : gpre) : list gtree :=
  match g with
  | GPre _ os _ _ =>
      (fix go (l : list gcond) : list gtree :=
         match l with [] => [] | c :: r => gcond_trees c ++ go r end) os
  end
with gcond_trees (c : gcond) : list gtree :=
  match c with
  | GLit _ _ => []
  | GNum t => [t]
  | GNested q => gpre_trees q
  | GUniv _ _ _ _ => []
  end.

(* the schema's literals / trees outside quantifiers, in the same order *)
Fixpoint mpre_lits (p : mpre) : list (bool * (string * list string)) :=
  match p with
  | MPre _ os _ _ =>
      (fix go (l : list mcond) : list (bool * (string * list string)) :=
         match l with [] => [] | c :: r => mcond_lits c ++ go r end) os
  end
with mcond_lits (c : mcond) : list (bool * (string * list string)) :=
  match c with
  | MLit pos p args => [(pos, (p, args))]
  | MNum _ => []
  | MNested q => mpre_lits q
  | MUniv _ _ _ => []
  end.

Fixpoint mpre_trees (p : mpre) : list mtree :=
  match p with
  | MPre _ os _ _ =>
      (fix go (l : list mcond) : list mtree :=
         match l with [] => [] | c :: r => mcond_trees c ++ go r end) os
  end
with mcond_trees (c : mcond) : list mtree :=
  match c with
  | MLit _ _ _ => []
  | MNum t => [t]
  | MNested q => mpre_trees q
  | MUniv _ _ _ => []
  end.

(* ---------- nested induction principle for the object model's conditions ---------- *)
Section MpreInd.
  Variable P : mpre -> Prop.
  Variable Q : mcond -> Prop.
  Hypothesis HPre : forall op os eqs neqs, Forall Q os -> P (MPre op os eqs neqs).
  Hypothesis HLit : forall pos p args, Q (MLit pos p args).
  Hypothesis HNum : forall t, Q (MNum t).
  Hypothesis HNested : forall q, P q -> Q (MNested q).
  Hypothesis HUniv : forall v ty q, P q -> Q (MUniv v ty q).

  Fixpoint mpre_ind' (p : mpre) : P p :=
    match p with
    | MPre op os eqs neqs =>
        HPre op os eqs neqs
             ((fix go (l : list mcond) : Forall Q l :=
                 match l with
                 | [] => Forall_nil _
                 | c :: r => Forall_cons _ (mcond_ind' c) (go r)
                 end) os)
    end
  with mcond_ind' (c : mcond) : Q c :=
    match c with
    | MLit pos p args => HLit pos p args
    | MNum t => HNum t
    | MNested q => HNested q (mpre_ind' q)
    | MUniv v ty q => HUniv v ty q (mpre_ind' q)
    end.
End MpreInd.
