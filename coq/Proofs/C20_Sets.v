(* C20, round 3: the Python sets behind the report (Model/GroundSets.v) against the list-shaped report of
   Model/GroundTyped.v, and the lower bound of Spec/SubstSet.v against the upper bound of Spec/Subst.v.

   - [report_node_flat]: the tree-shaped report flattens to the list-shaped one (same items, same order, same errors);
   - [collapse_subseq]: applying the sets only REMOVES occurrences (a subsequence: nothing added, order kept);
   - [collapse_same_set]: and removes no item altogether (every item of the report is still iterated);
   - [node_eqb_lit]: two literal members are merged only when polarity, name, arguments AND types coincide;
   - [collapse_distinct]: when no connective has two equal members nothing is removed at all;
   - the same four facts for the spec's lower bound [form_lits_min] against [form_lits]. *)
From Coq Require Import List Ascii String Bool Arith PrimFloat Lia.
From Verif Require Import Base.Result Base.Str Base.PyDict Model.Types Model.Domain Model.Exec Model.GroundTyped
  Model.GroundSets Spec.Pddl Spec.Subst Spec.SubstSet Proofs.C20_Defs.
Import ListNotations.
Open Scope string_scope.
Open Scope list_scope.

(* ---------- subsequences ---------- *)
Inductive subseq {A} : list A -> list A -> Prop :=
| ss_nil : subseq [] []
| ss_skip : forall x l1 l2, subseq l1 l2 -> subseq l1 (x :: l2)
| ss_keep : forall x l1 l2, subseq l1 l2 -> subseq (x :: l1) (x :: l2).

Lemma subseq_refl : forall {A} (l : list A), subseq l l.
Proof. induction l as [|x l IH]; [apply ss_nil | apply ss_keep, IH]. Qed.

Lemma subseq_nil_l : forall {A} (l : list A), subseq [] l.
Proof. induction l as [|x l IH]; [apply ss_nil | apply ss_skip, IH]. Qed.

Lemma subseq_app : forall {A} (a1 a2 b1 b2 : list A), subseq a1 a2 -> subseq b1 b2 -> subseq (a1 ++ b1) (a2 ++ b2).
Proof.
  intros A a1 a2 b1 b2 Ha Hb. induction Ha as [|x l1 l2 Ha IH|x l1 l2 Ha IH]; simpl.
  - exact Hb.
  - apply ss_skip, IH.
  - apply ss_keep, IH.
Qed.

Lemma subseq_trans : forall {A} (a b c : list A), subseq a b -> subseq b c -> subseq a c.
Proof.
  intros A a b c Hab Hbc. revert a Hab.
  induction Hbc as [|x l1 l2 Hbc IH|x l1 l2 Hbc IH]; intros a Hab.
  - exact Hab.
  - apply ss_skip, IH, Hab.
  - inversion Hab as [|y m1 m2 Hm|y m1 m2 Hm]; subst.
    + apply ss_skip, IH, Hm.
    + apply ss_keep, IH, Hm.
Qed.

Lemma subseq_length : forall {A} (a b : list A), subseq a b -> List.length a <= List.length b.
Proof. intros A a b H. induction H; simpl; lia. Qed.

Lemma subseq_In : forall {A} (a b : list A) (x : A), subseq a b -> In x a -> In x b.
Proof.
  intros A a b x H. induction H as [|y l1 l2 H IH|y l1 l2 H IH]; simpl; intros Hin; auto.
  destruct Hin as [Hin|Hin]; auto.
Qed.

(* a subsequence of the same length is the list itself *)
Lemma subseq_same_length : forall {A} (a b : list A), subseq a b -> List.length a = List.length b -> a = b.
Proof.
  intros A a b H. induction H as [|y l1 l2 H IH|y l1 l2 H IH]; simpl; intros Hlen.
  - reflexivity.
  - apply subseq_length in H. lia.
  - f_equal. apply IH. lia.
Qed.

Lemma subseq_flat_map : forall {A B} (f : A -> list B) (l1 l2 : list A),
  subseq l1 l2 -> subseq (flat_map f l1) (flat_map f l2).
Proof.
  intros A B f l1 l2 H. induction H as [|x m1 m2 H IH|x m1 m2 H IH]; simpl.
  - apply ss_nil.
  - change (flat_map f m1) with ([] ++ flat_map f m1). apply subseq_app; [apply subseq_nil_l | exact IH].
  - apply subseq_app; [apply subseq_refl | exact IH].
Qed.

Lemma subseq_flat_map_pointwise : forall {A B} (f : A -> list B) (g : A -> A) (l : list A),
  Forall (fun x => subseq (f (g x)) (f x)) l -> subseq (flat_map f (map g l)) (flat_map f l).
Proof.
  intros A B f g l H. induction H as [|x r Hx Hr IH]; simpl.
  - apply ss_nil.
  - apply subseq_app; assumption.
Qed.

Lemma subseq_map : forall {A B} (f : A -> B) (l1 l2 : list A), subseq l1 l2 -> subseq (map f l1) (map f l2).
Proof.
  intros A B f l1 l2 H. induction H; simpl; [apply ss_nil | apply ss_skip | apply ss_keep]; assumption.
Qed.

(* ---------- set.add one by one ---------- *)
Lemma dedupe_subseq : forall {A} (eqb : A -> A -> bool) (l seen : list A), subseq (dedupe eqb l seen) l.
Proof.
  intros A eqb l. induction l as [|x r IH]; intros seen; simpl.
  - apply ss_nil.
  - destruct (existsb (eqb x) seen); [apply ss_skip | apply ss_keep]; apply IH.
Qed.

Fixpoint nodup_b {A} (eqb : A -> A -> bool) (l seen : list A) : bool :=
  match l with
  | [] => true
  | x :: r => negb (existsb (eqb x) seen) && nodup_b eqb r (x :: seen)
  end.

Lemma dedupe_nodup : forall {A} (eqb : A -> A -> bool) (l seen : list A),
  nodup_b eqb l seen = true -> dedupe eqb l seen = l.
Proof.
  intros A eqb l. induction l as [|x r IH]; intros seen H; simpl in *.
  - reflexivity.
  - apply andb_true_iff in H. destruct H as [H1 H2]. apply negb_true_iff in H1. rewrite H1.
    f_equal. apply IH, H2.
Qed.

(* the same two facts for the spec's copy of the function *)
Lemma sdedupe_subseq : forall {A} (eqb : A -> A -> bool) (l seen : list A), subseq (sdedupe eqb l seen) l.
Proof.
  intros A eqb l. induction l as [|x r IH]; intros seen; simpl.
  - apply ss_nil.
  - destruct (existsb (eqb x) seen); [apply ss_skip | apply ss_keep]; apply IH.
Qed.

Lemma sdedupe_nodup : forall {A} (eqb : A -> A -> bool) (l seen : list A),
  nodup_b eqb l seen = true -> sdedupe eqb l seen = l.
Proof.
  intros A eqb l. induction l as [|x r IH]; intros seen H; simpl in *.
  - reflexivity.
  - apply andb_true_iff in H. destruct H as [H1 H2]. apply negb_true_iff in H1. rewrite H1.
    f_equal. apply IH, H2.
Qed.

(* ---------- induction on the report tree ---------- *)
Section RnodeInd.
  Variable P : rnode -> Prop.
  Hypothesis HL : forall l, P (RNLit l).
  Hypothesis HN : forall t, P (RNNum t).
  Hypothesis HG : forall u op os eqs neqs, Forall P os -> P (RNGroup u op os eqs neqs).

  Fixpoint rnode_ind' (n : rnode) : P n :=
    match n with
    | RNLit l => HL l
    | RNNum t => HN t
    | RNGroup u op os eqs neqs =>
        HG u op os eqs neqs
           ((fix go (l : list rnode) : Forall P l :=
               match l with
               | [] => Forall_nil _
               | x :: r => Forall_cons _ (rnode_ind' x) (go r)
               end) os)
    end.
End RnodeInd.

(* ---------- nothing is added ---------- *)
Lemma collapse_subseq : forall n, subseq (node_items (collapse n)) (node_items n).
Proof.
  induction n as [l|t|u op os eqs neqs IH] using rnode_ind'; simpl; try apply subseq_refl.
  eapply subseq_trans.
  - apply subseq_flat_map. apply dedupe_subseq.
  - apply subseq_flat_map_pointwise. exact IH.
Qed.

(* ---------- which literals are one member ---------- *)
Lemma list_eqb_string_eq : forall a b : list string, list_eqb String.eqb a b = true -> a = b.
Proof.
  induction a as [|x a IH]; destruct b as [|y b]; simpl; intros H; try discriminate; auto.
  apply andb_true_iff in H. destruct H as [H1 H2]. apply String.eqb_eq in H1. subst. f_equal. auto.
Qed.

Lemma list_eqb_string_refl : forall a : list string, list_eqb String.eqb a a = true.
Proof. induction a as [|x a IH]; simpl; auto. rewrite String.eqb_refl. exact IH. Qed.

Lemma rlit_eqb_eq : forall a b : rlit, rlit_eqb a b = true <-> a = b.
Proof.
  intros [g1 p1 n1 a1 t1] [g2 p2 n2 a2 t2]. unfold rlit_eqb. simpl. split.
  - intros H. repeat (apply andb_true_iff in H; destruct H as [H ?]).
    apply Bool.eqb_prop in H. apply Bool.eqb_prop in H3. apply String.eqb_eq in H2.
    apply list_eqb_string_eq in H1. apply list_eqb_string_eq in H0. subst. reflexivity.
  - intros H. inversion H; subst. rewrite !Bool.eqb_reflx, String.eqb_refl, !list_eqb_string_refl. reflexivity.
Qed.

(* a literal member is merged only with a literal equal in polarity, name, arguments and TYPES *)
Lemma node_eqb_lit : forall (a : rlit) (n : rnode), node_eqb (RNLit a) n = true -> n = RNLit a.
Proof.
  intros a [b|t|u op os eqs neqs]; simpl; intros H; try discriminate.
  apply rlit_eqb_eq in H. subst. reflexivity.
Qed.

(* a numeric member is never merged *)
Lemma node_eqb_num : forall (t : gtree) (n : rnode), node_eqb (RNNum t) n = false.
Proof. intros t n. destruct n; reflexivity. Qed.
Lemma node_eqb_num_r : forall (n : rnode) (t : gtree), node_eqb n (RNNum t) = false.
Proof. intros n t. destruct n; reflexivity. Qed.

(* ---------- nothing is omitted ---------- *)
(* equal members yield the same items *)
Lemma node_eqb_items : forall a b, node_eqb a b = true -> forall x, In x (node_items a) <-> In x (node_items b).
Proof.
  induction a as [l|t|u op os eqs neqs IH] using rnode_ind'; intros b Hab x.
  - apply node_eqb_lit in Hab. subst. tauto.
  - rewrite node_eqb_num in Hab. discriminate.
  - destruct b as [l'|t'|u' op' os' eqs' neqs']; try discriminate Hab.
    simpl in Hab.
    apply andb_true_iff in Hab. destruct Hab as [Hab _].
    apply andb_true_iff in Hab. destruct Hab as [Hab _].
    apply andb_true_iff in Hab. destruct Hab as [Hab Hex].
    apply andb_true_iff in Hab. destruct Hab as [_ Hall].
    simpl. rewrite !in_flat_map. split.
    + intros [o [Ho Hx]].
      (* o is matched by a member of os' *)
      assert (Hm : exists o', In o' os' /\ node_eqb o o' = true).
      { clear IH Hex Hx. induction os as [|y r IHr]; [destruct Ho|].
        apply andb_true_iff in Hall. destruct Hall as [Hy Hr].
        destruct Ho as [Ho|Ho].
        - subst. apply existsb_exists in Hy. destruct Hy as [o' [Hin He]]. exists o'. auto.
        - apply IHr; assumption. }
      destruct Hm as [o' [Hin He]]. exists o'. split; [exact Hin|].
      rewrite Forall_forall in IH. apply (IH o Ho o' He x). exact Hx.
    + intros [o' [Ho' Hx]].
      rewrite forallb_forall in Hex. specialize (Hex o' Ho').
      assert (Hm : exists o, In o os /\ node_eqb o o' = true).
      { clear IH Hall Hx. induction os as [|y r IHr]; [discriminate Hex|].
        apply orb_true_iff in Hex. destruct Hex as [Hy|Hr].
        - exists y. split; [left; reflexivity | exact Hy].
        - destruct (IHr Hr) as [o [Hin He]]. exists o. split; [right; exact Hin | exact He]. }
      destruct Hm as [o [Hin He]]. exists o. split; [exact Hin|].
      rewrite Forall_forall in IH. apply (IH o Hin o' He x). exact Hx.
Qed.

Lemma dedupe_keeps_items : forall (l seen : list rnode) (x : ritem),
  In x (flat_map node_items l) ->
  In x (flat_map node_items (dedupe node_eqb l seen)) \/ In x (flat_map node_items seen).
Proof.
  induction l as [|y r IH]; intros seen x Hin; simpl in *.
  - destruct Hin.
  - apply in_app_or in Hin. destruct (existsb (node_eqb y) seen) eqn:E.
    + destruct Hin as [Hin|Hin].
      * right. apply existsb_exists in E. destruct E as [z [Hz He]].
        apply in_flat_map. exists z. split; [exact Hz|]. apply (node_eqb_items y z He x). exact Hin.
      * apply IH. exact Hin.
    + simpl. destruct Hin as [Hin|Hin].
      * left. apply in_or_app. left. exact Hin.
      * destruct (IH (y :: seen) x Hin) as [H|H].
        -- left. apply in_or_app. right. exact H.
        -- simpl in H. apply in_app_or in H. destruct H as [H|H].
           ++ left. apply in_or_app. left. exact H.
           ++ right. exact H.
Qed.

Lemma collapse_same_set : forall n x, In x (node_items n) <-> In x (node_items (collapse n)).
Proof.
  intros n x. split; [|apply subseq_In, collapse_subseq].
  revert x. induction n as [l|t|u op os eqs neqs IH] using rnode_ind'; intros x Hin; simpl in *; auto.
  assert (Hm : In x (flat_map node_items (map collapse os))).
  { apply in_flat_map in Hin. destruct Hin as [o [Ho Hx]]. apply in_flat_map. exists (collapse o).
    split; [apply in_map, Ho|]. rewrite Forall_forall in IH. apply IH; assumption. }
  destruct (dedupe_keeps_items _ [] x Hm) as [H|H]; [exact H | destruct H].
Qed.

(* ---------- when no connective has two equal members ---------- *)
Fixpoint distinct_members (n : rnode) : bool :=
  match n with
  | RNGroup _ _ os _ _ => forallb distinct_members os && nodup_b node_eqb os []
  | _ => true
  end.

Lemma collapse_distinct : forall n, distinct_members n = true -> collapse n = n.
Proof.
  induction n as [l|t|u op os eqs neqs IH] using rnode_ind'; simpl; intros H; auto.
  apply andb_true_iff in H. destruct H as [H1 H2].
  assert (Hmap : map collapse os = os).
  { clear H2. induction os as [|y r IHr]; simpl in *; auto.
    apply andb_true_iff in H1. destruct H1 as [Hy Hr]. inversion IH as [|? ? IHy IHr']; subst.
    f_equal; auto. }
  rewrite Hmap. rewrite (dedupe_nodup node_eqb os [] H2). reflexivity.
Qed.

(* ---------- the tree-shaped report flattens to the list-shaped one ---------- *)
Section Flat.
  Variable dom : mdomain.

  Definition flat_of (r : result rnode) : result (list ritem * list eqpair) :=
    match r with Ok n => Ok (node_items n, node_eqs n) | Err k => Err k end.
  Definition items_of (r : result rnode) : result (list ritem) :=
    match r with Ok n => Ok (node_items n) | Err k => Err k end.

  (* equation lemmas *)
  Definition lifted_items_l (sg : signature) : list mcond -> result (list ritem) :=
    fix go (l : list mcond) : result (list ritem) :=
      match l with
      | [] => Ok []
      | c :: r => do x <- lifted_cond_items dom sg c; do y <- go r; Ok (x ++ y)
      end.
  Definition lifted_nodes_l (sg : signature) : list mcond -> result (list rnode) :=
    fix go (l : list mcond) : result (list rnode) :=
      match l with
      | [] => Ok []
      | c :: r => do x <- lifted_cond_node dom sg c; do y <- go r; Ok (x :: y)
      end.
  Lemma lifted_items_eq' sg op os eqs neqs : lifted_items dom sg (MPre op os eqs neqs) = lifted_items_l sg os.
  Proof. reflexivity. Qed.
  Lemma lifted_node_eq sg u op os eqs neqs :
    lifted_node dom sg u (MPre op os eqs neqs) = (do ns <- lifted_nodes_l sg os; Ok (RNGroup u op ns eqs neqs)).
  Proof. reflexivity. Qed.
  Lemma lifted_items_l_cons sg c r :
    lifted_items_l sg (c :: r) = (do x <- lifted_cond_items dom sg c; do y <- lifted_items_l sg r; Ok (x ++ y)).
  Proof. reflexivity. Qed.
  Lemma lifted_nodes_l_cons sg c r :
    lifted_nodes_l sg (c :: r) = (do x <- lifted_cond_node dom sg c; do y <- lifted_nodes_l sg r; Ok (x :: y)).
  Proof. reflexivity. Qed.

  Definition report_conds_l (sg : signature) (pm : pmap) : list mcond -> result (list ritem * list eqpair) :=
    fix go (l : list mcond) : result (list ritem * list eqpair) :=
      match l with
      | [] => Ok ([], [])
      | c :: r => do x <- report_cond dom sg pm c; do y <- go r; Ok (fst x ++ fst y, snd x ++ snd y)
      end.
  Definition report_nodes_l (sg : signature) (pm : pmap) : list mcond -> result (list rnode) :=
    fix go (l : list mcond) : result (list rnode) :=
      match l with
      | [] => Ok []
      | c :: r => do x <- report_cond_node dom sg pm c; do y <- go r; Ok (x :: y)
      end.
  Lemma report_pre_eq' sg pm op os eqs neqs :
    report_pre dom sg pm (MPre op os eqs neqs) =
    (do geqs <- ground_pairs pm eqs; do gneqs <- ground_pairs pm neqs;
     do rest <- report_conds_l sg pm os;
     Ok (fst rest, tag_pairs true geqs ++ tag_pairs false gneqs ++ snd rest)).
  Proof. reflexivity. Qed.
  Lemma report_node_eq sg pm op os eqs neqs :
    report_node dom sg pm (MPre op os eqs neqs) =
    (do geqs <- ground_pairs pm eqs; do gneqs <- ground_pairs pm neqs;
     do ns <- report_nodes_l sg pm os; Ok (RNGroup None op ns geqs gneqs)).
  Proof. reflexivity. Qed.
  Lemma report_conds_l_cons sg pm c r :
    report_conds_l sg pm (c :: r) =
    (do x <- report_cond dom sg pm c; do y <- report_conds_l sg pm r; Ok (fst x ++ fst y, snd x ++ snd y)).
  Proof. reflexivity. Qed.
  Lemma report_nodes_l_cons sg pm c r :
    report_nodes_l sg pm (c :: r) = (do x <- report_cond_node dom sg pm c; do y <- report_nodes_l sg pm r; Ok (x :: y)).
  Proof. reflexivity. Qed.

  Lemma lifted_node_flat : forall p sg u, lifted_items dom sg p = items_of (lifted_node dom sg u p).
  Proof.
    apply (mpre_ind' (fun p => forall sg u, lifted_items dom sg p = items_of (lifted_node dom sg u p))
                     (fun c => forall sg, lifted_cond_items dom sg c = items_of (lifted_cond_node dom sg c))).
    - intros op os eqs neqs IH sg u. rewrite lifted_items_eq', lifted_node_eq.
      assert (Hl : lifted_items_l sg os =
                   match lifted_nodes_l sg os with Ok ns => Ok (flat_map node_items ns) | Err k => Err k end).
      { induction IH as [|c r Hc Hr IHr]; [reflexivity|].
        rewrite lifted_items_l_cons, lifted_nodes_l_cons, (Hc sg), IHr.
        destruct (lifted_cond_node dom sg c) as [x|k]; simpl; [|reflexivity].
        destruct (lifted_nodes_l sg r) as [ns|k]; reflexivity. }
      rewrite Hl. destruct (lifted_nodes_l sg os); reflexivity.
    - intros pos p args sg. cbn. destruct (lifted_lit dom sg pos p args); reflexivity.
    - intros t sg. reflexivity.
    - intros q IH sg. cbn. apply IH.
    - intros v ty q IH sg. cbn. apply IH.
  Qed.

  Lemma report_node_flat : forall p sg pm, report_pre dom sg pm p = flat_of (report_node dom sg pm p).
  Proof.
    apply (mpre_ind' (fun p => forall sg pm, report_pre dom sg pm p = flat_of (report_node dom sg pm p))
                     (fun c => forall sg pm, report_cond dom sg pm c = flat_of (report_cond_node dom sg pm c))).
    - intros op os eqs neqs IH sg pm. rewrite report_pre_eq', report_node_eq.
      destruct (ground_pairs pm eqs) as [geqs|k]; simpl; [|reflexivity].
      destruct (ground_pairs pm neqs) as [gneqs|k]; simpl; [|reflexivity].
      assert (Hl : report_conds_l sg pm os =
                   match report_nodes_l sg pm os with
                   | Ok ns => Ok (flat_map node_items ns, flat_map node_eqs ns) | Err k => Err k end).
      { induction IH as [|c r Hc Hr IHr]; [reflexivity|].
        rewrite report_conds_l_cons, report_nodes_l_cons, (Hc sg pm), IHr.
        destruct (report_cond_node dom sg pm c) as [x|k]; simpl; [|reflexivity].
        destruct (report_nodes_l sg pm r) as [ns|k]; reflexivity. }
      rewrite Hl. destruct (report_nodes_l sg pm os); reflexivity.
    - intros pos p args sg pm. cbn. destruct (report_lit dom sg pm pos p args); reflexivity.
    - intros t sg pm. cbn. destruct (report_tree dom pm t); reflexivity.
    - intros q IH sg pm. cbn. apply IH.
    - intros v ty q IH sg pm. cbn. rewrite (lifted_node_flat q (dset sg v ty) (Some (v, ty))).
      destruct q as [op os eqs neqs]. rewrite lifted_node_eq.
      destruct (lifted_nodes_l (dset sg v ty) os); reflexivity.
  Qed.

  (* ---------- the iteration against the list-shaped report ---------- *)
  Lemma iter_pre_bounds_lemma : forall sg pm p items eqs,
    iter_pre dom sg pm p = Ok (items, eqs) ->
    exists items0 eqs0, report_pre dom sg pm p = Ok (items0, eqs0) /\
      subseq items items0 /\ (forall x, In x items0 <-> In x items).
  Proof.
    intros sg pm p items eqs H. unfold iter_pre in H. rewrite report_node_flat.
    destruct (report_node dom sg pm p) as [n|k]; simpl in *; [|discriminate].
    injection H as <- <-. exists (node_items n), (node_eqs n). split; [reflexivity|].
    split; [apply collapse_subseq | apply collapse_same_set].
  Qed.

  Lemma iter_pre_returns_lemma : forall sg pm p, is_ok (iter_pre dom sg pm p) = is_ok (report_pre dom sg pm p).
  Proof.
    intros sg pm p. unfold iter_pre. rewrite report_node_flat.
    destruct (report_node dom sg pm p); reflexivity.
  Qed.

  Lemma iter_pre_exact_lemma : forall sg pm p n,
    report_node dom sg pm p = Ok n -> distinct_members n = true -> iter_pre dom sg pm p = report_pre dom sg pm p.
  Proof.
    intros sg pm p n Hn Hd. unfold iter_pre. rewrite report_node_flat, Hn. simpl.
    rewrite (collapse_distinct n Hd). reflexivity.
  Qed.

  (* effect groups *)
  Lemma dedupe_rlit_keeps : forall (l seen : list rlit) (x : rlit),
    In x l -> In x (dedupe rlit_eqb l seen) \/ In x seen.
  Proof.
    induction l as [|y r IH]; intros seen x Hin; simpl in *; [destruct Hin|].
    destruct (existsb (rlit_eqb y) seen) eqn:E.
    - destruct Hin as [Hin|Hin].
      + subst. right. apply existsb_exists in E. destruct E as [z [Hz He]]. apply rlit_eqb_eq in He. subst. exact Hz.
      + apply IH. exact Hin.
    - destruct Hin as [Hin|Hin].
      + subst. left. left. reflexivity.
      + destruct (IH (y :: seen) x Hin) as [H|H].
        * left. right. exact H.
        * destruct H as [H|H]; [left; left; exact H | right; exact H].
  Qed.

  Lemma iter_group_bounds_lemma : forall sg pm ante disc nums g,
    iter_group dom sg pm ante disc nums = Ok g ->
    exists g0, report_group dom sg pm ante disc nums = Ok g0 /\
      subseq (rg_disc g) (rg_disc g0) /\ (forall x, In x (rg_disc g0) <-> In x (rg_disc g)) /\
      rg_num g = rg_num g0 /\
      match rg_ante g, rg_ante g0 with
      | None, None => True
      | Some (items, _), Some (items0, _) => subseq items items0 /\ (forall x, In x items0 <-> In x items)
      | _, _ => False
      end.
  Proof.
    intros sg pm ante disc nums g H. unfold iter_group in H. unfold report_group.
    destruct ante as [a|].
    - destruct (iter_pre dom sg pm a) as [[items eqs]|k] eqn:Ei; simpl in H; [|discriminate].
      destruct (iter_pre_bounds_lemma sg pm a items eqs Ei) as [items0 [eqs0 [Hr [Hs Hi]]]]. rewrite Hr. simpl.
      destruct (mapM (fun l => report_lit dom sg pm (l_pos l) (l_name l) (l_args l)) disc) as [rd|k]; simpl in *; [|discriminate].
      destruct (mapM (report_tree dom pm) nums) as [rn|k]; simpl in *; [|discriminate].
      injection H as <-. eexists. split; [reflexivity|]. simpl. split; [apply dedupe_subseq|].
      split; [|split; [reflexivity | split; assumption]].
      intros x. split; [|apply subseq_In, dedupe_subseq].
      intros Hin. destruct (dedupe_rlit_keeps rd [] x Hin) as [Hd|[]]. exact Hd.
    - simpl in *.
      destruct (mapM (fun l => report_lit dom sg pm (l_pos l) (l_name l) (l_args l)) disc) as [rd|k]; simpl in *; [|discriminate].
      destruct (mapM (report_tree dom pm) nums) as [rn|k]; simpl in *; [|discriminate].
      injection H as <-. eexists. split; [reflexivity|]. simpl. split; [apply dedupe_subseq|].
      split; [|split; [reflexivity | exact I]].
      intros x. split; [|apply subseq_In, dedupe_subseq].
      intros Hin. destruct (dedupe_rlit_keeps rd [] x Hin) as [Hd|[]]. exact Hd.
  Qed.
End Flat.

(* ---------- the spec's lower bound against its upper bound ---------- *)
Section SnodeInd.
  Variable P : snode -> Prop.
  Hypothesis HL : forall l, P (SNLit l).
  Hypothesis HC : forall c, P (SNCmp c).
  Hypothesis HE : forall e, P (SNEq e).
  Hypothesis HG : forall u o ms, Forall P ms -> P (SNGroup u o ms).

  Fixpoint snode_ind' (n : snode) : P n :=
    match n with
    | SNLit l => HL l
    | SNCmp c => HC c
    | SNEq e => HE e
    | SNGroup u o ms =>
        HG u o ms ((fix go (l : list snode) : Forall P l :=
                      match l with
                      | [] => Forall_nil _
                      | x :: r => Forall_cons _ (snode_ind' x) (go r)
                      end) ms)
    end.
End SnodeInd.

Lemma scollapse_subseq : forall n, subseq (snode_lits (scollapse n)) (snode_lits n).
Proof.
  induction n as [l|c|e|u o ms IH] using snode_ind'; simpl; try apply subseq_refl.
  eapply subseq_trans.
  - apply subseq_flat_map. apply sdedupe_subseq.
  - apply subseq_flat_map_pointwise. exact IH.
Qed.

Lemma tlit_eqb_eq : forall a b : tlit, tlit_eqb a b = true -> a = b.
Proof.
  intros [p1 [n1 a1] t1] [p2 [n2 a2] t2]. unfold tlit_eqb, atom_eqb. simpl. intros H.
  apply andb_true_iff in H. destruct H as [H Ht]. apply andb_true_iff in H. destruct H as [Hp H].
  apply andb_true_iff in H. destruct H as [Hn Ha].
  apply Bool.eqb_prop in Hp. apply String.eqb_eq in Hn. apply list_eqb_string_eq in Ha. apply list_eqb_string_eq in Ht.
  subst. reflexivity.
Qed.

Lemma snode_eqb_lit : forall (a : tlit) (n : snode), snode_eqb (SNLit a) n = true -> n = SNLit a.
Proof.
  intros a [b|c|e|u o ms]; simpl; intros H; try discriminate. apply tlit_eqb_eq in H. subst. reflexivity.
Qed.

Lemma snode_eqb_lits : forall a b, snode_eqb a b = true -> forall x, In x (snode_lits a) <-> In x (snode_lits b).
Proof.
  induction a as [l|c|e|u o ms IH] using snode_ind'; intros b Hab x.
  - apply snode_eqb_lit in Hab. subst. tauto.
  - destruct b; discriminate Hab.
  - destruct b; try discriminate Hab. simpl. tauto.
  - destruct b as [l'|c'|e'|u' o' ms']; try discriminate Hab.
    simpl in Hab.
    apply andb_true_iff in Hab. destruct Hab as [Hab Hex].
    apply andb_true_iff in Hab. destruct Hab as [_ Hall].
    simpl. rewrite !in_flat_map. split.
    + intros [m [Hm Hx]].
      assert (Hmm : exists m', In m' ms' /\ snode_eqb m m' = true).
      { clear IH Hex Hx. induction ms as [|y r IHr]; [destruct Hm|].
        apply andb_true_iff in Hall. destruct Hall as [Hy Hr].
        destruct Hm as [Hm|Hm].
        - subst. apply existsb_exists in Hy. destruct Hy as [m' [Hin He]]. exists m'. auto.
        - apply IHr; assumption. }
      destruct Hmm as [m' [Hin He]]. exists m'. split; [exact Hin|].
      rewrite Forall_forall in IH. apply (IH m Hm m' He x). exact Hx.
    + intros [m' [Hm' Hx]].
      rewrite forallb_forall in Hex. specialize (Hex m' Hm').
      assert (Hmm : exists m, In m ms /\ snode_eqb m m' = true).
      { clear IH Hall Hx. induction ms as [|y r IHr]; [discriminate Hex|].
        apply orb_true_iff in Hex. destruct Hex as [Hy|Hr].
        - exists y. split; [left; reflexivity | exact Hy].
        - destruct (IHr Hr) as [m [Hin He]]. exists m. split; [right; exact Hin | exact He]. }
      destruct Hmm as [m [Hin He]]. exists m. split; [exact Hin|].
      rewrite Forall_forall in IH. apply (IH m Hin m' He x). exact Hx.
Qed.

Lemma sdedupe_keeps_lits : forall (l seen : list snode) (x : tlit),
  In x (flat_map snode_lits l) ->
  In x (flat_map snode_lits (sdedupe snode_eqb l seen)) \/ In x (flat_map snode_lits seen).
Proof.
  induction l as [|y r IH]; intros seen x Hin; simpl in *.
  - destruct Hin.
  - apply in_app_or in Hin. destruct (existsb (snode_eqb y) seen) eqn:E.
    + destruct Hin as [Hin|Hin].
      * right. apply existsb_exists in E. destruct E as [z [Hz He]].
        apply in_flat_map. exists z. split; [exact Hz|]. apply (snode_eqb_lits y z He x). exact Hin.
      * apply IH. exact Hin.
    + simpl. destruct Hin as [Hin|Hin].
      * left. apply in_or_app. left. exact Hin.
      * destruct (IH (y :: seen) x Hin) as [H|H].
        -- left. apply in_or_app. right. exact H.
        -- simpl in H. apply in_app_or in H. destruct H as [H|H].
           ++ left. apply in_or_app. left. exact H.
           ++ right. exact H.
Qed.

Lemma scollapse_same_set : forall n x, In x (snode_lits n) <-> In x (snode_lits (scollapse n)).
Proof.
  intros n x. split; [|apply subseq_In, scollapse_subseq].
  revert x. induction n as [l|c|e|u o ms IH] using snode_ind'; intros x Hin; simpl in *; auto.
  assert (Hm : In x (flat_map snode_lits (map scollapse ms))).
  { apply in_flat_map in Hin. destruct Hin as [m [Hm Hx]]. apply in_flat_map. exists (scollapse m).
    split; [apply in_map, Hm|]. rewrite Forall_forall in IH. apply IH; assumption. }
  destruct (sdedupe_keeps_lits _ [] x Hm) as [H|H]; [exact H | destruct H].
Qed.

(* the tree of an instantiated condition flattens to the lists of Spec/Subst.v *)
Section FormInd.
  Variable P : form -> Prop.
  Hypothesis HAtom : forall p args, P (FAtom p args).
  Hypothesis HNot : forall p args, P (FNotAtom p args).
  Hypothesis HEq : forall a b, P (FEq a b).
  Hypothesis HNeq : forall a b, P (FNeq a b).
  Hypothesis HCmp : forall c l r, P (FCmp c l r).
  Hypothesis HAnd : forall l, Forall P l -> P (FAnd l).
  Hypothesis HOr : forall l, Forall P l -> P (FOr l).
  Hypothesis HForall : forall v ty b, P b -> P (FForall v ty b).

  Fixpoint form_ind' (f : form) : P f :=
    let go := fix go (l : list form) : Forall P l :=
                match l with
                | [] => Forall_nil _
                | x :: r => Forall_cons _ (form_ind' x) (go r)
                end in
    match f with
    | FAtom p args => HAtom p args
    | FNotAtom p args => HNot p args
    | FEq a b => HEq a b
    | FNeq a b => HNeq a b
    | FCmp c l r => HCmp c l r
    | FAnd l => HAnd l (go l)
    | FOr l => HOr l (go l)
    | FForall v ty b => HForall v ty b (form_ind' b)
    end.
End FormInd.

Lemma flat_map_map_ext : forall {A B C} (f : B -> list C) (g : A -> B) (h : A -> list C) (l : list A),
  Forall (fun x => f (g x) = h x) l -> flat_map f (map g l) = flat_map h l.
Proof.
  intros A B C f g h l H. induction H as [|x r Hx Hr IH]; simpl; [reflexivity|]. rewrite Hx, IH. reflexivity.
Qed.

Lemma form_node_lits : forall consts f scope sg, snode_lits (form_node consts scope sg f) = form_lits consts scope sg f.
Proof.
  intros consts. induction f as [p args|p args|a b|a b|c l r|l IH|l IH|v ty b IH] using form_ind'; intros scope sg;
    simpl; try reflexivity.
  - apply flat_map_map_ext. eapply Forall_impl; [|exact IH]. intros x Hx. apply Hx.
  - apply flat_map_map_ext. eapply Forall_impl; [|exact IH]. intros x Hx. apply Hx.
  - rewrite app_nil_r. apply IH.
Qed.

Lemma form_lits_min_subseq_lemma : forall consts scope sg f,
  subseq (form_lits_min consts scope sg f) (form_lits consts scope sg f).
Proof.
  intros. unfold form_lits_min. rewrite <- form_node_lits. apply scollapse_subseq.
Qed.

Lemma form_lits_min_same_set_lemma : forall consts scope sg f x,
  In x (form_lits consts scope sg f) <-> In x (form_lits_min consts scope sg f).
Proof.
  intros. unfold form_lits_min. rewrite <- form_node_lits. apply scollapse_same_set.
Qed.

Fixpoint sdistinct_members (n : snode) : bool :=
  match n with
  | SNGroup _ _ ms => forallb sdistinct_members ms && nodup_b snode_eqb ms []
  | _ => true
  end.

Lemma scollapse_distinct : forall n, sdistinct_members n = true -> scollapse n = n.
Proof.
  induction n as [l|c|e|u o ms IH] using snode_ind'; simpl; intros H; auto.
  apply andb_true_iff in H. destruct H as [H1 H2].
  assert (Hmap : map scollapse ms = ms).
  { clear H2. induction ms as [|y r IHr]; simpl in *; auto.
    apply andb_true_iff in H1. destruct H1 as [Hy Hr]. inversion IH as [|? ? IHy IHr']; subst.
    f_equal; auto. }
  rewrite Hmap. rewrite (sdedupe_nodup snode_eqb ms [] H2). reflexivity.
Qed.

Lemma form_lits_min_exact_lemma : forall consts scope sg f,
  sdistinct_members (form_node consts scope sg f) = true ->
  form_lits_min consts scope sg f = form_lits consts scope sg f.
Proof.
  intros consts scope sg f H. unfold form_lits_min. rewrite (scollapse_distinct _ H). apply form_node_lits.
Qed.

Lemma prim_lits_min_subseq_lemma : forall consts scope sg ps,
  subseq (prim_lits_min consts scope sg ps) (prim_lits consts scope sg ps).
Proof. intros. apply sdedupe_subseq. Qed.

Lemma sdedupe_tlit_keeps : forall (l seen : list tlit) (x : tlit),
  In x l -> In x (sdedupe tlit_eqb l seen) \/ In x seen.
Proof.
  induction l as [|y r IH]; intros seen x Hin; simpl in *; [destruct Hin|].
  destruct (existsb (tlit_eqb y) seen) eqn:E.
  - destruct Hin as [Hin|Hin].
    + subst. right. apply existsb_exists in E. destruct E as [z [Hz He]]. apply tlit_eqb_eq in He. subst. exact Hz.
    + apply IH. exact Hin.
  - destruct Hin as [Hin|Hin].
    + subst. left. left. reflexivity.
    + destruct (IH (y :: seen) x Hin) as [H|H].
      * left. right. exact H.
      * destruct H as [H|H]; [left; left; exact H | right; exact H].
Qed.

Lemma prim_lits_min_same_set_lemma : forall consts scope sg ps x,
  In x (prim_lits consts scope sg ps) <-> In x (prim_lits_min consts scope sg ps).
Proof.
  intros. unfold prim_lits_min. split; [|apply subseq_In, sdedupe_subseq].
  intros Hin. destruct (sdedupe_tlit_keeps _ [] x Hin) as [H|[]]. exact H.
Qed.

(* ---------- the two shapes the exemption must NOT cover (seeded change C20_C), computed on the model ---------- *)
Definition sets_dom : mdomain :=
  {| d_name := "fleet"; d_reqs := [];
     d_types := [("vehicle", "object"); ("place", "object"); ("unit", "object"); ("truck", "vehicle")];
     d_consts := [];
     d_preds := [("at", [("?v", "vehicle"); ("?p", "place")]); ("ready", [("?u", "unit")]); ("spare", [("?u", "unit")])];
     d_funcs := []; d_actions := [] |}.

(* (and (at ?lead ?p) (at ?follow ?p)), ?lead - truck, ?follow - vehicle, called with (t1 t1 p1):
   the same atom with two typed forms: two members *)
Definition convoy_sig : signature := [("?lead", "truck"); ("?follow", "vehicle"); ("?p", "place")].
Definition convoy_pre : mpre :=
  MPre "and" [MLit true "at" ["?lead"; "?p"]; MLit true "at" ["?follow"; "?p"]] [] [].

Lemma convoy_two_literals :
  iter_pre sets_dom convoy_sig (combine (dkeys convoy_sig) ["t1"; "t1"; "p1"]) convoy_pre =
  Ok ([RL {| rl_grounded := true; rl_pos := true; rl_name := "at"; rl_args := ["t1"; "p1"]; rl_types := ["truck"; "place"] |};
       RL {| rl_grounded := true; rl_pos := true; rl_name := "at"; rl_args := ["t1"; "p1"]; rl_types := ["vehicle"; "place"] |}],
      []).
Proof. vm_compute. reflexivity. Qed.

(* (and (ready ?a) (or (ready ?b) (spare ?b))) called with (u1 u1): the literal (ready u1 - unit) is a member of two
   different sets and is iterated twice *)
Definition check_sig : signature := [("?a", "unit"); ("?b", "unit")].
Definition check_pre : mpre :=
  MPre "and" [MLit true "ready" ["?a"];
              MNested (MPre "or" [MLit true "ready" ["?b"]; MLit true "spare" ["?b"]] [] [])] [] [].
Definition ready_u1 : rlit :=
  {| rl_grounded := true; rl_pos := true; rl_name := "ready"; rl_args := ["u1"]; rl_types := ["unit"] |}.

Lemma check_three_items :
  iter_pre sets_dom check_sig (combine (dkeys check_sig) ["u1"; "u1"]) check_pre =
  Ok ([RL ready_u1; RL ready_u1;
       RL {| rl_grounded := true; rl_pos := true; rl_name := "spare"; rl_args := ["u1"]; rl_types := ["unit"] |}], []).
Proof. vm_compute. reflexivity. Qed.

(* (and (ready ?a) (ready ?b)) called with (u1 u1): one set, one typed form: ONE member (the only merge there is) *)
Lemma same_typed_form_one_member :
  iter_pre sets_dom check_sig (combine (dkeys check_sig) ["u1"; "u1"])
           (MPre "and" [MLit true "ready" ["?a"]; MLit true "ready" ["?b"]] [] []) = Ok ([RL ready_u1], []).
Proof. vm_compute. reflexivity. Qed.
