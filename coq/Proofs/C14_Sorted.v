(* C14 / C10: State.serialize prints the facts of every predicate group in sorted order of their texts (3ad2e15).
   The sorting serializer is the in-order serializer applied to the state with every group sorted ([sort_facts]); sorting
   permutes every group, and everything the theorems about the in-order serializer assume or conclude is invariant under
   such permutations.  So the theorems for [serialize] are the in-order ones at [sort_facts s].
   Stronger than before: the text no longer depends on the iteration order of the sets (serialize_text_equal). *)
From Coq Require Import List Ascii String Bool Arith NArith Lia PrimFloat Permutation Sorted.
From Verif Require Import Base.Result Base.Str Base.Sexp Base.PyDict Base.Float Model.Tokenizer Model.State Spec.Pddl Spec.State
  Proofs.C14_Text Proofs.C14_Spec Proofs.C14_Eq Proofs.C14_Main Proofs.C14_Serialize.
Import ListNotations.
Open Scope string_scope.
Open Scope list_scope.

(* ---------- the sort ---------- *)
Section Sort.
  Context {A : Type}.
  Variable key : A -> string.

  Lemma insert_by_perm x l : Permutation (insert_by key x l) (x :: l).
  Proof.
    induction l as [|y r IH]; cbn [insert_by]; [apply Permutation_refl|].
    destruct (String.leb (key x) (key y)); [apply Permutation_refl|].
    eapply perm_trans; [apply perm_skip; exact IH|apply perm_swap].
  Qed.

  Lemma sort_by_perm l : Permutation (sort_by key l) l.
  Proof.
    induction l as [|x r IH]; cbn [sort_by fold_right]; [constructor|].
    eapply perm_trans; [apply insert_by_perm|apply perm_skip; exact IH].
  Qed.

  (* sorting the texts = the texts of the list sorted by its texts *)
  Lemma map_insert_by x l : map key (insert_by key x l) = insert_by (fun s => s) (key x) (map key l).
  Proof.
    induction l as [|y r IH]; cbn [insert_by map]; [reflexivity|].
    destruct (String.leb (key x) (key y)); cbn [map]; [reflexivity|]. rewrite IH. reflexivity.
  Qed.

  Lemma map_sort_by l : map key (sort_by key l) = sort_strs (map key l).
  Proof.
    induction l as [|x r IH]; cbn [sort_by fold_right map]; [reflexivity|].
    rewrite map_insert_by. unfold sort_by in IH. rewrite IH. reflexivity.
  Qed.
End Sort.

(* ---------- the sorted list is unique among the permutations ---------- *)
Definition sleb (a b : string) : Prop := String.leb a b = true.

Lemma leb_refl a : String.leb a a = true.
Proof. destruct (String.leb_total a a) as [H|H]; exact H. Qed.

Lemma leb_trans a : forall b c, String.leb a b = true -> String.leb b c = true -> String.leb a c = true.
Proof.
  unfold String.leb.
  induction a as [|x a IH]; intros [|y b] [|z c]; cbn [String.compare];
    try (intros; reflexivity); try (intros; discriminate).
  unfold Ascii.compare.
  destruct (N.compare_spec (N_of_ascii x) (N_of_ascii y)) as [Exy|Lxy|Gxy];
    destruct (N.compare_spec (N_of_ascii y) (N_of_ascii z)) as [Eyz|Lyz|Gyz];
    destruct (N.compare_spec (N_of_ascii x) (N_of_ascii z)) as [Exz|Lxz|Gxz];
    try lia; try (intros; reflexivity); try (intros; discriminate).
  apply IH.
Qed.

Lemma insert_sorted x l : StronglySorted sleb l -> StronglySorted sleb (insert_by (fun s => s) x l).
Proof.
  induction 1 as [|y r Hr IH Hy]; cbn [insert_by]; [repeat constructor|].
  destruct (String.leb x y) eqn:E.
  - constructor; [constructor; assumption|]. constructor; [exact E|].
    rewrite Forall_forall in *. intros z Hz. apply (leb_trans x y z); [exact E|apply Hy, Hz].
  - constructor; [exact IH|].
    assert (Hyx : String.leb y x = true) by (destruct (String.leb_total x y) as [H|H]; [congruence|exact H]).
    rewrite Forall_forall in *. intros z Hz.
    apply (Permutation_in _ (insert_by_perm (fun s => s) x r)) in Hz. destruct Hz as [<-|Hz]; [exact Hyx|apply Hy, Hz].
Qed.

Lemma sort_strs_sorted l : StronglySorted sleb (sort_strs l).
Proof.
  induction l as [|x r IH]; [constructor|]. unfold sort_strs, sort_by in *. cbn [fold_right]. apply insert_sorted. exact IH.
Qed.

Lemma sorted_perm_eq l : forall l', StronglySorted sleb l -> StronglySorted sleb l' -> Permutation l l' -> l = l'.
Proof.
  induction l as [|x r IH]; intros l' Hl Hl' P.
  - apply Permutation_nil in P. subst. reflexivity.
  - destruct l' as [|y r']; [apply Permutation_sym, Permutation_nil in P; discriminate|].
    inversion Hl as [|? ? Hr Hx]; subst. inversion Hl' as [|? ? Hr' Hy]; subst.
    rewrite Forall_forall in Hx, Hy.
    assert (Exy : x = y).
    { assert (Hx' : In x (y :: r')) by (apply (Permutation_in _ P); left; reflexivity).
      assert (Hy' : In y (x :: r)) by (apply (Permutation_in _ (Permutation_sym P)); left; reflexivity).
      destruct Hx' as [E|Hx']; [auto|]. destruct Hy' as [E|Hy']; [auto|].
      apply String.leb_antisym; [apply Hx, Hy'|apply Hy, Hx']. }
    subst y. f_equal. apply IH; [assumption..|]. eapply Permutation_cons_inv. exact P.
Qed.

Lemma sort_strs_perm_eq l l' : Permutation l l' -> sort_strs l = sort_strs l'.
Proof.
  intros P. apply sorted_perm_eq; [apply sort_strs_sorted..|].
  eapply perm_trans; [apply sort_by_perm|]. eapply perm_trans; [exact P|apply Permutation_sym, sort_by_perm].
Qed.

(* ---------- what sorting keeps ---------- *)
Lemma all_preds_sorted s : Permutation (all_preds (sort_facts s)) (all_preds s).
Proof.
  unfold all_preds, sort_facts. cbn [st_preds]. induction (st_preds s) as [|g l IH]; cbn [map flat_map]; [constructor|].
  apply Permutation_app; [apply sort_by_perm|exact IH].
Qed.

Lemma forallb_perm {A} (f : A -> bool) l l' : Permutation l l' -> forallb f l = forallb f l'.
Proof.
  induction 1 as [|x l l' _ IH|x y l|l l' l'' _ IH1 _ IH2]; cbn [forallb]; [reflexivity|rewrite IH; reflexivity| |congruence].
  destruct (f x), (f y); reflexivity.
Qed.

Lemma state_ok_sorted s : state_ok (sort_facts s) = state_ok s.
Proof. unfold state_ok. rewrite (forallb_perm gp_ok _ _ (all_preds_sorted s)). reflexivity. Qed.

Lemma values_sorted s : values (sort_facts s) = values s.
Proof. reflexivity. Qed.

Lemma den_fluents_sorted s : den_fluents (sort_facts s) = den_fluents s.
Proof. reflexivity. Qed.

Lemma den_facts_sorted s : Permutation (den_facts (sort_facts s)) (den_facts s).
Proof. unfold den_facts. apply Permutation_map. apply all_preds_sorted. Qed.

Lemma den_sorted s : State_same (den (sort_facts s)) (den s).
Proof.
  split.
  - intros x. cbn [den facts]. split; intros H.
    + exact (Permutation_in _ (den_facts_sorted s) H).
    + exact (Permutation_in _ (Permutation_sym (den_facts_sorted s)) H).
  - cbn [den fluents]. rewrite den_fluents_sorted. intros k v. tauto.
Qed.


(* ---------- the sorting serializer is the in-order serializer of the sorted state ---------- *)
Section Sorted.
  Variable num_text : float -> string.

  Lemma serialize_preds_sorted_aux (l : pydict (list gpred)) : forall acc,
    fold_left (fun acc grp => acc +++ " " +++ join " " (sort_strs (map gp_untyped (snd grp)))) l acc =
    fold_left (fun acc grp => acc +++ " " +++ join " " (map gp_untyped (snd grp)))
              (map (fun kv => (fst kv, sort_by gp_untyped (snd kv))) l) acc.
  Proof.
    induction l as [|g l IH]; intros acc; cbn [fold_left map]; [reflexivity|].
    cbn [snd]. rewrite map_sort_by. apply IH.
  Qed.

  Lemma serialize_sorted s : serialize num_text s = serialize_in_order num_text (sort_facts s).
  Proof.
    unfold serialize, serialize_in_order, serialize_preds, serialize_preds_in_order.
    rewrite serialize_preds_sorted_aux. reflexivity.
  Qed.

  Lemma state_eq_sorted_self s : state_eq num_text (sort_facts s) s = true.
  Proof. apply state_eq_perm; [apply all_preds_sorted|apply Permutation_refl]. Qed.

  Lemma state_eq_sorted s t : state_eq num_text (sort_facts s) (sort_facts t) = state_eq num_text s t.
  Proof.
    destruct (state_eq num_text s t) eqn:E.
    - eapply state_eq_trans; [apply state_eq_sorted_self|]. eapply state_eq_trans; [exact E|].
      rewrite state_eq_sym. apply state_eq_sorted_self.
    - destruct (state_eq num_text (sort_facts s) (sort_facts t)) eqn:E'; [|reflexivity].
      rewrite <- E. symmetry. eapply state_eq_trans; [rewrite state_eq_sym; apply state_eq_sorted_self|].
      eapply state_eq_trans; [exact E'|apply state_eq_sorted_self].
  Qed.

  (* ---------- the theorems of Proofs/C14_Serialize.v for the sorting serializer ---------- *)
  Variable parse_num : string -> option float.

  Theorem parse_serialize_sorted m s :
    state_ok s = true -> nums_clean num_text s ->
    parse m (s2t (serialize num_text s)) = Ok (state_sexp num_text (sort_facts s)).
  Proof.
    intros Hs Hc. rewrite serialize_sorted. apply parse_serialize; [rewrite state_ok_sorted; exact Hs|exact Hc].
  Qed.

  Theorem serialize_reads_back_sorted m s :
    state_ok s = true -> nums_clean num_text s -> (forall x, In x (values s) -> num_ok num_text parse_num x) ->
    exists st, read_text parse_num m (serialize num_text s) = Some (st_init s, st) /\ State_same st (den s).
  Proof.
    intros Hs Hc Hn. rewrite serialize_sorted.
    destruct (serialize_reads_back num_text parse_num m (sort_facts s)) as (st & R & S);
      [rewrite state_ok_sorted; exact Hs|exact Hc|exact Hn|].
    exists st. split; [exact R|]. eapply State_same_trans; [exact S|apply den_sorted].
  Qed.

  Theorem serialize_injective_sorted m s t :
    state_ok s = true -> state_ok t = true -> nums_clean num_text s -> nums_clean num_text t ->
    nums_ok num_text parse_num (values s ++ values t) ->
    exists a b, read_text parse_num m (serialize num_text s) = Some (st_init s, a) /\
                read_text parse_num m (serialize num_text t) = Some (st_init t, b) /\
                (State_same a b <-> state_eq num_text s t = true).
  Proof.
    intros Hs Ht Cs Ct Hn. rewrite !serialize_sorted.
    destruct (serialize_injective num_text parse_num m (sort_facts s) (sort_facts t)) as (a & b & Ra & Rb & Iff);
      [rewrite state_ok_sorted; exact Hs|rewrite state_ok_sorted; exact Ht|exact Cs|exact Ct|exact Hn|].
    exists a, b. split; [exact Ra|]. split; [exact Rb|]. rewrite state_eq_sorted in Iff. exact Iff.
  Qed.

  Theorem state_copy_props_sorted s :
    state_eq num_text (state_copy s) s = true /\ state_eq num_text s (state_copy s) = true /\
    serialize num_text (state_copy s) = serialize num_text s.
  Proof. rewrite state_copy_id. repeat split; apply state_eq_refl. Qed.

  (* ---------- stronger than before the sort: the text does not depend on the order inside the groups ---------- *)
  (* same flag, same fluents in the same order, the same groups in the same order, each group a permutation *)
  Definition groups_permuted (a b : pydict (list gpred)) : Prop :=
    Forall2 (fun g g' => Permutation (map gp_untyped (snd g)) (map gp_untyped (snd g'))) a b.

  Lemma serialize_preds_permuted (l l' : pydict (list gpred)) : groups_permuted l l' -> forall acc,
    fold_left (fun acc grp => acc +++ " " +++ join " " (sort_strs (map gp_untyped (snd grp)))) l acc =
    fold_left (fun acc grp => acc +++ " " +++ join " " (sort_strs (map gp_untyped (snd grp)))) l' acc.
  Proof.
    induction 1 as [|g g' l l' P _ IH]; intros acc; cbn [fold_left]; [reflexivity|].
    rewrite (sort_strs_perm_eq _ _ P). apply IH.
  Qed.

  Theorem serialize_text_equal s t :
    st_init s = st_init t -> fluent_texts num_text s = fluent_texts num_text t ->
    groups_permuted (st_preds s) (st_preds t) ->
    serialize num_text s = serialize num_text t.
  Proof.
    intros Hi Hf Hg. unfold serialize, serialize_fluents, serialize_preds.
    rewrite Hi, Hf, (serialize_preds_permuted _ _ Hg ""). reflexivity.
  Qed.

  (* in particular a copy (sets rebuilt: any iteration order) prints the same text, and so does any state that differs
     only in the iteration order of its sets *)
  Corollary serialize_set_order s t :
    st_init s = st_init t -> st_fluents s = st_fluents t ->
    Forall2 (fun g g' => Permutation (snd g) (snd g')) (st_preds s) (st_preds t) ->
    serialize num_text s = serialize num_text t.
  Proof.
    intros Hi Hf Hg. apply serialize_text_equal; [exact Hi|unfold fluent_texts; rewrite Hf; reflexivity|].
    unfold groups_permuted. induction Hg as [|g g' l l' P _ IH]; constructor; [apply Permutation_map; exact P|exact IH].
  Qed.
End Sorted.
