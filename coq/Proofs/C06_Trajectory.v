(* C06: TrajectoryParser.parse_grounded_numeric_fluent (constructed with a problem) checked the argument types through a dict
   keyed by the object NAME (finding D31, repaired in 3c74fae: Model/TypeSites.trajectory_fluent_before_D31 is the old function,
   trajectory_fluent the current one).  Without a repeated argument the old check was the positional rule; with one it was not.
   Also: the local copy of parse_types with the '(:types - (x))' corner (Model/TypeSites.parse_types_code) agrees with the
   shared model on every section the shared model accepts and on every token list made of names. *)
From Coq Require Import List String Bool Arith.
From Verif Require Import Base.Result Base.Str Base.Sexp Base.PyDict Model.Types Model.Domain Model.TypeSites
  Spec.Types Proofs.C06_Sites.
Import ListNotations.
Open Scope string_scope.
Open Scope list_scope.

(* ---------- a dict built from distinct keys keeps every pair, in order ---------- *)
Lemma dset_fresh {V} (d : pydict V) k v : ~ In k (dkeys d) -> dset d k v = d ++ [(k, v)].
Proof.
  induction d as [|[k' v'] r IH]; intros Hn; [reflexivity|].
  cbn [dset]. destruct (String.eqb k k') eqn:E.
  - apply String.eqb_eq in E. subst k'. exfalso. apply Hn. left. reflexivity.
  - cbn [app]. f_equal. apply IH. intros Hin. apply Hn. right. exact Hin.
Qed.

Lemma fold_dset_distinct {V} : forall (kvs : list (string * V)) (acc : pydict V),
  NoDup (map fst kvs) -> (forall k, In k (map fst kvs) -> ~ In k (dkeys acc)) ->
  fold_left (fun a kv => dset a (fst kv) (snd kv)) kvs acc = acc ++ kvs.
Proof.
  induction kvs as [|[k v] r IH]; intros acc Hnd Hdisj; [symmetry; apply app_nil_r|].
  cbn [fold_left fst snd]. cbn [map fst] in Hnd. inversion Hnd as [|k0 l0 Hnotin Hnd']. subst k0 l0.
  rewrite dset_fresh by (apply Hdisj; left; reflexivity).
  rewrite IH.
  - rewrite <- app_assoc. reflexivity.
  - exact Hnd'.
  - intros k1 Hin1. unfold dkeys. rewrite map_app, in_app_iff. cbn [map fst]. intros [Hin|[Heq|[]]].
    + apply (Hdisj k1); [right; exact Hin1|exact Hin].
    + subst k1. contradiction.
Qed.

Lemma mapM_length {A B} (f : A -> result B) : forall l ys, mapM f l = Ok ys -> List.length ys = List.length l.
Proof.
  induction l as [|x xs IH]; intros ys H; cbn [mapM] in H.
  - injection H as <-. reflexivity.
  - destruct (f x) as [y|]; cbn [bind] in H; [|discriminate].
    destruct (mapM f xs) as [ys'|] eqn:E; cbn [bind] in H; [|discriminate].
    injection H as <-. cbn [List.length]. f_equal. apply IH. reflexivity.
Qed.

Lemma combine_fst {A B} : forall (l : list A) (l' : list B),
  List.length l' = List.length l -> map fst (combine l l') = l.
Proof.
  induction l as [|x xs IH]; intros [|y ys] H; try reflexivity; try discriminate.
  cbn [combine map fst]. f_equal. apply IH. injection H as H. exact H.
Qed.
Lemma combine_snd {A B} : forall (l : list A) (l' : list B),
  List.length l' = List.length l -> map snd (combine l l') = l'.
Proof.
  induction l as [|x xs IH]; intros [|y ys] H; try reflexivity; try discriminate.
  cbn [combine map snd]. f_equal. apply IH. injection H as H. exact H.
Qed.

(* partial: a trajectory fluent WITHOUT a repeated argument is checked by the positional rule *)
Lemma trajectory_fluent_nodup_lemma (dom : mdomain) objs f args :
  NoDup args -> trajectory_fluent_before_D31 dom objs f args = trajectory_fluent dom objs f args.
Proof.
  intros Hnd. unfold trajectory_fluent_before_D31, trajectory_fluent.
  destruct (dget (d_funcs dom) f) as [sg|]; [|reflexivity].
  destruct (negb (Nat.eqb (List.length args) (List.length sg))); [reflexivity|].
  destruct (mapM (type_of_name dom objs) args) as [tys|k] eqn:Em; cbn [bind]; [|reflexivity].
  pose proof (mapM_length _ _ _ Em) as Hlen.
  rewrite fold_dset_distinct.
  - cbn [app]. unfold dvalues. rewrite combine_snd by exact Hlen. reflexivity.
  - rewrite combine_fst by exact Hlen. exact Hnd.
  - intros k _ [].
Qed.

Lemma trajectory_fluent_positional_lemma (dom : mdomain) objs f args :
  trajectory_fluent dom objs f args = Ok tt <->
  exists sg tys, dget (d_funcs dom) f = Some sg /\ List.length args = List.length sg /\
                 mapM (type_of_name dom objs) args = Ok tys /\
                 forall t r, In (t, r) (combine tys (dvalues sg)) -> is_sub_type (d_types dom) t r = true.
Proof. exact (problem_fluent_lemma dom objs f args). Qed.

Lemma trajectory_fluent_partial_lemma (dom : mdomain) objs f args :
  NoDup args ->
  (trajectory_fluent_before_D31 dom objs f args = Ok tt <->
   exists sg tys, dget (d_funcs dom) f = Some sg /\ List.length args = List.length sg /\
                  mapM (type_of_name dom objs) args = Ok tys /\
                  forall t r, In (t, r) (combine tys (dvalues sg)) -> is_sub_type (d_types dom) t r = true).
Proof. intros Hnd. rewrite trajectory_fluent_nodup_lemma by exact Hnd. apply trajectory_fluent_positional_lemma. Qed.

(* ---------- refuted: with a repeated argument the name-keyed check is not the positional rule ---------- *)
(* types a, b (unrelated); f (?x - a ?y - b); g (?x - a ?y - a ?z - b); objects oa - a, ob - b *)
Definition t_dom : mdomain :=
  {| d_name := "w"; d_reqs := []; d_types := [("a", "object"); ("b", "object")]; d_consts := [];
     d_preds := []; d_funcs := [("f", [("?x", "a"); ("?y", "b")]); ("g", [("?x", "a"); ("?y", "a"); ("?z", "b")])];
     d_actions := [] |}.
Definition t_objs : pydict string := [("oa", "a"); ("ob", "b")].

(* (= (f oa oa) 1): the second argument is no b - accepted;  (= (g oa oa ob) 1): well typed - refused *)
Lemma trajectory_fluent_refuted_lemma :
  exists (dom : mdomain) (objs : pydict string),
    (exists f args, trajectory_fluent_before_D31 dom objs f args = Ok tt /\
                    trajectory_fluent dom objs f args = Err EAssert) /\
    (exists f args, trajectory_fluent_before_D31 dom objs f args = Err EAssert /\
                    trajectory_fluent dom objs f args = Ok tt).
Proof.
  exists t_dom, t_objs. split.
  - exists "f", ["oa"; "oa"]. split; vm_compute; reflexivity.
  - exists "g", ["oa"; "oa"; "ob"]. split; vm_compute; reflexivity.
Qed.

(* the current function on the same inputs, and on fluents without a repeated argument *)
Lemma trajectory_fluent_example_lemma :
  trajectory_fluent t_dom t_objs "f" ["oa"; "oa"] = Err EAssert /\
  trajectory_fluent t_dom t_objs "g" ["oa"; "oa"; "ob"] = Ok tt /\
  trajectory_fluent t_dom t_objs "f" ["oa"; "ob"] = Ok tt /\
  trajectory_fluent t_dom t_objs "f" ["ob"; "oa"] = Err EAssert.
Proof. repeat split; vm_compute; reflexivity. Qed.

(* ---------- the local copy of parse_types with the '- (x)' corner ---------- *)
Lemma collect_decls_code_extends_n : forall n toks same d r,
  List.length toks <= n ->
  collect_decls toks same d = Ok r -> collect_decls_code toks same d = Ok r.
Proof.
  induction n as [|n IH]; intros toks same d r Hlen H.
  - destruct toks; [exact H|cbn [List.length] in Hlen; inversion Hlen].
  - destruct toks as [|[t|sub] rest]; cbn [collect_decls collect_decls_code] in *.
    + exact H.
    + cbn [List.length] in Hlen. apply le_S_n in Hlen. destruct (String.eqb t "-").
      * destruct rest as [|[p|sub] rest']; try discriminate.
        apply IH; [cbn [List.length] in Hlen; apply Nat.le_trans with (S (List.length rest')); auto|exact H].
      * apply IH; [exact Hlen|exact H].
    + discriminate.
Qed.

(* whatever the shared model accepts, the local copy accepts with the same table *)
Lemma parse_types_code_extends_lemma toks T : parse_types toks = Ok T -> parse_types_code toks = Ok T.
Proof.
  unfold parse_types, parse_types_code. intros H.
  destruct (collect_decls toks [] []) as [[d trailing]|k] eqn:E; [|discriminate].
  rewrite (collect_decls_code_extends_n _ _ _ _ _ (Nat.le_refl _) E). exact H.
Qed.

(* on a token list made of names only (every section render gs tr) the two are the same function *)
Lemma collect_decls_code_atoms : forall n toks same d,
  List.length toks <= n ->
  Forall (fun e => match e with Atom _ => True | SList _ => False end) toks ->
  collect_decls_code toks same d = collect_decls toks same d.
Proof.
  induction n as [|n IH]; intros toks same d Hlen Hat.
  - destruct toks; [reflexivity|cbn [List.length] in Hlen; inversion Hlen].
  - destruct toks as [|[t|sub] rest]; cbn [collect_decls collect_decls_code].
    + reflexivity.
    + cbn [List.length] in Hlen. apply le_S_n in Hlen. inversion Hat as [|x l _ Hat']. subst x l.
      destruct (String.eqb t "-").
      * destruct rest as [|[p|sub] rest']; [reflexivity| |].
        -- inversion Hat' as [|x l _ Hat'']. subst x l.
           apply IH; [cbn [List.length] in Hlen; apply Nat.le_trans with (S (List.length rest')); auto|exact Hat''].
        -- inversion Hat' as [|x l Hx _]. destruct Hx.
      * apply IH; [exact Hlen|exact Hat'].
    + inversion Hat as [|x l Hx _]. destruct Hx.
Qed.

Lemma render_atoms gs tr : Forall (fun e => match e with Atom _ => True | SList _ => False end) (render gs tr).
Proof.
  unfold render. apply Forall_app. split.
  - apply Forall_forall. intros e Hin. apply in_flat_map in Hin. destruct Hin as [g [_ Hin]].
    unfold render_group in Hin. apply in_app_iff in Hin. destruct Hin as [Hin|[<-|[<-|[]]]]; [|exact I|exact I].
    apply in_map_iff in Hin. destruct Hin as [x [<- _]]. exact I.
  - apply Forall_forall. intros e Hin. apply in_map_iff in Hin. destruct Hin as [x [<- _]]. exact I.
Qed.

Lemma parse_types_code_render_lemma gs tr : parse_types_code (render gs tr) = parse_types (render gs tr).
Proof.
  unfold parse_types, parse_types_code.
  rewrite (collect_decls_code_atoms _ _ _ _ (Nat.le_refl _) (render_atoms gs tr)). reflexivity.
Qed.

(* the corner itself: '(:types - (x))' is accepted by the code (types = {object}), refused by the shared model *)
Lemma parse_types_code_corner_lemma :
  parse_types_code [Atom "-"; SList [Atom "x"]] = Ok [] /\ parse_types [Atom "-"; SList [Atom "x"]] = Err EType.
Proof. split; vm_compute; reflexivity. Qed.
