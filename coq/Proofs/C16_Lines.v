(* C16: how a joint plan line is read.  The one-pass scanner of Model/Joint.v (re.finditer for \(([\w+\s?-]+)\)) returns
   exactly the parenthesised groups of a line written  pre (g1) sep (g2) sep ... (gn) post  where every group is a
   non-empty run of class characters and no separator contains "(" - e.g. "[(a x),(nop ), (b y)]" followed by a newline;
   and a group "name arg ... arg" (single blanks, optional trailing blank as in "(nop )") is split into the member.
   Any number of members, any such separators: induction on the line. *)
From Coq Require Import List Ascii String Bool Arith Lia.
From Verif Require Import Base.Result Base.Str Base.Sexp Model.Tokenizer Model.Plan Model.Joint Proofs.C11_Tokenizer.
Import ListNotations.
Open Scope list_scope.

Definition no_lparen (s : text) : Prop := Forall (fun c => Ascii.eqb c LP = false) s.
Definition ok_group (g : text) : Prop := g <> [] /\ Forall (fun c => in_class c = true) g.

Lemma class_not_lp c : in_class c = true -> Ascii.eqb c LP = false.
Proof.
  intros H. by_ascii (fun c => implb (in_class c) (negb (Ascii.eqb c LP))) c F. rewrite H in F. simpl in F.
  apply negb_true_iff in F. exact F.
Qed.

Lemma rp_not_class : in_class RP = false. Proof. reflexivity. Qed.
Lemma rp_not_lp : Ascii.eqb RP LP = false. Proof. reflexivity. Qed.

(* outside a candidate, text without "(" is skipped *)
Lemma scan_skip s : no_lparen s -> forall rest, scan_groups (s ++ rest) None = scan_groups rest None.
Proof.
  induction 1 as [|c r Hc _ IH]; intros rest; [reflexivity|]. cbn [app scan_groups]. rewrite Hc. apply IH.
Qed.

(* inside a candidate, class characters accumulate *)
Lemma scan_class g : Forall (fun c => in_class c = true) g ->
  forall rest acc, scan_groups (g ++ rest) (Some acc) = scan_groups rest (Some (rev g ++ acc)).
Proof.
  induction 1 as [|c r Hc _ IH]; intros rest acc; [reflexivity|].
  cbn [app scan_groups]. rewrite (class_not_lp c Hc), Hc. rewrite IH. simpl. rewrite <- app_assoc. reflexivity.
Qed.

(* one parenthesised group *)
Lemma scan_group g rest o : ok_group g ->
  scan_groups (LP :: g ++ RP :: rest) o = g :: scan_groups rest None.
Proof.
  intros [Hne Hg]. cbn [scan_groups]. replace (Ascii.eqb LP LP) with true by reflexivity.
  rewrite (scan_class g Hg). cbn [scan_groups]. rewrite rp_not_lp, rp_not_class.
  replace (Ascii.eqb RP RP) with true by reflexivity. rewrite app_nil_r.
  destruct (rev g) eqn:E.
  - exfalso. apply Hne. rewrite <- (rev_involutive g), E. reflexivity.
  - rewrite <- E, rev_involutive. reflexivity.
Qed.

(* a line: a prefix, then groups each followed by a separator *)
Definition joint_line (pre : text) (items : list (text * text)) : text :=
  pre ++ flat_map (fun gs => LP :: fst gs ++ RP :: snd gs) items.

Theorem scan_groups_line pre items :
  no_lparen pre -> Forall (fun gs => ok_group (fst gs) /\ no_lparen (snd gs)) items ->
  scan_groups (joint_line pre items) None = map fst items.
Proof.
  intros Hpre Hit. unfold joint_line. rewrite (scan_skip pre Hpre).
  induction Hit as [|[g s] r [Hg Hs] _ IH]; [reflexivity|].
  cbn [flat_map fst snd map]. cbn [app]. rewrite <- app_assoc. cbn [app].
  rewrite (scan_group g _ None Hg). rewrite (scan_skip s Hs). rewrite IH. reflexivity.
Qed.

(* ---------- a group is split into name and arguments ---------- *)
Definition is_word_text (w : text) : Prop := w <> [] /\ Forall (fun c => is_ws c = false) w.

Lemma split_word w : Forall (fun c => is_ws c = false) w ->
  forall rest cur, split_aux (w ++ rest) cur = split_aux rest (rev w ++ cur).
Proof.
  induction 1 as [|c r Hc _ IH]; intros rest cur; [reflexivity|].
  cbn [app split_aux]. rewrite Hc, IH. simpl. rewrite <- app_assoc. reflexivity.
Qed.

(* "w1 w2 ... wn" with one blank between words and an optional blank run at the end *)
Fixpoint words_text (ws : list text) (tail : text) : text :=
  match ws with
  | [] => tail
  | [w] => w ++ tail
  | w :: r => w ++ SP :: words_text r tail
  end.

Lemma flush_word w k : w <> [] -> flush (rev w ++ []) k = t2s w :: k.
Proof.
  intros Hne. rewrite app_nil_r. unfold flush. destruct (rev w) eqn:E.
  - exfalso. apply Hne. rewrite <- (rev_involutive w), E. reflexivity.
  - rewrite <- E, rev_involutive. reflexivity.
Qed.

Lemma split_blank_tail tail : Forall (fun c => is_ws c = true) tail -> forall cur, split_aux tail cur = flush cur [].
Proof.
  induction 1 as [|c r Hc _ IH]; intros cur; [reflexivity|]. cbn [split_aux]. rewrite Hc, IH. reflexivity.
Qed.

Lemma split_words ws tail :
  Forall is_word_text ws -> Forall (fun c => is_ws c = true) tail ->
  py_split (words_text ws tail) = map t2s ws.
Proof.
  intros Hw Ht. unfold py_split. induction Hw as [|w r [Hne Hnw] Hr IH].
  - simpl. apply (split_blank_tail tail Ht).
  - destruct r as [|w2 r'].
    + cbn [words_text map]. rewrite (split_word w Hnw). rewrite (split_blank_tail tail Ht). apply flush_word. exact Hne.
    + change (words_text (w :: w2 :: r') tail) with (w ++ SP :: words_text (w2 :: r') tail).
      rewrite (split_word w Hnw). cbn [split_aux]. replace (is_ws SP) with true by reflexivity.
      rewrite IH. cbn [map]. apply flush_word. exact Hne.
Qed.

Lemma member_of_words name args tail :
  is_word_text name -> Forall is_word_text args -> Forall (fun c => is_ws c = true) tail ->
  member_of_group (words_text (name :: args) tail) = Ok {| ac_name := t2s name; ac_args := map t2s args |}.
Proof.
  intros Hn Ha Ht. unfold member_of_group. rewrite (split_words (name :: args) tail); [reflexivity | | exact Ht].
  constructor; assumption.
Qed.

(* ---------- the whole line ---------- *)
(* a member as (name, args, blank tail inside its parentheses); its group text; ok when all characters are class
   characters *)
Definition mtext (m : text * list text * text) : text := words_text (fst (fst m) :: snd (fst m)) (snd m).
Definition ok_member (m : text * list text * text) : Prop :=
  is_word_text (fst (fst m)) /\ Forall is_word_text (snd (fst m)) /\ Forall (fun c => is_ws c = true) (snd m) /\
  Forall (fun c => in_class c = true) (mtext m).

Lemma mtext_nonempty m : is_word_text (fst (fst m)) -> mtext m <> [].
Proof.
  destruct m as [[n a] t]. simpl. intros [Hne _]. unfold mtext. simpl.
  destruct n as [|c n']; [congruence|]. destruct a; discriminate.
Qed.

Theorem parse_joint_call_line pre (ms : list ((text * list text * text) * text)) :
  no_lparen pre ->
  Forall (fun ms => ok_member (fst ms) /\ no_lparen (snd ms)) ms ->
  parse_joint_call (t2s (joint_line pre (map (fun ms => (mtext (fst ms), snd ms)) ms))) =
  Ok (map (fun ms => {| ac_name := t2s (fst (fst (fst ms))); ac_args := map t2s (snd (fst (fst ms))) |}) ms).
Proof.
  intros Hpre Hms. unfold parse_joint_call. rewrite s2t_t2s. rewrite scan_groups_line.
  - rewrite map_map. cbn [fst]. induction Hms as [|[m s] r [[H1 [H2 [H3 H4]]] _] _ IH]; [reflexivity|].
    cbn [map mapM fst snd]. rewrite IH. unfold mtext. destruct m as [[n a] t]. cbn [fst snd] in *.
    rewrite (member_of_words n a t H1 H2 H3). reflexivity.
  - exact Hpre.
  - induction Hms as [|[m s] r [[H1 [H2 [H3 H4]]] Hs] _ IH]; [constructor|].
    constructor; [|exact IH]. cbn [fst snd]. split; [|exact Hs]. split; [apply mtext_nonempty; exact H1 | exact H4].
Qed.

(* the hypotheses hold for the line "[(move r1 l1 l2),(nop ), (load-truck t_1 p?)]" + newline *)
Definition jl_members : list ((text * list text * text) * text) :=
  [((s2t "move", [s2t "r1"; s2t "l1"; s2t "l2"], []), [","%char]);
   ((s2t "nop", [], [SP]), [","%char; SP]);
   ((s2t "load-truck", [s2t "t_1"; s2t "p?"], []), ["]"%char; LF])].

Lemma jl_hypotheses :
  no_lparen ["["%char] /\ Forall (fun ms => ok_member (fst ms) /\ no_lparen (snd ms)) jl_members.
Proof.
  assert (Hw : forall w, w <> [] -> forallb (fun c => negb (is_ws c)) w = true -> is_word_text w).
  { intros w Hne Hb. split; [exact Hne|]. apply Forall_forall. intros c Hc. rewrite forallb_forall in Hb.
    apply negb_true_iff. auto. }
  assert (Hc : forall t, forallb in_class t = true -> Forall (fun c => in_class c = true) t).
  { intros t Hb. apply Forall_forall. intros c Hin. rewrite forallb_forall in Hb. auto. }
  assert (Hb : forall t, forallb is_ws t = true -> Forall (fun c => is_ws c = true) t).
  { intros t Hbb. apply Forall_forall. intros c Hin. rewrite forallb_forall in Hbb. auto. }
  assert (Hl : forall t, forallb (fun c => negb (Ascii.eqb c LP)) t = true -> no_lparen t).
  { intros t Hbb. apply Forall_forall. intros c Hin. rewrite forallb_forall in Hbb. apply negb_true_iff. auto. }
  split; [apply Hl; reflexivity|].
  unfold jl_members. repeat (apply Forall_cons; [|]); try apply Forall_nil; cbn [fst snd]; (split; [|apply Hl; reflexivity]);
    unfold ok_member; cbn [fst snd];
    (split; [apply Hw; [discriminate | reflexivity]|]);
    (split; [repeat (apply Forall_cons; [apply Hw; [discriminate | reflexivity]|]); apply Forall_nil|]);
    (split; [apply Hb; reflexivity | apply Hc; reflexivity]).
Qed.

Lemma jl_reading :
  parse_joint_call (t2s (joint_line ["["%char] (map (fun ms => (mtext (fst ms), snd ms)) jl_members))) =
  Ok [ {| ac_name := "move"; ac_args := ["r1"; "l1"; "l2"]%string |};
       {| ac_name := "nop"; ac_args := [] |};
       {| ac_name := "load-truck"; ac_args := ["t_1"; "p?"]%string |} ].
Proof.
  destruct jl_hypotheses as [H1 H2]. rewrite (parse_joint_call_line _ jl_members H1 H2). reflexivity.
Qed.
