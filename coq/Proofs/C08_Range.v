(* C08: the parser establishes the well-formedness the round-trip theorems assume.
   What is proved here: every action accepted by parse_action (sections in the order :parameters, :precondition,
   :effect) is wf_action with respect to the tables it was parsed against, provided
     - float() reads back every numeral the exporter can print (Hnum: a fact about CPython's float / format),
     - no 'forall' of the text has an empty body (finding D83),
     - no declared predicate carries a reserved name (name hygiene).
   The tables themselves (types, constants, predicates, functions) are covered by the checker wf_mdomain evaluated
   on every parsed domain of every run. *)
From Coq Require Import List Ascii String Bool Arith Lia PrimFloat.
From Verif Require Import Base.Result Base.Str Base.Sexp Base.PyDict Base.Float
  Model.Types Model.NumExpr Model.Domain Model.DomainExporter
  Proofs.C08_Defs Proofs.C08_Trees Proofs.C08_Pre.
Import ListNotations.
Open Scope string_scope.
Open Scope list_scope.

Lemma bind_ok {A B} (r : result A) (f : A -> result B) b :
  bind r f = Ok b -> exists a, r = Ok a /\ f a = Ok b.
Proof. destruct r; simpl; intros H; [eauto|discriminate]. Qed.

Lemma atoms_of_ok l names : atoms_of l = Ok names -> l = map Atom names.
Proof.
  revert names. induction l as [|x xs IH]; intros names H; simpl in H.
  - injection H as <-. reflexivity.
  - destruct x as [s|sub]; [|discriminate]. apply bind_ok in H. destruct H as (rs & Hrs & Hok).
    injection Hok as <-. rewrite (IH rs Hrs). reflexivity.
Qed.

Section Range.
  Variable num : numparser.
  Variable funcs : pydict signature.
  Variable d : nat.
  Hypothesis Hnum : forall s x, num s = Some x -> num_ok num d x = true.

  Lemma leaf_number_wf s t : leaf_number num s = Ok t -> wf_tree num funcs d t = true /\ is_tnum t = true.
  Proof.
    unfold leaf_number. destruct (str_in s legal_numerical); [discriminate|].
    destruct (num s) as [x|] eqn:E; [|discriminate]. intros H. injection H as <-.
    split; [exact (Hnum s x E)|reflexivity].
  Qed.

  Lemma all_atoms_inv l : all_atoms l = true -> exists names, l = map Atom names.
  Proof.
    induction l as [|x xs IH]; intros H; [exists []; reflexivity|].
    simpl in H. destruct x as [s|sub]; [|discriminate]. destruct (IH H) as (names & ->).
    exists (s :: names). reflexivity.
  Qed.

  Lemma construct_wf : forall fuel e t,
    construct num funcs fuel e = Ok t ->
    wf_tree num funcs d t = true /\ (match e with SList _ => is_tnum t = false | Atom _ => True end).
  Proof.
    induction fuel as [|fu IH]; intros e t H; [discriminate|].
    destruct e as [s|l]; cbn [construct] in H.
    - destruct (leaf_number_wf s t H) as [Hw _]. split; [exact Hw|exact I].
    - destruct (all_atoms l) eqn:Ea.
      + destruct (all_atoms_inv l Ea) as (names & ->). destruct names as [|h args]; [discriminate|].
        cbn [map] in H. destruct (str_in h numeric_ops) eqn:Eh.
        * destruct args as [|a [|b [|c r]]]; cbn [map] in H; try discriminate.
          destruct (num a) as [x|] eqn:Ex; [|discriminate]. destruct (num b) as [y|] eqn:Ey; [|discriminate].
          injection H as <-. cbn [wf_tree is_tnum andb]. rewrite (Hnum a x Ex), (Hnum b y Ey), Eh. split; reflexivity.
        * destruct (dget funcs h) as [sg|] eqn:Esg; [|discriminate].
          rewrite atoms_of_map_atom in H. cbn [bind] in H.
          destruct (Nat.eqb (List.length args) (List.length sg)) eqn:El; [|discriminate].
          cbn [negb] in H. destruct (has_dup args) eqn:Ed; [discriminate|].
          injection H as <-. cbn [wf_tree is_tnum]. rewrite Eh, Esg, El, Ed. split; reflexivity.
      + destruct l as [|[h|sub] [|a [|b [|? ?]]]]; try discriminate.
        apply bind_ok in H. destruct H as (ta & Hta & H). apply bind_ok in H. destruct H as (tb & Htb & H).
        injection H as <-. destruct (IH a ta Hta) as [Wa Na]. destruct (IH b tb Htb) as [Wb Nb].
        cbn [wf_tree is_tnum]. rewrite Wa, Wb. cbn [andb].
        assert (Hn : is_tnum ta && is_tnum tb = false).
        { cbn [all_atoms forallb] in Ea. destruct a as [sa|la]; [|rewrite Na; reflexivity].
          destruct b as [sb|lb]; [discriminate|]. rewrite Nb. apply andb_false_r. }
        rewrite Hn. split; reflexivity.
  Qed.
End Range.

(* ---------- no quantifier of the text has an empty body ---------- *)
Definition is_vac_forall (l : list sexp) : bool :=
  match l with
  | Atom h :: _ :: SList [_] :: _ => String.eqb h "forall"
  | _ => false
  end.

Fixpoint no_vac (e : sexp) : bool :=
  match e with
  | Atom _ => true
  | SList l => negb (is_vac_forall l) &&
               (fix go (l : list sexp) : bool := match l with [] => true | x :: r => no_vac x && go r end) l
  end.

Lemma no_vac_slist l : no_vac (SList l) = negb (is_vac_forall l) && forallb no_vac l.
Proof. reflexivity. Qed.

Definition pre_size (p : mpre) : nat :=
  match p with MPre _ os eqs neqs => List.length os + List.length eqs + List.length neqs end.

Lemma vacuous_size p : vacuous_body p = true <-> pre_size p = 0.
Proof.
  destruct p as [op os eqs neqs]. cbn [vacuous_body pre_size].
  destruct os, eqs, neqs; cbn; split; intros H; try reflexivity; try discriminate; try lia.
Qed.

Section RangePre.
  Variable num : numparser.
  Variable tt : typetable.
  Variable consts : pydict string.
  Variable preds funcs : pydict signature.
  Variable d : nat.
  Hypothesis Hnum : forall s x, num s = Some x -> num_ok num d x = true.
  (* no function is named like a comparison operator (it would turn '(<= ...)' into a function application) *)
  Hypothesis Hfres : forall k, str_in k ("=" :: comparison_ops) = true -> dget funcs k = None.
  (* float() accepts no token that begins with '<' or '>' *)
  Hypothesis Hnum_cmp : forall c r x, num (String c r) = Some x -> str_in (String c EmptyString) comparison_ops = false.

  Notation wfp := (wf_pre num (type_known tt) (dmem consts) preds funcs d).
  Notation wfc := (wf_cond num (type_known tt) (dmem consts) preds funcs d).
  Notation pp := (parse_pre num tt consts preds funcs).

  Lemma wfp_unfold sg op os eqs neqs : wfp sg (MPre op os eqs neqs) = forallb (wfc sg) os.
  Proof. reflexivity. Qed.

  Lemma wfp_add_operand sg c root : wfp sg root = true -> wfc sg c = true -> wfp sg (add_operand c root) = true.
  Proof.
    destruct root as [op os eqs neqs]. cbn [add_operand]. rewrite !wfp_unfold, forallb_app. cbn [forallb].
    intros -> ->. reflexivity.
  Qed.
  Lemma wfp_add_eq sg pr root : wfp sg (add_eq pr root) = wfp sg root.
  Proof. destruct root; reflexivity. Qed.
  Lemma wfp_add_neq sg pr root : wfp sg (add_neq pr root) = wfp sg root.
  Proof. destruct root; reflexivity. Qed.

  Lemma size_add_operand c root : pre_size (add_operand c root) = S (pre_size root).
  Proof. destruct root as [op os eqs neqs]. cbn [add_operand pre_size]. rewrite app_length. cbn. lia. Qed.
  Lemma size_add_eq pr root : pre_size (add_eq pr root) = S (pre_size root).
  Proof. destruct root as [op os eqs neqs]. cbn [add_eq pre_size]. rewrite app_length. cbn. lia. Qed.
  Lemma size_add_neq pr root : pre_size (add_neq pr root) = S (pre_size root).
  Proof. destruct root as [op os eqs neqs]. cbn [add_neq pre_size]. rewrite app_length. cbn. lia. Qed.
  Lemma op_add_operand c root : pre_op (add_operand c root) = pre_op root. Proof. destruct root; reflexivity. Qed.
  Lemma op_add_eq pr root : pre_op (add_eq pr root) = pre_op root. Proof. destruct root; reflexivity. Qed.
  Lemma op_add_neq pr root : pre_op (add_neq pr root) = pre_op root. Proof. destruct root; reflexivity. Qed.

  Lemma untyped_wf sg pos e l :
    parse_untyped_predicate sg consts pos e = Ok l ->
    wf_args (dmem consts) sg (l_args l) = true /\ l_pos l = pos /\ head_of e = Ok (l_name l).
  Proof.
    unfold parse_untyped_predicate. destruct e as [s|[|[n|sub] args]]; try discriminate.
    intros H. apply bind_ok in H. destruct H as (args' & Ha & H).
    destruct (forallb (fun a => dmem sg a || dmem consts a) args') eqn:Ek; [|discriminate]. cbn [negb] in H.
    destruct (has_dup args') eqn:Ed; [discriminate|]. injection H as <-. cbn [l_args l_pos l_name].
    unfold wf_args. rewrite Ek, Ed. repeat split; reflexivity.
  Qed.

  (* a numeric condition as the parser builds it *)
  Lemma construct_numcond h rest t :
    str_in h ("=" :: comparison_ops) = true ->
    (String.eqb h "=" = true -> exists l r, rest = SList l :: r) ->
    construct num funcs (tree_fuel (SList (Atom h :: rest))) (SList (Atom h :: rest)) = Ok t ->
    wf_numcond num funcs d t = true.
  Proof.
    intros Hh Heq H. unfold tree_fuel in H.
    pose proof (construct_wf num funcs d Hnum _ _ _ H) as [Hw _].
    cbn [construct] in H. destruct (all_atoms (Atom h :: rest)) eqn:Ea.
    - assert (Hno : str_in h numeric_ops = false).
      { cbn [str_in comparison_ops] in Hh. cbn [str_in numeric_ops].
        repeat (apply orb_true_iff in Hh; destruct Hh as [Hh|Hh]); try discriminate;
          apply String.eqb_eq in Hh; subst; reflexivity. }
      rewrite Hno, (Hfres h Hh) in H. discriminate.
    - destruct rest as [|a [|b [|? ?]]]; try discriminate.
      apply bind_ok in H. destruct H as (ta & Hta & H). apply bind_ok in H. destruct H as (tb & Htb & H).
      injection H as <-. cbn [wf_numcond]. rewrite Hw. cbn [andb].
      destruct (String.eqb h "=") eqn:E.
      + destruct (Heq eq_refl) as (l & r & Hl). injection Hl as -> _.
        destruct (construct_wf num funcs d Hnum _ _ _ Hta) as [_ Hn]. rewrite Hn. apply orb_true_r.
      + cbn [str_in] in Hh. rewrite E in Hh. cbn [orb] in Hh. rewrite Hh. reflexivity.
  Qed.

  Theorem parse_pre_wf : forall fuel sg root nodes p,
    pp fuel sg root nodes = Ok p -> forallb no_vac nodes = true -> wfp sg root = true ->
    wfp sg p = true /\ pre_op p = pre_op root /\ pre_size p = pre_size root + List.length nodes.
  Proof.
    induction fuel as [|fu IH]; intros sg root nodes p H Hnv Hroot; [discriminate|].
    destruct nodes as [|node rest]; cbn [parse_pre] in H.
    - injection H as <-. repeat split; [exact Hroot|cbn; lia].
    - cbn [forallb] in Hnv. apply andb_true_iff in Hnv. destruct Hnv as [Hnode Hrest].
      apply bind_ok in H. destruct H as (h & Hh & H). apply bind_ok in H. destruct H as (root' & Hstep & H).
      assert (Hinv : wfp sg root' = true /\ pre_op root' = pre_op root /\ pre_size root' = S (pre_size root)).
      { destruct (String.eqb h "and" || String.eqb h "or") eqn:Econ.
        { (* nested and / or *)
          destruct node as [s|[|x subs]]; try discriminate.
          apply bind_ok in Hstep. destruct Hstep as (nested & Hn & Hs). injection Hs as <-.
          rewrite no_vac_slist in Hnode. apply andb_true_iff in Hnode. destruct Hnode as [_ Hsubs].
          cbn [forallb] in Hsubs. apply andb_true_iff in Hsubs. destruct Hsubs as [_ Hsubs].
          destruct (IH sg (MPre h [] [] []) subs nested Hn Hsubs eq_refl) as (W & O & _).
          split; [|split; [apply op_add_operand|apply size_add_operand]].
          apply wfp_add_operand; [exact Hroot|].
          change (wfc sg (MNested nested)) with (is_connective (pre_op nested) && wfp sg nested).
          rewrite O, W. cbn [pre_op]. unfold is_connective. rewrite Econ. reflexivity. }
        destruct (dmem preds h) eqn:Epred.
        { apply bind_ok in Hstep. destruct Hstep as (l & Hl & Hs). injection Hs as <-.
          destruct (untyped_wf sg true node l Hl) as (Wa & _ & Hn). rewrite Hh in Hn. injection Hn as <-.
          split; [|split; [apply op_add_operand|apply size_add_operand]].
          apply wfp_add_operand; [exact Hroot|].
          change (wfc sg (MLit true h (l_args l))) with (negb (is_connective h) && dmem preds h && wf_args (dmem consts) sg (l_args l)).
          unfold is_connective. rewrite Econ, Epred, Wa. reflexivity. }
        destruct (String.eqb h "not") eqn:Enot.
        { destruct node as [s|[|x [|inner r]]]; try discriminate.
          apply bind_ok in Hstep. destruct Hstep as (ih & Hih & Hs).
          destruct (String.eqb ih "=") eqn:Eih.
          - destruct inner as [s|[|y [|[a|?] [|[b|?] r2]]]]; try discriminate; injection Hs as <-.
            rewrite wfp_add_neq, op_add_neq, size_add_neq. repeat split; exact Hroot.
          - apply bind_ok in Hs. destruct Hs as (l & Hl & Hs). injection Hs as <-.
            destruct (untyped_wf sg false inner l Hl) as (Wa & _ & Hn). rewrite Hih in Hn. injection Hn as <-.
            split; [|split; [apply op_add_operand|apply size_add_operand]].
            apply wfp_add_operand; [exact Hroot|].
            change (wfc sg (MLit false ih (l_args l))) with (negb (String.eqb ih "=") && wf_args (dmem consts) sg (l_args l)).
            rewrite Eih, Wa. reflexivity. }
        destruct (String.eqb h "=") eqn:Eeq.
        { destruct node as [s|[|x [|[a|la] r]]]; try discriminate.
          - (* object equality *)
            destruct r as [|[b|lb] r2]; try discriminate. injection Hstep as <-.
            rewrite wfp_add_eq, op_add_eq, size_add_eq. repeat split; exact Hroot.
          - (* numeric equality *)
            apply bind_ok in Hstep. destruct Hstep as (t & Ht & Hs). injection Hs as <-.
            destruct x as [hx|?]; [|discriminate]. cbn [head_of] in Hh. injection Hh as ->.
            split; [|split; [apply op_add_operand|apply size_add_operand]].
            apply wfp_add_operand; [exact Hroot|].
            change (wfc sg (MNum t)) with (wf_numcond num funcs d t).
            apply (construct_numcond h (SList la :: r) t).
            + apply String.eqb_eq in Eeq. subst. reflexivity.
            + intros _. exists la, r. reflexivity.
            + exact Ht. }
        destruct (str_in h comparison_ops) eqn:Ecmp.
        { apply bind_ok in Hstep. destruct Hstep as (t & Ht & Hs). injection Hs as <-.
          destruct node as [s|[|[hx|?] r]]; try discriminate.
          - (* a bare token as a condition: construct reads it as a number and fails to be a comparison *)
            cbn [head_of] in Hh. destruct s; [discriminate|]. injection Hh as <-.
            unfold tree_fuel in Ht. cbn [construct size] in Ht.
            split; [|split; [apply op_add_operand|apply size_add_operand]].
            apply wfp_add_operand; [exact Hroot|].
            exfalso. unfold leaf_number in Ht.
            destruct (str_in (String a s) legal_numerical) eqn:El; [discriminate|].
            destruct (num (String a s)) as [x|] eqn:En; [|discriminate].
            rewrite (Hnum_cmp a s x En) in Ecmp. discriminate.
          - cbn [head_of] in Hh. injection Hh as ->.
            split; [|split; [apply op_add_operand|apply size_add_operand]].
            apply wfp_add_operand; [exact Hroot|].
            change (wfc sg (MNum t)) with (wf_numcond num funcs d t).
            apply (construct_numcond h r t).
            + cbn [str_in]. rewrite Ecmp. apply orb_true_r.
            + intros E. rewrite E in Eeq. discriminate.
            + exact Ht. }
        destruct (String.eqb h "forall") eqn:Efa; [|discriminate].
        destruct node as [s|[|x [|[s2|[|[v|?] [|mid [|[ty|?] [|? ?]]]]] [|body r]]]]; try discriminate.
        apply bind_ok in Hstep. destruct Hstep as (bh & Hbh & Hs).
        destruct (String.eqb bh "and" || String.eqb bh "or") eqn:Ebh; [|discriminate]. cbn [negb] in Hs.
        destruct (type_known tt ty) eqn:Ety; [|discriminate]. cbn [negb] in Hs.
        destruct body as [s3|[|y subs]]; try discriminate.
        apply bind_ok in Hs. destruct Hs as (u & Hu & Hs). injection Hs as <-.
        rewrite no_vac_slist in Hnode. apply andb_true_iff in Hnode. destruct Hnode as [Hvac Hsub].
        cbn [forallb] in Hsub. repeat (apply andb_true_iff in Hsub; destruct Hsub as [? Hsub]).
        match goal with Hb : no_vac (SList (y :: subs)) = true |- _ =>
          rewrite no_vac_slist in Hb; apply andb_true_iff in Hb; destruct Hb as [_ Hb];
          cbn [forallb] in Hb; apply andb_true_iff in Hb; destruct Hb as [_ Hsubs] end.
        destruct (IH (dset sg v ty) (MPre bh [] [] []) subs u Hu Hsubs eq_refl) as (W & O & S).
        split; [|split; [apply op_add_operand|apply size_add_operand]].
        apply wfp_add_operand; [exact Hroot|].
        change (wfc sg (MUniv v ty u)) with
          (negb (vacuous_body u) && is_connective (pre_op u) && type_known tt ty && wfp (dset sg v ty) u).
        rewrite O, W, Ety. cbn [pre_op]. unfold is_connective. rewrite Ebh.
        assert (Hnv : vacuous_body u = false).
        { destruct (vacuous_body u) eqn:Ev; [|reflexivity]. apply vacuous_size in Ev. rewrite S in Ev. cbn [pre_size] in Ev.
          destruct x as [hx|?]; [|discriminate]. cbn [head_of] in Hh. injection Hh as ->.
          cbn [is_vac_forall] in Hvac. destruct subs as [|? ?]; [|cbn in Ev; lia].
          rewrite Efa in Hvac. discriminate. }
        rewrite Hnv. reflexivity. }
      destruct Hinv as (W' & O' & S').
      destruct (IH sg root' rest p H Hrest W') as (W & O & S).
      repeat split; [exact W|congruence|]. rewrite S, S'. cbn [List.length]. lia.
  Qed.
End RangePre.

(* ---------- typed lists ---------- *)
Section RangeSig.
  Variable tt : typetable.

  Definition sig_inv (sg : signature) : Prop :=
    NoDup (dkeys sg) /\ forallb (fun pt => starts_with_q (fst pt) && type_known tt (snd pt)) sg = true.

  Lemma dset_keys_in {V} (d : pydict V) k v k' : In k' (dkeys (dset d k v)) -> k' = k \/ In k' (dkeys d).
  Proof.
    induction d as [|[k0 v0] r IH]; cbn [dset dkeys map fst]; intros H.
    - destruct H as [<-|[]]. left. reflexivity.
    - destruct (String.eqb k k0) eqn:E; cbn [map fst] in H.
      + right. exact H.
      + destruct H as [<-|H]; [right; left; reflexivity|]. destruct (IH H) as [->|Hin]; [left; reflexivity|right; right; exact Hin].
  Qed.

  Lemma dset_inv sg p ty : sig_inv sg -> starts_with_q p = true -> type_known tt ty = true -> sig_inv (dset sg p ty).
  Proof.
    intros [Hnd Hall] Hq Hty. induction sg as [|[k v] r IH]; cbn [dset].
    - split; [constructor; [intros []|constructor]|]. cbn. rewrite Hq, Hty. reflexivity.
    - cbn [dkeys map fst] in Hnd. inversion Hnd as [|? ? Hk Hr]; subst.
      cbn [forallb fst snd] in Hall. apply andb_true_iff in Hall. destruct Hall as [Hkv Hrest].
      destruct (String.eqb p k) eqn:E.
      + split; [exact Hnd|]. cbn [forallb fst snd]. apply String.eqb_eq in E. subst k.
        rewrite Hq, Hty, Hrest. reflexivity.
      + destruct (IH Hr Hrest) as [I1 I2]. split.
        * cbn [dkeys map fst]. constructor; [|exact I1]. intros Hin. apply dset_keys_in in Hin.
          destruct Hin as [->|Hin]; [rewrite String.eqb_refl in E; discriminate|contradiction].
        * cbn [forallb fst snd]. rewrite Hkv, I2. reflexivity.
  Qed.

  Lemma fold_dset_inv ty : forall grouped sg,
    sig_inv sg -> forallb starts_with_q grouped = true -> type_known tt ty = true ->
    sig_inv (fold_left (fun acc p => dset acc p ty) grouped sg).
  Proof.
    induction grouped as [|p r IH]; intros sg Hs Hg Hty; [exact Hs|].
    cbn [forallb] in Hg. apply andb_true_iff in Hg. destruct Hg as [Hp Hr]. cbn [fold_left].
    apply IH; [apply dset_inv; assumption|exact Hr|exact Hty].
  Qed.

  Lemma parse_signature_aux_wf : forall toks grouped sg sg',
    parse_signature_aux tt toks grouped sg = Ok sg' ->
    sig_inv sg -> forallb starts_with_q grouped = true -> sig_inv sg'.
  Proof.
    (* the recursion skips two tokens after a '-': induction on an upper bound of the length *)
    assert (H : forall n toks, List.length toks <= n -> forall grouped sg sg',
                parse_signature_aux tt toks grouped sg = Ok sg' ->
                sig_inv sg -> forallb starts_with_q grouped = true -> sig_inv sg').
    { induction n as [|n IH]; intros toks Hlen grouped sg sg' H Hs Hg.
      - destruct toks; [|cbn in Hlen; lia]. cbn in H. injection H as <-.
        apply fold_dset_inv; [exact Hs|exact Hg|reflexivity].
      - destruct toks as [|[t|sub] rest]; cbn [parse_signature_aux] in H.
        + injection H as <-. apply fold_dset_inv; [exact Hs|exact Hg|reflexivity].
        + destruct (String.eqb t "-") eqn:Ed.
          * destruct rest as [|[ty|sub] rest']; try discriminate.
            rewrite Hg in H. cbn [negb] in H.
            destruct (type_known tt ty) eqn:Ety; cbn [negb] in H.
            -- apply (IH rest' ltac:(cbn in Hlen; lia) [] _ sg' H); [|reflexivity].
               apply fold_dset_inv; assumption.
            -- destruct grouped; [|discriminate].
               apply (IH rest' ltac:(cbn in Hlen; lia) [] sg sg' H Hs eq_refl).
          * destruct (starts_with_q t) eqn:Eq; [|discriminate]. cbn [negb] in H.
            apply (IH rest ltac:(cbn in Hlen; lia) (grouped ++ [t]) sg sg' H Hs).
            rewrite forallb_app, Hg. cbn. rewrite Eq. reflexivity.
        + discriminate. }
    intros toks. apply (H (List.length toks) toks (le_n _)).
  Qed.

  Lemma parse_signature_wf toks sg : parse_signature tt toks = Ok sg -> wf_sig (type_known tt) sg = true.
  Proof.
    unfold parse_signature. intros H.
    destruct (parse_signature_aux_wf toks [] [] sg H) as [Hnd Hall]; [split; [constructor|reflexivity]|reflexivity|].
    unfold wf_sig. rewrite Hall, andb_true_r. apply negb_true_iff.
    clear -Hnd. induction Hnd as [|x xs Hx _ IH]; [reflexivity|]. cbn [has_dup]. rewrite IH, orb_false_r.
    destruct (str_in x xs) eqn:E; [|reflexivity]. apply str_in_In in E. contradiction.
  Qed.
End RangeSig.

(* ---------- lower() is idempotent ---------- *)
Lemma lower_ascii_idem c : lower_ascii (lower_ascii c) = lower_ascii c.
Proof.
  apply Ascii.eqb_eq.
  apply (forall_ascii (fun c => Ascii.eqb (lower_ascii (lower_ascii c)) (lower_ascii c))). vm_compute. reflexivity.
Qed.

Lemma lower_string_idem s : lower_string (lower_string s) = lower_string s.
Proof.
  unfold lower_string. rewrite s2t_t2s. unfold lower_text. rewrite map_map. f_equal.
  apply map_ext. intros c. apply lower_ascii_idem.
Qed.

(* ---------- effects and the whole action ---------- *)
Section RangeEff.
  Variable num : numparser.
  Variable tt : typetable.
  Variable consts : pydict string.
  Variable preds funcs : pydict signature.
  Variable dpre deff : nat.
  Hypothesis Hnum : forall d, d = dpre \/ d = deff -> forall s x, num s = Some x -> num_ok num d x = true.
  Hypothesis Hfres : forall k, str_in k ("=" :: comparison_ops ++ assignment_ops) = true -> dget funcs k = None.
  Hypothesis Hnum_cmp : forall c r x, num (String c r) = Some x -> str_in (String c EmptyString) comparison_ops = false.

  Notation tyk := (type_known tt).
  Notation ck := (dmem consts).

  Lemma Hfres_cmp k : str_in k ("=" :: comparison_ops) = true -> dget funcs k = None.
  Proof.
    intros H. apply Hfres. cbn [str_in comparison_ops assignment_ops app] in *.
    repeat (apply orb_true_iff in H; destruct H as [H|H]); try discriminate; rewrite H; repeat rewrite orb_true_r; reflexivity.
  Qed.
  Lemma Hfres_asg k : str_in k assignment_ops = true -> dget funcs k = None.
  Proof.
    intros H. apply Hfres. cbn [str_in comparison_ops assignment_ops app] in *.
    repeat (apply orb_true_iff in H; destruct H as [H|H]); try discriminate; rewrite H; repeat rewrite orb_true_r; reflexivity.
  Qed.

  Lemma assignment_not_single c : str_in (String c EmptyString) assignment_ops = false.
  Proof.
    cbn [str_in assignment_ops String.eqb]. destruct (Ascii.eqb c "a"), (Ascii.eqb c "i"), (Ascii.eqb c "d"); reflexivity.
  Qed.

  Lemma assignment_not_numeric h : str_in h assignment_ops = true -> str_in h numeric_ops = false.
  Proof.
    cbn [str_in assignment_ops]. intros H.
    repeat (apply orb_true_iff in H; destruct H as [H|H]); try discriminate; apply String.eqb_eq in H; subst; reflexivity.
  Qed.

  (* a numeric effect as the parser builds it *)
  Lemma construct_numeff e h t :
    head_of e = Ok h -> str_in h assignment_ops = true ->
    construct num funcs (tree_fuel e) e = Ok t -> wf_numeff num funcs deff t = true.
  Proof.
    intros Hh Ha H. unfold tree_fuel in H.
    pose proof (construct_wf num funcs deff (Hnum deff (or_intror eq_refl)) _ _ _ H) as [Hw _].
    destruct e as [s|l].
    - exfalso. cbn [head_of] in Hh. destruct s as [|c r]; [discriminate|]. injection Hh as <-.
      rewrite assignment_not_single in Ha. discriminate.
    - destruct l as [|[hx|?] rest]; try discriminate. cbn [head_of] in Hh. injection Hh as ->.
      cbn [construct] in H. destruct (all_atoms (Atom h :: rest)) eqn:Ea.
      + rewrite (assignment_not_numeric h Ha), (Hfres_asg h Ha) in H. discriminate.
      + destruct rest as [|a [|b [|? ?]]]; try discriminate.
        apply bind_ok in H. destruct H as (ta & Hta & H). apply bind_ok in H. destruct H as (tb & Htb & H).
        injection H as <-. cbn [wf_numeff]. rewrite Hw, Ha. reflexivity.
  Qed.

  Lemma parse_result_wf sg e r :
    parse_result num consts funcs sg e = Ok r ->
    match r with
    | inl l => wf_reslit ck sg l = true
    | inr t => wf_numeff num funcs deff t = true
    end.
  Proof.
    unfold parse_result. intros H. apply bind_ok in H. destruct H as (h & Hh & H).
    destruct (String.eqb h "not") eqn:Enot.
    - destruct e as [s|[|x [|inner rest]]]; try discriminate.
      apply bind_ok in H. destruct H as (l & Hl & H). injection H as <-.
      destruct (untyped_wf consts sg false inner l Hl) as (Wa & Hp & _).
      unfold wf_reslit. rewrite Hp, Wa. reflexivity.
    - destruct (str_in h assignment_ops) eqn:Ea.
      + apply bind_ok in H. destruct H as (t & Ht & H). injection H as <-. apply (construct_numeff e h t Hh Ea Ht).
      + apply bind_ok in H. destruct H as (l & Hl & H). injection H as <-.
        destruct (untyped_wf consts sg true e l Hl) as (Wa & Hp & Hn). rewrite Hh in Hn. injection Hn as Hn.
        unfold wf_reslit. rewrite Hp, Wa, <- Hn. cbn [str_in]. rewrite Enot, Ea. reflexivity.
  Qed.

  Lemma split_results_wf sg rs :
    Forall (fun r => match r with inl l => wf_reslit ck sg l = true | inr t => wf_numeff num funcs deff t = true end) rs ->
    forallb (wf_reslit ck sg) (fst (split_results rs)) = true /\
    forallb (wf_numeff num funcs deff) (snd (split_results rs)) = true.
  Proof.
    unfold split_results. cbn [fst snd]. induction 1 as [|r rs Hr _ IH]; [split; reflexivity|].
    destruct IH as [I1 I2]. destruct r as [l|t]; cbn [flat_map app forallb]; rewrite ?Hr, ?I1, ?I2; split; reflexivity.
  Qed.

  Lemma mapM_forall {A B} (f : A -> result B) (P : B -> Prop) l rs :
    (forall x y, f x = Ok y -> P y) -> mapM f l = Ok rs -> Forall P rs.
  Proof.
    intros Hf. revert rs. induction l as [|x xs IH]; intros rs H; cbn [mapM] in H.
    - injection H as <-. constructor.
    - apply bind_ok in H. destruct H as (y & Hy & H). apply bind_ok in H. destruct H as (ys & Hys & H).
      injection H as <-. constructor; [apply (Hf x y Hy)|apply IH; exact Hys].
  Qed.

  Lemma condeff_wf sg e ce :
    parse_conditional_effect num tt consts preds funcs sg e = Ok ce -> no_vac e = true ->
    wf_condeff num tyk ck preds funcs dpre deff sg ce = true.
  Proof.
    unfold parse_conditional_effect. intros H Hnv.
    destruct e as [s|[|[w|?] rest]]; try discriminate.
    repeat match type of H with
           | context [match ?s with EmptyString => _ | String _ _ => _ end] =>
               is_var s; destruct s as [|[[] [] [] [] [] [] [] []] ?]; try discriminate
           end.
    destruct rest as [|cond [|res [|? ?]]]; try discriminate.
    apply bind_ok in H. destruct H as (ch & Hch & H). apply bind_ok in H. destruct H as (ante & Hante & H).
    apply bind_ok in H. destruct H as (rh & Hrh & H). apply bind_ok in H. destruct H as (rs & Hrs & H).
    rewrite no_vac_slist in Hnv. apply andb_true_iff in Hnv. destruct Hnv as [_ Hnv].
    cbn [forallb] in Hnv. apply andb_true_iff in Hnv. destruct Hnv as [_ Hnv].
    apply andb_true_iff in Hnv. destruct Hnv as [Hcond _].
    assert (Hnodes : forallb no_vac (if String.eqb ch "and" then match cond with SList (_ :: subs) => subs | _ => [] end else [cond]) = true).
    { destruct (String.eqb ch "and").
      - destruct cond as [s|[|x subs]]; try reflexivity. rewrite no_vac_slist in Hcond.
        apply andb_true_iff in Hcond. destruct Hcond as [_ Hc]. cbn [forallb] in Hc. apply andb_true_iff in Hc. apply Hc.
      - cbn [forallb]. rewrite Hcond. reflexivity. }
    destruct (parse_pre_wf num tt consts preds funcs dpre (Hnum dpre (or_introl eq_refl)) Hfres_cmp Hnum_cmp _ sg _ _ ante Hante Hnodes eq_refl)
      as (Wa & Oa & _).
    assert (Hall : Forall (fun r => match r with inl l => wf_reslit ck sg l = true | inr t => wf_numeff num funcs deff t = true end) rs).
    { destruct (String.eqb rh "and").
      - destruct res as [s|[|x subs]]; try discriminate.
        apply (mapM_forall (parse_result num consts funcs sg) _ subs rs (parse_result_wf sg) Hrs).
      - apply bind_ok in Hrs. destruct Hrs as (r & Hr & Hrs). injection Hrs as <-.
        constructor; [apply (parse_result_wf sg res r Hr)|constructor]. }
    destruct (split_results_wf sg rs Hall) as [S1 S2].
    destruct (split_results rs) as [disc nums] eqn:Esp. injection H as <-.
    unfold wf_condeff. cbn [ce_ante ce_disc ce_num fst snd] in *. rewrite Oa, Wa, S1, S2. reflexivity.
  Qed.

  Lemma univeff_wf sg e ue :
    parse_universal_effect num tt consts preds funcs sg e = Ok ue -> no_vac e = true ->
    wf_univeff num tyk ck preds funcs dpre deff sg ue = true.
  Proof.
    unfold parse_universal_effect. intros H Hnv.
    destruct e as [s|[|x [|[s2|[|[v|?] [|mid [|[ty|?] [|? ?]]]]] [|ce [|? ?]]]]]; try discriminate.
    destruct (type_known tt ty) eqn:Ety; [|discriminate]. cbn [negb] in H.
    apply bind_ok in H. destruct H as (c & Hc & H). injection H as <-.
    rewrite no_vac_slist in Hnv. apply andb_true_iff in Hnv. destruct Hnv as [_ Hnv].
    cbn [forallb] in Hnv. apply andb_true_iff in Hnv. destruct Hnv as [_ Hnv].
    apply andb_true_iff in Hnv. destruct Hnv as [_ Hnv]. apply andb_true_iff in Hnv. destruct Hnv as [Hce _].
    unfold wf_univeff. cbn [ue_var ue_ty ue_ce]. rewrite Ety. apply (condeff_wf _ ce c Hc Hce).
  Qed.

  Definition acc_wf (sg : signature) (acc : effacc) : Prop :=
    forallb (wf_efflit ck preds sg) (ea_disc acc) = true /\ forallb (wf_numeff num funcs deff) (ea_num acc) = true /\
    forallb (wf_condeff num tyk ck preds funcs dpre deff sg) (ea_cond acc) = true /\
    forallb (wf_univeff num tyk ck preds funcs dpre deff sg) (ea_univ acc) = true.

  Lemma forallb_snoc {A} (f : A -> bool) l x : forallb f l = true -> f x = true -> forallb f (l ++ [x]) = true.
  Proof. intros H1 H2. rewrite forallb_app, H1. cbn. rewrite H2. reflexivity. Qed.

  Lemma effect_node_wf sg acc node acc' :
    parse_effect_node num tt consts preds funcs sg acc node = Ok acc' -> no_vac node = true ->
    acc_wf sg acc -> acc_wf sg acc'.
  Proof.
    unfold parse_effect_node. intros H Hnv (A1 & A2 & A3 & A4).
    apply bind_ok in H. destruct H as (h & Hh & H).
    destruct (dmem preds h) eqn:Ep.
    - apply bind_ok in H. destruct H as (l & Hl & H). injection H as <-.
      destruct (untyped_wf consts sg true node l Hl) as (Wa & Hp & Hn). rewrite Hh in Hn. injection Hn as Hn.
      repeat split; cbn [ea_disc ea_num ea_cond ea_univ]; try assumption.
      apply forallb_snoc; [exact A1|]. unfold wf_efflit. rewrite Hp, <- Hn, Ep, Wa. reflexivity.
    - destruct (String.eqb h "not") eqn:Enot.
      + destruct node as [s|[|x [|inner rest]]]; try discriminate.
        apply bind_ok in H. destruct H as (l & Hl & H). injection H as <-.
        destruct (untyped_wf consts sg false inner l Hl) as (Wa & Hp & _).
        repeat split; cbn [ea_disc ea_num ea_cond ea_univ]; try assumption.
        apply forallb_snoc; [exact A1|]. unfold wf_efflit. rewrite Hp, Wa. reflexivity.
      + destruct (String.eqb h "forall") eqn:Efa.
        * apply bind_ok in H. destruct H as (u & Hu & H). injection H as <-.
          repeat split; cbn [ea_disc ea_num ea_cond ea_univ]; try assumption.
          apply forallb_snoc; [exact A4|]. apply (univeff_wf sg node u Hu Hnv).
        * destruct (String.eqb h "when") eqn:Ewh.
          -- apply bind_ok in H. destruct H as (c & Hc & H). injection H as <-.
             repeat split; cbn [ea_disc ea_num ea_cond ea_univ]; try assumption.
             apply forallb_snoc; [exact A3|]. apply (condeff_wf sg node c Hc Hnv).
          -- destruct (str_in h assignment_ops) eqn:Ea; [|discriminate].
             apply bind_ok in H. destruct H as (t & Ht & H). injection H as <-.
             repeat split; cbn [ea_disc ea_num ea_cond ea_univ]; try assumption.
             apply forallb_snoc; [exact A2|]. apply (construct_numeff node h t Hh Ea Ht).
  Qed.

  Lemma effects_wf sg e ef :
    parse_effects num tt consts preds funcs sg e = Ok ef -> no_vac e = true ->
    acc_wf sg ef.
  Proof.
    unfold parse_effects. intros H Hnv. apply bind_ok in H. destruct H as (h & Hh & H).
    destruct (String.eqb h "and"); [|discriminate]. cbn [negb] in H.
    destruct e as [s|[|x nodes]]; try discriminate.
    rewrite no_vac_slist in Hnv. apply andb_true_iff in Hnv. destruct Hnv as [_ Hnv].
    cbn [forallb] in Hnv. apply andb_true_iff in Hnv. destruct Hnv as [_ Hnodes].
    assert (Hgen : forall nodes acc ef', foldM (parse_effect_node num tt consts preds funcs sg) nodes acc = Ok ef' ->
                     forallb no_vac nodes = true -> acc_wf sg acc -> acc_wf sg ef').
    { clear H Hnodes Hh. intros ns. induction ns as [|n r IH]; intros acc ef' H Hnv Hacc; cbn [foldM] in H.
      - injection H as <-. exact Hacc.
      - apply bind_ok in H. destruct H as (acc' & Hn & H). cbn [forallb] in Hnv. apply andb_true_iff in Hnv.
        destruct Hnv as [Hn1 Hr]. apply (IH acc' ef' H Hr). apply (effect_node_wf sg acc n acc' Hn Hn1 Hacc). }
    apply (Hgen nodes _ ef H Hnodes). repeat split; reflexivity.
  Qed.

  (* the whole action, sections in the order :parameters, :precondition, :effect *)
  Theorem parse_action_wf n ps pre eff a :
    parse_action num tt consts preds funcs
      [Atom n; Atom ":parameters"; SList ps; Atom ":precondition"; pre; Atom ":effect"; eff] = Ok a ->
    no_vac pre = true -> no_vac eff = true ->
    wf_action num tyk ck preds funcs dpre deff a = true.
  Proof.
    unfold parse_action. cbn [List.length Nat.eqb negb parse_sections]. intros H Hpre Heff.
    apply bind_ok in H. destruct H as (sg & Hsg & H). cbn [ma_name ma_sig ma_pre ma_disc ma_num ma_cond ma_univ] in H.
    apply bind_ok in H. destruct H as (p & Hp & H). cbn [ma_name ma_sig ma_pre ma_disc ma_num ma_cond ma_univ] in H.
    apply bind_ok in H. destruct H as (ef & Hef & H). cbn [ma_name ma_sig ma_pre ma_disc ma_num ma_cond ma_univ] in H.
    injection H as <-.
    pose proof (parse_signature_wf tt ps sg Hsg) as Wsig.
    destruct (effects_wf sg eff ef Hef Heff) as (E1 & E2 & E3 & E4).
    assert (Wp : wf_pre num tyk ck preds funcs dpre sg p = true /\ pre_op p = "and").
    { unfold parse_preconditions in Hp. destruct pre as [s|[|hd args]]; try discriminate.
      - injection Hp as <-. split; reflexivity.
      - rewrite no_vac_slist in Hpre. apply andb_true_iff in Hpre. destruct Hpre as [Hv Hsub].
        assert (Hsingle : forall fuel, parse_pre num tt consts preds funcs fuel sg empty_pre [SList (hd :: args)] = Ok p ->
                          wf_pre num tyk ck preds funcs dpre sg p = true /\ pre_op p = "and").
        { intros fuel Hs.
          destruct (parse_pre_wf num tt consts preds funcs dpre (Hnum dpre (or_introl eq_refl)) Hfres_cmp Hnum_cmp fuel sg empty_pre _ p Hs) as (W & O & _);
            [cbn [forallb]; rewrite no_vac_slist, Hv, Hsub; reflexivity|reflexivity|]. split; [exact W|exact O]. }
        assert (Hand : forall fuel, parse_pre num tt consts preds funcs fuel sg empty_pre args = Ok p ->
                       wf_pre num tyk ck preds funcs dpre sg p = true /\ pre_op p = "and").
        { intros fuel Hs. cbn [forallb] in Hsub. apply andb_true_iff in Hsub. destruct Hsub as [_ Hargs].
          destruct (parse_pre_wf num tt consts preds funcs dpre (Hnum dpre (or_introl eq_refl)) Hfres_cmp Hnum_cmp fuel sg empty_pre _ p Hs Hargs eq_refl) as (W & O & _).
          split; [exact W|exact O]. }
        destruct hd as [h|sub].
        + repeat match type of Hp with
                 | context [match ?s with EmptyString => _ | String _ _ => _ end] =>
                     is_var s; destruct s as [|[[] [] [] [] [] [] [] []] ?]
                 end;
          first [ apply (Hand _ Hp)
                | destruct (Nat.ltb 1 (List.length args)); [discriminate|apply (Hsingle _ Hp)] ].
        + destruct (Nat.ltb 1 (List.length args)); [discriminate|apply (Hsingle _ Hp)]. }
    destruct Wp as [Wp Op].
    unfold wf_action. cbn [ma_name ma_sig ma_pre ma_disc ma_num ma_cond ma_univ].
    rewrite lower_string_idem, String.eqb_refl, Wsig, Op, Wp, E1, E2, E3, E4. reflexivity.
  Qed.
End RangeEff.
