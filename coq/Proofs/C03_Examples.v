(* C03: the hypotheses of the theorems are satisfiable by a non-trivial action (parsed by the model's own parser from
   PDDL text), and the witness of finding D40 (a quantified condition inside 'when' is skipped). *)
From Coq Require Import List String Bool PrimFloat Arith Permutation.
From Verif Require Import Base.Result Base.Str Base.Sexp Base.PyDict Model.Tokenizer Model.Types Model.Domain Model.Exec
  Spec.Pddl Proofs.C03_Spec Proofs.C03_Defs Proofs.C03_Eval Proofs.C03_Refine Proofs.C03_Main.
Import ListNotations.
Open Scope string_scope.
Open Scope list_scope.

Definition ex_num : numparser := fun s =>
  if String.eqb s "0" then Some 0%float else if String.eqb s "1" then Some 1%float
  else if String.eqb s "2" then Some 2%float else None.

Definition parse_text (txt : string) : mdomain :=
  match parse MFile (s2t txt) with
  | Ok e => match parse_domain ex_num e with Ok d => d | Err _ => empty_domain end
  | Err _ => empty_domain
  end.

Definition act_of (d : mdomain) (n : string) : maction :=
  match dget (d_actions d) n with
  | Some a => a
  | None => {| ma_name := ""; ma_sig := []; ma_pre := empty_pre; ma_disc := []; ma_num := []; ma_cond := []; ma_univ := [] |}
  end.

Definition effs_of (a : maction) : list eff := match denote_effs a with Some l => l | None => [] end.
Definition ground_of (d : mdomain) (a : maction) (args : list string) : gaction :=
  match ground_action d a args with
  | Ok g => g
  | Err _ => {| ga_action := a; ga_pm := []; ga_pre := GPre "and" [] [] []; ga_groups := [] |}
  end.

(* ---------- a non-trivial action: unconditional delete / add / delete-and-add of the same atom / increase,
   a 'when' that fires, a 'when' that does not, a 'forall-when' over a type with a subtype ---------- *)
Definition ex_text : string :=
  "(define (domain ex) (:requirements :typing)
    (:types t0 t1 - object t2 - t0)
    (:constants c0 - t0)
    (:predicates (p ?a - t0) (q) (r ?a - t0 ?b - t0))
    (:functions (f ?a - t0) (h))
    (:action act :parameters (?x - t0 ?y - t0)
      :precondition (and (p ?x) (not (= ?x ?y)))
      :effect (and (not (p ?x)) (not (q)) (q) (r ?x ?y) (increase (h) (f ?x))
                   (when (and (p ?x) (>= (f ?x) 1)) (and (p c0) (assign (f ?x) (+ (f ?x) (h)))))
                   (when (or (r ?y ?x) (< (h) 0)) (r ?y ?x))
                   (forall (?z - t0) (when (and (p ?z) (not (= ?z ?x))) (and (not (p ?z)) (decrease (f ?z) 1)))))))".

Definition ex_dom : mdomain := Eval vm_compute in parse_text ex_text.
Definition ex_act : maction := Eval vm_compute in act_of ex_dom "act".
Definition ex_effs : list eff := Eval vm_compute in effs_of ex_act.
Definition ex_args : list string := ["o0"; "o1"].
Definition ex_ga : gaction := Eval vm_compute in ground_of ex_dom ex_act ex_args.
Definition ex_objs : objects := [("o0", "t0"); ("o1", "t2"); ("o2", "t1")].
Definition ex_eps : float := 0x1.0624dd2f1a9fcp-10%float.    (* 0.001 *)
Definition ex_state : state :=
  {| facts := [("p", ["o0"]); ("p", ["o1"]); ("q", [])];
     fluents := [(("f", ["o0"]), 2%float); (("f", ["o1"]), 0.5%float); (("f", ["c0"]), 0%float); (("h", []), 3%float)] |}.

Example ex_parsed : d_name ex_dom = "ex" /\ List.length (ma_cond ex_act) = 2 /\ List.length (ma_univ ex_act) = 1 /\
                    List.length (ma_disc ex_act) = 4 /\ List.length (ma_num ex_act) = 1.
Proof. vm_compute. repeat split. Qed.

Example ex_denote : denote_effs ex_act = Some ex_effs /\ List.length ex_effs = 4.
Proof. vm_compute. split; reflexivity. Qed.
Example ex_names : names_ok ex_dom ex_act = true.
Proof. vm_compute. reflexivity. Qed.
Example ex_ground : ground_action ex_dom ex_act ex_args = Ok ex_ga.
Proof. vm_compute. reflexivity. Qed.
Example ex_applicable : is_applicable ex_dom ex_eps (Some ex_objs) ex_ga ex_state = Ok true.
Proof. vm_compute. reflexivity. Qed.
Example ex_evaluates : evaluates ex_dom ex_eps ex_objs ex_ga ex_state.
Proof. apply evaluates_b_sound. vm_compute. reflexivity. Qed.
Example ex_consistent :
  consistent (all_groups ex_eps (d_types ex_dom) ex_objs (spec_action ex_act ex_effs) ex_args ex_state) = true.
Proof. vm_compute. reflexivity. Qed.

(* three groups fire: the unconditional one, the first 'when', the 'forall-when' for o1 (of subtype t2) only *)
Example ex_firing :
  List.length (all_groups ex_eps (d_types ex_dom) ex_objs (spec_action ex_act ex_effs) ex_args ex_state) = 3.
Proof. vm_compute. reflexivity. Qed.

Example ex_order : is_order [2; 0; 1] (List.length (ga_groups ex_ga)).
Proof. unfold is_order. vm_compute. apply Permutation_sym. eapply perm_trans; [apply perm_skip; apply perm_swap | apply perm_swap]. Qed.
Example ex_uorder : is_order [0] (List.length (ma_univ ex_act)).
Proof. unfold is_order. vm_compute. apply Permutation_refl. Qed.

(* the theorem applies: in the order [2;0;1] the model returns the successor *)
Example ex_successor :
  exists s', apply_op ex_dom ex_eps ex_ga (Some ex_objs) false false [2; 0; 1] [0] ex_state = Ok s' /\
             state_eq s' (successor ex_eps (d_types ex_dom) ex_objs (spec_action ex_act ex_effs) ex_args ex_state).
Proof.
  eapply (successor_gen ex_dom ex_eps ex_act ex_effs ex_args ex_ga ex_objs ex_state).
  - apply ex_denote.
  - exact ex_names.
  - exact ex_ground.
  - exact ex_evaluates.
  - exact ex_applicable.
  - left. reflexivity.
  - exact ex_consistent.
  - exact ex_order.
  - exact ex_uorder.
Qed.

(* and what it returns: p o0, p o1 deleted; q deleted and added; r o0 o1, p c0 added; h = 3 + 2; f o0 = 2 + 3 (old h);
   f o1 = 0.5 - 1; f c0 untouched *)
Example ex_result :
  match apply_op ex_dom ex_eps ex_ga (Some ex_objs) false false [2; 0; 1] [0] ex_state with
  | Ok s' =>
      map (fun x => atom_in x (facts s')) [("p", ["o0"]); ("p", ["o1"]); ("q", []); ("r", ["o0"; "o1"]); ("p", ["c0"]); ("r", ["o1"; "o0"])]
      = [false; false; true; true; true; false] /\
      map (fun x => fluent_get x (fluents s')) [("h", []); ("f", ["o0"]); ("f", ["o1"]); ("f", ["c0"])]
      = [Some 5%float; Some 5%float; Some (-0.5)%float; Some 0%float]
  | Err _ => False
  end.
Proof. vm_compute. split; reflexivity. Qed.

(* ---------- an inapplicable call is refused ---------- *)
Definition ex_state_bad : state := {| facts := [("q", [])]; fluents := fluents ex_state |}.
Example ex_refused :
  is_applicable ex_dom ex_eps (Some ex_objs) ex_ga ex_state_bad = Ok false /\
  apply_op ex_dom ex_eps ex_ga (Some ex_objs) false false [0; 1; 2] [0] ex_state_bad = Err EValue.
Proof. vm_compute. split; reflexivity. Qed.

(* ---------- a 'forall' inside the condition of a 'when' ranges over the problem objects (repair D40) ---------- *)
Definition d40_text : string :=
  "(define (domain dom) (:requirements :typing) (:types t0) (:predicates (p ?a - t0) (q))
    (:action act :parameters () :precondition (and)
      :effect (and (when (forall (?z - t0) (and (p ?z))) (q)))))".

Definition d40_dom : mdomain := Eval vm_compute in parse_text d40_text.
Definition d40_act : maction := Eval vm_compute in act_of d40_dom "act".
Definition d40_effs : list eff := Eval vm_compute in effs_of d40_act.
Definition d40_ga : gaction := Eval vm_compute in ground_of d40_dom d40_act [].
Definition d40_objs : objects := [("o0", "t0"); ("o1", "t0")].
Definition d40_state : state := {| facts := [("p", ["o0"])]; fluents := [] |}.
Definition d40_state2 : state := {| facts := [("p", ["o0"]); ("p", ["o1"])]; fluents := [] |}.

(* (p o1) is false: the effect does not fire; with (p o1) it does *)
Example when_forall_example :
  denote_effs d40_act = Some d40_effs /\ forallb eff_when_qfree d40_effs = false /\
  apply_op d40_dom ex_eps d40_ga (Some d40_objs) false false [0; 1] [] d40_state = Ok d40_state /\
  (exists s', apply_op d40_dom ex_eps d40_ga (Some d40_objs) false false [1; 0] [] d40_state2 = Ok s' /\
              atom_in ("q", []) (facts s') = true).
Proof.
  split; [vm_compute; reflexivity|]. split; [vm_compute; reflexivity|]. split; [vm_compute; reflexivity|].
  eexists. split; vm_compute; reflexivity.
Qed.

