(* C19: why PLAN_COMPONENT_REGEX had to be repaired (finding D24).  On the pattern as it was, the statement of
   C19_ff is false: a header line "<digit>: word" is returned as a step, and a trailer line of word characters is
   absorbed into the last step.  The witness is the example log of Proofs/C19_FF.v, inside the theorem's grammar. *)
From Coq Require Import List Ascii String Bool.
From Verif Require Import Base.Result Base.Str Model.PlannerLogs Spec.PlannerLogs Proofs.C19_FF.
Import ListNotations.
Open Scope list_scope.

Theorem C19_ff_before_D24_refuted_lemma :
  exists header mcr steps trailer last,
    Forall log_line header /\ steps_ok steps /\ Forall log_line trailer /\ no_lf last /\
    parse_plan_content_orig (render_ff header mcr steps trailer last) <> map expected_action (map snd steps).
Proof.
  exists ex_header, false, ex_steps, ex_trailer, ex_last.
  destruct C19_ff_hypotheses_satisfiable as (H1 & H2 & H3 & H4 & _).
  repeat (split; [assumption|]).
  intros H. vm_compute in H. discriminate.
Qed.

(* what came out: two extra "steps" from the header (the second with the two header lines after it glued on), and the trailer glued to the last step *)
Example C19_ff_before_D24_output :
  map t2s (parse_plan_content_orig (render_ff ex_header false ex_steps ex_trailer ex_last))
  = map (fun s => s ++ String LF EmptyString)%string
      ["(foo)"; ("(move a b" ++ String LF (String LF "step)")); "(drive truck0 depot0)";
       ("(pick-up b_1 " ++ String TAB (String CR (String LF "plan cost 54)")))]%string.
Proof. vm_compute. reflexivity. Qed.
