(* C18, part 10: the statements about the code as it is since /repo eb5fde6 (repair of the quantified-variable half of
   finding D75).  The model of Action.change_signature is now Model.ChangeSignatureAlpha.change_signature_a;
   Model.ChangeSignature.change_signature is the renaming without the alpha step - the code before eb5fde6 - to which
   the new model reduces on the whole fragment of theorem C18_rename (Proofs.C18_AlphaStep).
     - the partial theorem for the code's model;
     - the property read literally, for the code's model, and its refutation - now only by a CONSTANT (?z -> c0);
     - the old witness (?z -> ?u, a quantified variable) is repaired: computed example. *)
From Coq Require Import List String Bool PrimFloat.
From Verif Require Import Base.Result Base.Str Base.PyDict Model.Types Model.Domain Model.Exec Model.ChangeSignature
  Model.ChangeSignatureAlpha Spec.Pddl Spec.Rename
  Proofs.C18_Dict Proofs.C18_Denote Proofs.C18_Check Proofs.C18_Main Proofs.C18_AlphaStep.
Import ListNotations.
Open Scope string_scope.
Open Scope list_scope.

Theorem rename_repaired_correct (dom : mdomain) (m : renaming) (a : maction) :
  renaming_ok dom a m = true -> NoDup (dkeys m) ->
  (forall k x, In (k, x) m -> k <> x -> In k (names_action a)) ->
  depth_action a <= alpha_fuel ->
  exists a', change_signature_a m a = Ok a' /\
    ma_sig a' = map (rn_item m) (ma_sig a) /\
    denote_action a' = option_map (ren_action (rn m)) (denote_action a) /\
    same_behaviour dom a a'.
Proof.
  intros Hok Hnd Hkeys Hd. exists (change_signature m a).
  split; [apply (change_signature_a_total dom); assumption|].
  destruct (rename_correct dom m a Hok) as [A [_ [_ [C D]]]]. exact (conj A (conj C D)).
Qed.

(* the property read literally, for the code's model *)
Definition full_statement_a : Prop :=
  forall (dom : mdomain) (a a' : maction) (m : renaming),
    well_formed a = true ->
    (forall n, ~ In n (dkeys (ma_sig a)) -> rn m n = n) ->
    (forall x y, In x (dkeys (ma_sig a)) -> In y (dkeys (ma_sig a)) -> rn m x = rn m y -> x = y) ->
    change_signature_a m a = Ok a' ->
    same_behaviour dom a a'.

Example constant_not_noticed :
  change_signature_a [("?z", "c0")] ex_act = Ok (change_signature [("?z", "c0")] ex_act).
Proof. vm_compute. reflexivity. Qed.

Theorem full_statement_a_refuted : ~ full_statement_a.
Proof.
  intros H. specialize (H ex_dom ex_act (change_signature [("?z", "c0")] ex_act) [("?z", "c0")]).
  assert (Hwf : well_formed ex_act = true) by (vm_compute; reflexivity).
  assert (Hmove : forall n, ~ In n (dkeys (ma_sig ex_act)) -> rn [("?z", "c0")] n = n).
  { intros n Hn. unfold rn. simpl. destruct (String.eqb n "?z") eqn:E; [|reflexivity].
    apply String.eqb_eq in E. subst n. exfalso. apply Hn. simpl. auto. }
  assert (Hinj : forall x y, In x (dkeys (ma_sig ex_act)) -> In y (dkeys (ma_sig ex_act)) ->
                             rn [("?z", "c0")] x = rn [("?z", "c0")] y -> x = y).
  { intros x y Hx Hy. simpl in Hx, Hy.
    destruct Hx as [<-|[<-|[<-|[]]]]; destruct Hy as [<-|[<-|[<-|[]]]]; vm_compute; intros E;
      try reflexivity; discriminate E. }
  specialize (H Hwf Hmove Hinj constant_not_noticed ["o0"; "o1"; "o2"]).
  destruct constant_changes_behaviour as [_ Hneq]. apply Hneq. unfold ex_run.
  destruct (ground_action ex_dom ex_act ["o0"; "o1"; "o2"]) as [ga|k] eqn:E1; [|vm_compute in E1; discriminate E1].
  destruct (ground_action ex_dom (change_signature [("?z", "c0")] ex_act) ["o0"; "o1"; "o2"]) as [ga'|k] eqn:E2;
    [|contradiction].
  destruct H as [Happ Hsucc]. unfold bind. rewrite Happ, Hsucc. reflexivity.
Qed.

(* the old witness: ?z -> ?u, where ?u is the variable of (forall (?u - t0) (or (p ?u ?z) (q ?u))).  The repaired renaming
   moves the quantified variable to ?u_0 first; the renamed action then behaves as the original - in the state of the
   example and in the state in which the unrepaired renaming (Model.ChangeSignature) differs *)
Definition ex_state_cc : state := {| facts := ("p", ["c0"; "c0"]) :: facts ex_state; fluents := fluents ex_state |}.

Example capture_repaired :
  exists a', change_signature_a [("?z", "?u")] ex_act = Ok a' /\
    In (MUniv "?u_0" "t0" (MPre "or" [MLit true "p" ["?u_0"; "?u"]; MLit true "q" ["?u_0"]] [] []))
       (match ma_pre a' with MPre _ os _ _ => os end) /\
    ex_run a' = ex_run ex_act /\
    (do ga <- ground_action ex_dom a' ["o0"; "o1"; "o2"]; is_applicable ex_dom ex_eps (Some ex_objs) ga ex_state_cc) =
    (do ga <- ground_action ex_dom ex_act ["o0"; "o1"; "o2"]; is_applicable ex_dom ex_eps (Some ex_objs) ga ex_state_cc).
Proof.
  eexists. split; [vm_compute; reflexivity|]. split; [vm_compute; auto 10|]. split; vm_compute; reflexivity.
Qed.
