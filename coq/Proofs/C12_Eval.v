(* C12_eval: construct_expression_tree on the prefix syntax of a binary expression followed by
   set_expression_value + calculate computes the spec's value (operand order: first operand is the
   minuend / dividend).  Also: what happens to forms with other than two operands (D08). *)
From Coq Require Import ZArith List Bool String Ascii Lia PrimFloat FloatOps.
From Verif Require Import Base.Result Base.Str Base.Sexp Base.Float Model.NumExpr Spec.Arith.
Import ListNotations.
Open Scope string_scope.
Open Scope list_scope.

(* the state as a valuation: a missing fluent reads as 0.0 (set_expression_value's KeyError branch) *)
Definition val_of (st : fluents) : valuation :=
  fun k => match alookup k st with Some v => v | None => 0%float end.

Definition res_of_opt (o : option float) : result float :=
  match o with Some v => Ok v | None => Err EOther end.   (* None = ZeroDivisionError *)

Fixpoint tree_of (e : aexp) : ntree :=
  match e with
  | ANum v => NNum v
  | AFl n a => NFl {| nf_name := n; nf_params := a |}
  | ABin op l r => NBin (op_name op) (tree_of l) (tree_of r)
  end.

Section Eval.
  Variable strict : bool.
  Variable pn : string -> option float.
  Variable funcs : domain_functions.
  Variable tok : float -> string.

  (* the expression can be written down and read: numerals read back as their constants (float(str), trusted),
     fluents are declared with the right arity, are not named like an operator, and do not repeat an argument
     (a repeated argument collapses in the name-keyed signature: deviation D07, not C12's subject) *)
  Fixpoint wf_aexp (e : aexp) : Prop :=
    match e with
    | ANum v => pn (tok v) = Some v /\ str_in (tok v) LEGAL_NUMERICAL_EXPRESSIONS = false
    | AFl n a => str_in n LEGAL_NUMERIC_OPERATORS = false /\ NoDup a /\
                 exists sig, alookup n funcs = Some sig /\ List.length sig = List.length a
    | ABin _ l r => wf_aexp l /\ wf_aexp r
    end.

  Lemma all_atoms_map a : all_atoms (map Atom a) = Some a.
  Proof. induction a as [|x xs IH]; simpl; [reflexivity|]. rewrite IH. reflexivity. Qed.

  Lemma dedup_keys_nodup l : forall seen, NoDup l -> (forall x, In x l -> ~ In x seen) -> dedup_keys seen l = l.
  Proof.
    induction l as [|x xs IH]; intros seen Hnd Hdis; simpl; [reflexivity|].
    destruct (str_in x seen) eqn:E.
    - apply str_in_In in E. exfalso. apply (Hdis x); [left; reflexivity | exact E].
    - f_equal. inversion Hnd as [|? ? Hnx Hnd']; subst. apply IH; [exact Hnd'|].
      intros y Hy [Hyx|Hys].
      + subst. contradiction.
      + apply (Hdis y); [right; exact Hy | exact Hys].
  Qed.

  Lemma has_dup_s_nodup l : NoDup l -> has_dup_s l = false.
  Proof.
    induction l as [|x xs IH]; intros Hnd; [reflexivity|]. inversion Hnd as [|? ? Hnx Hnd']; subst. cbn [has_dup_s].
    rewrite (IH Hnd'), orb_false_r. destruct (str_in x xs) eqn:E; [|reflexivity].
    apply str_in_In in E. contradiction.
  Qed.

  Lemma op_name_legal op : str_in (op_name op) LEGAL_NUMERIC_OPERATORS = true.
  Proof. destruct op; reflexivity. Qed.

  Lemma construct_fluent n a :
    wf_aexp (AFl n a) -> construct strict pn funcs (render tok (AFl n a)) = Ok (tree_of (AFl n a)).
  Proof.
    intros (Hn & Hnd & sig & Hsig & Hlen).
    cbn [render construct]. change (all_atoms (Atom n :: map Atom a)) with
      (match all_atoms (map Atom a) with Some t => Some (n :: t) | None => None end).
    rewrite all_atoms_map. cbn [construct_flat]. rewrite Hn, Hsig.
    rewrite <- Hlen, Nat.eqb_refl, (has_dup_s_nodup _ Hnd). cbn [negb orb]. rewrite andb_false_r.
    destruct a as [|x xs].
    - destruct sig; [reflexivity | discriminate].
    - rewrite Hlen, firstn_all, dedup_keys_nodup; [reflexivity | exact Hnd | intros ? _ []].
  Qed.

  Lemma construct_render e : wf_aexp e -> construct strict pn funcs (render tok e) = Ok (tree_of e).
  Proof.
    induction e as [v|n a|op l IHl r IHr]; intros Hwf.
    - destruct Hwf as [Hpn Hleg]. cbn [render construct]. unfold construct_atom. rewrite Hleg, Hpn. reflexivity.
    - apply construct_fluent. exact Hwf.
    - destruct Hwf as [Hl Hr]. specialize (IHl Hl). specialize (IHr Hr).
      assert (Hgen : all_atoms [Atom (op_name op); render tok l; render tok r] = None ->
                     construct strict pn funcs (render tok (ABin op l r)) = Ok (tree_of (ABin op l r))).
      { intros Hna. cbn [render construct]. rewrite Hna.
        cbn [List.length Nat.eqb negb andb]. rewrite andb_false_r.
        rewrite IHl. cbn [bind]. rewrite IHr. reflexivity. }
      destruct l as [a|ln la|lop ll lr]; [|apply Hgen; reflexivity|apply Hgen; reflexivity].
      destruct r as [b|rn ra|rop rl rr]; [|apply Hgen; reflexivity|apply Hgen; reflexivity].
      (* both operands are constants: the "operation on constants" branch *)
      destruct Hl as [Hpa _]. destruct Hr as [Hpb _].
      cbn [render construct all_atoms construct_flat List.length Nat.eqb negb].
      rewrite op_name_legal, andb_false_r, Hpa, Hpb. reflexivity.
  Qed.

  Lemma binop_ap op x y : binop (op_name op) x y = res_of_opt (ap op x y).
  Proof. destruct op; cbn; try reflexivity. destruct (PrimFloat.eqb y 0); reflexivity. Qed.

  Lemma calculate_tree_of st e : calculate st (tree_of e) = res_of_opt (aeval (val_of st) e).
  Proof.
    induction e as [v|n a|op l IHl r IHr]; cbn [tree_of calculate aeval].
    - reflexivity.
    - reflexivity.
    - rewrite IHl, IHr.
      destruct (aeval (val_of st) l) as [x|]; cbn [res_of_opt bind]; [|reflexivity].
      destruct (aeval (val_of st) r) as [y|]; cbn [res_of_opt bind]; [|reflexivity].
      apply binop_ap.
  Qed.

  Theorem C12_eval_lemma st e :
    wf_aexp e ->
    exists t, construct strict pn funcs (render tok e) = Ok t /\
              calculate st t = res_of_opt (aeval (val_of st) e).
  Proof.
    intros Hwf. exists (tree_of e). split; [apply construct_render; exact Hwf | apply calculate_tree_of].
  Qed.

  (* arity (D08).  A form headed by an operator / comparison / assignment with other than two operands: *)
  Definition headed (h : string) (args : list sexp) : sexp := SList (Atom h :: args).

  Lemma all_atoms_length args t : all_atoms args = Some t -> List.length t = List.length args.
  Proof.
    revert t. induction args as [|x xs IH]; intros t Ht; simpl in Ht.
    - injection Ht as <-. reflexivity.
    - destruct x as [s|]; [|discriminate]. destruct (all_atoms xs) as [t'|]; [|discriminate].
      injection Ht as <-. simpl. f_equal. apply IH. reflexivity.
  Qed.

  (* (the domain declares no function named like the keyword: otherwise an all-token form IS that function) *)
  Lemma strict_rejects_arity h args :
    strict = true -> str_in h LEGAL_NUMERICAL_EXPRESSIONS = true -> alookup h funcs = None ->
    List.length args <> 2%nat ->
    exists k, construct strict pn funcs (headed h args) = Err k.
  Proof.
    intros Hs Hh Hf Hlen. subst strict. unfold headed. cbn [construct].
    destruct (all_atoms (Atom h :: args)) as [strs|] eqn:Ha.
    - cbn [all_atoms] in Ha. destruct (all_atoms args) as [t|] eqn:Ht; [|discriminate].
      injection Ha as <-. cbn [construct_flat].
      destruct (str_in h LEGAL_NUMERIC_OPERATORS) eqn:Hop.
      + apply all_atoms_length in Ht.
        destruct (Nat.eqb (List.length t) 2) eqn:E.
        * apply Nat.eqb_eq in E. congruence.
        * cbn [negb andb]. eexists. reflexivity.
      + rewrite Hf. eexists. reflexivity.
    - cbn [List.length]. destruct (Nat.eqb (S (List.length args)) 3) eqn:E.
      + apply Nat.eqb_eq in E. exfalso. apply Hlen. lia.
      + cbn [negb andb]. eexists. reflexivity.
  Qed.
End Eval.
