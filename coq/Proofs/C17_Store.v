(* C17: combining writes only into the combination's own `types` dictionary: DEFAULT_TYPES and the
   dictionaries of the domains parsed earlier keep their contents (true of `dict(DEFAULT_TYPES)`,
   false of the aliasing `self.types = DEFAULT_TYPES`, deviation D18). *)
From Coq Require Import List String Bool Arith Lia.
From Verif Require Import Base.Result Base.Str Model.Combine Spec.Combine Proofs.C17_Dict Proofs.C17_Domains.
Import ListNotations.
Open Scope string_scope.
Open Scope list_scope.

Lemma length_hset h : forall l d, List.length (hset h l d) = List.length h.
Proof. induction h as [|x h IH]; intros [|l] d; simpl; auto. Qed.

Lemma hget_hset_same h : forall l d, l < List.length h -> hget (hset h l d) l = d.
Proof.
  unfold hget. induction h as [|x h IH]; intros [|l] d; simpl; intros H; try lia; [reflexivity|].
  apply IH. lia.
Qed.

Lemma hget_hset_other h : forall l l' d, l <> l' -> hget (hset h l d) l' = hget h l'.
Proof.
  unfold hget. induction h as [|x h IH]; intros [|l] [|l'] d H; simpl; try reflexivity; try lia.
  apply IH. lia.
Qed.

Lemma fold_hset_other (files : list domainv) (loc l : nat) : l <> loc -> forall h,
  hget (fold_left (fun h' f => hset h' loc (update (hget h' loc) (d_types f))) files h) l = hget h l.
Proof.
  intros Hne. induction files as [|f files IH]; simpl; intros h; [reflexivity|].
  rewrite IH. apply hget_hset_other. lia.
Qed.

Lemma fold_hset_length (files : list domainv) (loc : nat) : forall h,
  List.length (fold_left (fun h' f => hset h' loc (update (hget h' loc) (d_types f))) files h) = List.length h.
Proof.
  induction files as [|f files IH]; simpl; intros h; [reflexivity|]. now rewrite IH, length_hset.
Qed.

Lemma fold_hset_same (files : list domainv) (loc : nat) : forall h, loc < List.length h ->
  hget (fold_left (fun h' f => hset h' loc (update (hget h' loc) (d_types f))) files h) loc =
  fold_left update (map d_types files) (hget h loc).
Proof.
  induction files as [|f files IH]; simpl; intros h Hl; [reflexivity|].
  rewrite IH; [|now rewrite length_hset]. now rewrite hget_hset_same.
Qed.

Lemma hget_app_old (h : heap) x l : l < List.length h -> hget (h ++ [x]) l = hget h l.
Proof. unfold hget. intros H. now apply app_nth1. Qed.

Lemma hget_app_new (h : heap) x : hget (h ++ [x]) (List.length h) = x.
Proof. unfold hget. rewrite app_nth2; [|lia]. now rewrite Nat.sub_diag. Qed.

(* every dictionary that existed before the call is unchanged by it *)
Lemma C17_no_leak_lemma : forall files h l,
  l < List.length h ->
  hget (fst (locate_types_store InitCopy files h)) l = hget h l.
Proof.
  intros files h l Hl. unfold locate_types_store, new_domain_types. simpl.
  rewrite fold_hset_other; [|lia]. now apply hget_app_old.
Qed.

(* a Domain() created after the call starts with what DEFAULT_TYPES held before the call *)
Lemma C17_fresh_after_lemma : forall files h,
  0 < List.length h ->
  fresh_domain_types InitCopy (fst (locate_types_store InitCopy files h)) = hget h 0.
Proof.
  intros files h Hl. unfold fresh_domain_types, new_domain_types. rewrite hget_app_new.
  now apply C17_no_leak_lemma.
Qed.

(* the dictionary the combination ends up with is the `d_types` of the functional model *)
Lemma C17_store_refines_lemma : forall files h,
  0 < List.length h ->
  let r := locate_types_store InitCopy files h in
  hget (fst r) (snd r) = d_types (combine_domains (hget h 0) files).
Proof.
  intros files h Hl. unfold locate_types_store, new_domain_types. simpl.
  rewrite fold_hset_same; [|rewrite app_length; simpl; lia].
  now rewrite hget_app_new, cd_types.
Qed.

(* D18: with the aliasing initialiser the very same call changes DEFAULT_TYPES *)
Lemma C17_leak_when_aliased_lemma :
  exists files h,
    hget h 0 = [("object", "")] /\
    fresh_domain_types InitAlias (fst (locate_types_store InitAlias files h)) <> hget h 0.
Proof.
  exists [ex_a], [[("object", "")]]. split; [reflexivity|]. vm_compute. discriminate.
Qed.

(* non-vacuity: a store with DEFAULT_TYPES and an earlier domain's types *)
Example ex_store_no_leak :
  let h := [[("object", "")]; [("k", "object"); ("object", "")]] in
  let r := locate_types_store InitCopy [ex_a; ex_b] h in
  hget (fst r) 0 = [("object", "")] /\ hget (fst r) 1 = [("k", "object"); ("object", "")] /\
  List.length (hget (fst r) (snd r)) = 5 /\
  fresh_domain_types InitCopy (fst r) = [("object", "")].
Proof. vm_compute. repeat split. Qed.

(* the form the property is usually quoted in: when DEFAULT_TYPES holds `object` only, a Domain() created
   after any combination has `object` only, and every earlier dictionary is what it was *)
Lemma C17_fresh_only_object_lemma : forall files h,
  hget h 0 = [("object", "")] -> 0 < List.length h ->
  keys (fresh_domain_types InitCopy (fst (locate_types_store InitCopy files h))) = ["object"] /\
  forall l, l < List.length h -> hget (fst (locate_types_store InitCopy files h)) l = hget h l.
Proof.
  intros files h H0 Hl. split.
  - rewrite C17_fresh_after_lemma by assumption. now rewrite H0.
  - intros l Hlt. now apply C17_no_leak_lemma.
Qed.
