(* C04: a worked example - the hypotheses of the trajectory theorem are satisfiable by a non-trivial plan:
   three lines (upper case, odd spacing), the middle one inapplicable. *)
From Coq Require Import List Ascii String Bool Arith PrimFloat.
From Verif Require Import Base.Result Base.Str Base.Sexp Base.PyDict Model.Tokenizer Model.Types Model.Domain Model.Exec
  Model.Plan Spec.Pddl.
Import ListNotations.
Open Scope string_scope.
Open Scope list_scope.

Definition ex_text : string :=
  "(define (domain grid) (:requirements :typing :fluents) (:types loc)
     (:predicates (at ?l - loc) (free ?l - loc)) (:functions (cost))
     (:action move :parameters (?a - loc ?b - loc)
        :precondition (and (at ?a) (free ?b))
        :effect (and (not (at ?a)) (at ?b) (free ?a) (not (free ?b)) (increase (cost) 1))))".

Definition ex_num (s : string) : option float := if String.eqb s "1" then Some 1%float else None.
Definition ex_eps : float := 0x1p-10%float.

Definition ex_dom : mdomain :=
  match parse MStr (s2t ex_text) with
  | Ok e => match parse_domain ex_num e with Ok d => d | Err _ => empty_domain end
  | Err _ => empty_domain
  end.

Definition ex_objs : objects := [("l1", "loc"); ("l2", "loc"); ("l3", "loc")].
Definition ex_init : state :=
  {| facts := [("at", ["l1"]); ("free", ["l2"]); ("free", ["l3"])]; fluents := [(("cost", []), 0%float)] |}.

Definition LFs : string := String LF EmptyString.
Definition TABs : string := String TAB EmptyString.
(* "(MOVE L1 L2)\n", "  ( move<TAB>l1   l3 )\n" (inapplicable after the first step), "(move l2 l3)" *)
Definition ex_plan : list string :=
  [("(MOVE L1 L2)" ++ LFs)%string; ("  ( move" ++ TABs ++ "l1   l3 )" ++ LFs)%string; "(move l2 l3)"].

Definition ex_trace_refused : list triplet :=
  match parse_plan ex_dom ex_eps false ex_objs id_schedule ex_init ex_plan with Ok ts => ts | Err _ => [] end.
Definition ex_trace_forced : list triplet :=
  match parse_plan ex_dom ex_eps true ex_objs id_schedule ex_init ex_plan with Ok ts => ts | Err _ => [] end.

Lemma ex_domain_parsed : dkeys (d_actions ex_dom) = ["move"].
Proof. vm_compute. reflexivity. Qed.

Lemma ex_refused_lemma :
  parse_plan ex_dom ex_eps false ex_objs id_schedule ex_init ex_plan = Ok ex_trace_refused /\
  List.length ex_trace_refused = 3 /\
  (exists t, nth_error ex_trace_refused 1 = Some t /\ ms_st (t_next t) = ms_st (t_prev t)).
Proof.
  split; [vm_compute; reflexivity|]. split; [vm_compute; reflexivity|].
  eexists. split; [vm_compute; reflexivity|]. vm_compute. reflexivity.
Qed.

Lemma ex_forced_lemma :
  parse_plan ex_dom ex_eps true ex_objs id_schedule ex_init ex_plan = Ok ex_trace_forced /\
  (exists t, nth_error ex_trace_forced 1 = Some t /\ ms_st (t_next t) <> ms_st (t_prev t)).
Proof.
  split; [vm_compute; reflexivity|].
  eexists. split; [vm_compute; reflexivity|]. vm_compute. intros H. discriminate H.
Qed.

(* the operators printed for the three lines, and the final cost: two accepted moves *)
Lemma ex_refused_ops :
  map t_op ex_trace_refused = ["(move l1 l2)"; "(move l1 l3)"; "(move l2 l3)"] /\
  (exists t, nth_error ex_trace_refused 2 = Some t /\
             fluent_get ("cost", []) (fluents (ms_st (t_next t))) = Some 2%float /\
             atom_in ("at", ["l3"]) (facts (ms_st (t_next t))) = true).
Proof.
  split; [vm_compute; reflexivity|]. eexists. split; [vm_compute; reflexivity|]. split; vm_compute; reflexivity.
Qed.
