(* C20: the model's grounding functions (Model/Exec.v) compute a pure substitution, and fail exactly when a name
   is unknown or an arity does not match. *)
From Coq Require Import List Ascii String Bool Arith PrimFloat Lia.
From Verif Require Import Base.Result Base.Str Base.PyDict Model.Types Model.Domain Model.Exec Spec.Pddl
  Proofs.C02_Sub Proofs.C20_Defs.
Import ListNotations.
Open Scope string_scope.
Open Scope list_scope.

(* ---------- generic facts about mapM ---------- *)
Lemma mapM_ok_map {A B} (f : A -> result B) (g : A -> B) (l : list A) :
  (forall x, In x l -> f x = Ok (g x)) -> mapM f l = Ok (map g l).
Proof.
  induction l as [|x r IH]; intros H; simpl; [reflexivity|].
  rewrite (H x (or_introl eq_refl)). simpl. rewrite IH; [reflexivity|].
  intros y Hy. apply H. right. exact Hy.
Qed.

Lemma mapM_ok_inv {A B} (f : A -> result B) (l : list A) (ys : list B) :
  mapM f l = Ok ys -> Forall2 (fun x y => f x = Ok y) l ys.
Proof.
  revert ys. induction l as [|x r IH]; intros ys H; simpl in H.
  - inversion H. constructor.
  - apply bind_ok_inv in H. destruct H as [y [Hy H]].
    apply bind_ok_inv in H. destruct H as [ys' [Hys H]]. inversion H; subst.
    constructor; [exact Hy|apply IH; exact Hys].
Qed.

Lemma mapM_is_ok {A B} (f : A -> result B) (l : list A) :
  is_ok (mapM f l) = forallb (fun x => is_ok (f x)) l.
Proof.
  induction l as [|x r IH]; simpl; [reflexivity|].
  destruct (f x) as [y|k]; simpl; [|reflexivity].
  rewrite <- IH. destruct (mapM f r); reflexivity.
Qed.

Lemma forallb_ext_in {A} (f g : A -> bool) (l : list A) :
  (forall x, In x l -> f x = g x) -> forallb f l = forallb g l.
Proof.
  induction l as [|x r IH]; intros H; simpl; [reflexivity|].
  rewrite (H x (or_introl eq_refl)), IH; [reflexivity|]. intros y Hy. apply H. right. exact Hy.
Qed.

Lemma mapM_length {A B} (f : A -> result B) (l : list A) (ys : list B) :
  mapM f l = Ok ys -> List.length ys = List.length l.
Proof.
  intros H. apply mapM_ok_inv in H. induction H; simpl; [reflexivity|]. rewrite IHForall2. reflexivity.
Qed.

Lemma mapM_err_kind {A B} (f : A -> result B) (P : errkind -> Prop) (l : list A) k :
  (forall x k', f x = Err k' -> P k') -> mapM f l = Err k -> P k.
Proof.
  intros Hf. induction l as [|x r IH]; simpl; intros H; [discriminate|].
  destruct (f x) as [y|k'] eqn:E; simpl in H.
  - destruct (mapM f r) as [ys|k'']; simpl in H; [discriminate|]. inversion H; subst. apply IH. reflexivity.
  - inversion H; subst. eapply Hf. exact E.
Qed.

(* ---------- dictionaries ---------- *)
Lemma str_in_dkeys {V} (d : pydict V) (t : string) : str_in t (dkeys d) = dmem d t.
Proof.
  unfold dmem. induction d as [|[k v] r IH]; simpl; [reflexivity|].
  destruct (String.eqb t k); simpl; [reflexivity|exact IH].
Qed.

Lemma subst_unfold (pm : pmap) (t : string) :
  subst pm t = match dget pm t with Some o => o | None => t end.
Proof. unfold subst. rewrite <- dget_lookup. reflexivity. Qed.

Lemma subst_dget (pm : pmap) (t o : string) : dget pm t = Some o -> subst pm t = o.
Proof. intros H. rewrite subst_unfold, H. reflexivity. Qed.

Lemma subst_dget_none (pm : pmap) (t : string) : dget pm t = None -> subst pm t = t.
Proof. intros H. rewrite subst_unfold, H. reflexivity. Qed.

Lemma no_shadow_in consts vars v : no_shadow consts vars = true -> In v vars -> dmem consts v = false.
Proof.
  unfold no_shadow. rewrite forallb_forall. intros H Hin. apply H in Hin.
  destruct (dmem consts v); [discriminate|reflexivity].
Qed.

(* with no shadowing the library's name resolution IS the spec's substitution *)
Lemma gname_subst consts (pm : pmap) (t : string) :
  no_shadow consts (dkeys pm) = true -> gname consts pm t = subst pm t.
Proof.
  intros Hns. unfold gname. destruct (dmem consts t) eqn:Ec; [|reflexivity].
  symmetry. apply subst_dget_none.
  destruct (dget pm t) as [o|] eqn:Eg; [|reflexivity]. exfalso.
  assert (Hin : In t (dkeys pm)).
  { apply str_in_In. rewrite str_in_dkeys. unfold dmem. rewrite Eg. reflexivity. }
  rewrite (no_shadow_in _ _ _ Hns Hin) in Ec. discriminate.
Qed.

Section Ground.
  Variable dom : mdomain.
  Let consts := d_consts dom.

  (* ---------- names ---------- *)
  Lemma ground_name_ok (pm : pmap) (t o : string) :
    ground_name dom pm t = Ok o -> o = gname consts pm t.
  Proof.
    unfold ground_name, gname, consts. destruct (dmem (d_consts dom) t).
    - intros H. inversion H. reflexivity.
    - destruct (dget pm t) as [o'|] eqn:E; intros H; inversion H; subst.
      symmetry. apply subst_dget. exact E.
  Qed.

  Lemma ground_name_is_ok (pm : pmap) (t : string) :
    is_ok (ground_name dom pm t) = resolvable dom (dkeys pm) t.
  Proof.
    unfold ground_name, resolvable. rewrite str_in_dkeys. destruct (dmem (d_consts dom) t); simpl; [reflexivity|].
    unfold dmem. destruct (dget pm t); reflexivity.
  Qed.

  Lemma ground_name_err (pm : pmap) (t : string) k : ground_name dom pm t = Err k -> k = EKey.
  Proof.
    unfold ground_name. destruct (dmem (d_consts dom) t); [discriminate|].
    destruct (dget pm t); [discriminate|]. intros H. inversion H. reflexivity.
  Qed.

  Lemma ground_names_ok (pm : pmap) (args os : list string) :
    mapM (ground_name dom pm) args = Ok os -> os = map (gname consts pm) args.
  Proof.
    intros H. apply mapM_ok_inv in H. induction H; simpl; [reflexivity|].
    rewrite (ground_name_ok _ _ _ H). rewrite IHForall2. reflexivity.
  Qed.

  Lemma ground_names_is_ok (pm : pmap) (args : list string) :
    is_ok (mapM (ground_name dom pm) args) = forallb (resolvable dom (dkeys pm)) args.
  Proof.
    rewrite mapM_is_ok. apply forallb_ext_in. intros t _. apply ground_name_is_ok.
  Qed.

  Lemma ground_names_complete (pm : pmap) (args : list string) :
    forallb (resolvable dom (dkeys pm)) args = true ->
    mapM (ground_name dom pm) args = Ok (map (gname consts pm) args).
  Proof.
    intros H. rewrite <- ground_names_is_ok in H.
    destruct (mapM (ground_name dom pm) args) as [os|k] eqn:E; [|discriminate].
    rewrite (ground_names_ok _ _ _ E). reflexivity.
  Qed.

  (* ---------- literals ---------- *)
  Lemma ground_lit_ok (pm : pmap) (p : string) (args : list string) (a : atom) :
    ground_lit dom pm p args = Ok a -> a = (p, map (gname consts pm) args).
  Proof.
    unfold ground_lit. destruct (dget (d_preds dom) p) as [sg|]; [|discriminate].
    destruct (negb (Nat.eqb (List.length sg) (List.length args))); [discriminate|].
    intros H. apply bind_ok_inv in H. destruct H as [os [Hos H]]. inversion H; subst.
    rewrite (ground_names_ok _ _ _ Hos). reflexivity.
  Qed.

  Lemma ground_lit_is_ok (pm : pmap) (p : string) (args : list string) :
    is_ok (ground_lit dom pm p args) = lit_ok dom (dkeys pm) p args.
  Proof.
    unfold ground_lit, lit_ok. destruct (dget (d_preds dom) p) as [sg|]; [|reflexivity].
    destruct (Nat.eqb (List.length sg) (List.length args)); simpl; [|reflexivity].
    rewrite <- ground_names_is_ok. destruct (mapM (ground_name dom pm) args); reflexivity.
  Qed.

  Lemma ground_lit_complete (pm : pmap) (p : string) (args : list string) :
    lit_ok dom (dkeys pm) p args = true -> ground_lit dom pm p args = Ok (p, map (gname consts pm) args).
  Proof.
    intros H. rewrite <- ground_lit_is_ok in H.
    destruct (ground_lit dom pm p args) as [a|k] eqn:E; [|discriminate].
    rewrite (ground_lit_ok _ _ _ _ E). reflexivity.
  Qed.

  (* unknown predicate / unbound name: KeyError; arity mismatch: ValueError *)
  Definition name_or_arity (k : errkind) : Prop := k = EKey \/ k = EValue.

  Lemma ground_lit_err (pm : pmap) (p : string) (args : list string) k :
    ground_lit dom pm p args = Err k ->
    (k = EKey /\ (dget (d_preds dom) p = None \/ forallb (resolvable dom (dkeys pm)) args = false)) \/
    (k = EValue /\ exists sg, dget (d_preds dom) p = Some sg /\ List.length sg <> List.length args).
  Proof.
    unfold ground_lit. destruct (dget (d_preds dom) p) as [sg|] eqn:Ep.
    - destruct (Nat.eqb (List.length sg) (List.length args)) eqn:El; simpl.
      + intros H. left. destruct (mapM (ground_name dom pm) args) as [os|k'] eqn:E; simpl in H; [discriminate|].
        inversion H; subst. split.
        * revert E. apply (mapM_err_kind (ground_name dom pm) (fun k => k = EKey)).
          intros x k' Hx. eapply ground_name_err. exact Hx.
        * right. rewrite <- ground_names_is_ok. rewrite E. reflexivity.
      + intros H. inversion H; subst. right. split; [reflexivity|].
        exists sg. split; [reflexivity|]. apply Nat.eqb_neq. exact El.
    - intros H. inversion H; subst. left. split; [reflexivity|]. left. reflexivity.
  Qed.

  (* ---------- numeric trees ---------- *)
  Lemma ground_tree_ok (pm : pmap) (t : mtree) : forall g,
    ground_tree dom pm t = Ok g -> g = subst_tree (gname consts pm) t.
  Proof.
    induction t as [x|f args|op l IHl r IHr]; intros g H; simpl in H.
    - inversion H. reflexivity.
    - apply bind_ok_inv in H. destruct H as [os [Hos H]]. inversion H; subst.
      simpl. rewrite (ground_names_ok _ _ _ Hos). reflexivity.
    - apply bind_ok_inv in H. destruct H as [gl [Hl H]].
      apply bind_ok_inv in H. destruct H as [gr [Hr H]]. inversion H; subst.
      simpl. rewrite (IHl _ Hl), (IHr _ Hr). reflexivity.
  Qed.

  Lemma ground_tree_is_ok (pm : pmap) (t : mtree) :
    is_ok (ground_tree dom pm t) = tree_ok dom (dkeys pm) t.
  Proof.
    induction t as [x|f args|op l IHl r IHr]; simpl.
    - reflexivity.
    - rewrite <- ground_names_is_ok. destruct (mapM (ground_name dom pm) args); reflexivity.
    - rewrite <- IHl, <- IHr. destruct (ground_tree dom pm l); simpl; [|reflexivity].
      destruct (ground_tree dom pm r); reflexivity.
  Qed.

  Lemma ground_tree_complete (pm : pmap) (t : mtree) :
    tree_ok dom (dkeys pm) t = true -> ground_tree dom pm t = Ok (subst_tree (gname consts pm) t).
  Proof.
    intros H. rewrite <- ground_tree_is_ok in H.
    destruct (ground_tree dom pm t) as [g|k] eqn:E; [|discriminate].
    rewrite (ground_tree_ok _ _ _ E). reflexivity.
  Qed.

  Lemma ground_tree_err (pm : pmap) (t : mtree) k : ground_tree dom pm t = Err k -> k = EKey.
  Proof.
    induction t as [x|f args|op l IHl r IHr]; simpl; intros H.
    - discriminate.
    - destruct (mapM (ground_name dom pm) args) as [os|k'] eqn:E; simpl in H; [discriminate|]. inversion H; subst.
      revert E. apply (mapM_err_kind (ground_name dom pm) (fun k => k = EKey)).
      intros x k' Hx. eapply ground_name_err. exact Hx.
    - destruct (ground_tree dom pm l) as [gl|kl]; simpl in H; [|inversion H; subst; apply IHl; reflexivity].
      destruct (ground_tree dom pm r) as [gr|kr]; simpl in H; [discriminate|]. inversion H; subst. apply IHr. reflexivity.
  Qed.

  (* ---------- (in)equality pairs ---------- *)
  Lemma ground_pairs_ok (pm : pmap) (l gl : list (string * string)) :
    ground_pairs pm l = Ok gl -> gl = subst_pairs pm l.
  Proof.
    unfold ground_pairs, subst_pairs. intros H. apply mapM_ok_inv in H. induction H as [|[a b] [a' b'] l0 gl0 Hx Hr IH]; simpl.
    - reflexivity.
    - simpl in Hx. destruct (dget pm a) as [oa|] eqn:Ea; [|discriminate].
      destruct (dget pm b) as [ob|] eqn:Eb; [|discriminate]. injection Hx as <- <-.
      rewrite (subst_dget _ _ _ Ea), (subst_dget _ _ _ Eb). rewrite IH. reflexivity.
  Qed.

  Lemma ground_pairs_is_ok (pm : pmap) (l : list (string * string)) :
    is_ok (ground_pairs pm l) = pairs_ok (dkeys pm) l.
  Proof.
    unfold ground_pairs, pairs_ok. rewrite mapM_is_ok. apply forallb_ext_in. intros [a b] _. simpl.
    rewrite !str_in_dkeys. unfold dmem. destruct (dget pm a); [|reflexivity]. destruct (dget pm b); reflexivity.
  Qed.

  Lemma ground_pairs_err (pm : pmap) (l : list (string * string)) k : ground_pairs pm l = Err k -> k = EKey.
  Proof.
    unfold ground_pairs. apply (mapM_err_kind _ (fun k => k = EKey)).
    intros [a b] k'. simpl. destruct (dget pm a); [|intros H; inversion H; reflexivity].
    destruct (dget pm b); [discriminate|intros H; inversion H; reflexivity].
  Qed.

  (* ---------- conditions ---------- *)
  Definition ground_conds (pm : pmap) : list mcond -> result (list gcond) :=
    fix go (l : list mcond) : result (list gcond) :=
      match l with
      | [] => Ok []
      | c :: r => do gc <- ground_cond dom pm c; do gr <- go r; Ok (gc :: gr)
      end.
  Lemma ground_conds_nil pm : ground_conds pm [] = Ok [].
  Proof. reflexivity. Qed.
  Lemma ground_conds_cons pm c r :
    ground_conds pm (c :: r) = (do gc <- ground_cond dom pm c; do gr <- ground_conds pm r; Ok (gc :: gr)).
  Proof. reflexivity. Qed.

  Lemma ground_pre_eq (pm : pmap) op os eqs neqs :
    ground_pre dom pm (MPre op os eqs neqs) =
    (do geqs <- ground_pairs pm eqs; do gneqs <- ground_pairs pm neqs;
     do gos <- ground_conds pm os; Ok (GPre op gos geqs gneqs)).
  Proof. reflexivity. Qed.

  Definition subst_conds (sigma : string -> string) (pm : pmap) : list mcond -> list gcond :=
    fix go (l : list mcond) : list gcond :=
      match l with [] => [] | c :: r => subst_cond sigma pm c :: go r end.
  Lemma subst_conds_cons sigma pm c r :
    subst_conds sigma pm (c :: r) = subst_cond sigma pm c :: subst_conds sigma pm r.
  Proof. reflexivity. Qed.

  Lemma subst_pre_eq sigma (pm : pmap) op os eqs neqs :
    subst_pre sigma pm (MPre op os eqs neqs) =
    GPre op (subst_conds sigma pm os) (subst_pairs pm eqs) (subst_pairs pm neqs).
  Proof. reflexivity. Qed.

  Definition conds_ok (deep : bool) (scope : list string) : list mcond -> bool :=
    fix go (l : list mcond) : bool :=
      match l with [] => true | c :: r => cond_ok dom deep scope c && go r end.
  Lemma conds_ok_cons deep scope c r :
    conds_ok deep scope (c :: r) = cond_ok dom deep scope c && conds_ok deep scope r.
  Proof. reflexivity. Qed.

  Lemma pre_ok_eq deep scope op os eqs neqs :
    pre_ok dom deep scope (MPre op os eqs neqs) =
    pairs_ok scope eqs && pairs_ok scope neqs && conds_ok deep scope os.
  Proof. reflexivity. Qed.

  Lemma ground_cond_lit pm pos p args :
    ground_cond dom pm (MLit pos p args) = (do a <- ground_lit dom pm p args; Ok (GLit pos a)).
  Proof. reflexivity. Qed.
  Lemma ground_cond_num pm t : ground_cond dom pm (MNum t) = (do g <- ground_tree dom pm t; Ok (GNum g)).
  Proof. reflexivity. Qed.
  Lemma ground_cond_nested pm q : ground_cond dom pm (MNested q) = (do g <- ground_pre dom pm q; Ok (GNested g)).
  Proof. reflexivity. Qed.
  Lemma ground_cond_univ pm v ty body : ground_cond dom pm (MUniv v ty body) = Ok (GUniv v ty body pm).
  Proof. reflexivity. Qed.

  Lemma ground_pre_cond_ok (pm : pmap) :
    (forall p g, ground_pre dom pm p = Ok g -> g = subst_pre (gname consts pm) pm p) /\
    (forall c g, ground_cond dom pm c = Ok g -> g = subst_cond (gname consts pm) pm c).
  Proof.
    set (P := fun p => forall g, ground_pre dom pm p = Ok g -> g = subst_pre (gname consts pm) pm p).
    set (Q := fun c => forall g, ground_cond dom pm c = Ok g -> g = subst_cond (gname consts pm) pm c).
    assert (HL : forall pos p args, Q (MLit pos p args)).
    { intros pos p args g H. rewrite ground_cond_lit in H. apply bind_ok_inv in H. destruct H as [a [Ha H]].
      injection H as <-. rewrite (ground_lit_ok _ _ _ _ Ha). reflexivity. }
    assert (HN : forall t, Q (MNum t)).
    { intros t g H. rewrite ground_cond_num in H. apply bind_ok_inv in H. destruct H as [gt [Hgt H]].
      injection H as <-. rewrite (ground_tree_ok _ _ _ Hgt). reflexivity. }
    assert (HNe : forall q, P q -> Q (MNested q)).
    { intros q IHq g H. rewrite ground_cond_nested in H. apply bind_ok_inv in H. destruct H as [gq [Hgq H]].
      injection H as <-. rewrite (IHq _ Hgq). reflexivity. }
    assert (HU : forall v ty q, P q -> Q (MUniv v ty q)).
    { intros v ty q _ g H. rewrite ground_cond_univ in H. injection H as <-. reflexivity. }
    assert (HP : forall op os eqs neqs, Forall Q os -> P (MPre op os eqs neqs)).
    { intros op os eqs neqs Hos g H. rewrite ground_pre_eq in H. rewrite subst_pre_eq.
      apply bind_ok_inv in H. destruct H as [geqs [Heqs H]].
      apply bind_ok_inv in H. destruct H as [gneqs [Hneqs H]].
      apply bind_ok_inv in H. destruct H as [gos [Hgos H]]. injection H as <-.
      rewrite (ground_pairs_ok _ _ _ Heqs), (ground_pairs_ok _ _ _ Hneqs). f_equal.
      clear Heqs Hneqs. revert gos Hgos. induction Hos as [|c r Hc Hr IH]; intros gos Hgos.
      - rewrite ground_conds_nil in Hgos. injection Hgos as <-. reflexivity.
      - rewrite ground_conds_cons in Hgos.
        apply bind_ok_inv in Hgos. destruct Hgos as [gc [Hgc Hgos]].
        apply bind_ok_inv in Hgos. destruct Hgos as [gr [Hgr Hgos]]. injection Hgos as <-.
        rewrite subst_conds_cons. rewrite (Hc _ Hgc), (IH _ Hgr). reflexivity. }
    split.
    - exact (mpre_ind' P Q HP HL HN HNe HU).
    - exact (mcond_ind' P Q HP HL HN HNe HU).
  Qed.

  Lemma ground_pre_ok (pm : pmap) (p : mpre) (g : gpre) :
    ground_pre dom pm p = Ok g -> g = subst_pre (gname consts pm) pm p.
  Proof. apply (proj1 (ground_pre_cond_ok pm)). Qed.

  Lemma ground_pre_is_ok (pm : pmap) (p : mpre) :
    is_ok (ground_pre dom pm p) = pre_ok dom false (dkeys pm) p.
  Proof.
    apply (mpre_ind'
             (fun p => is_ok (ground_pre dom pm p) = pre_ok dom false (dkeys pm) p)
             (fun c => is_ok (ground_cond dom pm c) = cond_ok dom false (dkeys pm) c)).
    - intros op os eqs neqs Hos. rewrite ground_pre_eq, pre_ok_eq.
      rewrite <- !ground_pairs_is_ok.
      destruct (ground_pairs pm eqs); simpl; [|reflexivity].
      destruct (ground_pairs pm neqs); simpl; [|reflexivity].
      assert (Hc : is_ok (ground_conds pm os) = conds_ok false (dkeys pm) os).
      { induction Hos as [|c r Hc Hr IH]; [reflexivity|].
        rewrite ground_conds_cons, conds_ok_cons.
        rewrite <- Hc, <- IH. destruct (ground_cond dom pm c); simpl; [|reflexivity].
        destruct (ground_conds pm r); reflexivity. }
      rewrite <- Hc. destruct (ground_conds pm os); reflexivity.
    - intros pos p0 args. rewrite ground_cond_lit. change (cond_ok dom false (dkeys pm) (MLit pos p0 args)) with (lit_ok dom (dkeys pm) p0 args).
      rewrite <- ground_lit_is_ok. destruct (ground_lit dom pm p0 args); reflexivity.
    - intros t. rewrite ground_cond_num. change (cond_ok dom false (dkeys pm) (MNum t)) with (tree_ok dom (dkeys pm) t).
      rewrite <- ground_tree_is_ok. destruct (ground_tree dom pm t); reflexivity.
    - intros q IHq. rewrite ground_cond_nested. change (cond_ok dom false (dkeys pm) (MNested q)) with (pre_ok dom false (dkeys pm) q).
      rewrite <- IHq. destruct (ground_pre dom pm q); reflexivity.
    - intros v ty q _. reflexivity.
  Qed.

  Lemma ground_pre_complete (pm : pmap) (p : mpre) :
    pre_ok dom false (dkeys pm) p = true -> ground_pre dom pm p = Ok (subst_pre (gname consts pm) pm p).
  Proof.
    intros H. rewrite <- ground_pre_is_ok in H.
    destruct (ground_pre dom pm p) as [g|k] eqn:E; [|discriminate].
    rewrite (ground_pre_ok _ _ _ E). reflexivity.
  Qed.

  Lemma ground_pre_err (pm : pmap) (p : mpre) : forall k, ground_pre dom pm p = Err k -> name_or_arity k.
  Proof.
    apply (mpre_ind'
             (fun p => forall k, ground_pre dom pm p = Err k -> name_or_arity k)
             (fun c => forall k, ground_cond dom pm c = Err k -> name_or_arity k)).
    - intros op os eqs neqs Hos k. rewrite ground_pre_eq.
      destruct (ground_pairs pm eqs) as [geqs|k1] eqn:E1; simpl.
      2:{ intros H. inversion H; subst. left. eapply ground_pairs_err. exact E1. }
      destruct (ground_pairs pm neqs) as [gneqs|k2] eqn:E2; simpl.
      2:{ intros H. inversion H; subst. left. eapply ground_pairs_err. exact E2. }
      destruct (ground_conds pm os) as [gos|k3] eqn:E3; simpl; [discriminate|].
      intros H. injection H as <-. clear E1 E2. revert E3.
      induction Hos as [|c r Hc Hr IH]; intros E3.
      + rewrite ground_conds_nil in E3. discriminate.
      + rewrite ground_conds_cons in E3.
        destruct (ground_cond dom pm c) as [gc|kc] eqn:Ec; simpl in E3.
        * destruct (ground_conds pm r) as [gr|kr]; simpl in E3; [discriminate|]. injection E3 as <-. apply IH. reflexivity.
        * injection E3 as <-. apply Hc. reflexivity.
    - intros pos p0 args k H. rewrite ground_cond_lit in H.
      destruct (ground_lit dom pm p0 args) as [a|k'] eqn:E; simpl in H; [discriminate|].
      injection H as <-. apply ground_lit_err in E. destruct E as [[-> _]|[-> _]]; [left|right]; reflexivity.
    - intros t k H. rewrite ground_cond_num in H.
      destruct (ground_tree dom pm t) as [g|k'] eqn:E; simpl in H; [discriminate|].
      injection H as <-. left. eapply ground_tree_err. exact E.
    - intros q IHq k H. rewrite ground_cond_nested in H.
      destruct (ground_pre dom pm q) as [g|k'] eqn:E; simpl in H; [discriminate|].
      injection H as <-. apply IHq. reflexivity.
    - intros v ty q _ k H. rewrite ground_cond_univ in H. discriminate.
  Qed.

  (* ---------- effect groups ---------- *)
  Lemma ground_disc_ok (pm : pmap) (disc : list mlit) gd :
    mapM (fun l => do a <- ground_lit dom pm (l_name l) (l_args l); Ok (l_pos l, a)) disc = Ok gd ->
    gd = map (subst_lit (gname consts pm)) disc.
  Proof.
    intros H. apply mapM_ok_inv in H. induction H as [|l y disc0 gd0 Hx Hr IH]; simpl; [reflexivity|].
    apply bind_ok_inv in Hx. destruct Hx as [a [Ha Hx]]. injection Hx as <-.
    rewrite (ground_lit_ok _ _ _ _ Ha). rewrite IH. reflexivity.
  Qed.

  Lemma ground_trees_ok (pm : pmap) (nums : list mtree) gn :
    mapM (ground_tree dom pm) nums = Ok gn -> gn = map (subst_tree (gname consts pm)) nums.
  Proof.
    intros H. apply mapM_ok_inv in H. induction H as [|t y nums0 gn0 Hx Hr IH]; simpl; [reflexivity|].
    rewrite (ground_tree_ok _ _ _ Hx). rewrite IH. reflexivity.
  Qed.

  Lemma ground_group_ok (pm : pmap) ante disc nums g :
    ground_group dom pm ante disc nums = Ok g -> g = subst_group (gname consts pm) pm ante disc nums.
  Proof.
    unfold ground_group, subst_group. intros H.
    apply bind_ok_inv in H. destruct H as [ga [Hga H]].
    apply bind_ok_inv in H. destruct H as [gd [Hgd H]].
    apply bind_ok_inv in H. destruct H as [gn [Hgn H]]. inversion H; subst.
    rewrite (ground_disc_ok _ _ _ Hgd), (ground_trees_ok _ _ _ Hgn). f_equal.
    destruct ante as [a|]; [|inversion Hga; reflexivity].
    apply bind_ok_inv in Hga. destruct Hga as [g' [Hg' Hga]]. inversion Hga; subst.
    rewrite (ground_pre_ok _ _ _ Hg'). reflexivity.
  Qed.

  Lemma ground_group_is_ok (pm : pmap) ante disc nums :
    is_ok (ground_group dom pm ante disc nums) = group_ok dom (dkeys pm) ante disc nums.
  Proof.
    unfold ground_group, group_ok.
    assert (Ha : is_ok (match ante with None => Ok None | Some a => do g <- ground_pre dom pm a; Ok (Some g) end)
                 = match ante with None => true | Some a => pre_ok dom false (dkeys pm) a end).
    { destruct ante as [a|]; [|reflexivity]. rewrite <- ground_pre_is_ok. destruct (ground_pre dom pm a); reflexivity. }
    rewrite <- Ha.
    destruct (match ante with None => Ok None | Some a => do g <- ground_pre dom pm a; Ok (Some g) end); simpl; [|reflexivity].
    assert (Hd : is_ok (mapM (fun l => do a <- ground_lit dom pm (l_name l) (l_args l); Ok (l_pos l, a)) disc)
                 = forallb (fun l => lit_ok dom (dkeys pm) (l_name l) (l_args l)) disc).
    { rewrite mapM_is_ok. apply forallb_ext_in. intros l _. rewrite <- ground_lit_is_ok.
      destruct (ground_lit dom pm (l_name l) (l_args l)); reflexivity. }
    rewrite <- Hd.
    destruct (mapM (fun l => do a <- ground_lit dom pm (l_name l) (l_args l); Ok (l_pos l, a)) disc); simpl; [|reflexivity].
    assert (Hn : is_ok (mapM (ground_tree dom pm) nums) = forallb (tree_ok dom (dkeys pm)) nums).
    { rewrite mapM_is_ok. apply forallb_ext_in. intros t _. apply ground_tree_is_ok. }
    rewrite <- Hn. destruct (mapM (ground_tree dom pm) nums); reflexivity.
  Qed.

  Lemma ground_group_err (pm : pmap) ante disc nums k :
    ground_group dom pm ante disc nums = Err k -> name_or_arity k.
  Proof.
    unfold ground_group.
    destruct (match ante with None => Ok None | Some a => do g <- ground_pre dom pm a; Ok (Some g) end) as [ga|k1] eqn:E1; simpl.
    2:{ intros H. inversion H; subst. destruct ante as [a|]; [|discriminate].
        destruct (ground_pre dom pm a) as [g|k'] eqn:E; simpl in E1; [discriminate|]. inversion E1; subst.
        eapply ground_pre_err. exact E. }
    destruct (mapM (fun l => do a <- ground_lit dom pm (l_name l) (l_args l); Ok (l_pos l, a)) disc) as [gd|k2] eqn:E2; simpl.
    2:{ intros H. inversion H; subst.
        revert E2. apply (mapM_err_kind _ name_or_arity).
        intros l k' Hl. destruct (ground_lit dom pm (l_name l) (l_args l)) as [a|k''] eqn:E; simpl in Hl; [discriminate|].
        inversion Hl; subst. apply ground_lit_err in E. destruct E as [[-> _]|[-> _]]; [left|right]; reflexivity. }
    destruct (mapM (ground_tree dom pm) nums) as [gn|k3] eqn:E3; simpl; [discriminate|].
    intros H. inversion H; subst. left.
    revert E3. apply (mapM_err_kind _ (fun k => k = EKey)). intros t k'. apply ground_tree_err.
  Qed.

  (* ---------- the action ---------- *)
  Definition call_map (a : maction) (args : list string) : pmap := combine (dkeys (ma_sig a)) args.

  Lemma ground_action_ok (a : maction) (args : list string) (ga : gaction) :
    ground_action dom a args = Ok ga ->
    ga = subst_action (gname consts (call_map a args)) (call_map a args) a.
  Proof.
    unfold ground_action, subst_action, call_map. set (pm := combine (dkeys (ma_sig a)) args). intros H.
    apply bind_ok_inv in H. destruct H as [gp [Hgp H]].
    apply bind_ok_inv in H. destruct H as [g0 [Hg0 H]].
    apply bind_ok_inv in H. destruct H as [gs [Hgs H]]. inversion H; subst.
    rewrite (ground_pre_ok _ _ _ Hgp), (ground_group_ok _ _ _ _ _ Hg0). f_equal. f_equal.
    clear H Hgp Hg0. apply mapM_ok_inv in Hgs.
    induction Hgs as [|ce y l0 gs0 Hx Hr IH]; simpl; [reflexivity|].
    rewrite (ground_group_ok _ _ _ _ _ Hx). rewrite IH. reflexivity.
  Qed.

  Lemma ground_action_is_ok (a : maction) (args : list string) :
    is_ok (ground_action dom a args) = action_ok dom (dkeys (call_map a args)) a.
  Proof.
    unfold ground_action, action_ok, call_map. set (pm := combine (dkeys (ma_sig a)) args).
    rewrite <- ground_pre_is_ok. destruct (ground_pre dom pm (ma_pre a)); simpl; [|reflexivity].
    rewrite <- ground_group_is_ok. destruct (ground_group dom pm None (ma_disc a) (ma_num a)); simpl; [|reflexivity].
    assert (Hc : is_ok (mapM (fun ce => ground_group dom pm (Some (ce_ante ce)) (ce_disc ce) (ce_num ce)) (ma_cond a))
                 = forallb (fun ce => group_ok dom (dkeys pm) (Some (ce_ante ce)) (ce_disc ce) (ce_num ce)) (ma_cond a)).
    { rewrite mapM_is_ok. apply forallb_ext_in. intros ce _. apply ground_group_is_ok. }
    rewrite <- Hc.
    destruct (mapM (fun ce => ground_group dom pm (Some (ce_ante ce)) (ce_disc ce) (ce_num ce)) (ma_cond a)); reflexivity.
  Qed.

  Lemma ground_action_complete (a : maction) (args : list string) :
    action_ok dom (dkeys (call_map a args)) a = true ->
    ground_action dom a args = Ok (subst_action (gname consts (call_map a args)) (call_map a args) a).
  Proof.
    intros H. rewrite <- ground_action_is_ok in H.
    destruct (ground_action dom a args) as [ga|k] eqn:E; [|discriminate].
    rewrite (ground_action_ok _ _ _ E). reflexivity.
  Qed.

  Lemma ground_action_err (a : maction) (args : list string) k :
    ground_action dom a args = Err k -> name_or_arity k.
  Proof.
    unfold ground_action. set (pm := combine (dkeys (ma_sig a)) args).
    destruct (ground_pre dom pm (ma_pre a)) as [gp|k1] eqn:E1; simpl.
    2:{ intros H. inversion H; subst. eapply ground_pre_err. exact E1. }
    destruct (ground_group dom pm None (ma_disc a) (ma_num a)) as [g0|k2] eqn:E2; simpl.
    2:{ intros H. inversion H; subst. eapply ground_group_err. exact E2. }
    destruct (mapM (fun ce => ground_group dom pm (Some (ce_ante ce)) (ce_disc ce) (ce_num ce)) (ma_cond a)) as [gs|k3] eqn:E3;
      simpl; [discriminate|].
    intros H. inversion H; subst.
    revert E3. apply (mapM_err_kind _ name_or_arity). intros ce k'. apply ground_group_err.
  Qed.
End Ground.
