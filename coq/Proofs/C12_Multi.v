(* C12, several numeric effects of one action: every right-hand side is read in the state BEFORE the action, and
   storing the results changes the targets and nothing else - whatever the order in which the effects are visited.
   (The class of seeded change C12_E: a library that lets the effects share one mutable value holder, or that stores
   as it goes, differs from [apply_effects] exactly on effects that read each other's targets.) *)
From Coq Require Import ZArith List Bool String Ascii Lia Permutation PrimFloat FloatOps.
From Verif Require Import Base.Result Base.Str Base.Sexp Base.Float Model.NumExpr Spec.Arith
  Proofs.C12_Eval Proofs.C12_Cmp.
Import ListNotations.
Open Scope string_scope.
Open Scope list_scope.

(* one numeric effect: (assign|increase|decrease target rhs) *)
Record neff := { ne_asg : asg; ne_target : nfun; ne_rhs : ntree }.
Definition neff_tree (e : neff) : ntree := NBin (asg_name (ne_asg e)) (NFl (ne_target e)) (ne_rhs e).
Definition neff_key (e : neff) : string := untyped_rep (ne_target e).

(* what the property says the new value of the target is: v, old+v, old-v with v and old read in [st] *)
Definition neff_value (st : fluents) (e : neff) : result float :=
  do v <- calculate st (ne_rhs e); Ok (spec_assign (ne_asg e) (val_of st (neff_key e)) v).

Fixpoint find_eff (k : string) (effs : list neff) : option neff :=
  match effs with
  | [] => None
  | e :: r => if String.eqb k (neff_key e) then Some e else find_eff k r
  end.

(* the successor valuation the property describes: targets get their new value (computed in st), the rest stays *)
Definition spec_after (st : fluents) (effs : list neff) (k : string) : float :=
  match find_eff k effs with
  | Some e => match neff_value st e with Ok v => v | Err _ => 0%float end
  | None => val_of st k
  end.

Definition rhs_defined (st : fluents) (effs : list neff) : Prop :=
  forall e, In e effs -> exists v, calculate st (ne_rhs e) = Ok v.

(* ---------------------------------------------------------------- evaluation of the whole group *)
Lemma evaluate_neff cfg st e :
  evaluate cfg st (neff_tree e) = (do v <- neff_value st e; Ok (EvAssign (neff_key e) v)).
Proof.
  unfold neff_tree, neff_value, neff_key. rewrite C12_assign_lemma. unfold asg_result.
  destruct (calculate st (ne_rhs e)); reflexivity.
Qed.

Lemma mapM_evaluate cfg st effs :
  rhs_defined st effs ->
  exists vs, mapM (evaluate cfg st) (map neff_tree effs) =
             Ok (map (fun ev : neff * float => EvAssign (neff_key (fst ev)) (snd ev)) (combine effs vs))
             /\ List.length vs = List.length effs
             /\ forall e v, In (e, v) (combine effs vs) -> neff_value st e = Ok v.
Proof.
  induction effs as [|e r IH]; intros Hd.
  - exists []. split; [reflexivity|]. split; [reflexivity|]. intros e v [].
  - destruct (Hd e (or_introl eq_refl)) as [v Hv].
    destruct IH as (vs & Hm & Hl & Hin); [intros e' He'; apply Hd; right; exact He'|].
    exists (spec_assign (ne_asg e) (val_of st (neff_key e)) v :: vs).
    cbn [map mapM combine List.length]. rewrite evaluate_neff. unfold neff_value at 1. rewrite Hv. cbn [bind].
    rewrite Hm. cbn [bind fst snd]. split; [reflexivity|]. split; [now rewrite Hl|].
    intros e' v' [H|H].
    + inversion H; subst. unfold neff_value. rewrite Hv. reflexivity.
    + exact (Hin _ _ H).
Qed.

(* ---------------------------------------------------------------- storing *)
Definition kv_res (kv : string * float) : evres := EvAssign (fst kv) (snd kv).

Lemma fold_write_other kvs cur k :
  ~ In k (map fst kvs) -> val_of (fold_left write_back (map kv_res kvs) cur) k = val_of cur k.
Proof.
  revert cur. induction kvs as [|[k0 v0] r IH]; intros cur Hn; [reflexivity|].
  cbn [map fold_left]. change (kv_res (k0, v0)) with (EvAssign k0 v0). rewrite IH.
  - rewrite C12_assign_frame_lemma. destruct (String.eqb k k0) eqn:E; [|reflexivity].
    apply String.eqb_eq in E. subst. exfalso. apply Hn. left. reflexivity.
  - intros H. apply Hn. right. exact H.
Qed.

Lemma fold_write_in kvs cur k v :
  NoDup (map fst kvs) -> In (k, v) kvs -> val_of (fold_left write_back (map kv_res kvs) cur) k = v.
Proof.
  revert cur. induction kvs as [|[k0 v0] r IH]; intros cur Hnd Hin; [destruct Hin|].
  cbn [map fst] in Hnd. inversion Hnd as [|? ? Hnot Hnd']; subst.
  cbn [map fold_left]. change (kv_res (k0, v0)) with (EvAssign k0 v0). destruct Hin as [H|H].
  - inversion H; subst. rewrite (fold_write_other r _ k Hnot), C12_assign_frame_lemma, String.eqb_refl. reflexivity.
  - exact (IH _ Hnd' H).
Qed.

Lemma find_eff_in k effs e : find_eff k effs = Some e -> In e effs /\ neff_key e = k.
Proof.
  induction effs as [|e0 r IH]; cbn [find_eff]; [discriminate|].
  destruct (String.eqb k (neff_key e0)) eqn:E.
  - intros H. inversion H; subst. apply String.eqb_eq in E. split; [left; reflexivity | symmetry; exact E].
  - intros H. destruct (IH H) as [Hi Hk]. split; [right; exact Hi | exact Hk].
Qed.

Lemma find_eff_none k effs : find_eff k effs = None -> ~ In k (map neff_key effs).
Proof.
  induction effs as [|e0 r IH]; cbn [find_eff map]; [intros _ []|].
  destruct (String.eqb k (neff_key e0)) eqn:E; [discriminate|].
  intros H [H1|H1]; [subst; rewrite String.eqb_refl in E; discriminate | exact (IH H H1)].
Qed.

Lemma combine_keys (effs : list neff) (vs : list float) :
  List.length vs = List.length effs ->
  map fst (map (fun ev : neff * float => (neff_key (fst ev), snd ev)) (combine effs vs)) = map neff_key effs.
Proof.
  revert vs. induction effs as [|e r IH]; intros [|v vs] Hl; try discriminate; [reflexivity|].
  cbn [combine map fst snd]. f_equal. apply IH. cbn in Hl. lia.
Qed.

Lemma in_combine_of (effs : list neff) (vs : list float) e :
  List.length vs = List.length effs -> In e effs -> exists v, In (e, v) (combine effs vs).
Proof.
  revert vs. induction effs as [|e0 r IH]; intros [|v vs] Hl Hin; try discriminate; [destruct Hin|].
  destruct Hin as [H|H].
  - subst. exists v. left. reflexivity.
  - destruct (IH vs) as [v' Hv']; [cbn in Hl; lia | exact H|]. exists v'. right. exact Hv'.
Qed.

(* ---------------------------------------------------------------- the theorem *)
(* For ANY list of assign/increase/decrease effects with pairwise distinct targets whose right-hand sides are
   defined in st (no division by zero), and ANY state [cur] being built that agrees with nothing in particular:
   the group is applied without error and afterwards every target holds v / old+v / old-v with v and old read in
   st - also when the right-hand sides mention other targets or their own - and every other key of [cur] is
   untouched. *)
Theorem C12_assign_simultaneous_lemma cfg st cur effs :
  NoDup (map neff_key effs) -> rhs_defined st effs ->
  exists st', apply_effects cfg st cur (map neff_tree effs) = Ok st' /\
              forall k, val_of st' k = match find_eff k effs with
                                       | Some e => match neff_value st e with Ok v => v | Err _ => 0%float end
                                       | None => val_of cur k
                                       end.
Proof.
  intros Hnd Hd. destruct (mapM_evaluate cfg st effs Hd) as (vs & Hm & Hl & Hv).
  unfold apply_effects. rewrite Hm. cbn [bind]. eexists. split; [reflexivity|]. intros k.
  set (kvs := map (fun ev : neff * float => (neff_key (fst ev), snd ev)) (combine effs vs)).
  assert (Hmap : map (fun ev : neff * float => EvAssign (neff_key (fst ev)) (snd ev)) (combine effs vs) = map kv_res kvs).
  { unfold kvs. rewrite map_map. reflexivity. }
  rewrite Hmap.
  assert (Hkeys : map fst kvs = map neff_key effs) by (apply combine_keys; exact Hl).
  destruct (find_eff k effs) as [e|] eqn:Hf.
  - destruct (find_eff_in _ _ _ Hf) as [Hin Hk].
    destruct (in_combine_of effs vs e Hl Hin) as [v Hc]. rewrite (Hv _ _ Hc).
    apply fold_write_in; [rewrite Hkeys; exact Hnd|].
    unfold kvs. apply in_map_iff. exists (e, v). split; [cbn [fst snd]; rewrite Hk; reflexivity | exact Hc].
  - apply fold_write_other. rewrite Hkeys. exact (find_eff_none _ _ Hf).
Qed.

(* applied the way Operator.apply does (the state being built starts as a copy of the previous one): the successor
   is the property's [spec_after] *)
Corollary C12_assign_simultaneous_succ cfg st effs :
  NoDup (map neff_key effs) -> rhs_defined st effs ->
  exists st', apply_effects cfg st st (map neff_tree effs) = Ok st' /\ forall k, val_of st' k = spec_after st effs k.
Proof. intros Hnd Hd. exact (C12_assign_simultaneous_lemma cfg st st effs Hnd Hd). Qed.

(* the order in which the effects are visited (the iteration order of the Python set) does not matter *)
Lemma find_eff_perm k effs effs' :
  NoDup (map neff_key effs) -> Permutation effs effs' -> find_eff k effs = find_eff k effs'.
Proof.
  intros Hnd Hp.
  assert (Hnd' : NoDup (map neff_key effs')) by (eapply Permutation_NoDup; [apply Permutation_map; exact Hp | exact Hnd]).
  destruct (find_eff k effs) as [e|] eqn:H1; destruct (find_eff k effs') as [e'|] eqn:H2; try reflexivity.
  - destruct (find_eff_in _ _ _ H1) as [Hi Hk]. destruct (find_eff_in _ _ _ H2) as [Hi' Hk'].
    assert (Hin' : In e effs') by (eapply Permutation_in; eassumption).
    f_equal. clear H1 H2 Hp Hnd Hi.
    induction effs' as [|x r IH]; [destruct Hin'|].
    cbn [map] in Hnd'. apply NoDup_cons_iff in Hnd' as [Hnot Hr].
    destruct Hin' as [->|Hin']; destruct Hi' as [->|Hi'']; try reflexivity.
    + exfalso. apply Hnot. rewrite Hk, <- Hk'. apply in_map. exact Hi''.
    + exfalso. apply Hnot. rewrite Hk', <- Hk. apply in_map. exact Hin'.
    + exact (IH Hr Hi'' Hin').
  - exfalso. apply (find_eff_none _ _ H2). destruct (find_eff_in _ _ _ H1) as [Hi Hk].
    rewrite <- Hk. apply in_map. eapply Permutation_in; eassumption.
  - exfalso. apply (find_eff_none _ _ H1). destruct (find_eff_in _ _ _ H2) as [Hi Hk].
    rewrite <- Hk. apply in_map. eapply Permutation_in; [apply Permutation_sym|]; eassumption.
Qed.

Theorem C12_assign_order_lemma cfg st cur effs effs' :
  NoDup (map neff_key effs) -> rhs_defined st effs -> Permutation effs effs' ->
  exists s1 s2, apply_effects cfg st cur (map neff_tree effs) = Ok s1 /\
                apply_effects cfg st cur (map neff_tree effs') = Ok s2 /\
                forall k, val_of s1 k = val_of s2 k.
Proof.
  intros Hnd Hd Hp.
  assert (Hnd' : NoDup (map neff_key effs')) by (eapply Permutation_NoDup; [apply Permutation_map; exact Hp | exact Hnd]).
  assert (Hd' : rhs_defined st effs').
  { intros e He. apply Hd. eapply Permutation_in; [apply Permutation_sym; exact Hp | exact He]. }
  destruct (C12_assign_simultaneous_lemma cfg st cur effs Hnd Hd) as (s1 & H1 & V1).
  destruct (C12_assign_simultaneous_lemma cfg st cur effs' Hnd' Hd') as (s2 & H2 & V2).
  exists s1, s2. repeat split; [exact H1 | exact H2|]. intros k. rewrite V1, V2, (find_eff_perm k effs effs' Hnd Hp). reflexivity.
Qed.

(* ---------------------------------------------------------------- examples *)
Definition fx : nfun := {| nf_name := "x"; nf_params := [] |}.
Definition fy : nfun := {| nf_name := "y"; nf_params := [] |}.
Definition cross : list neff :=
  [ {| ne_asg := Increase; ne_target := fx; ne_rhs := NFl fy |};
    {| ne_asg := Increase; ne_target := fy; ne_rhs := NFl fx |} ].
Definition st_1_10 : fluents := [("(x )", 1%float); ("(y )", 10%float)].

(* (increase (x) (y)) (increase (y) (x)) from x = 1, y = 10 gives x = 11, y = 11 in either order; the hypotheses
   of the theorems hold *)
Example cross_example :
  NoDup (map neff_key cross) /\ rhs_defined st_1_10 cross /\
  apply_effects (cfg_fixed 0x1.a36e2eb1c432dp-14%float 4) st_1_10 st_1_10 (map neff_tree cross)
    = Ok [("(x )", 11%float); ("(y )", 11%float)] /\
  apply_effects (cfg_fixed 0x1.a36e2eb1c432dp-14%float 4) st_1_10 st_1_10 (map neff_tree (rev cross))
    = Ok [("(x )", 11%float); ("(y )", 11%float)] /\
  spec_after st_1_10 cross "(x )" = 11%float /\ spec_after st_1_10 cross "(y )" = 11%float.
Proof.
  split; [|split].
  - cbn. constructor; [intros [H|[]]; discriminate | constructor; [intros [] | constructor]].
  - intros e [<-|[<-|[]]]; eexists; reflexivity.
  - repeat split; reflexivity.
Qed.

(* storing as it goes (each effect reading the state the previous one left) is NOT what the model does: it would
   give y = 21 *)
Example sequential_differs :
  (do s1 <- apply_effects (cfg_fixed 0%float 4) st_1_10 st_1_10 (map neff_tree (firstn 1 cross));
   apply_effects (cfg_fixed 0%float 4) s1 s1 (map neff_tree (skipn 1 cross)))
  = Ok [("(x )", 11%float); ("(y )", 21%float)].
Proof. reflexivity. Qed.
