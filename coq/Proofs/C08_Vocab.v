(* C08: the vocabulary text of the re-read domain is the original's (Corr.Core.model_vocab sorts every section, so
   the regrouped type / constant tables give the same text). *)
From Coq Require Import List Ascii String Bool Arith NArith Lia Permutation Sorted PrimFloat.
From Verif Require Import Base.Result Base.Str Base.Sexp Base.PyDict Base.Float
  Model.Types Model.NumExpr Model.Domain Model.DomainExporter Corr.Core
  Proofs.C08_Defs Proofs.C08_Tables.
Import ListNotations.
Open Scope string_scope.
Open Scope list_scope.

(* ---------- String.leb is a total order ---------- *)
Lemma ascii_compare_N a b : Ascii.compare a b = N.compare (N_of_ascii a) (N_of_ascii b).
Proof. reflexivity. Qed.

Lemma ascii_compare_eq a b : Ascii.compare a b = Eq -> a = b.
Proof.
  rewrite ascii_compare_N. intros H. apply N.compare_eq in H.
  rewrite <- (ascii_N_embedding a), <- (ascii_N_embedding b), H. reflexivity.
Qed.

Lemma compare_not_gt_trans : forall a b c,
  String.compare a b <> Gt -> String.compare b c <> Gt -> String.compare a c <> Gt.
Proof.
  induction a as [|ca a IH]; intros [|cb b] [|cc c]; cbn [String.compare]; try congruence.
  intros H1 H2.
  destruct (Ascii.compare ca cb) eqn:E1; try congruence;
  destruct (Ascii.compare cb cc) eqn:E2; try congruence.
  - apply ascii_compare_eq in E1. apply ascii_compare_eq in E2. subst.
    assert (E : Ascii.compare cc cc = Eq) by (rewrite ascii_compare_N; apply N.compare_refl).
    rewrite E. apply (IH b c H1 H2).
  - apply ascii_compare_eq in E1. subst. rewrite E2. congruence.
  - apply ascii_compare_eq in E2. subst. rewrite E1. congruence.
  - rewrite ascii_compare_N in *. rewrite N.compare_lt_iff in *.
    assert (E : (N_of_ascii ca ?= N_of_ascii cc)%N = Lt) by (apply N.compare_lt_iff; lia).
    rewrite E. congruence.
Qed.

Lemma leb_not_gt a b : String.leb a b = true <-> String.compare a b <> Gt.
Proof. unfold String.leb. destruct (String.compare a b); split; congruence. Qed.

Lemma leb_trans a b c : String.leb a b = true -> String.leb b c = true -> String.leb a c = true.
Proof. rewrite !leb_not_gt. apply compare_not_gt_trans. Qed.

(* ---------- insertion sort gives one result per multiset ---------- *)
Definition le_s (a b : string) : Prop := String.leb a b = true.

Lemma insert_perm x l : Permutation (insert_sorted x l) (x :: l).
Proof.
  induction l as [|y r IH]; cbn [insert_sorted]; [reflexivity|].
  destruct (String.leb x y); [reflexivity|]. rewrite IH. apply perm_swap.
Qed.

Lemma sort_perm l : Permutation (sort_strings l) l.
Proof.
  induction l as [|x r IH]; [reflexivity|]. cbn [sort_strings fold_right].
  fold (sort_strings r). rewrite insert_perm, IH. reflexivity.
Qed.

Lemma insert_sorted_ss x l : StronglySorted le_s l -> StronglySorted le_s (insert_sorted x l).
Proof.
  induction 1 as [|y r Hr IH Hy]; cbn [insert_sorted].
  - constructor; constructor.
  - destruct (String.leb x y) eqn:E.
    + constructor; [constructor; assumption|]. constructor; [exact E|].
      rewrite Forall_forall in *. intros z Hz. apply (leb_trans x y z E (Hy z Hz)).
    + constructor; [exact IH|].
      assert (Hyx : le_s y x). { destruct (String.leb_total x y) as [H|H]; [congruence|exact H]. }
      rewrite Forall_forall in *. intros z Hz.
      apply (Permutation_in _ (insert_perm x r)) in Hz. destruct Hz as [<-|Hz]; [exact Hyx|apply Hy; exact Hz].
Qed.

Lemma sort_ss l : StronglySorted le_s (sort_strings l).
Proof.
  induction l as [|x r IH]; [constructor|]. cbn [sort_strings fold_right]. fold (sort_strings r).
  apply insert_sorted_ss. exact IH.
Qed.

Lemma ss_perm_eq : forall l1 l2, StronglySorted le_s l1 -> StronglySorted le_s l2 -> Permutation l1 l2 -> l1 = l2.
Proof.
  induction l1 as [|x xs IH]; intros l2 H1 H2 Hp.
  - apply Permutation_nil in Hp. subst. reflexivity.
  - destruct l2 as [|y ys]; [apply Permutation_sym, Permutation_nil in Hp; discriminate|].
    inversion H1 as [|? ? Hxs Hx]; subst. inversion H2 as [|? ? Hys Hy]; subst.
    assert (Hxy : x = y).
    { rewrite Forall_forall in Hx, Hy.
      assert (Hin1 : In x (y :: ys)) by (eapply Permutation_in; [exact Hp|left; reflexivity]).
      assert (Hin2 : In y (x :: xs)) by (eapply Permutation_in; [apply Permutation_sym; exact Hp|left; reflexivity]).
      destruct Hin1 as [->|Hin1]; [reflexivity|]. destruct Hin2 as [->|Hin2]; [reflexivity|].
      apply String.leb_antisym; [apply Hx; exact Hin2|apply Hy; exact Hin1]. }
    subst y. f_equal. apply IH; [exact Hxs|exact Hys|]. eapply Permutation_cons_inv. exact Hp.
Qed.

Lemma sort_strings_perm l1 l2 : Permutation l1 l2 -> sort_strings l1 = sort_strings l2.
Proof.
  intros Hp. apply ss_perm_eq; [apply sort_ss|apply sort_ss|].
  rewrite sort_perm, Hp. symmetry. apply sort_perm.
Qed.

(* ---------- the vocabulary ---------- *)
Theorem vocab_same (num : numparser) (dpre deff : nat) (m : mdomain) :
  model_vocab (rr_domain num dpre deff m) = model_vocab m.
Proof.
  unfold model_vocab, rr_domain. cbn [d_types d_consts d_preds d_funcs d_actions].
  unfold vocab_text.
  rewrite (sort_strings_perm _ _ (Permutation_map (fun ct : string * string => fst ct +++ "<" +++ snd ct) (regroup_perm (d_types m)))).
  rewrite (sort_strings_perm _ _ (Permutation_map (fun ct : string * string => fst ct +++ ":" +++ snd ct) (regroup_perm (d_consts m)))).
  rewrite !map_map. cbn [fst snd rr_action ma_sig]. reflexivity.
Qed.
