(* C14, wave 3: State.typed_serialize.  The typed text of a state is the untyped text -- without the ':init' / ':state'
   head -- of a VIEW of the state in which every argument o of type t is replaced by the three arguments "o", "-", "t"
   (typed_view).  So everything proved about serialize (the library's reader returns the token tree; the spec's reading
   of the tree is the state) carries over: the typed text, read by the library's tokenizer and with the types dropped
   (Spec/State.read_typed_state), is the state. *)
From Coq Require Import List Ascii String Bool Arith Lia PrimFloat Permutation.
From Verif Require Import Base.Result Base.Str Base.Sexp Base.PyDict Base.Float Model.Tokenizer Spec.Layout
  Proofs.C11_Tokenizer Proofs.C11_Reader Model.State Spec.Pddl Spec.State
  Proofs.C14_Text Proofs.C14_Spec Proofs.C14_Eq Proofs.C14_Main Proofs.C14_Serialize Proofs.C14_Sorted.
Import ListNotations.
Open Scope string_scope.
Open Scope list_scope.

(* ---------- the view ---------- *)
Definition gp_obj (g : gpred) (p : string) : string := match dget (gp_map g) p with Some o => o | None => "" end.
Definition gp_targs (g : gpred) : list string := flat_map (fun pt => [gp_obj g (fst pt); "-"; snd pt]) (gp_sig g).
Definition pf_type (f : pfun) (v : string) : string := match dget (pf_sig f) v with Some t => t | None => "" end.
Definition pf_targs (f : pfun) : list string := flat_map (fun v => [v; "-"; pf_type f v]) (pf_vars f).

Definition typed_gp (g : gpred) : gpred :=
  {| gp_name := gp_name g; gp_sig := []; gp_map := combine (gp_targs g) (gp_targs g); gp_pos := gp_pos g |}.
Definition typed_pf (f : pfun) : pfun :=
  {| pf_name := pf_name f; pf_sig := map (fun v => (v, "")) (pf_targs f); pf_val := pf_val f; pf_rep := [];
     pf_int := pf_int f |}.
Definition typed_view (s : mstate) : mstate :=
  {| st_init := false;
     st_preds := map (fun kv => (fst kv, map typed_gp (snd kv))) (st_preds s);
     st_fluents := map (fun kv => (fst kv, typed_pf (snd kv))) (st_fluents s) |}.

(* every parameter of the signature is mapped / every printed variable has a type: typed_serialize does not raise *)
Definition gp_mapped (g : gpred) : Prop := forall p, In p (dkeys (gp_sig g)) -> dget (gp_map g) p <> None.
Definition pf_typed_ok (f : pfun) : Prop := forall v, In v (pf_vars f) -> dget (pf_sig f) v <> None.

Lemma snd_combine_self {A} (l : list A) : map snd (combine l l) = l.
Proof. induction l as [|x l IH]; [reflexivity|]. cbn [combine map snd]. rewrite IH. reflexivity. Qed.

Lemma gp_objects_typed g : gp_objects (typed_gp g) = gp_targs g.
Proof. unfold gp_objects, dvalues, typed_gp. cbn [gp_map]. apply snd_combine_self. Qed.

Lemma pf_vars_typed f : pf_vars (typed_pf f) = pf_targs f.
Proof.
  unfold pf_vars, typed_pf. cbn [pf_rep pf_sig flat_map app]. unfold dkeys. rewrite map_map. cbn [fst].
  rewrite map_id. induction (pf_targs f) as [|x l IH]; [reflexivity|]. cbn [filter]. unfold dmem at 1. cbn [dget negb].
  rewrite IH. reflexivity.
Qed.

(* join " " [a1 - b1; a2 - b2; ...] = join " " [a1; -; b1; a2; -; b2; ...] *)
Lemma join_typed {A} (a b : A -> string) (l : list A) :
  join " " (map (fun x => a x +++ " - " +++ b x) l) = join " " (flat_map (fun x => [a x; "-"; b x]) l).
Proof.
  induction l as [|x [|y r] IH]; [reflexivity| |].
  - cbn [map flat_map app join]. apply s2t_inj. rewrite !s2t_app. reflexivity.
  - change (map (fun x0 => a x0 +++ " - " +++ b x0) (x :: y :: r))
      with ((a x +++ " - " +++ b x) :: map (fun x0 => a x0 +++ " - " +++ b x0) (y :: r)).
    change (flat_map (fun x0 => [a x0; "-"; b x0]) (x :: y :: r))
      with (a x :: "-" :: b x :: flat_map (fun x0 => [a x0; "-"; b x0]) (y :: r)).
    assert (J : forall u v w, join " " (u :: v :: w) = u +++ " " +++ join " " (v :: w)) by reflexivity.
    assert (E : exists v w, flat_map (fun x0 => [a x0; "-"; b x0]) (y :: r) = v :: w) by (cbn [flat_map app]; eauto).
    destruct E as (v & w & E).
    assert (E' : exists v' w', map (fun x0 => a x0 +++ " - " +++ b x0) (y :: r) = v' :: w') by (cbn [map]; eauto).
    destruct E' as (v' & w' & E').
    rewrite E' in *. rewrite E in *. rewrite !J. rewrite IH.
    apply s2t_inj. rewrite !s2t_app. rewrite <- !app_assoc. reflexivity.
Qed.

Lemma mapM_ok {A B} (f : A -> result B) (g : A -> B) (l : list A) :
  (forall x, In x l -> f x = Ok (g x)) -> mapM f l = Ok (map g l).
Proof.
  induction l as [|x l IH]; intros H; [reflexivity|]. cbn [mapM map].
  rewrite (H x (or_introl eq_refl)). cbn [bind]. rewrite IH by (intros y Hy; apply H; right; exact Hy). reflexivity.
Qed.

(* str(fact) is the untyped text of the fact's view *)
Lemma gp_typed_view g : gp_mapped g -> gp_typed g = Ok (gp_untyped (typed_gp g)).
Proof.
  intros M. unfold gp_typed.
  rewrite (mapM_ok _ (fun pt => gp_obj g (fst pt) +++ " - " +++ snd pt)).
  - cbn [bind]. unfold gp_untyped. rewrite gp_objects_typed. unfold gp_targs.
    rewrite (join_typed (fun pt => gp_obj g (fst pt)) snd). reflexivity.
  - intros [p t] Hin. cbn [fst snd]. unfold gp_obj.
    destruct (dget (gp_map g) p) eqn:E; [reflexivity|]. exfalso. apply (M p); [|exact E].
    unfold dkeys. apply in_map_iff. exists (p, t). auto.
Qed.

Lemma pf_typed_view num_text f : pf_typed_ok f -> pf_typed_text num_text f = Ok (pf_state_text num_text (typed_pf f)).
Proof.
  intros M. unfold pf_typed_text.
  rewrite (mapM_ok _ (fun v => v +++ " - " +++ pf_type f v)).
  - cbn [bind]. unfold pf_state_text. rewrite pf_vars_typed. unfold pf_targs.
    rewrite (join_typed (fun v => v) (pf_type f)). reflexivity.
  - intros v Hin. unfold pf_type. destruct (dget (pf_sig f) v) eqn:E; [reflexivity|]. exfalso. exact (M v Hin E).
Qed.

(* ---------- typed_serialize is the headless text of the view ---------- *)
Section View.
  Variable num_text : float -> string.

  Definition headless (s : mstate) : string :=
    "(" +++ serialize_fluents num_text s +++ serialize_preds s +++ ")" +++ LFs.

  Lemma fold_groups (l : pydict (list gpred)) : forall acc,
    fold_left String.append (map (fun grp => " " +++ join " " (sort_strs (map gp_untyped (map typed_gp (snd grp))))) l) acc =
    fold_left (fun acc grp => acc +++ " " +++ join " " (sort_strs (map gp_untyped (snd grp))))
              (map (fun kv => (fst kv, map typed_gp (snd kv))) l) acc.
  Proof. induction l as [|grp l IH]; intros acc; [reflexivity|]. cbn [map fold_left snd]. apply IH. Qed.

  Definition preds_mapped (s : mstate) : Prop := forall g, In g (all_preds s) -> gp_mapped g.
  Definition fluents_typed_ok (s : mstate) : Prop := forall f, In f (dvalues (st_fluents s)) -> pf_typed_ok f.

  Lemma dvalues_view s : dvalues (st_fluents (typed_view s)) = map typed_pf (dvalues (st_fluents s)).
  Proof. unfold typed_view, dvalues. cbn [st_fluents]. rewrite !map_map. reflexivity. Qed.

  Lemma all_preds_view s : all_preds (typed_view s) = map typed_gp (all_preds s).
  Proof.
    unfold all_preds, typed_view. cbn [st_preds]. induction (st_preds s) as [|kv l IH]; [reflexivity|].
    cbn [map flat_map snd]. rewrite IH, map_app. reflexivity.
  Qed.

  Theorem typed_serialize_view s : preds_mapped s -> fluents_typed_ok s ->
    typed_serialize num_text s = Ok (headless (typed_view s)).
  Proof.
    intros Hp Hf. unfold typed_serialize.
    rewrite (mapM_ok _ (fun grp => " " +++ join " " (sort_strs (map gp_untyped (map typed_gp (snd grp)))))).
    - cbn [bind]. rewrite (mapM_ok _ (fun f => pf_state_text num_text (typed_pf f))).
      + cbn [bind]. unfold headless, serialize_fluents, serialize_preds, fluent_texts.
        rewrite dvalues_view, map_map. rewrite fold_groups. reflexivity.
      + intros f Hin. apply pf_typed_view, Hf, Hin.
    - intros grp Hin. rewrite (mapM_ok _ (fun g => gp_untyped (typed_gp g))).
      + cbn [bind]. rewrite map_map. reflexivity.
      + intros g Hg. apply gp_typed_view, Hp. unfold all_preds. apply in_flat_map. exists grp. auto.
  Qed.
End View.

(* ---------- the library's reader on the headless text ---------- *)
Section Parse.
  Variable num_text : float -> string.

  Definition body_sexp (s : mstate) : sexp := SList (fluent_sexps num_text s ++ fact_sexps s).

  (* the text of a state and the same text without its head token: the reader returns the same tree without the head *)
  Theorem parse_headless m s : st_init s = false -> state_ok s = true -> nums_clean num_text s ->
    parse m (s2t (headless num_text s)) = Ok (body_sexp (sort_facts s)).
  Proof.
    intros Hi Hs Hc.
    pose proof (parse_serialize_sorted num_text m s Hs Hc) as P.
    unfold parse, tokenize in *. apply parse_tokens_iff in P as (rest & Et & Hw).
    set (B := serialize_fluents num_text s +++ serialize_preds s +++ ")" +++ LFs) in *.
    assert (Es : s2t (serialize num_text s) = LP :: s2t ":state" ++ SP :: s2t B).
    { unfold serialize, B. rewrite Hi. rewrite !s2t_app. reflexivity. }
    assert (Eh : s2t (headless num_text s) = LP :: s2t B).
    { unfold headless, B. rewrite !s2t_app. reflexivity. }
    rewrite Es in Et. rewrite tk_lp in Et.
    change (s2t ":state" ++ SP :: s2t B) with (s2t ":state" ++ SP :: s2t B) in Et.
    rewrite tk_tok_ws in Et by reflexivity.
    unfold state_sexp in Et, Hw. cbn [flatten flat_map] in Et.
    assert (Hh : head_tok (sort_facts s) = ":state") by (unfold head_tok; cbn [sort_facts st_init]; rewrite Hi; reflexivity).
    rewrite Hh in Et, Hw. cbn [flatten app] in Et. injection Et as Et.
    rewrite Eh, tk_lp, Et.
    apply parse_tokens_iff. exists rest. split.
    - unfold body_sexp. cbn [flatten]. reflexivity.
    - unfold body_sexp. cbn [wf forallb] in Hw |- *. apply andb_true_iff in Hw as [_ Hw]. exact Hw.
  Qed.
End Parse.

(* ---------- the view of a well-formed state is a well-formed state ---------- *)
Lemma dget_in_values {V} (d : pydict V) k v : dget d k = Some v -> In v (dvalues d).
Proof.
  induction d as [|[k' v'] d IH]; [discriminate|]. cbn [dget dvalues map snd].
  destruct (String.eqb k k'); [intros H; injection H as ->; left; reflexivity|intros H; right; apply IH, H].
Qed.

Definition gp_types_ok (g : gpred) : Prop := forallb tok_ok (dvalues (gp_sig g)) = true.
Definition pf_types_ok (f : pfun) : Prop := forall v, In v (pf_vars f) -> tok_ok (pf_type f v) = true.

Lemma gp_ok_view g : gp_ok g = true -> gp_mapped g -> gp_types_ok g -> gp_ok (typed_gp g) = true.
Proof.
  unfold gp_ok, gp_types_ok. rewrite !andb_true_iff. intros [[Hp Ha] Hn] M T.
  unfold atom_ok in *. rewrite andb_true_iff in Ha. destruct Ha as [Hname Hobjs].
  split; [split|]; [exact Hp| |exact Hn].
  unfold gp_atom. cbn [fst snd]. rewrite gp_objects_typed. cbn [typed_gp gp_name]. rewrite andb_true_iff.
  split; [exact Hname|]. unfold gp_targs. rewrite forallb_forall in *. intros x Hx.
  apply in_flat_map in Hx as ([p t] & Hin & Hx). cbn [fst snd] in Hx. destruct Hx as [<-|[<-|[<-|[]]]].
  - unfold gp_obj. destruct (dget (gp_map g) p) eqn:E.
    + apply Hobjs. unfold gp_atom. cbn [snd]. unfold gp_objects. eapply dget_in_values, E.
    + exfalso. apply (M p); [|exact E]. unfold dkeys. apply in_map_iff. exists (p, t). auto.
  - reflexivity.
  - apply T. unfold dvalues. apply in_map_iff. exists (p, t). auto.
Qed.

Lemma pf_ok_view f : pf_ok f = true -> pf_types_ok f -> pf_ok (typed_pf f) = true.
Proof.
  unfold pf_ok, pf_types_ok. rewrite !andb_true_iff. intros [Ha Hi] T. split; [|exact Hi].
  unfold atom_ok, pf_atom in *. cbn [fst snd] in *. rewrite pf_vars_typed. cbn [typed_pf pf_name].
  rewrite andb_true_iff in *. destruct Ha as [Hn Hv]. split; [exact Hn|].
  unfold pf_targs. rewrite forallb_forall in *. intros x Hx.
  apply in_flat_map in Hx as (v & Hin & Hx). destruct Hx as [<-|[<-|[<-|[]]]].
  - apply Hv, Hin.
  - reflexivity.
  - apply T, Hin.
Qed.

Definition types_ok (s : mstate) : Prop :=
  (forall g, In g (all_preds s) -> gp_types_ok g) /\ (forall f, In f (dvalues (st_fluents s)) -> pf_types_ok f).

Lemma state_ok_view s : state_ok s = true -> preds_mapped s -> types_ok s -> state_ok (typed_view s) = true.
Proof.
  unfold state_ok. rewrite !andb_true_iff. intros [Hp Hf] M [Tg Tf]. rewrite all_preds_view, dvalues_view.
  rewrite forallb_forall in Hp, Hf. split; apply forallb_forall; intros x Hx; apply in_map_iff in Hx as (y & <- & Hy).
  - apply gp_ok_view; [apply Hp, Hy|apply M, Hy|apply Tg, Hy].
  - apply pf_ok_view; [apply Hf, Hy|apply Tf, Hy].
Qed.

Lemma values_view s : values (typed_view s) = values s.
Proof. unfold values. rewrite dvalues_view, map_map. reflexivity. Qed.

(* ---------- dropping the types (Spec/State.untype) ---------- *)
Lemma untype_targs {A} (a b : A -> string) (l : list A) : forall fuel, List.length l < fuel ->
  untype fuel (map Atom (flat_map (fun x => [a x; "-"; b x]) l)) = Some (map Atom (map a l)).
Proof.
  induction l as [|x l IH]; intros fuel Hf.
  - destruct fuel; [inversion Hf|reflexivity].
  - destruct fuel; [inversion Hf|]. cbn [flat_map app map untype]. rewrite String.eqb_refl.
    rewrite IH by (cbn [List.length] in Hf; lia). reflexivity.
Qed.

Lemma length_targs {A} (f : A -> list string) (l : list A) : (forall x, List.length (f x) = 3) ->
  List.length l < S (List.length (map Atom (flat_map f l))).
Proof.
  intros H. rewrite map_length. induction l as [|x l IH]; cbn [flat_map List.length]; [lia|].
  rewrite app_length, H. lia.
Qed.

Lemma untype_fact g : String.eqb (gp_name g) "=" = false ->
  untype_item (atom_sexp (gp_atom (typed_gp g))) = Some (atom_sexp (gp_name g, map (fun pt => gp_obj g (fst pt)) (gp_sig g))).
Proof.
  intros Hn. unfold atom_sexp, gp_atom. cbn [fst snd]. rewrite gp_objects_typed. cbn [typed_gp gp_name untype_item].
  rewrite Hn. unfold gp_targs.
  rewrite (untype_targs (fun pt => gp_obj g (fst pt)) snd) by (apply length_targs; reflexivity). reflexivity.
Qed.

Lemma untype_fluent f num :
  untype_item (valued_sexp (pf_atom (typed_pf f)) num) = Some (valued_sexp (pf_atom f) num).
Proof.
  unfold valued_sexp, atom_sexp, pf_atom. cbn [fst snd]. rewrite pf_vars_typed. cbn [typed_pf pf_name untype_item].
  rewrite String.eqb_refl. unfold pf_targs.
  rewrite (untype_targs (fun v => v) (pf_type f)) by (apply length_targs; reflexivity). rewrite map_id. reflexivity.
Qed.

Lemma gp_wf_mapped g : gp_wf g -> gp_mapped g.
Proof.
  intros [E N] p Hp. rewrite <- E in Hp. unfold dkeys in Hp. apply in_map_iff in Hp as ([k v] & <- & Hin).
  cbn [fst]. rewrite (dget_in_nodup _ k v N Hin). discriminate.
Qed.

Lemma gp_wf_objects g : gp_wf g -> map (fun pt => gp_obj g (fst pt)) (gp_sig g) = gp_objects g.
Proof.
  intros [E N]. unfold gp_objects, dvalues.
  assert (H : map (fun pt : string * string => gp_obj g (fst pt)) (gp_sig g) = map (gp_obj g) (dkeys (gp_sig g)))
    by (unfold dkeys; rewrite map_map; reflexivity).
  rewrite H, <- E. unfold dkeys. rewrite map_map. apply map_ext_in. intros [k v] Hin. cbn [fst snd].
  unfold gp_obj. rewrite (dget_in_nodup _ k v N Hin). reflexivity.
Qed.

(* ---------- the typed text reads back as the state ---------- *)
Lemma untype_items_app a : forall b a' b',
  untype_items a = Some a' -> untype_items b = Some b' -> untype_items (a ++ b) = Some (a' ++ b').
Proof.
  induction a as [|x a IH]; intros b a' b' Ha Hb.
  - injection Ha as <-. exact Hb.
  - cbn [untype_items app] in *. destruct (untype_item x) as [x'|]; [|discriminate].
    destruct (untype_items a) as [a0|] eqn:E; [|discriminate]. injection Ha as <-.
    rewrite (IH b a0 b' eq_refl Hb). reflexivity.
Qed.

Lemma untype_items_map {A} (f g : A -> sexp) (l : list A) :
  (forall x, In x l -> untype_item (f x) = Some (g x)) -> untype_items (map f l) = Some (map g l).
Proof.
  induction l as [|x l IH]; intros H; [reflexivity|]. cbn [map untype_items].
  rewrite (H x (or_introl eq_refl)), IH by (intros y Hy; apply H; right; exact Hy). reflexivity.
Qed.

Section Reads.
  Variable num_text : float -> string.
  Variable parse_num : string -> option float.

  Theorem typed_serialize_reads_back m s :
    state_ok s = true -> all_wf (all_preds s) -> fluents_typed_ok s -> types_ok s ->
    nums_clean num_text s -> (forall x, In x (values s) -> num_ok num_text parse_num x) ->
    exists t e st, typed_serialize num_text s = Ok t /\ parse m (s2t t) = Ok e /\
                   read_typed_state parse_num e = Some st /\ State_same st (den s).
  Proof.
    intros Hs Wf Tf Ty Hc Hn.
    assert (M : preds_mapped s).
    { intros g Hg. apply gp_wf_mapped. unfold all_wf in Wf. rewrite Forall_forall in Wf. apply Wf, Hg. }
    set (v := typed_view s).
    assert (Hv : state_ok v = true) by (apply state_ok_view; assumption).
    assert (Hcv : nums_clean num_text v) by (unfold nums_clean, v; rewrite values_view; exact Hc).
    destruct (read_back_exists num_text parse_num s Hn) as (fl' & R & S).
    (* the facts of the sorted view are the views of a permutation of the facts *)
    destruct (Permutation_map_inv typed_gp (all_preds s) (l1 := all_preds (sort_facts v))) as (L & EL & PL).
    { unfold v. rewrite <- all_preds_view. apply all_preds_sorted. }
    exists (headless num_text v), (body_sexp num_text (sort_facts v)), {| Pddl.facts := map gp_atom L; fluents := fl' |}.
    split; [apply typed_serialize_view; assumption|].
    split; [apply parse_headless; [reflexivity|exact Hv|exact Hcv]|].
    split.
    - unfold read_typed_state, body_sexp.
      assert (U : untype_items (fluent_sexps num_text (sort_facts v) ++ fact_sexps (sort_facts v)) =
                  Some (map (fun kv => valued_sexp (fst kv) (num_text (snd kv))) (den_fluents s) ++
                        map atom_sexp (map gp_atom L))).
      { apply untype_items_app.
        - unfold fluent_sexps. rewrite den_fluents_sorted. unfold den_fluents, v. rewrite dvalues_view, !map_map.
          apply untype_items_map. intros f _. cbn [fst snd]. cbn [typed_pf pf_val]. apply untype_fluent.
        - unfold fact_sexps, den_facts. rewrite EL, !map_map. apply untype_items_map. intros g Hg.
          assert (Hin : In g (all_preds s)) by (eapply Permutation_in; [apply Permutation_sym, PL|exact Hg]).
          unfold state_ok in Hs. apply andb_true_iff in Hs as [Hp _]. rewrite forallb_forall in Hp.
          specialize (Hp g Hin). unfold gp_ok in Hp. apply andb_true_iff in Hp as [_ Hne]. apply negb_true_iff in Hne.
          rewrite (untype_fact g Hne).
          unfold all_wf in Wf. rewrite Forall_forall in Wf. rewrite (gp_wf_objects g (Wf g Hin)). reflexivity. }
      rewrite U. apply read_items_state; [exact R|].
      apply Forall_forall. intros a Ha. apply in_map_iff in Ha as (g & <- & Hg).
      assert (Hin : In g (all_preds s)) by (eapply Permutation_in; [apply Permutation_sym, PL|exact Hg]).
      unfold state_ok in Hs. apply andb_true_iff in Hs as [Hp _]. rewrite forallb_forall in Hp.
      specialize (Hp g Hin). unfold gp_ok in Hp. apply andb_true_iff in Hp as [_ Hne]. apply negb_true_iff in Hne. exact Hne.
    - split; [|exact S]. intros x. cbn [Pddl.facts den]. unfold den_facts. split; intros Hx.
      + eapply Permutation_in; [apply Permutation_map, Permutation_sym, PL|exact Hx].
      + eapply Permutation_in; [apply Permutation_map, PL|exact Hx].
  Qed.
End Reads.

(* ---------- the hypotheses are satisfiable (Proofs/C14_Examples.ex_s: facts of arity 0-2, a fluent with a repeated
   argument as the problem parser stores it, -0.0 and nan among the values) ---------- *)
From Verif Require Import Proofs.C14_Examples.

Example ex_typed_hypotheses :
  state_ok ex_s = true /\ all_wf (all_preds ex_s) /\ fluents_typed_ok ex_s /\ types_ok ex_s /\
  nums_clean ex_num_text ex_s /\ (forall x, In x (values ex_s) -> num_ok ex_num_text ex_parse_num x) /\
  typed_serialize ex_num_text ex_s =
    Ok ("((= (f a - t) 2.5) (= (g a - t a - t) -0.0) (= (h ) nan) (p a - t) (p b - t) (q a - t a - t) (z ))" +++ LFs).
Proof.
  split; [vm_compute; reflexivity|]. split.
  { unfold all_wf. apply Forall_forall. intros g Hg. vm_compute in Hg. in_cases;
      (split; [reflexivity|]); cbn; repeat constructor; cbn; intuition discriminate. }
  split.
  { intros f Hf v Hv. vm_compute in Hf. in_cases; vm_compute in Hv; in_cases; vm_compute; discriminate. }
  split.
  { split.
    - intros g Hg. vm_compute in Hg. in_cases; vm_compute; reflexivity.
    - intros f Hf v Hv. vm_compute in Hf. in_cases; vm_compute in Hv; in_cases; vm_compute; reflexivity. }
  split; [apply ex_clean; auto|]. split.
  { intros x Hx. apply (proj1 ex_nums_ok). apply in_or_app. left. exact Hx. }
  vm_compute. reflexivity.
Qed.
