(* C12_print: (1) every constant is printed within half a unit of the last printed decimal of its exact
   value (integers exactly), proved in Z on the exact dyadic value; (2) the printed token tree is read back by
   construct_expression_tree into a tree of the same structure. *)
From Coq Require Import ZArith NArith List Bool String Ascii Lia PrimFloat FloatOps SpecFloat.
From Verif Require Import Base.Result Base.Str Base.Sexp Base.Float Model.NumExpr Spec.Arith.
Import ListNotations.
Open Scope list_scope.
Open Scope string_scope.
Open Scope Z_scope.

(* ------------------------------------------------------------------ digits *)
Lemma digit_char_facts d : 0 <= d < 10 -> is_digit (digit_char d) = true /\ digit_val (digit_char d) = d.
Proof.
  intros H.
  assert (Hc : d = 0 \/ d = 1 \/ d = 2 \/ d = 3 \/ d = 4 \/ d = 5 \/ d = 6 \/ d = 7 \/ d = 8 \/ d = 9) by lia.
  repeat (destruct Hc as [-> | Hc]; [split; reflexivity|]). subst. split; reflexivity.
Qed.

Lemma is_digit_not_special c : is_digit c = true -> Ascii.eqb c "." = false /\ Ascii.eqb c "-" = false.
Proof.
  intros H.
  pose proof (forall_ascii (fun c => implb (is_digit c) (negb (Ascii.eqb c ".") && negb (Ascii.eqb c "-")))) as F.
  specialize (F eq_refl c). cbv beta in F. rewrite H in F. cbn [implb] in F.
  apply andb_true_iff in F as [F1 F2]. apply negb_true_iff in F1, F2. split; assumption.
Qed.

Lemma all_digits_app s t : all_digits (s ++ t) = all_digits s && all_digits t.
Proof. induction s as [|c s IH]; cbn [append all_digits]; [reflexivity|]. rewrite IH, andb_assoc. reflexivity. Qed.

Lemma digits_val_acc_app s t acc : digits_val_acc (s ++ t) acc = digits_val_acc t (digits_val_acc s acc).
Proof. revert acc. induction s as [|c s IH]; intros acc; cbn [append digits_val_acc]; [reflexivity|]. apply IH. Qed.

Lemma length_app s t : String.length (s ++ t) = (String.length s + String.length t)%nat.
Proof. induction s as [|c s IH]; cbn [append String.length]; [reflexivity|]. rewrite IH. reflexivity. Qed.

Lemma nonempty_app_r s c : nonempty (s ++ String c EmptyString) = true.
Proof. destruct s; reflexivity. Qed.

Lemma pow10_succ w : 10 ^ Z.of_nat (S w) = 10 * 10 ^ Z.of_nat w.
Proof. rewrite Nat2Z.inj_succ, Z.pow_succ_r by lia. reflexivity. Qed.

Lemma pow10_pos w : 0 < 10 ^ Z.of_nat w.
Proof. apply Z.pow_pos_nonneg; lia. Qed.

Lemma digits_fixed_facts w : forall n acc, 0 <= n ->
  all_digits (digits_fixed w n) = true /\ String.length (digits_fixed w n) = w /\
  digits_val_acc (digits_fixed w n) acc = acc * 10 ^ Z.of_nat w + n mod 10 ^ Z.of_nat w.
Proof.
  induction w as [|w IH]; intros n acc Hn.
  - cbn [digits_fixed all_digits String.length digits_val_acc]. repeat split.
    change (10 ^ Z.of_nat 0) with 1. rewrite Z.mod_1_r. lia.
  - cbn [digits_fixed].
    assert (Hq : 0 <= n / 10) by (apply Z.div_pos; lia).
    assert (Hr : 0 <= n mod 10 < 10) by (apply Z.mod_pos_bound; lia).
    destruct (IH (n / 10) acc Hq) as (Ha & Hl & Hv).
    destruct (digit_char_facts _ Hr) as [Hd Hdv].
    rewrite all_digits_app, length_app, digits_val_acc_app, Ha, Hl, Hv.
    cbn [all_digits String.length digits_val_acc]. rewrite Hd, Hdv. repeat split.
    + lia.
    + rewrite pow10_succ. pose proof (pow10_pos w) as Hp.
      rewrite (Z.rem_mul_r n 10 (10 ^ Z.of_nat w)) by lia. lia.
Qed.

Lemma digits_var_facts f : forall n, 0 <= n < 10 ^ (Z.of_nat f + 1) ->
  all_digits (digits_var f n) = true /\ nonempty (digits_var f n) = true /\ digits_val_acc (digits_var f n) 0 = n.
Proof.
  induction f as [|f IH]; intros n Hn.
  - cbn [digits_var]. change (10 ^ (Z.of_nat 0 + 1)) with 10 in Hn.
    assert (Hr : 0 <= n mod 10 < 10) by (apply Z.mod_pos_bound; lia).
    destruct (digit_char_facts _ Hr) as [Hd Hdv].
    cbn [all_digits nonempty digits_val_acc]. rewrite Hd, Hdv. repeat split.
    rewrite Z.mod_small by lia. lia.
  - cbn [digits_var]. destruct (n <? 10) eqn:E.
    + apply Z.ltb_lt in E. assert (Hr : 0 <= n < 10) by lia.
      destruct (digit_char_facts _ Hr) as [Hd Hdv].
      cbn [all_digits nonempty digits_val_acc]. rewrite Hd, Hdv. repeat split.
    + apply Z.ltb_ge in E.
      assert (Hq : 0 <= n / 10 < 10 ^ (Z.of_nat f + 1)).
      { split; [apply Z.div_pos; lia|]. apply Z.div_lt_upper_bound; [lia|].
        replace (Z.of_nat (S f) + 1) with (Z.succ (Z.of_nat f + 1)) in Hn by lia.
        rewrite Z.pow_succ_r in Hn by lia. lia. }
      assert (Hr : 0 <= n mod 10 < 10) by (apply Z.mod_pos_bound; lia).
      destruct (IH _ Hq) as (Ha & _ & Hv). destruct (digit_char_facts _ Hr) as [Hd Hdv].
      rewrite all_digits_app, digits_val_acc_app, Ha, Hv, nonempty_app_r.
      cbn [all_digits digits_val_acc]. rewrite Hd, Hdv. repeat split.
      pose proof (Z.div_mod n 10). lia.
Qed.

Lemma digits_of_facts n : 0 <= n ->
  all_digits (digits_of n) = true /\ nonempty (digits_of n) = true /\ digits_val_acc (digits_of n) 0 = n.
Proof.
  intros Hn. unfold digits_of. apply digits_var_facts.
  rewrite Z2Nat.id by apply Z.log2_nonneg. split; [exact Hn|].
  destruct (Z.eq_dec n 0) as [->|Hne]; [reflexivity|].
  assert (Hpos : 0 < n) by lia.
  pose proof (Z.log2_spec n Hpos) as [_ Hub].
  eapply Z.lt_le_trans; [exact Hub|].
  unfold Z.succ. apply Z.pow_le_mono_l. lia.
Qed.

(* ------------------------------------------------------------------ reading the text back *)
Lemma split_point_digits ip rest :
  all_digits ip = true -> split_point (ip ++ String "." rest) = (ip, Some rest).
Proof.
  induction ip as [|c ip IH]; intros H; cbn [append split_point].
  - reflexivity.
  - cbn [all_digits] in H. apply andb_true_iff in H as [Hc Hr].
    destruct (is_digit_not_special c Hc) as [-> _]. rewrite (IH Hr). reflexivity.
Qed.

Lemma split_point_nodot ip : all_digits ip = true -> split_point ip = (ip, None).
Proof.
  induction ip as [|c ip IH]; intros H; cbn [split_point]; [reflexivity|].
  cbn [all_digits] in H. apply andb_true_iff in H as [Hc Hr].
  destruct (is_digit_not_special c Hc) as [-> _]. rewrite (IH Hr). reflexivity.
Qed.

Lemma nonempty_length s : String.length s <> O -> nonempty s = true.
Proof. destruct s; cbn; [congruence | reflexivity]. Qed.

Lemma dec_parse_unsigned_fixed digits n : 0 <= n -> dec_parse_unsigned (fixed_text digits n) = Some (n, digits).
Proof.
  intros Hn. unfold dec_parse_unsigned, fixed_text. destruct digits as [|k].
  - destruct (digits_of_facts n Hn) as (Ha & Hne & Hv).
    rewrite (split_point_nodot _ Ha), Hne. unfold digits_value. rewrite Ha, Hv. reflexivity.
  - set (p := 10 ^ Z.of_nat (S k)). assert (Hp : 0 < p) by apply pow10_pos.
    assert (Hq : 0 <= n / p) by (apply Z.div_pos; lia).
    assert (Hr : 0 <= n mod p) by (apply Z.mod_pos_bound; lia).
    destruct (digits_of_facts _ Hq) as (Ha & Hne & Hv).
    destruct (digits_fixed_facts (S k) (n mod p) (n / p) Hr) as (Hfa & Hfl & Hfv).
    rewrite (split_point_digits _ _ Ha), Hne, (nonempty_length _ ltac:(rewrite Hfl; discriminate)).
    cbn [andb]. unfold digits_value. rewrite all_digits_app, Ha, Hfa. cbn [andb].
    rewrite digits_val_acc_app, Hv, Hfv, Hfl. fold p. rewrite Z.mod_mod by lia.
    pose proof (Z.div_mod n p). replace (n / p * p + n mod p) with n by lia. reflexivity.
Qed.

Lemma fixed_text_first digits n : 0 <= n ->
  exists c r, fixed_text digits n = String c r /\ is_digit c = true.
Proof.
  intros Hn. unfold fixed_text.
  assert (G : forall m rest, 0 <= m -> exists c r, digits_of m ++ rest = String c r /\ is_digit c = true).
  { intros m rest Hm. destruct (digits_of_facts m Hm) as (Ha & Hne & _).
    destruct (digits_of m) as [|c r]; [discriminate|]. cbn [all_digits] in Ha.
    apply andb_true_iff in Ha as [Hc _]. exists c, (r ++ rest). split; [reflexivity | exact Hc]. }
  destruct digits as [|k].
  - destruct (digits_of_facts n Hn) as (Ha & Hne & _).
    destruct (digits_of n) as [|c r]; [discriminate|]. cbn [all_digits] in Ha.
    apply andb_true_iff in Ha as [Hc _]. exists c, r. split; [reflexivity | exact Hc].
  - apply G. apply Z.div_pos; [lia | apply pow10_pos].
Qed.

Lemma dec_parse_signed (neg : bool) digits n : 0 <= n ->
  dec_parse (let t := fixed_text digits n in if neg then String "-" t else t) = Some (neg, n, digits).
Proof.
  intros Hn. cbv zeta. destruct neg.
  - cbn [dec_parse]. change (Ascii.eqb "-" "-") with true. cbn iota.
    rewrite (dec_parse_unsigned_fixed _ _ Hn). reflexivity.
  - destruct (fixed_text_first digits n Hn) as (c & r & E & Hc).
    unfold dec_parse. rewrite E. destruct (is_digit_not_special c Hc) as [_ ->].
    rewrite <- E, (dec_parse_unsigned_fixed _ _ Hn). reflexivity.
Qed.

(* ------------------------------------------------------------------ rounding *)
Lemma div_rne_bound a b : 0 <= a -> 0 < b -> 0 <= div_rne a b /\ 2 * Z.abs (div_rne a b * b - a) <= b.
Proof.
  intros Ha Hb. unfold div_rne.
  pose proof (Z.div_mod a b ltac:(lia)) as Hdm.
  pose proof (Z.mod_pos_bound a b Hb) as Hr.
  assert (Hq : 0 <= a / b) by (apply Z.div_pos; lia).
  set (q := a / b) in *. set (r := a mod b) in *.
  assert (E1 : q * b - a = - r) by lia.
  assert (E2 : (q + 1) * b - a = b - r) by lia.
  destruct (Z.compare_spec (2 * r) b) as [He|Hl|Hg].
  - destruct (Z.even q); [rewrite E1 | rewrite E2]; lia.
  - rewrite E1. lia.
  - rewrite E2. lia.
Qed.

Lemma sf_exact_facts f d : sf_exact f = Some d -> 0 <= dy_m d.
Proof. destruct f; cbn; intros H; inversion H; subst; cbn; lia. Qed.

Lemma scaled_rne_nonneg digits d : 0 <= dy_m d -> 0 <= scaled_rne digits d.
Proof.
  intros Hm. unfold scaled_rne. pose proof (pow10_pos digits) as Hp.
  destruct (0 <=? dy_e d) eqn:E.
  - apply Z.leb_le in E. apply Z.mul_nonneg_nonneg; [|lia].
    apply Z.mul_nonneg_nonneg; [lia|]. apply Z.pow_nonneg. lia.
  - apply Z.leb_gt in E. apply div_rne_bound; [apply Z.mul_nonneg_nonneg; lia | apply Z.pow_pos_nonneg; lia].
Qed.

(* non-integers: within half a unit of the last printed digit *)
Lemma text_close_scaled digits d :
  0 <= dy_m d -> dy_e d < 0 ->
  text_close d (dy_neg d) (scaled_rne digits d) digits digits = true.
Proof.
  intros Hm He. unfold text_close, text_err_scaled, scaled_rne.
  assert (E0 : (0 <=? dy_e d) = false) by (apply Z.leb_gt; exact He). rewrite E0.
  rewrite (Z.max_l (- dy_e d) 0) by lia. rewrite (Z.max_r (dy_e d) 0) by lia.
  change (2 ^ 0) with 1.
  set (p := 10 ^ Z.of_nat digits). set (b := 2 ^ (- dy_e d)).
  assert (Hp : 0 < p) by apply pow10_pos.
  assert (Hb : 0 < b) by (apply Z.pow_pos_nonneg; lia).
  destruct (div_rne_bound (dy_m d * p) b ltac:(apply Z.mul_nonneg_nonneg; lia) Hb) as [Hn Hbd].
  set (n := div_rne (dy_m d * p) b) in *.
  apply Z.leb_le.
  assert (Habs : Z.abs ((if dy_neg d then - n else n) * b - (if dy_neg d then - dy_m d else dy_m d) * 1 * p)
                 = Z.abs (n * b - dy_m d * p)).
  { destruct (dy_neg d); [|f_equal; lia].
    replace (- n * b - - dy_m d * 1 * p) with (- (n * b - dy_m d * p)) by lia. apply Z.abs_opp. }
  rewrite Habs.
  replace (2 * p * Z.abs (n * b - dy_m d * p)) with (p * (2 * Z.abs (n * b - dy_m d * p))) by lia.
  apply Z.mul_le_mono_nonneg_l; lia.
Qed.

(* integers: exactly *)
Lemma text_exact_trunc d :
  0 <= dy_m d -> dy_is_integer d = true ->
  text_exact d (dy_trunc d <? 0) (Z.abs (dy_trunc d)) O = true.
Proof.
  intros Hm Hint. unfold text_exact, text_err_scaled. apply Z.eqb_eq.
  assert (Hsn : (if dy_trunc d <? 0 then - Z.abs (dy_trunc d) else Z.abs (dy_trunc d)) = dy_trunc d).
  { destruct (dy_trunc d <? 0) eqn:E; [apply Z.ltb_lt in E | apply Z.ltb_ge in E]; lia. }
  rewrite Hsn. change (10 ^ Z.of_nat 0) with 1. rewrite Z.mul_1_r.
  unfold dy_is_integer in Hint. unfold dy_trunc, dy_trunc_abs.
  destruct (0 <=? dy_e d) eqn:E.
  - apply Z.leb_le in E. rewrite (Z.max_r (- dy_e d) 0), (Z.max_l (dy_e d) 0) by lia.
    change (2 ^ 0) with 1. destruct (dy_neg d); rewrite Z.abs_0_iff; lia.
  - apply Z.leb_gt in E. cbn [orb] in Hint. apply Z.eqb_eq in Hint.
    rewrite (Z.max_l (- dy_e d) 0), (Z.max_r (dy_e d) 0) by lia. change (2 ^ 0) with 1.
    set (b := 2 ^ (- dy_e d)) in *.
    assert (Hb : 0 < b) by (apply Z.pow_pos_nonneg; lia).
    pose proof (Z.div_mod (dy_m d) b ltac:(lia)) as Hdm. rewrite Hint in Hdm.
    destruct (dy_neg d); rewrite Z.abs_0_iff; lia.
Qed.

Lemma dec_parse_int z : dec_parse (py_int_text z) = Some (z <? 0, Z.abs z, O).
Proof.
  unfold py_int_text. destruct (z <? 0) eqn:E.
  - apply Z.ltb_lt in E. replace (Z.abs z) with (- z) by lia.
    exact (dec_parse_signed true O (- z) ltac:(lia)).
  - apply Z.ltb_ge in E. replace (Z.abs z) with z by lia.
    exact (dec_parse_signed false O z E).
Qed.

(* ------------------------------------------------------------------ C12_print, value part *)
Lemma print_core digits d :
  0 <= dy_m d ->
  match dec_parse (if dy_is_integer d then py_int_text (dy_trunc d)
                   else (let t := fixed_text digits (scaled_rne digits d) in if dy_neg d then String "-" t else t)) with
  | Some (neg, n, k) =>
      if dy_is_integer d then text_exact d neg n k else Nat.eqb k digits && text_close d neg n k digits
  | None => false
  end = true.
Proof.
  intros Hm. destruct (dy_is_integer d) eqn:Hint.
  - rewrite dec_parse_int. apply text_exact_trunc; assumption.
  - rewrite (dec_parse_signed (dy_neg d) digits _ (scaled_rne_nonneg digits d Hm)).
    rewrite Nat.eqb_refl. cbn [andb]. apply text_close_scaled; [exact Hm|].
    unfold dy_is_integer in Hint. apply orb_false_iff in Hint as [Hint _]. apply Z.leb_gt in Hint. exact Hint.
Qed.

Theorem C12_print_value_lemma digits v : print_ok digits v (num_text digits v) = true.
Proof.
  unfold print_ok, num_text, exact, format_fixed.
  destruct (Prim2SF v) as [s|s| |s m e] eqn:Hf; cbn [sf_exact].
  - set (d := {| dy_neg := s; dy_m := 0; dy_e := 0 |}).
    pose proof (print_core digits d ltac:(cbn; lia)) as H.
    destruct (dy_is_integer d); exact H.
  - destruct s; reflexivity.
  - reflexivity.
  - set (d := {| dy_neg := s; dy_m := Z.pos m; dy_e := e |}).
    pose proof (print_core digits d ltac:(cbn; lia)) as H.
    destruct (dy_is_integer d); exact H.
Qed.

(* ------------------------------------------------------------------ C12_print, structure part *)
Close Scope Z_scope.

(* the token tree of to_pddl's text *)
Fixpoint print_sexp (digits : nat) (t : ntree) : sexp :=
  match t with
  | NNum v => Atom (num_text digits v)
  | NFl f => SList (Atom (nf_name f) :: map Atom (nf_params f))
  | NBin op l r => SList [Atom op; print_sexp digits l; print_sexp digits r]
  end.

Section Structure.
  Variable strict : bool.
  Variable pn : string -> option float.
  Variable funcs : domain_functions.
  Variable digits : nat.

  (* trees as construct_expression_tree builds them from this domain *)
  Definition fl_ok (f : nfun) : Prop :=
    str_in (nf_name f) LEGAL_NUMERIC_OPERATORS = false /\ NoDup (nf_params f) /\
    exists sig, alookup (nf_name f) funcs = Some sig /\
                List.length (nf_params f) = List.length sig /\ (nf_params f = [] -> sig = []).

  Definition is_num (t : ntree) : bool := match t with NNum _ => true | _ => false end.

  Fixpoint tree_ok (t : ntree) : Prop :=
    match t with
    | NNum v => str_in (num_text digits v) LEGAL_NUMERICAL_EXPRESSIONS = false /\ pn (num_text digits v) <> None
    | NFl f => fl_ok f
    | NBin op l r =>
        tree_ok l /\ tree_ok r /\ (is_num l && is_num r = true -> str_in op LEGAL_NUMERIC_OPERATORS = true)
    end.

  (* same structure: same operators and fluents at the same places; a constant is replaced by what float() makes
     of its printed numeral *)
  Fixpoint same_shape (t t' : ntree) : Prop :=
    match t, t' with
    | NNum v, NNum v' => pn (num_text digits v) = Some v'
    | NFl f, NFl f' => f = f'
    | NBin op l r, NBin op' l' r' => op = op' /\ same_shape l l' /\ same_shape r r'
    | _, _ => False
    end.

  Lemma all_atoms_map' a : all_atoms (map Atom a) = Some a.
  Proof. induction a as [|x xs IH]; simpl; [reflexivity|]. rewrite IH. reflexivity. Qed.

  Lemma dedup_keys_nodup' l : forall seen, NoDup l -> (forall x, In x l -> ~ In x seen) -> dedup_keys seen l = l.
  Proof.
    induction l as [|x xs IH]; intros seen Hnd Hdis; simpl; [reflexivity|].
    destruct (str_in x seen) eqn:E.
    - apply str_in_In in E. exfalso. apply (Hdis x); [left; reflexivity | exact E].
    - f_equal. inversion Hnd as [|? ? Hnx Hnd']; subst. apply IH; [exact Hnd'|].
      intros y Hy [Hyx|Hys].
      + subst. contradiction.
      + apply (Hdis y); [right; exact Hy | exact Hys].
  Qed.

  Lemma has_dup_s_nodup' l : NoDup l -> has_dup_s l = false.
  Proof.
    induction l as [|x xs IH]; intros Hnd; [reflexivity|]. inversion Hnd as [|? ? Hnx Hnd']; subst. cbn [has_dup_s].
    rewrite (IH Hnd'), orb_false_r. destruct (str_in x xs) eqn:E; [|reflexivity].
    apply str_in_In in E. contradiction.
  Qed.

  Lemma reread_fluent f : fl_ok f -> construct strict pn funcs (print_sexp digits (NFl f)) = Ok (NFl f).
  Proof.
    intros (Hn & Hnd & sig & Hsig & Hlen & Hnil). destruct f as [n a]. cbn [nf_name nf_params] in *.
    cbn [print_sexp construct nf_name nf_params].
    change (all_atoms (Atom n :: map Atom a)) with
      (match all_atoms (map Atom a) with Some t => Some (n :: t) | None => None end).
    rewrite all_atoms_map'. cbn [construct_flat]. rewrite Hn, Hsig.
    rewrite Hlen, Nat.eqb_refl, (has_dup_s_nodup' _ Hnd). cbn [negb orb]. rewrite andb_false_r.
    destruct a as [|x xs].
    - rewrite (Hnil eq_refl). reflexivity.
    - rewrite firstn_all2 by (rewrite Hlen; apply Nat.le_refl).
      rewrite dedup_keys_nodup'; [reflexivity | exact Hnd | intros ? _ []].
  Qed.

  Theorem C12_print_structure_lemma t :
    tree_ok t -> exists t', construct strict pn funcs (print_sexp digits t) = Ok t' /\ same_shape t t'.
  Proof.
    induction t as [v|f|op l IHl r IHr]; intros Hok.
    - destruct Hok as [Hleg Hpn]. destruct (pn (num_text digits v)) as [v'|] eqn:E; [|congruence].
      exists (NNum v'). split; [|exact E].
      cbn [print_sexp construct]. unfold construct_atom. rewrite Hleg, E. reflexivity.
    - exists (NFl f). split; [apply reread_fluent; exact Hok | reflexivity].
    - destruct Hok as (Hl & Hr & Hop).
      destruct (IHl Hl) as (l' & Hcl & Hsl). destruct (IHr Hr) as (r' & Hcr & Hsr).
      exists (NBin op l' r'). split; [|repeat split; assumption].
      assert (Hgen : all_atoms [Atom op; print_sexp digits l; print_sexp digits r] = None ->
                     construct strict pn funcs (print_sexp digits (NBin op l r)) = Ok (NBin op l' r')).
      { intros Hna. cbn [print_sexp construct]. rewrite Hna.
        cbn [List.length Nat.eqb negb andb]. rewrite andb_false_r.
        cbn [print_sexp] in Hcl, Hcr. rewrite Hcl. cbn [bind]. rewrite Hcr. reflexivity. }
      destruct l as [a|lf|lop ll lr]; [|apply Hgen; reflexivity|apply Hgen; reflexivity].
      destruct r as [b|rf|rop rl rr]; [|apply Hgen; reflexivity|apply Hgen; reflexivity].
      specialize (Hop eq_refl).
      destruct l' as [a'| |]; try contradiction. destruct r' as [b'| |]; try contradiction.
      cbn [same_shape] in Hsl, Hsr.
      cbn [print_sexp construct all_atoms construct_flat List.length Nat.eqb negb].
      rewrite Hop, andb_false_r, Hsl, Hsr. reflexivity.
  Qed.
End Structure.

