(* C11, tokenizer half: tokenize is invariant under layout, comments and case. *)
From Coq Require Import List Ascii String Bool Arith Lia.
From Verif Require Import Base.Result Base.Str Base.Sexp Model.Tokenizer Spec.Layout Proofs.C11_Reader.
Import ListNotations.
Open Scope list_scope.

Ltac by_ascii P x F :=
  let G := fresh "G" in
  assert (G : forallb P all_ascii = true) by (vm_compute; reflexivity);
  pose proof (forall_ascii P G x) as F; cbv beta in F; clear G.

Lemma flush_nil k : flush [] k = k.
Proof. reflexivity. Qed.

Lemma ws_not_semi c : is_ws c = true -> Ascii.eqb c SEMI = false.
Proof.
  intros H. by_ascii (fun c => implb (is_ws c) (negb (Ascii.eqb c SEMI))) c F. rewrite H in F. simpl in F. apply negb_true_iff in F. exact F.
Qed.

Lemma ws_not_paren c : is_ws c = true -> is_paren c = false.
Proof.
  intros H. by_ascii (fun c => implb (is_ws c) (negb (is_paren c))) c F. rewrite H in F. simpl in F. apply negb_true_iff in F. exact F.
Qed.

Lemma ends_comment_is_ws m c : ends_comment m c = true -> is_ws c = true.
Proof.
  intros H.
  by_ascii (fun c => implb (ends_comment MFile c) (is_ws c)) c F1.
  by_ascii (fun c => implb (ends_comment MStr c) (is_ws c)) c F2.
  destruct m; [rewrite H in F1; exact F1 | rewrite H in F2; exact F2].
Qed.

(* a comment body is skipped *)
Lemma tkc_body m body e rest :
  Forall (fun c => ends_comment m c = false) body -> ends_comment m e = true ->
  tkc m (body ++ e :: rest) = tk m rest [].
Proof.
  intros Hb He. induction Hb as [|c body Hc _ IH]; simpl.
  - rewrite He. reflexivity.
  - rewrite Hc. exact IH.
Qed.

Lemma tkc_open m body :
  Forall (fun c => ends_comment m c = false) body -> tkc m body = [].
Proof.
  intros Hb. induction Hb as [|c body Hc _ IH]; simpl; [reflexivity|]. rewrite Hc. exact IH.
Qed.

(* a separator produces no token; a non-empty one ends the current token *)
Lemma tk_sep_nil m s : is_sep m s -> forall rest, tk m (s ++ rest) [] = tk m rest [].
Proof.
  induction 1 as [|c s Hc _ IH|body e s Hb He _ IH]; intros rest.
  - reflexivity.
  - simpl. rewrite (ws_not_semi c Hc), (ws_not_paren c Hc), Hc. simpl. apply IH.
  - cbn [app tk]. rewrite Ascii.eqb_refl. rewrite flush_nil.
    rewrite <- app_assoc. cbn [app]. rewrite tkc_body by assumption. apply IH.
Qed.

Lemma tk_sep m s :
  is_sep m s -> s <> [] -> forall rest cur, tk m (s ++ rest) cur = flush cur (tk m rest []).
Proof.
  intros Hs Hne rest cur. destruct Hs as [|c s Hc Hs|body e s Hb He Hs]; [congruence| |].
  - simpl. rewrite (ws_not_semi c Hc), (ws_not_paren c Hc), Hc.
    rewrite tk_sep_nil by assumption. reflexivity.
  - cbn [app tk]. rewrite Ascii.eqb_refl.
    rewrite <- app_assoc. cbn [app]. rewrite tkc_body by assumption.
    rewrite tk_sep_nil by assumption. reflexivity.
Qed.

Lemma tk_trailer m t : is_trailer m t -> forall cur, tk m t cur = flush cur [].
Proof.
  intros Ht cur. destruct Ht as [s Hs|s body Hs Hb].
  - destruct s as [|c s'].
    + reflexivity.
    + rewrite <- (app_nil_r (c :: s')). rewrite tk_sep by (assumption || discriminate). reflexivity.
  - destruct s as [|c s'].
    + cbn [app tk]. rewrite Ascii.eqb_refl. rewrite tkc_open by assumption. reflexivity.
    + rewrite tk_sep by (assumption || discriminate).
      cbn [tk]. rewrite Ascii.eqb_refl. rewrite tkc_open by assumption. reflexivity.
Qed.

Lemma atom_char_facts c :
  atom_char c = true -> Ascii.eqb c SEMI = false /\ is_paren c = false /\ is_ws c = false.
Proof.
  unfold atom_char. rewrite !andb_true_iff, !negb_true_iff. tauto.
Qed.

Lemma tk_atom m a : Forall (fun c => atom_char c = true) a ->
  forall rest cur, tk m (a ++ rest) cur = tk m rest (rev (lower_text a) ++ cur).
Proof.
  induction 1 as [|c a Hc _ IH]; intros rest cur; [reflexivity|].
  destruct (atom_char_facts c Hc) as (H1 & H2 & H3).
  cbn [app tk]. rewrite H1, H2, H3. rewrite IH. simpl. rewrite <- app_assoc. reflexivity.
Qed.

Lemma tk_paren m p rest cur : is_paren p = true ->
  tk m (p :: rest) cur = flush cur (String p EmptyString :: tk m rest []).
Proof.
  intros Hp. cbn [tk].
  assert (Ascii.eqb p SEMI = false) as ->.
  { by_ascii (fun c => implb (is_paren c) (negb (Ascii.eqb c SEMI))) p F.
    rewrite Hp in F. apply negb_true_iff in F. exact F. }
  rewrite Hp. reflexivity.
Qed.

Definition tokstr (st : text * text) : string := t2s (lower_text (snd st)).

Lemma lower_paren p : is_paren p = true -> lower_ascii p = p.
Proof.
  intros Hp.
  by_ascii (fun c => implb (is_paren c) (Ascii.eqb (lower_ascii c) c)) p F.
  rewrite Hp in F. apply Ascii.eqb_eq in F. exact F.
Qed.

Lemma tk_render m trailer : is_trailer m trailer ->
  forall items cur, valid_from m (nonnil cur) items ->
  tk m (render items trailer) cur = flush cur (map tokstr items).
Proof.
  intros Htr. induction items as [|[s t] r IH]; intros cur Hv.
  - unfold render. simpl. apply tk_trailer. exact Htr.
  - destruct Hv as (Hs & Ht & Hadj & Hv).
    unfold render in *. cbn [flat_map fst snd]. rewrite <- !app_assoc.
    cbn [map]. unfold tokstr at 1. cbn [snd].
    destruct Ht as [-> | [-> | [Hne Hat]]].
    + (* "(" *)
      assert (Hgoal : forall cur', tk m ([LP] ++ flat_map (fun st => fst st ++ snd st) r ++ trailer) cur'
                        = flush cur' (t2s (lower_text [LP]) :: map tokstr r)).
      { intros cur'. cbn [app]. rewrite tk_paren by reflexivity. rewrite (IH []) by exact Hv. reflexivity. }
      destruct s as [|c s']; [apply Hgoal|].
      rewrite tk_sep by (assumption || discriminate). rewrite Hgoal. reflexivity.
    + (* ")" *)
      assert (Hgoal : forall cur', tk m ([RP] ++ flat_map (fun st => fst st ++ snd st) r ++ trailer) cur'
                        = flush cur' (t2s (lower_text [RP]) :: map tokstr r)).
      { intros cur'. cbn [app]. rewrite tk_paren by reflexivity. rewrite (IH []) by exact Hv. reflexivity. }
      destruct s as [|c s']; [apply Hgoal|].
      rewrite tk_sep by (assumption || discriminate). rewrite Hgoal. reflexivity.
    + (* atom *)
      assert (Hnp : is_paren_text t = false).
      { destruct t as [|c [|c' t']]; try reflexivity. simpl.
        inversion Hat as [|? ? Hc _]; subst. apply atom_char_facts in Hc. tauto. }
      rewrite Hnp in Hv. cbn [negb] in Hv.
      assert (Hgoal : tk m (t ++ flat_map (fun st => fst st ++ snd st) r ++ trailer) []
                      = t2s (lower_text t) :: map tokstr r).
      { rewrite tk_atom by exact Hat. rewrite app_nil_r.
        assert (Hnn : nonnil (rev (lower_text t)) = true).
        { destruct t as [|c t']; [congruence|]. simpl. destruct (rev (lower_text t')); reflexivity. }
        rewrite IH by (rewrite Hnn; exact Hv).
        unfold flush. destruct (rev (lower_text t)) eqn:E; [discriminate|].
        rewrite <- E, rev_involutive. reflexivity. }
      destruct s as [|c s'].
      * destruct cur as [|x cur']; [exact Hgoal|].
        exfalso. apply (Hadj eq_refl Hnp). reflexivity.
      * rewrite tk_sep by (assumption || discriminate). rewrite Hgoal. reflexivity.
Qed.

Theorem tokenize_render m items trailer :
  valid_from m false items -> is_trailer m trailer ->
  tokenize m (render items trailer) = map tokstr items.
Proof. intros Hv Ht. unfold tokenize. rewrite (tk_render m trailer Ht items []) by exact Hv. reflexivity. Qed.

(* lower-casing commutes with flattening *)
Lemma lower_string_lp : lower_string "(" = "("%string. Proof. reflexivity. Qed.
Lemma lower_string_rp : lower_string ")" = ")"%string. Proof. reflexivity. Qed.

Lemma flatten_lower e : flatten (lower_sexp e) = map lower_string (flatten e).
Proof.
  induction e as [s|l IH] using sexp_ind'; [reflexivity|].
  cbn [lower_sexp sexp_map flatten]. fold lower_sexp.
  rewrite map_cons, map_app. cbn [map]. rewrite lower_string_lp, lower_string_rp. f_equal. f_equal.
  induction IH as [|x xs Hx _ IHxs]; [reflexivity|].
  cbn [map flat_map]. rewrite map_app. unfold lower_sexp in *. rewrite Hx, IHxs. reflexivity.
Qed.

Lemma lower_text_atom_char t :
  Forall (fun c => atom_char c = true) t -> Forall (fun c => atom_char c = true) (lower_text t).
Proof.
  induction 1 as [|c t Hc _ IH]; simpl; constructor; [|exact IH].
  by_ascii (fun c => implb (atom_char c) (atom_char (lower_ascii c))) c F.
  rewrite Hc in F. exact F.
Qed.

Lemma atom_text_not_paren t : is_atom_text t -> is_paren_tok (t2s t) = false.
Proof.
  intros [Hne Hat]. destruct t as [|c t']; [congruence|].
  inversion Hat as [|? ? Hc _]; subst. apply atom_char_facts in Hc as (_ & Hp & _).
  unfold is_paren_tok. simpl. unfold is_paren, LP, RP in Hp.
  apply orb_false_iff in Hp as [H1 H2].
  destruct t'; simpl; rewrite ?H1, ?H2; reflexivity.
Qed.

Lemma atoms_ok_wf_lower e : atoms_ok e -> wf (lower_sexp e) = true.
Proof.
  induction e as [s|l IH] using sexp_ind'; intros H.
  - simpl in *. unfold lower_string. apply negb_true_iff. apply atom_text_not_paren.
    destruct H as [Hne Hat]. split.
    + destruct (s2t s); [congruence|discriminate].
    + apply lower_text_atom_char. exact Hat.
  - cbn [lower_sexp sexp_map wf]. fold lower_sexp. cbn [atoms_ok] in H.
    induction IH as [|x xs Hx _ IHxs]; [reflexivity|].
    destruct H as [H1 H2]. cbn [map forallb]. unfold lower_sexp in *.
    rewrite (Hx H1), (IHxs H2). reflexivity.
Qed.
