(* C15: the effect of one grounded action of the library's executor as data: the fired groups (deletes, adds,
   assigned values) are computed from the state the action READS and applied to the state it CHANGES; they are
   determined by what the converter collects as the action's effect dependencies, and they touch only what it
   collects as the action's effects. *)
From Coq Require Import List Ascii String Bool Arith Lia PrimFloat.
From Verif Require Import Base.Result Base.Str Base.PyDict Model.Types Model.Domain Model.Exec Spec.Pddl
  Spec.JointPlan Model.PlanConverter Proofs.C15_Views.
Import ListNotations.
Open Scope string_scope.
Open Scope list_scope.

Lemma reorder_all {A} (l : list A) : reorder l (seq 0 (List.length l)) = l.
Proof.
  unfold reorder. induction l as [|x l IH]; [reflexivity|].
  cbn [List.length seq flat_map nth_error app]. rewrite <- seq_shift, flat_map_concat_map, map_map.
  rewrite <- flat_map_concat_map. cbn [nth_error]. rewrite IH. reflexivity.
Qed.

Lemma mapM_ok_inv {A B} (f : A -> result B) x l ys :
  mapM f (x :: l) = Ok ys -> exists y ys', f x = Ok y /\ mapM f l = Ok ys' /\ ys = y :: ys'.
Proof.
  cbn [mapM]. destruct (f x) as [y|]; cbn [bind]; [|discriminate].
  destruct (mapM f l) as [ys'|]; cbn [bind]; [|discriminate]. intros H. inversion H. eauto.
Qed.

Lemma mapM_ext_in {A B} (f g : A -> result B) l : (forall x, In x l -> f x = g x) -> mapM f l = mapM g l.
Proof.
  induction l as [|x l IH]; intros H; [reflexivity|]. cbn [mapM].
  rewrite (H x (or_introl eq_refl)), IH; [reflexivity|]. intros y Hy. apply H. right. exact Hy.
Qed.

Lemma mapM_app_inv {A B} (f : A -> result B) l1 l2 ys :
  mapM f (l1 ++ l2) = Ok ys -> exists y1 y2, mapM f l1 = Ok y1 /\ mapM f l2 = Ok y2 /\ ys = y1 ++ y2.
Proof.
  revert ys. induction l1 as [|x l1 IH]; intros ys H.
  - exists [], ys. cbn in *. auto.
  - cbn [app] in H. apply mapM_ok_inv in H. destruct H as (y & ys' & E1 & E2 & ->).
    destruct (IH ys' E2) as (y1 & y2 & A1 & A2 & ->).
    exists (y :: y1), y2. cbn [mapM]. rewrite E1, A1. cbn [bind]. auto.
Qed.

Section Effect.
  Variable dom : mdomain.
  Variable eps : float.

  Definition group_op (prev : state) (g : ggroup) : result (option gop) :=
    do h <- antecedents_hold dom eps None g prev;
    if h then
      do vals <- mapM (eval_numeric_effect prev) (gg_num g);
      Ok (Some {| o_dels := g_dels g; o_adds := g_adds g; o_vals := vals |})
    else Ok None.

  Definition somes {A} (l : list (option A)) : list A :=
    flat_map (fun o => match o with Some x => [x] | None => [] end) l.

  Definition ops_of_groups (prev : state) (gs : list ggroup) : result (list gop) :=
    do l <- mapM (group_op prev) gs; Ok (somes l).

  Definition ops_of (ga : gaction) (prev : state) : result (list gop) := ops_of_groups prev (ga_groups ga).

  Definition fire_groups (prev : state) (gs : list ggroup) (cur : state) : result state :=
    foldM (fun cur g => do h <- antecedents_hold dom eps None g prev;
                        if h then apply_group_m prev cur g else Ok cur) gs cur.

  Lemma apply_group_m_op prev cur g :
    apply_group_m prev cur g =
    do vals <- mapM (eval_numeric_effect prev) (gg_num g);
    Ok (apply_gop cur {| o_dels := g_dels g; o_adds := g_adds g; o_vals := vals |}).
  Proof. unfold apply_group_m. destruct (mapM (eval_numeric_effect prev) (gg_num g)); reflexivity. Qed.

  Lemma fire_groups_ops prev gs cur :
    fire_groups prev gs cur = do os <- ops_of_groups prev gs; Ok (apply_gops cur os).
  Proof.
    unfold ops_of_groups. revert cur. induction gs as [|g gs IH]; intros cur; [reflexivity|].
    unfold fire_groups in *. cbn [foldM mapM]. unfold group_op at 1.
    destruct (antecedents_hold dom eps None g prev) as [[|]|k]; cbn [bind]; [| |reflexivity].
    - rewrite apply_group_m_op.
      destruct (mapM (eval_numeric_effect prev) (gg_num g)) as [vals|k]; cbn [bind]; [|reflexivity].
      rewrite IH. destruct (mapM (group_op prev) gs) as [l|k]; cbn [bind]; reflexivity.
    - rewrite IH. destruct (mapM (group_op prev) gs) as [l|k]; cbn [bind]; reflexivity.
  Qed.

  (* apply_op without an object table, every group in its own order *)
  Lemma apply_op_unfold ga allow prev :
    apply_op dom eps ga None allow false (group_ids ga) [] prev =
    do okb <- is_applicable dom eps None ga prev;
    if negb okb && negb allow then Err EValue
    else do os <- ops_of ga prev; Ok (apply_gops prev os).
  Proof.
    unfold apply_op, group_ids. rewrite reorder_all.
    destruct (is_applicable dom eps None ga prev) as [okb|k]; cbn [bind]; [|reflexivity].
    destruct (negb okb && negb allow); [reflexivity|].
    change (foldM _ (ga_groups ga) prev) with (fire_groups prev (ga_groups ga) prev).
    rewrite fire_groups_ops. unfold ops_of.
    destruct (ops_of_groups prev (ga_groups ga)); cbn [bind apply_universal]; reflexivity.
  Qed.

  (* ---------- frame: the fired groups depend only on the effect dependencies and the assigned fluents ---------- *)
  Lemma eval_numeric_effect_frame t a r op p1 p2 :
    t = GTNode op (GTFn a) r ->
    (forall k, In k (a :: gtree_fluents r) -> fluent_get k (fluents p1) = fluent_get k (fluents p2)) ->
    eval_numeric_effect p1 t = eval_numeric_effect p2 t.
  Proof.
    intros -> H. cbn [eval_numeric_effect]. destruct (assignop_of op); [|reflexivity].
    rewrite (calc_frame r p1 p2); [|intros k Hk; apply H; right; exact Hk].
    rewrite (H a (or_introl eq_refl)). reflexivity.
  Qed.

  Lemma group_op_frame g A F ts p1 p2 :
    group_dependencies g = Ok (A, F) -> mapM assigned_fluent (gg_num g) = Ok ts ->
    agree_on A (F ++ ts) p1 p2 -> group_op p1 g = group_op p2 g.
  Proof.
    intros Hd Ht [Ha Hf]. unfold group_op. unfold group_dependencies in Hd.
    destruct (mapM (fun t => match t with GTNode _ _ r => Ok (gtree_fluents r) | _ => Err EIndex end) (gg_num g)) as [rhs|] eqn:Er;
      cbn [bind] in Hd; [|discriminate]. inversion Hd; subst A F. clear Hd.
    assert (Eante : antecedents_hold dom eps None g p1 = antecedents_hold dom eps None g p2).
    { unfold antecedents_hold. destruct (gg_ante g) as [a|]; [|reflexivity]. apply eval_frame. split.
      - intros x Hx. apply Ha. exact Hx.
      - intros k Hk. apply Hf. apply in_or_app. left. apply in_or_app. right. exact Hk. }
    rewrite Eante. destruct (antecedents_hold dom eps None g p2) as [[|]|]; cbn [bind]; try reflexivity.
    assert (Ev : mapM (eval_numeric_effect p1) (gg_num g) = mapM (eval_numeric_effect p2) (gg_num g)).
    { assert (Hf' : forall k, In k (List.concat rhs ++ ts) -> fluent_get k (fluents p1) = fluent_get k (fluents p2)).
      { intros k Hk. apply Hf. apply in_app_or in Hk. apply in_or_app. destruct Hk as [Hk|Hk]; [left; apply in_or_app; left; exact Hk|right; exact Hk]. }
      clear Hf Ha Eante. revert rhs ts Er Ht Hf'. induction (gg_num g) as [|t l IH]; intros rhs ts Er Ht Hf'; [reflexivity|].
      apply mapM_ok_inv in Er. destruct Er as (r0 & rhs' & E1 & E2 & ->).
      apply mapM_ok_inv in Ht. destruct Ht as (a0 & ts' & E3 & E4 & ->).
      destruct t as [x|a|op l0 r]; try discriminate. destruct l0 as [x|a|op2 l1 r1]; try discriminate.
      inversion E1; subst r0. inversion E3; subst a0. cbn [mapM].
      rewrite (eval_numeric_effect_frame _ a r op p1 p2 eq_refl).
      - rewrite (IH rhs' ts' E2 E4); [reflexivity|].
        intros k Hk. apply Hf'. cbn [List.concat]. apply in_app_or in Hk. apply in_or_app.
        destruct Hk as [Hk|Hk]; [left; apply in_or_app; right; exact Hk|right; right; exact Hk].
      - intros k [<-|Hk]; apply Hf'; apply in_or_app; [right; left; reflexivity|left; cbn [List.concat]; apply in_or_app; left; exact Hk]. }
    rewrite Ev. reflexivity.
  Qed.

  Lemma in_flat_map_fst {A B} (l : list (list A * list B)) (x : list A * list B) a : In x l -> In a (fst x) -> In a (flat_map fst l).
  Proof. intros Hx Ha. apply in_flat_map. exists x. split; assumption. Qed.
  Lemma in_flat_map_snd {A B} (l : list (list A * list B)) (x : list A * list B) a : In x l -> In a (snd x) -> In a (flat_map snd l).
  Proof. intros Hx Ha. apply in_flat_map. exists x. split; assumption. Qed.

  (* the sets the converter collects for an action *)
  Lemma ops_frame ga S p1 p2 :
    action_sets ga = Ok S ->
    agree_on (s_effatoms S) (s_efffl S ++ s_num S) p1 p2 ->
    ops_of ga p1 = ops_of ga p2.
  Proof.
    intros HS Hag. unfold action_sets in HS.
    destruct (extract_grounded_effects ga) as [[[ad de] nu]|] eqn:Ee; cbn [bind] in HS; [|discriminate].
    destruct (extract_effect_dependencies ga) as [[da df]|] eqn:Ed; cbn [bind] in HS; [|discriminate].
    inversion HS; subst S. cbn [s_effatoms s_efffl s_num fst snd] in Hag. clear HS.
    unfold extract_grounded_effects in Ee.
    destruct (mapM assigned_fluent (flat_map gg_num (ga_groups ga))) as [nums|] eqn:En; cbn [bind] in Ee; [|discriminate].
    inversion Ee; subst nu. clear Ee H0 H1.
    unfold extract_effect_dependencies in Ed.
    destruct (mapM group_dependencies (ga_groups ga)) as [ds|] eqn:Eds; cbn [bind] in Ed; [|discriminate].
    inversion Ed; subst da df. clear Ed.
    unfold ops_of, ops_of_groups. f_equal.
    assert (Hgs : forall g d ts, In g (ga_groups ga) -> group_dependencies g = Ok d -> mapM assigned_fluent (gg_num g) = Ok ts ->
                   In d ds /\ (forall k, In k ts -> In k nums)).
    { clear Hag. revert ds nums Eds En. induction (ga_groups ga) as [|g0 gs IH]; intros ds nums Eds En g d ts Hg Hd Ht; [destruct Hg|].
      apply mapM_ok_inv in Eds. destruct Eds as (d0 & ds' & E1 & E2 & ->).
      cbn [flat_map] in En.
      assert (Hsplit := mapM_app_inv _ _ _ _ En).
      destruct Hsplit as (n0 & n1 & A & B & ->).
      destruct Hg as [<-|Hg].
      - rewrite E1 in Hd. inversion Hd; subst d0. rewrite A in Ht. inversion Ht; subst n0.
        split; [left; reflexivity|intros k Hk; apply in_or_app; left; exact Hk].
      - destruct (IH ds' n1 E2 B g d ts Hg Hd Ht) as [I1 I2].
        split; [right; exact I1|intros k Hk; apply in_or_app; right; apply I2; exact Hk]. }
    apply mapM_ext_in. intros g Hg.
    assert (Hdg : exists d, group_dependencies g = Ok d).
    { clear -Eds Hg. revert ds Eds. induction (ga_groups ga) as [|g0 gs IH]; intros ds Eds; [destruct Hg|].
      apply mapM_ok_inv in Eds. destruct Eds as (d0 & ds' & E1 & E2 & ->).
      destruct Hg as [<-|Hg]; [eauto|apply (IH Hg ds' E2)]. }
    assert (Htg : exists ts, mapM assigned_fluent (gg_num g) = Ok ts).
    { clear -En Hg. revert nums En. induction (ga_groups ga) as [|g0 gs IH]; intros nums En; [destruct Hg|].
      cbn [flat_map] in En.
      destruct (mapM_app_inv _ _ _ _ En) as (n0 & n1 & A & B & _).
      destruct Hg as [<-|Hg]; [eauto|apply (IH Hg n1 B)]. }
    destruct Hdg as [[A F] Hd]. destruct Htg as [ts Ht].
    destruct (Hgs g (A, F) ts Hg Hd Ht) as [Hin Hts].
    apply (group_op_frame g A F ts p1 p2 Hd Ht). destruct Hag as [Ha Hf]. split.
    - intros x Hx. apply Ha. apply (in_flat_map_fst ds (A, F) x Hin Hx).
    - intros k Hk. apply Hf. apply in_app_or in Hk. apply in_or_app. destruct Hk as [Hk|Hk].
      + left. apply (in_flat_map_snd ds (A, F) k Hin Hk).
      + right. apply Hts. exact Hk.
  Qed.

  (* ---------- what the fired groups may touch ---------- *)
  Lemma eval_numeric_effect_key prev t av : eval_numeric_effect prev t = Ok av -> assigned_fluent t = Ok (fst av).
  Proof.
    destruct t as [x|a|op l r]; try discriminate. destruct l as [x|a|op2 l1 r1]; try discriminate.
    cbn [eval_numeric_effect]. destruct (assignop_of op); [|discriminate].
    destruct (calc prev r); cbn [bind]; [|discriminate]. intros H. inversion H. reflexivity.
  Qed.

  Lemma vals_keys prev l vals : mapM (eval_numeric_effect prev) l = Ok vals -> mapM assigned_fluent l = Ok (map fst vals).
  Proof.
    revert vals. induction l as [|t l IH]; intros vals H; [inversion H; reflexivity|].
    apply mapM_ok_inv in H. destruct H as (av & vals' & E1 & E2 & ->).
    cbn [mapM]. rewrite (eval_numeric_effect_key prev t av E1). cbn [bind]. rewrite (IH vals' E2). reflexivity.
  Qed.

  Lemma in_g_adds x g : In x (g_adds g) <-> In (true, x) (gg_disc g).
  Proof.
    unfold g_adds. rewrite in_flat_map. split.
    - intros [[b a] [Hin Hx]]. cbn in Hx. destruct b; [|destruct Hx]. destruct Hx as [<-|[]]. exact Hin.
    - intros H. exists (true, x). split; [exact H|left; reflexivity].
  Qed.
  Lemma in_g_dels x g : In x (g_dels g) <-> In (false, x) (gg_disc g).
  Proof.
    unfold g_dels. rewrite in_flat_map. split.
    - intros [[b a] [Hin Hx]]. cbn in Hx. destruct b; [destruct Hx|]. destruct Hx as [<-|[]]. exact Hin.
    - intros H. exists (false, x). split; [exact H|left; reflexivity].
  Qed.

  Lemma ops_touch ga S prev os :
    action_sets ga = Ok S -> ops_of ga prev = Ok os ->
    forall o, In o os ->
      (forall x, In x (o_adds o) -> In x (s_add S)) /\
      (forall x, In x (o_dels o) -> In x (s_del S)) /\
      (forall k, In k (map fst (o_vals o)) -> In k (s_num S)).
  Proof.
    intros HS Ho o Hin. unfold action_sets in HS.
    destruct (extract_grounded_effects ga) as [[[ad de] nu]|] eqn:Ee; cbn [bind] in HS; [|discriminate].
    destruct (extract_effect_dependencies ga) as [[da df]|]; cbn [bind] in HS; [|discriminate].
    inversion HS; subst S. cbn [s_add s_del s_num fst snd]. clear HS.
    unfold extract_grounded_effects in Ee.
    destruct (mapM assigned_fluent (flat_map gg_num (ga_groups ga))) as [nums|] eqn:En; cbn [bind] in Ee; [|discriminate].
    inversion Ee; subst ad de nu. clear Ee.
    unfold ops_of, ops_of_groups in Ho.
    destruct (mapM (group_op prev) (ga_groups ga)) as [l|] eqn:El; cbn [bind] in Ho; [|discriminate].
    inversion Ho; subst os. clear Ho.
    unfold somes in Hin. apply in_flat_map in Hin. destruct Hin as [[o'|] [Hl Ho']]; [|destruct Ho'].
    destruct Ho' as [<-|[]].
    (* find the group that produced o' *)
    assert (Hg : exists g, In g (ga_groups ga) /\ group_op prev g = Ok (Some o')).
    { clear -El Hl. revert l El Hl. induction (ga_groups ga) as [|g gs IH]; intros l El Hl.
      - inversion El; subst. destruct Hl.
      - apply mapM_ok_inv in El. destruct El as (y & l' & E1 & E2 & ->).
        destruct Hl as [->|Hl]; [exists g; split; [left; reflexivity|exact E1]|].
        destruct (IH l' E2 Hl) as (g' & Hg' & Eg'). exists g'. split; [right; exact Hg'|exact Eg']. }
    destruct Hg as (g & Hg & Eg). unfold group_op in Eg.
    destruct (antecedents_hold dom eps None g prev) as [[|]|]; cbn [bind] in Eg; try discriminate.
    destruct (mapM (eval_numeric_effect prev) (gg_num g)) as [vals|] eqn:Ev; cbn [bind] in Eg; [|discriminate].
    inversion Eg; subst o'. cbn [o_adds o_dels o_vals]. clear Eg.
    assert (Hdisc : forall pa, In pa (gg_disc g) -> In pa (flat_map gg_disc (ga_groups ga))).
    { intros pa Hpa. apply in_flat_map. exists g. split; assumption. }
    split; [|split].
    - intros x Hx. apply in_g_adds in Hx. apply in_map_iff. exists (true, x). split; [reflexivity|].
      apply filter_In. split; [apply Hdisc; exact Hx|reflexivity].
    - intros x Hx. apply in_g_dels in Hx. apply in_map_iff. exists (false, x). split; [reflexivity|].
      apply filter_In. split; [apply Hdisc; exact Hx|reflexivity].
    - intros k Hk. apply vals_keys in Ev.
      clear -En Ev Hg Hk. revert nums En. induction (ga_groups ga) as [|g0 gs IH]; intros nums En; [destruct Hg|].
      cbn [flat_map] in En.
      assert (Hsplit := mapM_app_inv _ _ _ _ En).
      destruct Hsplit as (n0 & n1 & A & B & ->). apply in_or_app.
      destruct Hg as [<-|Hg'].
      + left. rewrite Ev in A. inversion A; subst n0. exact Hk.
      + right. apply (IH Hg' n1 B).
  Qed.
End Effect.
