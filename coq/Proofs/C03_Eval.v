(* C03: grounding is substitution, and the model's evaluation of a condition is the spec's [holds]
   (the part of C02 that C03 needs: antecedents of 'when' effects).  Proved for both ways the evaluator can be
   called: with the object table (every condition) and without it (quantifier-free conditions; a 'forall' is
   then skipped and reads true - finding D40). *)
From Coq Require Import List String Bool PrimFloat Arith Lia.
From Verif Require Import Base.Result Base.Str Base.PyDict Model.Types Model.Domain Model.Exec Spec.Pddl
  Proofs.C03_Spec Proofs.C03_Defs.
Import ListNotations.
Open Scope string_scope.
Open Scope list_scope.

Ltac inv_bind H x Hx := apply bind_ok_inv in H; destruct H as [x [Hx H]].

(* ---------- generic ---------- *)
Lemma mapM_Forall2 : forall (A B : Type) (f : A -> result B) l ys,
  mapM f l = Ok ys -> Forall2 (fun x y => f x = Ok y) l ys.
Proof.
  intros A B f l. induction l as [|x r IH]; simpl; intros ys H.
  - inversion H. constructor.
  - inv_bind H y Hy. inv_bind H ys' Hys. inversion H; subst. constructor; [exact Hy | apply IH; exact Hys].
Qed.

Lemma Forall2_mapM : forall (A B : Type) (f : A -> result B) l ys,
  Forall2 (fun x y => f x = Ok y) l ys -> mapM f l = Ok ys.
Proof. intros A B f l ys H. induction H; simpl; [reflexivity|]. rewrite H, IHForall2. reflexivity. Qed.

Lemma mapM_map : forall (A B : Type) (f : A -> result B) (g : A -> B) l ys,
  (forall x y, In x l -> f x = Ok y -> y = g x) -> mapM f l = Ok ys -> ys = map g l.
Proof.
  intros A B f g l. induction l as [|x r IH]; simpl; intros ys Hfg H.
  - inversion H. reflexivity.
  - inv_bind H y Hy. inv_bind H ys' Hys. inversion H; subst.
    f_equal; [apply Hfg; [left; reflexivity | exact Hy] | apply IH; [intros; apply Hfg; [right|]; assumption | exact Hys]].
Qed.

Lemma dget_lookup : forall (V : Type) (d : pydict V) k, dget d k = lookup k d.
Proof. intros V d k. induction d as [|[k' v] r IH]; simpl; [reflexivity|]. rewrite IH. reflexivity. Qed.

(* ---------- subtypes: the model's walk is the spec's walk ---------- *)
Lemma walk_ancestor : forall fuel d t target,
  match walk fuel d t target with Ok b => b | Err _ => false end = ancestor_walk fuel d t target.
Proof.
  induction fuel as [|f IH]; intros d t target; simpl.
  - destruct (String.eqb t target); reflexivity.
  - destruct (String.eqb t target); [reflexivity|].
    destruct (String.eqb t "object"); [reflexivity|].
    rewrite dget_lookup. unfold name. destruct (lookup t d); apply IH.
Qed.

Lemma is_sub_type_subtypeb : forall d t target, is_sub_type d t target = subtypeb d t target.
Proof. intros. unfold is_sub_type, subtypeb. apply walk_ancestor. Qed.

(* ---------- environments ---------- *)
Section Eval.
  Variable dom : mdomain.
  Variable eps : float.
  Variable objs : objects.

  Definition env_agree (pm : pmap) (e : env) : Prop := forall t, dget pm t = lookup t e.
  Definition consts_unbound (e : env) : Prop := forall t, dmem (d_consts dom) t = true -> lookup t e = None.

  Lemma env_agree_self : forall pm : pmap, env_agree pm pm.
  Proof. intros pm t. apply dget_lookup. Qed.

  Lemma env_agree_ext : forall pm e v o, env_agree pm e -> env_agree (dset pm v o) ((v, o) :: e).
  Proof.
    intros pm e v o H t. simpl. destruct (String.eqb t v) eqn:E.
    - apply String.eqb_eq in E. subst. apply dget_dset_same.
    - rewrite dget_dset_other; [apply H|]. intros C. subst. rewrite String.eqb_refl in E. discriminate.
  Qed.

  Lemma consts_unbound_ext : forall e v o, consts_unbound e -> dmem (d_consts dom) v = false -> consts_unbound ((v, o) :: e).
  Proof.
    intros e v o H Hv t Ht. simpl. destruct (String.eqb t v) eqn:E.
    - apply String.eqb_eq in E. subst. congruence.
    - apply H. exact Ht.
  Qed.

  Section WithEnv.
    Variable pm : pmap.
    Variable e : env.
    Hypothesis Hag : env_agree pm e.
    Hypothesis Hcu : consts_unbound e.

    Lemma ground_name_subst : forall t o, ground_name dom pm t = Ok o -> subst e t = o.
    Proof.
      intros t o. unfold ground_name, subst. destruct (dmem (d_consts dom) t) eqn:Ec.
      - intros H. inversion H; subst. rewrite (Hcu _ Ec). reflexivity.
      - rewrite <- Hag. destruct (dget pm t); intros H; inversion H. reflexivity.
    Qed.

    Lemma ground_names_subst : forall args os, mapM (ground_name dom pm) args = Ok os -> os = map (subst e) args.
    Proof. intros args os H. eapply mapM_map; [|exact H]. intros x y _ Hxy. symmetry. apply ground_name_subst. exact Hxy. Qed.

    Lemma ground_lit_subst : forall p args a, ground_lit dom pm p args = Ok a -> a = (p, map (subst e) args).
    Proof.
      intros p args a. unfold ground_lit. destruct (dget (d_preds dom) p); [|discriminate].
      destruct (negb _); [discriminate|]. intros H. inv_bind H os Hos. inversion H; subst.
      rewrite (ground_names_subst _ _ Hos). reflexivity.
    Qed.

    Lemma ground_pairs_subst : forall l gl, ground_pairs pm l = Ok gl -> gl = map (fun ab => (subst e (fst ab), subst e (snd ab))) l.
    Proof.
      intros l gl H. unfold ground_pairs in H. eapply mapM_map; [|exact H]. intros [a b] y _. simpl.
      unfold subst. rewrite <- !Hag. destruct (dget pm a), (dget pm b); intros Hy; inversion Hy. reflexivity.
    Qed.

    (* numeric expressions *)
    Lemma calc_neval : forall s t g n x,
      ground_tree dom pm t = Ok g -> denote_tree t = Some n -> calc s g = Ok x -> x = neval e s n.
    Proof.
      intros s t. induction t as [y|f args|op l IHl r IHr]; intros g n x Hg Hd Hc; simpl in *.
      - inversion Hg; subst. inversion Hd; subst. simpl in Hc. inversion Hc. reflexivity.
      - inv_bind Hg os Hos. inversion Hg; subst. inversion Hd; subst. simpl in Hc. inversion Hc; subst.
        simpl. rewrite (ground_names_subst _ _ Hos). reflexivity.
      - inv_bind Hg gl Hgl. inv_bind Hg gr Hgr. inversion Hg; subst. simpl in Hc.
        destruct (binop_of op) as [o|] eqn:Eo; [|discriminate].
        destruct (denote_tree l) as [a|] eqn:Ea; [|discriminate].
        destruct (denote_tree r) as [b|] eqn:Eb; [|discriminate].
        inversion Hd; subst. inv_bind Hc x1 Hx1. inv_bind Hc x2 Hx2.
        rewrite (IHl _ _ _ Hgl eq_refl Hx1) in Hc. rewrite (IHr _ _ _ Hgr eq_refl Hx2) in Hc.
        simpl. destruct o; simpl in *; try (inversion Hc; reflexivity).
        destruct (is_zero _); [discriminate|]. inversion Hc. reflexivity.
    Qed.

    Lemma eval_cmp_holds : forall s t g c b,
      ground_tree dom pm t = Ok g -> denote_cmp t = Some c -> eval_cmp eps s g = Ok b -> b = holds eps (d_types dom) objs e s c.
    Proof.
      intros s t g c b Hg Hd Hc. destruct t as [y|f args|op l r]; simpl in Hd; try discriminate.
      simpl in Hg. inv_bind Hg gl Hgl. inv_bind Hg gr Hgr. inversion Hg; subst. simpl in Hc.
      destruct (cmpop_of op) as [k|]; [|discriminate].
      destruct (denote_tree l) as [a|] eqn:Ea; [|discriminate].
      destruct (denote_tree r) as [b'|] eqn:Eb; [|discriminate].
      inversion Hd; subst. inv_bind Hc x1 Hx1. inv_bind Hc x2 Hx2. inversion Hc; subst. simpl.
      rewrite <- (calc_neval _ _ _ _ _ Hgl Ea Hx1), <- (calc_neval _ _ _ _ _ Hgr Eb Hx2). reflexivity.
    Qed.
  End WithEnv.

  (* ---------- the loops of the evaluator, named ---------- *)
  Fixpoint loopM (f : mcond -> result bool) (op : string) (l : list mcond) (acc : bool) : result bool :=
    match l with
    | [] => Ok acc
    | c :: r => do b <- f c; loopM f op r (fold_op op acc b)
    end.

  Fixpoint gloopM (f : gcond -> result bool) (op : string) (l : list gcond) (acc : bool) : result bool :=
    match l with
    | [] => Ok acc
    | c :: r => do b <- f c; gloopM f op r (fold_op op acc b)
    end.

  Fixpoint overM (f : string -> result bool) (ty : string) (l : objects) (acc : bool) : result bool :=
    match l with
    | [] => Ok acc
    | (o, oty) :: r =>
        if is_sub_type (d_types dom) oty ty then do b <- f o; overM f ty r (acc && b) else overM f ty r acc
    end.

  Fixpoint gconds (pm : pmap) (l : list mcond) : result (list gcond) :=
    match l with
    | [] => Ok []
    | c :: r => do gc <- ground_cond dom pm c; do gr <- gconds pm r; Ok (gc :: gr)
    end.

  Fixpoint dconds (l : list mcond) : list (option form) :=
    match l with [] => [] | c :: r => denote_cond c :: dconds r end.

  Lemma eval_lifted_unfold : forall oo s pm op os eqs neqs,
    eval_lifted dom eps oo s pm (MPre op os eqs neqs) =
    (do geqs <- ground_pairs pm eqs; do gneqs <- ground_pairs pm neqs;
     loopM (eval_lifted_cond dom eps oo s pm) op os (seed_of op geqs gneqs)).
  Proof.
    intros.
    transitivity (do geqs <- ground_pairs pm eqs; do gneqs <- ground_pairs pm neqs;
       (fix go (l : list mcond) (acc : bool) : result bool :=
           match l with
           | [] => Ok acc
           | c :: r => do b <- eval_lifted_cond dom eps oo s pm c; go r (fold_op op acc b)
           end) os (seed_of op geqs gneqs)); [reflexivity|].
    destruct (ground_pairs pm eqs); [|reflexivity]. destruct (ground_pairs pm neqs); [|reflexivity]. simpl.
    generalize (seed_of op a a0). induction os as [|c r IH]; intros acc; simpl; [reflexivity|].
    destruct (eval_lifted_cond dom eps oo s pm c); simpl; [apply IH | reflexivity].
  Qed.

  Lemma eval_univ_unfold : forall os s pm v ty body,
    eval_lifted_cond dom eps (Some os) s pm (MUniv v ty body) =
    overM (fun o => eval_lifted dom eps (Some os) s (dset pm v o) body) ty os true.
  Proof.
    intros.
    transitivity ((fix over (l : objects) (acc : bool) : result bool :=
               match l with
               | [] => Ok acc
               | (o, oty) :: r =>
                   if is_sub_type (d_types dom) oty ty
                   then do b <- eval_lifted dom eps (Some os) s (dset pm v o) body; over r (acc && b)
                   else over r acc
               end) os true); [reflexivity|].
    generalize true. generalize os at 1 3. intros os0.
    induction os as [|[o oty] r IH]; intros acc; simpl; [reflexivity|].
    destruct (is_sub_type (d_types dom) oty ty); [|apply IH].
    destruct (eval_lifted dom eps (Some os0) s (dset pm v o) body); simpl; [apply IH | reflexivity].
  Qed.

  Lemma eval_g_unfold : forall oo s op os eqs neqs,
    eval_g dom eps oo s (GPre op os eqs neqs) = gloopM (eval_gcond dom eps oo s) op os (seed_of op eqs neqs).
  Proof.
    intros.
    transitivity ((fix go (l : list gcond) (acc : bool) : result bool :=
           match l with
           | [] => Ok acc
           | c :: r => do b <- eval_gcond dom eps oo s c; go r (fold_op op acc b)
           end) os (seed_of op eqs neqs)); [reflexivity|].
    generalize (seed_of op eqs neqs). induction os as [|c r IH]; intros acc; simpl; [reflexivity|].
    destruct (eval_gcond dom eps oo s c); simpl; [apply IH | reflexivity].
  Qed.

  Lemma ground_pre_unfold : forall pm op os eqs neqs,
    ground_pre dom pm (MPre op os eqs neqs) =
    (do geqs <- ground_pairs pm eqs; do gneqs <- ground_pairs pm neqs; do gos <- gconds pm os; Ok (GPre op gos geqs gneqs)).
  Proof.
    intros.
    transitivity (do geqs <- ground_pairs pm eqs; do gneqs <- ground_pairs pm neqs;
                  do gos <- (fix go (l : list mcond) : result (list gcond) :=
                     match l with
                     | [] => Ok []
                     | c :: r => do gc <- ground_cond dom pm c; do gr <- go r; Ok (gc :: gr)
                     end) os;
                  Ok (GPre op gos geqs gneqs)); [reflexivity|].
    assert (H : (fix go (l : list mcond) : result (list gcond) :=
                   match l with [] => Ok [] | c :: r => do gc <- ground_cond dom pm c; do gr <- go r; Ok (gc :: gr) end) os
                = gconds pm os).
    { induction os as [|c r IH]; simpl; [reflexivity|]. rewrite IH. reflexivity. }
    rewrite H. reflexivity.
  Qed.

  Definition is_some {A} (o : option A) : bool := match o with Some _ => true | None => false end.
  Definition unwrap {A} (o : option A) : list A := match o with Some f => [f] | None => [] end.

  Lemma denote_pre_unfold : forall op os eqs neqs,
    denote_pre (MPre op os eqs neqs) =
    let parts := map (fun ab => Some (FEq (fst ab) (snd ab))) eqs ++ map (fun ab => Some (FNeq (fst ab) (snd ab))) neqs ++ dconds os in
    if forallb is_some parts then Some (if String.eqb op "or" then FOr (flat_map unwrap parts) else FAnd (flat_map unwrap parts))
    else None.
  Proof.
    intros.
    assert (H : dconds os =
                (fix go (l : list mcond) : list (option form) := match l with [] => [] | c :: r => denote_cond c :: go r end) os).
    { induction os as [|c r IH]; simpl; [reflexivity|]. rewrite IH. reflexivity. }
    rewrite H. reflexivity.
  Qed.

  Lemma some_map_all : forall (g : string * string -> form) l,
    forallb is_some (map (fun ab => Some (g ab)) l) = true /\
    flat_map unwrap (map (fun ab => Some (g ab)) l) = map g l.
  Proof. intros g l. induction l as [|x r [IH1 IH2]]; simpl; [split; reflexivity|]. rewrite IH1, IH2. split; reflexivity. Qed.

  (* the parts of a denoted condition *)
  Lemma denote_pre_parts : forall op os eqs neqs c,
    denote_pre (MPre op os eqs neqs) = Some c ->
    exists fos, Forall2 (fun x f => denote_cond x = Some f) os fos /\
      c = (if String.eqb op "or" then FOr else FAnd)
            (map (fun ab => FEq (fst ab) (snd ab)) eqs ++ map (fun ab => FNeq (fst ab) (snd ab)) neqs ++ fos).
  Proof.
    intros op os eqs neqs c. rewrite denote_pre_unfold. cbv zeta.
    rewrite !forallb_app, !flat_map_app.
    pose proof (some_map_all (fun ab => FEq (fst ab) (snd ab)) eqs) as [A1 A2].
    pose proof (some_map_all (fun ab => FNeq (fst ab) (snd ab)) neqs) as [B1 B2].
    cbv beta in A1, A2, B1, B2. unfold name in *.
    rewrite A1, B1, A2, B2. simpl.
    destruct (forallb is_some (dconds os)) eqn:E; [|discriminate].
    intros H. exists (flat_map unwrap (dconds os)). split.
    - clear H. induction os as [|x r IH]; simpl in *; [constructor|].
      destruct (denote_cond x) eqn:Ex; simpl in E; [|discriminate]. simpl. constructor; [exact Ex | apply IH; exact E].
    - destruct (String.eqb op "or"); inversion H; reflexivity.
  Qed.

  Lemma fold_op_and : forall op bs acc, String.eqb op "or" = false ->
    fold_left (fold_op op) bs acc = acc && forallb (fun b => b) bs.
  Proof.
    intros op bs. induction bs as [|b r IH]; intros acc Hop; simpl; [rewrite andb_true_r; reflexivity|].
    rewrite IH by exact Hop. unfold fold_op. rewrite Hop. rewrite andb_assoc. reflexivity.
  Qed.

  Lemma fold_op_or : forall op bs acc, String.eqb op "or" = true ->
    fold_left (fold_op op) bs acc = acc || existsb (fun b => b) bs.
  Proof.
    intros op bs. induction bs as [|b r IH]; intros acc Hop; simpl; [rewrite orb_false_r; reflexivity|].
    rewrite IH by exact Hop. unfold fold_op. rewrite Hop. rewrite orb_assoc. reflexivity.
  Qed.

  Lemma loopM_fold : forall f op l acc res,
    loopM f op l acc = Ok res -> exists bs, Forall2 (fun c b => f c = Ok b) l bs /\ res = fold_left (fold_op op) bs acc.
  Proof.
    intros f op l. induction l as [|c r IH]; intros acc res H; simpl in H.
    - inversion H. exists []. split; [constructor | reflexivity].
    - inv_bind H b Hb. destruct (IH _ _ H) as [bs [H1 H2]]. exists (b :: bs). split; [constructor; assumption | exact H2].
  Qed.

  Lemma gloopM_fold : forall f op l acc res,
    gloopM f op l acc = Ok res -> exists bs, Forall2 (fun c b => f c = Ok b) l bs /\ res = fold_left (fold_op op) bs acc.
  Proof.
    intros f op l. induction l as [|c r IH]; intros acc res H; simpl in H.
    - inversion H. exists []. split; [constructor | reflexivity].
    - inv_bind H b Hb. destruct (IH _ _ H) as [bs [H1 H2]]. exists (b :: bs). split; [constructor; assumption | exact H2].
  Qed.

  Lemma seed_holds : forall op e s eqs neqs,
    seed_of op (map (fun ab => (subst e (fst ab), subst e (snd ab))) eqs)
               (map (fun ab => (subst e (fst ab), subst e (snd ab))) neqs) =
    (if String.eqb op "or" then existsb (holds eps (d_types dom) objs e s) else forallb (holds eps (d_types dom) objs e s))
      (map (fun ab => FEq (fst ab) (snd ab)) eqs ++ map (fun ab => FNeq (fst ab) (snd ab)) neqs).
  Proof.
    intros. unfold seed_of. rewrite !map_map. simpl.
    destruct (String.eqb op "or").
    - rewrite !existsb_app. f_equal.
      + induction eqs as [|x r IH]; simpl; [reflexivity|]. rewrite IH. reflexivity.
      + induction neqs as [|x r IH]; simpl; [reflexivity|]. rewrite IH. reflexivity.
    - rewrite !forallb_app. f_equal.
      + induction eqs as [|x r IH]; simpl; [reflexivity|]. rewrite IH. reflexivity.
      + induction neqs as [|x r IH]; simpl; [reflexivity|]. rewrite IH. reflexivity.
  Qed.

  Lemma existsb_map_id : forall (A : Type) (h : A -> bool) l, existsb (fun b => b) (map h l) = existsb h l.
  Proof. intros A h l. induction l as [|x r IH]; simpl; [reflexivity|]. rewrite IH. reflexivity. Qed.
  Lemma forallb_map_id : forall (A : Type) (h : A -> bool) l, forallb (fun b => b) (map h l) = forallb h l.
  Proof. intros A h l. induction l as [|x r IH]; simpl; [reflexivity|]. rewrite IH. reflexivity. Qed.

  (* combining: seed, then the operands *)
  Lemma combine_holds : forall op e s eqs neqs fos bs,
    bs = map (holds eps (d_types dom) objs e s) fos ->
    fold_left (fold_op op) bs
      (seed_of op (map (fun ab => (subst e (fst ab), subst e (snd ab))) eqs)
                  (map (fun ab => (subst e (fst ab), subst e (snd ab))) neqs)) =
    holds eps (d_types dom) objs e s
      ((if String.eqb op "or" then FOr else FAnd)
         (map (fun ab => FEq (fst ab) (snd ab)) eqs ++ map (fun ab => FNeq (fst ab) (snd ab)) neqs ++ fos)).
  Proof.
    intros op e s eqs neqs fos bs Hbs. rewrite (seed_holds op e s). subst bs.
    destruct (String.eqb op "or") eqn:Eop.
    - rewrite fold_op_or by exact Eop. simpl. rewrite app_assoc, !existsb_app, existsb_map_id. reflexivity.
    - rewrite fold_op_and by exact Eop. simpl. rewrite app_assoc, !forallb_app, forallb_map_id. reflexivity.
  Qed.

  (* ---------- induction principle for the nested condition trees ---------- *)
  Section MpreInd.
    Variable P : mpre -> Prop.
    Variable Q : mcond -> Prop.
    Hypothesis HPre : forall op os eqs neqs, Forall Q os -> P (MPre op os eqs neqs).
    Hypothesis HLit : forall pos p args, Q (MLit pos p args).
    Hypothesis HNum : forall t, Q (MNum t).
    Hypothesis HNested : forall q, P q -> Q (MNested q).
    Hypothesis HUniv : forall v ty b, P b -> Q (MUniv v ty b).
    Fixpoint mpre_ind' (p : mpre) : P p :=
      match p with
      | MPre op os eqs neqs =>
          HPre op os eqs neqs
            ((fix go (l : list mcond) : Forall Q l :=
                match l with [] => Forall_nil _ | c :: r => Forall_cons _ (mcond_ind' c) (go r) end) os)
      end
    with mcond_ind' (c : mcond) : Q c :=
      match c with
      | MLit pos p args => HLit pos p args
      | MNum t => HNum t
      | MNested q => HNested q (mpre_ind' q)
      | MUniv v ty b => HUniv v ty b (mpre_ind' b)
      end.
  End MpreInd.

  Lemma qvars_pre_unfold : forall op os eqs neqs, qvars_pre (MPre op os eqs neqs) = qvars_conds os.
  Proof.
    intros.
    transitivity ((fix go (l : list mcond) : list string := match l with [] => [] | c :: r => qvars_cond c ++ go r end) os);
      [reflexivity|].
    induction os as [|c r IH]; simpl; [reflexivity|]. rewrite IH. reflexivity.
  Qed.

  Definition qvars_ok (l : list string) : Prop := forall v, In v l -> dmem (d_consts dom) v = false.

  (* how the evaluator was called: with the object table, or without (then only quantifier-free conditions) *)
  Definition call_ok (oo : option objects) (c : form) : Prop :=
    match oo with Some os => os = objs | None => quantifier_free c = true end.

  Lemma call_ok_parts : forall oo op l f, call_ok oo ((if String.eqb op "or" then FOr else FAnd) l) -> In f l -> call_ok oo f.
  Proof.
    intros oo op l f H Hin. destruct oo as [os|]; simpl in *; [destruct (String.eqb op "or"); exact H|].
    assert (H' : forallb quantifier_free l = true) by (destruct (String.eqb op "or"); exact H).
    rewrite forallb_forall in H'. apply H'. exact Hin.
  Qed.

  Lemma overM_forallb : forall (f : string -> result bool) (g : string -> bool) ty l acc res,
    (forall o b, f o = Ok b -> b = g o) ->
    overM f ty l acc = Ok res ->
    res = acc && forallb g (map fst (filter (fun o => subtypeb (d_types dom) (snd o) ty) l)).
  Proof.
    intros f g ty l. induction l as [|[o oty] r IH]; intros acc res Hfg H; simpl in *.
    - inversion H. rewrite andb_true_r. reflexivity.
    - rewrite <- is_sub_type_subtypeb. destruct (is_sub_type (d_types dom) oty ty); simpl.
      + inv_bind H b Hb. rewrite (IH _ _ Hfg H). rewrite (Hfg _ _ Hb). rewrite andb_assoc. reflexivity.
      + apply IH; assumption.
  Qed.

  (* ---------- the lifted evaluator (bodies of forall) ---------- *)
  Definition lifted_pre_ok (oo : option objects) (s : state) (p : mpre) : Prop :=
    forall pm e c b, env_agree pm e -> consts_unbound e -> qvars_ok (qvars_pre p) -> call_ok oo c ->
      denote_pre p = Some c -> eval_lifted dom eps oo s pm p = Ok b -> b = holds eps (d_types dom) objs e s c.
  Definition lifted_cond_ok (oo : option objects) (s : state) (x : mcond) : Prop :=
    forall pm e c b, env_agree pm e -> consts_unbound e -> qvars_ok (qvars_cond x) -> call_ok oo c ->
      denote_cond x = Some c -> eval_lifted_cond dom eps oo s pm x = Ok b -> b = holds eps (d_types dom) objs e s c.

  Lemma Forall2_holds : forall (A : Type) (den : A -> option form) (ev : A -> result bool) (good : form -> Prop)
                               (h : form -> bool) os fos bs,
    Forall (fun x => forall c b, good c -> den x = Some c -> ev x = Ok b -> b = h c) os ->
    Forall2 (fun x f => den x = Some f) os fos -> Forall2 (fun x b => ev x = Ok b) os bs ->
    (forall f, In f fos -> good f) -> bs = map h fos.
  Proof.
    intros A den ev good h os. induction os as [|x r IH]; intros fos bs HF H1 H2 Hg.
    - inversion H1; inversion H2; subst. reflexivity.
    - inversion H1; inversion H2; subst. inversion HF; subst. simpl. f_equal.
      + match goal with Hx : forall c b, _ |- _ => eapply Hx; eauto end. apply Hg. left. reflexivity.
      + apply IH; auto. intros f Hf. apply Hg. right. exact Hf.
  Qed.

  Lemma eval_lifted_holds : forall oo s p, lifted_pre_ok oo s p.
  Proof.
    intros oo s. apply (mpre_ind' (lifted_pre_ok oo s) (lifted_cond_ok oo s)).
    - (* MPre *)
      intros op os eqs neqs HF pm e c b Hag Hcu Hq Hcall Hd He.
      rewrite eval_lifted_unfold in He. inv_bind He geqs Hgeqs. inv_bind He gneqs Hgneqs.
      rewrite (ground_pairs_subst pm e Hag _ _ Hgeqs), (ground_pairs_subst pm e Hag _ _ Hgneqs) in He.
      apply loopM_fold in He. destruct He as [bs [Hbs Hres]].
      destruct (denote_pre_parts _ _ _ _ _ Hd) as [fos [Hfos Hc]]. subst c b.
      apply combine_holds.
      rewrite qvars_pre_unfold in Hq.
      assert (HF' : Forall (fun x => forall c b, (call_ok oo c) -> denote_cond x = Some c ->
                                      eval_lifted_cond dom eps oo s pm x = Ok b -> b = holds eps (d_types dom) objs e s c) os).
      { clear Hbs Hfos Hcall Hd. induction os as [|x r IHr]; [constructor|].
        inversion HF as [|x' r' Hx Hr]; subst. constructor.
        - intros c b Hc Hdc Hec. apply (Hx pm e c b Hag Hcu); auto.
          intros v Hv. apply Hq. simpl. apply in_or_app. left. exact Hv.
        - apply IHr; [exact Hr|]. intros v Hv. apply Hq. simpl. apply in_or_app. right. exact Hv. }
      eapply Forall2_holds; [exact HF' | exact Hfos | exact Hbs |].
      intros f Hf. eapply call_ok_parts; [exact Hcall|]. apply in_or_app. right. apply in_or_app. right. exact Hf.
    - (* MLit *)
      intros pos p args pm e c b Hag Hcu _ _ Hd He. simpl in He. inv_bind He a Ha. inversion He; subst.
      rewrite (ground_lit_subst pm e Hag Hcu _ _ _ Ha). destruct pos; simpl in Hd; inversion Hd; reflexivity.
    - (* MNum *)
      intros t pm e c b Hag Hcu _ _ Hd He. simpl in He, Hd. inv_bind He g Hg.
      eapply eval_cmp_holds; eauto.
    - (* MNested *)
      intros q IH pm e c b Hag Hcu Hq Hcall Hd He. simpl in *. eapply IH; eauto.
    - (* MUniv *)
      intros v ty body IH pm e c b Hag Hcu Hq Hcall Hd He. simpl in Hd.
      destruct (denote_pre body) as [f|] eqn:Ef; [|discriminate]. inversion Hd; subst c.
      destruct oo as [os|]; [|simpl in Hcall; discriminate].
      simpl in Hcall. subst os. rewrite eval_univ_unfold in He.
      apply (overM_forallb _ (fun o => holds eps (d_types dom) objs ((v, o) :: e) s f)) in He.
      + simpl. exact He.
      + intros o b' Hb'. eapply (IH (dset pm v o) ((v, o) :: e)); eauto.
        * apply env_agree_ext. exact Hag.
        * apply consts_unbound_ext; [exact Hcu|]. apply Hq. left. reflexivity.
        * intros w Hw. apply Hq. right. exact Hw.
        * reflexivity.
  Qed.

  (* ---------- the grounded evaluator ---------- *)
  Definition g_pre_ok (oo : option objects) (s : state) (p : mpre) : Prop :=
    forall pm e g c b, env_agree pm e -> consts_unbound e -> qvars_ok (qvars_pre p) -> call_ok oo c ->
      ground_pre dom pm p = Ok g -> denote_pre p = Some c -> eval_g dom eps oo s g = Ok b ->
      b = holds eps (d_types dom) objs e s c.
  Definition g_cond_ok (oo : option objects) (s : state) (x : mcond) : Prop :=
    forall pm e g c b, env_agree pm e -> consts_unbound e -> qvars_ok (qvars_cond x) -> call_ok oo c ->
      ground_cond dom pm x = Ok g -> denote_cond x = Some c -> eval_gcond dom eps oo s g = Ok b ->
      b = holds eps (d_types dom) objs e s c.

  Lemma gconds_Forall2 : forall pm os gos, gconds pm os = Ok gos -> Forall2 (fun x g => ground_cond dom pm x = Ok g) os gos.
  Proof.
    intros pm os. induction os as [|x r IH]; simpl; intros gos H.
    - inversion H. constructor.
    - inv_bind H gc Hgc. inv_bind H gr Hgr. inversion H; subst. constructor; [exact Hgc | apply IH; exact Hgr].
  Qed.

  Theorem eval_g_holds : forall oo s p, g_pre_ok oo s p.
  Proof.
    intros oo s. apply (mpre_ind' (g_pre_ok oo s) (g_cond_ok oo s)).
    - intros op os eqs neqs HF pm e g c b Hag Hcu Hq Hcall Hg Hd He.
      rewrite ground_pre_unfold in Hg. inv_bind Hg geqs Hgeqs. inv_bind Hg gneqs Hgneqs. inv_bind Hg gos Hgos.
      inversion Hg; subst g. rewrite eval_g_unfold in He.
      rewrite (ground_pairs_subst pm e Hag _ _ Hgeqs), (ground_pairs_subst pm e Hag _ _ Hgneqs) in He.
      apply gloopM_fold in He. destruct He as [bs [Hbs Hres]].
      destruct (denote_pre_parts _ _ _ _ _ Hd) as [fos [Hfos Hc]]. subst c b.
      apply combine_holds. rewrite qvars_pre_unfold in Hq. apply gconds_Forall2 in Hgos.
      clear Hd Hgeqs Hgneqs Hg. revert gos fos bs Hgos Hfos Hbs Hcall Hq.
      induction os as [|x r IHr]; intros gos fos bs Hgos Hfos Hbs Hcall Hq.
      + inversion Hgos; subst. inversion Hfos; subst. inversion Hbs; subst. reflexivity.
      + inversion Hgos as [|x0 g0 r0 gr0 Hg0 Hgr0]; subst. inversion Hfos as [|x1 f1 r1 fr1 Hf1 Hfr1]; subst.
        inversion Hbs as [|g2 b2 gr2 br2 Hb2 Hbr2]; subst. inversion HF as [|x3 r3 Hx Hr]; subst.
        simpl. f_equal.
        * apply (Hx pm e g0 f1 b2 Hag Hcu); auto.
          -- intros v Hv. apply Hq. simpl. apply in_or_app. left. exact Hv.
          -- eapply call_ok_parts; [exact Hcall|]. apply in_or_app. right. apply in_or_app. right. left. reflexivity.
        * apply (IHr Hr gr0 fr1 br2); auto.
          -- destruct oo as [os'|]; simpl in *; [destruct (String.eqb op "or"); exact Hcall|].
             assert (H' : forallb quantifier_free (map (fun ab => FEq (fst ab) (snd ab)) eqs ++
                                                  map (fun ab => FNeq (fst ab) (snd ab)) neqs ++ f1 :: fr1) = true)
               by (destruct (String.eqb op "or"); exact Hcall).
             rewrite !forallb_app in H'. simpl in H'. rewrite !andb_true_iff in H'. destruct H' as [A [B [_ C]]].
             assert (G : forallb quantifier_free (map (fun ab => FEq (fst ab) (snd ab)) eqs ++
                                                 map (fun ab => FNeq (fst ab) (snd ab)) neqs ++ fr1) = true).
             { rewrite !forallb_app, A, B, C. reflexivity. }
             destruct (String.eqb op "or"); exact G.
          -- intros v Hv. apply Hq. simpl. apply in_or_app. right. exact Hv.
    - intros pos p args pm e g c b Hag Hcu _ _ Hg Hd He. simpl in Hg. inv_bind Hg a Ha. inversion Hg; subst g.
      simpl in He. inversion He; subst.
      rewrite (ground_lit_subst pm e Hag Hcu _ _ _ Ha). destruct pos; simpl in Hd; inversion Hd; reflexivity.
    - intros t pm e g c b Hag Hcu _ _ Hg Hd He. simpl in Hg, Hd. inv_bind Hg gtr Hgtr. inversion Hg; subst g.
      simpl in He. eapply eval_cmp_holds; eauto.
    - intros q IH pm e g c b Hag Hcu Hq Hcall Hg Hd He. simpl in Hg. inv_bind Hg gq Hgq. inversion Hg; subst g.
      simpl in He, Hd. eapply IH; eauto.
    - intros v ty body _ pm e g c b Hag Hcu Hq Hcall Hg Hd He. simpl in Hg. inversion Hg; subst g.
      change (eval_gcond dom eps oo s (GUniv v ty body pm)) with (eval_lifted_cond dom eps oo s pm (MUniv v ty body)) in He.
      pose proof (eval_lifted_holds oo s) as HL.
      assert (HQ : lifted_cond_ok oo s (MUniv v ty body)).
      { revert HL. clear. intros HL.
        (* the MUniv case of the lifted lemma, from the lemma for its body *)
        intros pm e c b Hag Hcu Hq Hcall Hd He. simpl in Hd.
        destruct (denote_pre body) as [f|] eqn:Ef; [|discriminate]. inversion Hd; subst c.
        destruct oo as [os|]; [|simpl in Hcall; discriminate].
        simpl in Hcall. subst os. rewrite eval_univ_unfold in He.
        apply (overM_forallb _ (fun o => holds eps (d_types dom) objs ((v, o) :: e) s f)) in He.
        + simpl. exact He.
        + intros o b' Hb'. eapply (HL body (dset pm v o) ((v, o) :: e)); eauto.
          * apply env_agree_ext. exact Hag.
          * apply consts_unbound_ext; [exact Hcu|]. apply Hq. left. reflexivity.
          * intros w Hw. apply Hq. right. exact Hw.
          * reflexivity. }
      eapply HQ; eauto.
  Qed.
End Eval.
