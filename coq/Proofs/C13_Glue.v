(* C13 — the glue around sympy: what the printer prints has the value of sympy's tree *)
From Coq Require Import List String Ascii Bool ZArith QArith Qabs Qround Lqa Lia.
From Verif Require Import Base.Result Base.Str Spec.Poly Model.SymbolicGlue.
Import ListNotations.
Open Scope string_scope.
Open Scope list_scope.

(* two different fluent texts with the same symbol name: the root of finding D21 (collisions) *)
Lemma naming_refuted : ~ (forall a b : string, symbol_name a = symbol_name b -> a = b).
Proof.
  intros H. specialize (H "(f-x ?a)" "(fx ?a)" eq_refl). discriminate H.
Qed.
