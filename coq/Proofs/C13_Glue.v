(* C13 — the glue around sympy: what the printer prints is a d-decimal rounding of an expression that has exactly
   the value of sympy's tree, and it is built from binary + * / only. *)
From Coq Require Import List String Ascii Bool ZArith QArith Qabs Qround Qpower Lqa Lia DecimalString DecimalPos DecimalZ FinFun.
From Verif Require Import Base.Result Base.Str Spec.Poly Model.SymbolicGlue Proofs.C13_Poly.
Import ListNotations.
Open Scope string_scope.
Open Scope list_scope.
Open Scope Q_scope.
Arguments Qred : simpl never.
Arguments Qplus : simpl never.
Arguments Qmult : simpl never.
Arguments Qminus : simpl never.
Arguments Qopp : simpl never.
Arguments Qdiv : simpl never.
Arguments Qinv : simpl never.

(* ------------------------------------------------------------------ numbers *)
Lemma rhe_close x : Qabs (x - inject_Z (rhe x)) <= 1 # 2.
Proof.
  unfold rhe. pose proof (Qfloor_le x) as L. pose proof (Qlt_floor x) as U.
  set (f := Qfloor x) in *.
  assert (U' : x < inject_Z f + 1).
  { rewrite inject_Z_plus in U. exact U. }
  destruct (Qcompare (x - inject_Z f) (1 # 2)) eqn:C.
  - apply Qeq_alt in C. destruct (Z.even f); [|rewrite inject_Z_plus];
      apply Qabs_case; intros; change (inject_Z 1) with 1; lra.
  - apply Qlt_alt in C. apply Qabs_case; intros; lra.
  - apply Qgt_alt in C. rewrite inject_Z_plus. change (inject_Z 1) with 1. apply Qabs_case; intros; lra.
Qed.

Lemma pow10_pos d : (0 < pow10 d)%Z.
Proof. unfold pow10. apply Z.pow_pos_nonneg; lia. Qed.

Lemma pow10_S d : pow10 (S d) = (10 * pow10 d)%Z.
Proof. unfold pow10. rewrite Nat2Z.inj_succ, Z.pow_succ_r; lia. Qed.

Lemma tol_pow d : tol_of d * inject_Z (pow10 d) == 1 # 2.
Proof.
  unfold tol_of. destruct d as [|k]; [reflexivity|]. cbn [Nat.eqb].
  assert (E : Z.pos (10 ^ Pos.of_nat (S k)) = pow10 (S k)).
  { unfold pow10. rewrite Pos2Z.inj_pow. f_equal. rewrite <- positive_nat_Z, Nat2Pos.id; [reflexivity|discriminate]. }
  unfold Qeq, Qmult, inject_Z. cbn [Qnum Qden]. rewrite <- E. lia.
Qed.

Lemma tol_nonneg d : 0 <= tol_of d.
Proof. unfold tol_of. destruct (Nat.eqb d 0); unfold Qle; simpl; lia. Qed.

(* the value n / 10^d *)
Definition scaled (n : Z) (d : nat) : Q := inject_Z n / inject_Z (pow10 d).

Lemma Qmake_scaled n d : Qred (Qmake n (Z.to_pos (pow10 d))) == scaled n d.
Proof.
  rewrite Qred_correct. unfold scaled. pose proof (pow10_pos d) as P.
  rewrite (Qmake_Qdiv n (Z.to_pos (pow10 d))). rewrite Z2Pos.id by exact P. reflexivity.
Qed.

Lemma scaled_close x n d : Qabs (x * inject_Z (pow10 d) - inject_Z n) <= 1 # 2 -> Qabs (x - scaled n d) <= tol_of d.
Proof.
  intros H. unfold scaled. pose proof (pow10_pos d) as P. pose proof (tol_pow d) as T.
  assert (P' : 0 < inject_Z (pow10 d)).
  { unfold Qlt. simpl. lia. }
  set (p := inject_Z (pow10 d)) in *.
  assert (E : x - inject_Z n / p == (x * p - inject_Z n) / p) by (field; lra).
  rewrite E. unfold Qdiv. rewrite Qabs_Qmult. rewrite (Qabs_pos (/ p)).
  2:{ apply Qlt_le_weak. apply Qinv_lt_0_compat. exact P'. }
  assert (T' : tol_of d == (1 # 2) * / p). { rewrite <- T. field. lra. }
  rewrite T'. apply Qmult_le_compat_r; [exact H|]. apply Qlt_le_weak. apply Qinv_lt_0_compat. exact P'.
Qed.

Lemma pnum_value_eq x :
  pnum_value x == if pn_neg x then - scaled (pn_n x) (pn_d x) else scaled (pn_n x) (pn_d x).
Proof. unfold pnum_value. cbv zeta. destruct (pn_neg x); rewrite Qmake_scaled; reflexivity. Qed.

Lemma pnum_value_pint z : pnum_value (pint z) == inject_Z z.
Proof.
  rewrite pnum_value_eq. unfold pint. cbn [pn_neg pn_n pn_d]. unfold scaled, pow10. simpl.
  destruct (Z.ltb_spec z 0) as [L|L].
  - rewrite Z.abs_neq by lia. rewrite inject_Z_opp. field.
  - rewrite Z.abs_eq by lia. field.
Qed.

(* sign * n / 10^d where n is |x| * 10^d rounded to an integer within 1/2 *)
Lemma signed_close d x n (neg : bool) :
  Qabs (Qabs x * inject_Z (pow10 d) - inject_Z n) <= 1 # 2 ->
  neg = negb (Qle_bool 0 x) ->
  Qabs (x - (if neg then - scaled n d else scaled n d)) <= tol_of d.
Proof.
  intros R ->. apply scaled_close in R.
  destruct (Qle_bool 0 x) eqn:E; cbn [negb].
  - apply Qle_bool_iff in E.
    assert (Hx : x - scaled n d == Qabs x - scaled n d) by (rewrite (Qabs_pos x E); reflexivity).
    rewrite Hx. exact R.
  - assert (N : x < 0).
    { destruct (Qlt_le_dec x 0) as [L|L]; [exact L|]. apply Qle_bool_iff in L. congruence. }
    assert (Hx : x - - scaled n d == - (Qabs x - scaled n d)) by (rewrite (Qabs_neg x) by lra; ring).
    rewrite Hx, Qabs_opp. exact R.
Qed.

Lemma fmt_decimal_close d s : Qabs (s - pnum_value (fmt_decimal d s)) <= tol_of d.
Proof.
  rewrite pnum_value_eq. unfold fmt_decimal. cbn [pn_neg pn_n pn_d].
  apply signed_close; [apply rhe_close|reflexivity].
Qed.

(* the reference value of a Float atom: the exact value when the rounded value is integral (the printer
   rounds float(x) itself), otherwise the decimal text that format() rounds (str(Float): 15 significant digits) *)
Definition href (d : nat) (v tv : Q) : Q :=
  if Z.eqb (Z.modulo (py_round_scaled d v) (pow10 d)) 0 then v else tv.

Lemma number_atom_close d v tv : Qabs (href d v tv - pnum_value (number_atom d v tv)) <= tol_of d.
Proof.
  unfold href, number_atom. destruct (Z.eqb_spec (Z.modulo (py_round_scaled d v) (pow10 d)) 0) as [M|M].
  - rewrite pnum_value_pint. pose proof (pow10_pos d) as P.
    assert (Ediv : inject_Z (py_round_scaled d v / pow10 d) == scaled (py_round_scaled d v) d).
    { unfold scaled. apply Z.mod_divide in M; [|lia]. destruct M as [k Hk]. rewrite Hk, Z.div_mul by lia.
      rewrite inject_Z_mult. field. unfold Qeq. simpl. lia. }
    rewrite Ediv. unfold py_round_scaled.
    pose proof (signed_close d v (rhe (Qabs v * inject_Z (pow10 d))) (negb (Qle_bool 0 v))
                  (rhe_close _) eq_refl) as S.
    destruct (Qle_bool 0 v); cbn [negb] in S; [exact S|].
    assert (E2 : scaled (- rhe (Qabs v * inject_Z (pow10 d))) d == - scaled (rhe (Qabs v * inject_Z (pow10 d))) d).
    { unfold scaled. rewrite inject_Z_opp. field. unfold Qeq. simpl. lia. }
    rewrite E2. exact S.
  - apply fmt_decimal_close.
Qed.

(* a Rational atom is printed from its exact value (D21o) *)
Lemma rat_atom_close d v : Qabs (v - pnum_value (number_atom d v v)) <= tol_of d.
Proof.
  pose proof (number_atom_close d v v) as H. unfold href in H.
  destruct (Z.eqb (Z.modulo (py_round_scaled d v) (pow10 d)) 0); exact H.
Qed.

Lemma pnum_zero_value x : pnum_is_zero x = true -> pnum_value x == 0.
Proof.
  unfold pnum_is_zero. intros H. apply Z.eqb_eq in H. rewrite pnum_value_eq, H. unfold scaled.
  destruct (pn_neg x); field; pose proof (pow10_pos (pn_d x)); unfold Qeq; simpl; lia.
Qed.

(* ------------------------------------------------------------------ printed expressions as expressions *)
(* [pe_expr p = Some e]: every operator of p is one of the binary + - * / *)
Fixpoint pe_expr (p : pexpr) : option expr :=
  match p with
  | PNum x => Some (ENum (pnum_value x))
  | PFl t => Some (EVar t)
  | PBin op a b =>
      match binop_of op, pe_expr a, pe_expr b with
      | Some o, Some x, Some y => Some (EBin o x y)
      | _, _, _ => None
      end
  end.

(* ------------------------------------------------------------------ induction on sympy trees *)
Section STreeInd.
  Variable P : stree -> Prop.
  Hypothesis Hadd : forall args, Forall P args -> P (SAdd args).
  Hypothesis Hmul : forall args, Forall P args -> P (SMul args).
  Hypothesis Hpow : forall b e, P b -> P e -> P (SPow b e).
  Hypothesis Hflt : forall v, P (SFloat v).
  Hypothesis Hint : forall z, P (SInt z).
  Hypothesis Hrat : forall p q, P (SRat p q).
  Hypothesis Hsym : forall s, P (SSym s).
  Hypothesis Hoth : forall c, P (SOther c).
  Fixpoint stree_ind' (t : stree) : P t :=
    match t with
    | SAdd args => Hadd args ((fix go (l : list stree) : Forall P l :=
                                 match l with [] => Forall_nil P | x :: r => Forall_cons x (stree_ind' x) (go r) end) args)
    | SMul args => Hmul args ((fix go (l : list stree) : Forall P l :=
                                 match l with [] => Forall_nil P | x :: r => Forall_cons x (stree_ind' x) (go r) end) args)
    | SPow b e => Hpow b e (stree_ind' b) (stree_ind' e)
    | SFloat v => Hflt v
    | SInt z => Hint z
    | SRat p q => Hrat p q
    | SSym s => Hsym s
    | SOther c => Hoth c
    end.
End STreeInd.

(* ------------------------------------------------------------------ the exact expression of a tree *)
(* Same nesting as the printer (so that the printed text is a STRUCTURAL rounding of it), exact constants, and the
   terms the printer drops kept.  [hint_of] looks at what the printer does with every argument (kept / dropped,
   number first) and nothing else. *)
Definition opt_of (r : result (option pexpr)) : option pexpr := match r with Ok o => o | Err _ => None end.
Definition is_some {A} (o : option A) : bool := match o with Some _ => true | None => false end.
Definition printed_num (o : option pexpr) : bool := match o with Some p => is_number_p p | None => false end.

Definition hint_add (L : list (expr * option pexpr)) : expr :=
  let kept := filter (fun x => is_some (snd x)) L in
  let dropped := filter (fun x => negb (is_some (snd x))) L in
  let nf := match kept with x :: _ => printed_num (snd x) | [] => false end in
  let base := match nestg (EBin OAdd) nf (map fst kept) with Some e => e | None => ENum 0 end in
  fold_right (fun z acc => EBin OAdd (fst z) acc) base dropped.

Definition hint_mul (L : list (expr * option pexpr)) : expr :=
  if forallb (fun x => is_some (snd x)) L then
    let nf := match L with x :: _ => printed_num (snd x) | [] => false end in
    match nestg (EBin OMul) nf (map fst L) with Some e => e | None => ENum 0 end
  else fold_right (fun z acc => EBin OMul (fst z) acc) (ENum 1) L.

Fixpoint hchain (base : expr) (n : nat) : expr :=
  match n with O => base | S k => EBin OMul (hchain base k) base end.

Definition hint_pow (hb : expr) (z : Z) : expr :=
  let c := hchain hb (Z.to_nat (Z.abs z) - 1) in
  if Z.ltb 0 z then c else EBin ODiv (ENum 1) c.

Fixpoint hint_of (d : nat) (flag : bool) (m : list (string * string)) (t : stree) : expr :=
  match t with
  | SAdd args => hint_add (map (fun a => (hint_of d flag m a, opt_of (conv d flag m a))) args)
  | SMul args => hint_mul (map (fun a => (hint_of d flag m a, opt_of (conv d flag m a))) args)
  | SPow b (SInt z) => hint_pow (hint_of d flag m b) z
  | SPow _ _ => ENum 0
  | SFloat v => ENum (href d v (sig15 v))
  | SRat p q => ENum (p # q)
  | SInt z => ENum (inject_Z z)
  | SSym s => match lookup_sym m s with Some t => EVar t | None => ENum 0 end
  | SOther _ => ENum 0
  end.

(* ------------------------------------------------------------------ what is printed rounds the exact expression *)
Section Round.
  Variable tol : Q.
  Hypothesis tol_ok : 0 <= tol.

  (* h is the exact expression, r what the printer returned for the same tree *)
  Definition J (h : expr) (r : option pexpr) : Prop :=
    match r with
    | Some p => exists e, pe_expr p = Some e /\ eround tol h e
    | None => vanishing tol h = true
    end.

  Lemma vanishing_zero_num : vanishing tol (ENum 0) = true.
  Proof. simpl. apply Qle_bool_iff. exact tol_ok. Qed.

  Lemma J_zero h : vanishing tol h = true -> exists e, pe_expr (PNum (pint 0)) = Some e /\ eround tol h e.
  Proof.
    intros V. eexists. split; [reflexivity|]. apply ER_zero; [exact V|]. apply (pnum_value_pint 0).
  Qed.

  (* nesting two lists related componentwise *)
  Lemma nestg_J (ops : string) (o : binop) nf hs ps :
    binop_of ops = Some o ->
    Forall2 (fun h p => J h (Some p)) hs ps ->
    match nestg (EBin o) nf hs, nestg (PBin ops) nf ps with
    | Some h, Some p => J h (Some p)
    | None, None => True
    | _, _ => False
    end.
  Proof.
    intros Ho F. induction F as [|h p hs ps Hhp F IH]; simpl; [exact I|].
    destruct (nestg (EBin o) nf hs) as [h'|], (nestg (PBin ops) nf ps) as [p'|]; try contradiction.
    - destruct Hhp as (e & E1 & E2). destruct IH as (e' & E1' & E2').
      destruct nf; simpl; rewrite Ho, E1, E1'; eexists; (split; [reflexivity|]); constructor; assumption.
    - exact Hhp.
  Qed.

  Definition JL (L : list (expr * option pexpr)) : Prop := Forall (fun x => J (fst x) (snd x)) L.

  Lemma kept_rel L : JL L ->
    Forall2 (fun h p => J h (Some p)) (map fst (filter (fun x => is_some (snd x)) L)) (somes (map snd L)).
  Proof.
    induction 1 as [|[h [p|]] L Hx _ IH]; simpl; [constructor| |exact IH].
    constructor; [exact Hx|exact IH].
  Qed.

  Lemma dropped_van L : JL L -> Forall (fun x => vanishing tol (fst x) = true) (filter (fun x => negb (is_some (snd x))) L).
  Proof.
    induction 1 as [|[h [p|]] L Hx _ IH]; simpl; [constructor|exact IH|]. constructor; [exact Hx|exact IH].
  Qed.

  Lemma first_kept (L : list (expr * option pexpr)) :
    match filter (fun x => is_some (snd x)) L with x :: _ => printed_num (snd x) | [] => false end
    = match somes (map snd L) with c0 :: _ => is_number_p c0 | [] => false end.
  Proof. induction L as [|[h [p|]] L IH]; simpl; auto. Qed.

  Lemma add_dropped base p (D : list (expr * option pexpr)) :
    J base (Some p) -> Forall (fun x => vanishing tol (fst x) = true) D ->
    J (fold_right (fun z acc => EBin OAdd (fst z) acc) base D) (Some p).
  Proof.
    intros (e & E1 & E2) F. induction F as [|x D Hx _ IH]; simpl; [exists e; auto|].
    destruct IH as (e' & E1' & E2'). exists e'. split; [exact E1'|]. apply ER_dropl; assumption.
  Qed.

  Lemma all_dropped (D : list (expr * option pexpr)) :
    Forall (fun x => vanishing tol (fst x) = true) D ->
    vanishing tol (fold_right (fun z acc => EBin OAdd (fst z) acc) (ENum 0) D) = true.
  Proof.
    induction 1 as [|x D Hx _ IH]; [apply vanishing_zero_num|]. cbn [fold_right vanishing]. rewrite Hx, IH. reflexivity.
  Qed.

  Lemma add_J L : JL L -> J (hint_add L) (nest "+" (somes (map snd L))).
  Proof.
    intros HL. unfold hint_add. rewrite first_kept.
    pose proof (kept_rel L HL) as K. pose proof (dropped_van L HL) as Dv.
    set (hs := map fst (filter (fun x => is_some (snd x)) L)) in *.
    set (ps := somes (map snd L)) in *.
    destruct ps as [|c0 ps'] eqn:Eps.
    - inversion K as [E0|]; subst. simpl. apply all_dropped. exact Dv.
    - unfold nest.
      pose proof (nestg_J "+" OAdd (is_number_p c0) hs (c0 :: ps') eq_refl K) as N.
      destruct (nestg (EBin OAdd) (is_number_p c0) hs) as [h|], (nestg (PBin "+") (is_number_p c0) (c0 :: ps')) as [p|];
        try contradiction.
      + apply add_dropped; assumption.
      + (* both None: impossible for a non-empty list, but harmless *)
        simpl. apply all_dropped. exact Dv.
  Qed.

  Lemma all_some_somes (L : list (expr * option pexpr)) :
    forallb (fun x => is_some (snd x)) L = true -> filter (fun x => is_some (snd x)) L = L.
  Proof.
    induction L as [|[h [p|]] L IH]; simpl; intros H; [reflexivity| |discriminate]. rewrite IH; auto.
  Qed.

  Lemma mul_vanish (L : list (expr * option pexpr)) :
    JL L -> forallb (fun x => is_some (snd x)) L = false ->
    vanishing tol (fold_right (fun z acc => EBin OMul (fst z) acc) (ENum 1) L) = true.
  Proof.
    induction 1 as [|[h [p|]] L Hx _ IH]; simpl; intros H; [discriminate| |].
    - rewrite (IH H). apply orb_true_r.
    - simpl in Hx. rewrite Hx. reflexivity.
  Qed.

  Lemma collect_add rs : collect false rs = Some (somes rs).
  Proof. induction rs as [|[p|] rs IH]; simpl; [reflexivity| |exact IH]. rewrite IH. reflexivity. Qed.

  Lemma collect_mul rs : collect true rs = if forallb is_some rs then Some (somes rs) else None.
  Proof.
    induction rs as [|[p|] rs IH]; simpl; [reflexivity| |reflexivity]. rewrite IH. destruct (forallb is_some rs); reflexivity.
  Qed.

  Lemma forallb_snd (L : list (expr * option pexpr)) :
    forallb (fun x => is_some (snd x)) L = forallb is_some (map snd L).
  Proof. induction L as [|x L IH]; simpl; [reflexivity|]. rewrite IH. reflexivity. Qed.

  Lemma mul_J L : JL L ->
    J (hint_mul L) (match collect true (map snd L) with Some comps => nest "*" comps | None => None end).
  Proof.
    intros HL. unfold hint_mul. rewrite collect_mul, <- forallb_snd.
    destruct (forallb (fun x => is_some (snd x)) L) eqn:All.
    - pose proof (kept_rel L HL) as K. rewrite (all_some_somes L All) in K.
      pose proof (first_kept L) as Fk. rewrite (all_some_somes L All) in Fk. rewrite Fk.
      set (ps := somes (map snd L)) in *.
      destruct ps as [|c0 ps'] eqn:Eps.
      + inversion K as [E0|]; subst. simpl. apply vanishing_zero_num.
      + unfold nest.
        pose proof (nestg_J "*" OMul (is_number_p c0) (map fst L) (c0 :: ps') eq_refl K) as N.
        destruct (nestg (EBin OMul) (is_number_p c0) (map fst L)) as [h|], (nestg (PBin "*") (is_number_p c0) (c0 :: ps')) as [p|];
          try contradiction.
        * exact N.
        * simpl. apply vanishing_zero_num.
    - simpl. apply mul_vanish; assumption.
  Qed.
End Round.

(* ------------------------------------------------------------------ the printer rounds the exact expression *)
Lemma mapM_id_map {A B} (f : A -> result B) l : forall rs,
  mapM (fun x => x) (map f l) = Ok rs -> map f l = map (@Ok B) rs.
Proof.
  induction l as [|a l IH]; simpl; intros rs H.
  - injection H as <-. reflexivity.
  - apply bind_ok_inv in H. destruct H as (y & Hy & H). apply bind_ok_inv in H. destruct H as (ys & Hys & H).
    injection H as <-. simpl. rewrite Hy, (IH _ Hys). reflexivity.
Qed.

Lemma J_num d h x : Qabs (h - pnum_value x) <= tol_of d -> J (tol_of d) (ENum h) (Some (PNum x)).
Proof. intros H. eexists. split; [reflexivity|]. constructor. exact H. Qed.

Lemma J_atom d (flag : bool) h x :
  Qabs (h - pnum_value x) <= tol_of d ->
  J (tol_of d) (ENum h) (if flag && pnum_is_zero x then None else Some (PNum x)).
Proof.
  intros H. destruct (flag && pnum_is_zero x) eqn:E; [|apply J_num; exact H].
  apply andb_true_iff in E. destruct E as [_ E]. apply pnum_zero_value in E.
  simpl. apply Qle_bool_iff. rewrite E in H.
  assert (E2 : h - 0 == h) by ring. rewrite E2 in H. exact H.
Qed.

Lemma hchain_J tol hb eb n : eround tol hb eb -> eround tol (hchain hb n) (hchain eb n).
Proof. intros H. induction n as [|k IH]; simpl; [exact H|]. constructor; assumption. Qed.

Lemma pe_pow_chain base eb n : pe_expr base = Some eb -> pe_expr (pow_chain base n) = Some (hchain eb n).
Proof. intros H. induction n as [|k IH]; simpl; [exact H|]. rewrite IH, H. reflexivity. Qed.

Theorem conv_rounds d flag m t : forall r, conv d flag m t = Ok r -> J (tol_of d) (hint_of d flag m t) r.
Proof.
  pose proof (tol_nonneg d) as T.
  induction t as [args IH|args IH|b e IHb _|v|z|p q|s|c] using stree_ind'; intros r H.
  - (* Add *)
    cbn [conv] in H. apply bind_ok_inv in H. destruct H as (_ & _ & H).
    apply bind_ok_inv in H. destruct H as (rs & Hrs & H). apply mapM_id_map in Hrs.
    rewrite collect_add in H. injection H as <-.
    cbn [hint_of].
    set (L := map (fun a => (hint_of d flag m a, opt_of (conv d flag m a))) args).
    assert (Esnd : map snd L = rs).
    { unfold L. rewrite map_map. cbn [snd]. rewrite <- (map_map (conv d flag m) opt_of), Hrs, map_map. simpl.
      apply map_id. }
    rewrite <- Esnd. apply add_J; [exact T|].
    unfold JL, L. rewrite Forall_map. cbn [fst snd]. rewrite Forall_forall in IH |- *. intros a Ha.
    assert (In (conv d flag m a) (map (@Ok _) rs)) as Hin by (rewrite <- Hrs; apply in_map; exact Ha).
    apply in_map_iff in Hin. destruct Hin as (ra & Era & _). rewrite <- Era. simpl. apply IH; auto.
  - (* Mul *)
    cbn [conv] in H. apply bind_ok_inv in H. destruct H as (_ & _ & H).
    apply bind_ok_inv in H. destruct H as (rs & Hrs & H). apply mapM_id_map in Hrs.
    cbn [hint_of].
    set (L := map (fun a => (hint_of d flag m a, opt_of (conv d flag m a))) args).
    assert (Esnd : map snd L = rs).
    { unfold L. rewrite map_map. cbn [snd]. rewrite <- (map_map (conv d flag m) opt_of), Hrs, map_map. simpl.
      apply map_id. }
    assert (HL : JL (tol_of d) L).
    { unfold JL, L. rewrite Forall_map. cbn [fst snd]. rewrite Forall_forall in IH |- *. intros a Ha.
      assert (In (conv d flag m a) (map (@Ok _) rs)) as Hin by (rewrite <- Hrs; apply in_map; exact Ha).
      apply in_map_iff in Hin. destruct Hin as (ra & Era & _). rewrite <- Era. simpl. apply IH; auto. }
    pose proof (mul_J (tol_of d) T L HL) as M. rewrite Esnd in M.
    destruct (collect true rs) as [comps|]; injection H as <-; exact M.
  - (* Pow *)
    cbn [conv] in H. destruct e as [| | | |z| | |]; try discriminate.
    destruct (Z.eqb z 0); [discriminate|].
    apply bind_ok_inv in H. destruct H as (_ & _ & H).
    apply bind_ok_inv in H. destruct H as (rb & Hrb & H). injection H as <-.
    specialize (IHb _ Hrb). cbn [hint_of]. unfold hint_pow.
    set (hb := hint_of d flag m b) in *. set (n := (Z.to_nat (Z.abs z) - 1)%nat).
    assert (B : exists eb, pe_expr (match rb with Some p => p | None => PNum (pint 0) end) = Some eb
                           /\ eround (tol_of d) hb eb).
    { destruct rb as [pb|]; [exact IHb|]. apply J_zero. exact IHb. }
    destruct B as (eb & E1 & E2).
    destruct (Z.ltb 0 z).
    + exists (hchain eb n). split; [apply pe_pow_chain; exact E1|apply hchain_J; exact E2].
    + exists (EBin ODiv (ENum (pnum_value (pint 1))) (hchain eb n)). split.
      * cbn [pe_expr]. rewrite (pe_pow_chain _ _ n E1). reflexivity.
      * constructor; [|apply hchain_J; exact E2]. constructor.
        rewrite (pnum_value_pint 1). change (inject_Z 1) with 1.
        assert (E0 : 1 - 1 == 0) by ring. rewrite E0. exact T.
  - (* Float *)
    cbn [conv extract_atom] in H. cbn [hint_of].
    pose proof (J_atom d flag _ _ (number_atom_close d v (sig15 v))) as A.
    destruct (flag && pnum_is_zero (number_atom d v (sig15 v))); injection H as <-; exact A.
  - (* Integer *)
    cbn [conv extract_atom] in H. injection H as <-. cbn [hint_of]. apply J_num.
    rewrite pnum_value_pint. assert (E0 : inject_Z z - inject_Z z == 0) by ring. rewrite E0. exact T.
  - (* Rational *)
    cbn [conv extract_atom] in H. cbn [hint_of].
    pose proof (J_atom d flag _ _ (rat_atom_close d (p # q))) as A.
    destruct (flag && pnum_is_zero (number_atom d (p # q) (p # q))); injection H as <-; exact A.
  - (* Symbol *)
    cbn [conv extract_atom] in H. cbn [hint_of]. destruct (lookup_sym m s) as [t|]; [|discriminate].
    injection H as <-. exists (EVar t). split; [reflexivity|constructor].
  - discriminate.
Qed.

(* ------------------------------------------------------------------ the exact expression has the value of the tree *)
Fixpoint qpow (x : Q) (n : nat) : Q := match n with O => 1 | S k => qpow x k * x end.

(* the value of a sympy tree: sums, products, integer powers; a Rational atom has its exact value, a Float atom its
   reference value [href] (see there), a symbol the value of the function text it stands for *)
Fixpoint seval (d : nat) (m : list (string * string)) (rho : valuation) (t : stree) : Q :=
  match t with
  | SAdd args => fold_right (fun a acc => seval d m rho a + acc) 0 args
  | SMul args => fold_right (fun a acc => seval d m rho a * acc) 1 args
  | SPow b (SInt z) => let p := qpow (seval d m rho b) (Z.to_nat (Z.abs z)) in if Z.ltb 0 z then p else 1 / p
  | SPow _ _ => 0
  | SFloat v => href d v (sig15 v)
  | SRat p q => p # q
  | SInt z => inject_Z z
  | SSym s => match lookup_sym m s with Some t => rho t | None => 0 end
  | SOther _ => 0
  end.

(* wf_tree (trees sympy builds: no empty product, no zero exponent) is defined in Model/SymbolicGlue.v: the correspondence checks it
   on every tree of a run *)

Section Value.
  Variable rho : valuation.

  Definition sumf {A} (f : A -> Q) (l : list A) : Q := fold_right (fun a acc => f a + acc) 0 l.
  Definition prodf {A} (f : A -> Q) (l : list A) : Q := fold_right (fun a acc => f a * acc) 1 l.

  Lemma nestg_add_eval nf hs :
    match nestg (EBin OAdd) nf hs with Some e => eval rho e == sumf (eval rho) hs | None => hs = [] end.
  Proof.
    induction hs as [|h hs IH]; simpl; [reflexivity|].
    destruct (nestg (EBin OAdd) nf hs) as [e|].
    - destruct nf; simpl; rewrite IH; ring.
    - subst hs. simpl. ring.
  Qed.

  Lemma nestg_mul_eval nf hs :
    match nestg (EBin OMul) nf hs with Some e => eval rho e == prodf (eval rho) hs | None => hs = [] end.
  Proof.
    induction hs as [|h hs IH]; simpl; [reflexivity|].
    destruct (nestg (EBin OMul) nf hs) as [e|].
    - destruct nf; simpl; rewrite IH; ring.
    - subst hs. simpl. ring.
  Qed.

  Lemma sumf_filter {A} (f : A -> Q) (p : A -> bool) l :
    sumf f (filter p l) + sumf f (filter (fun x => negb (p x)) l) == sumf f l.
  Proof.
    induction l as [|a l IH]; simpl; [ring|]. destruct (p a); simpl; rewrite <- IH; ring.
  Qed.

  Lemma sumf_map {A B} (g : A -> B) (f : B -> Q) l : sumf f (map g l) = sumf (fun a => f (g a)) l.
  Proof. induction l as [|a l IH]; simpl; [reflexivity|]. rewrite IH. reflexivity. Qed.

  Lemma prodf_map {A B} (g : A -> B) (f : B -> Q) l : prodf f (map g l) = prodf (fun a => f (g a)) l.
  Proof. induction l as [|a l IH]; simpl; [reflexivity|]. rewrite IH. reflexivity. Qed.

  Lemma hint_add_eval L : eval rho (hint_add L) == sumf (fun x => eval rho (fst x)) L.
  Proof.
    unfold hint_add.
    set (kept := filter (fun x => is_some (snd x)) L). set (dropped := filter (fun x => negb (is_some (snd x))) L).
    set (nf := match kept with x :: _ => printed_num (snd x) | [] => false end).
    assert (B : eval rho (match nestg (EBin OAdd) nf (map fst kept) with Some e => e | None => ENum 0 end)
                == sumf (fun x => eval rho (fst x)) kept).
    { pose proof (nestg_add_eval nf (map fst kept)) as N.
      destruct (nestg (EBin OAdd) nf (map fst kept)) as [e|].
      - rewrite N, sumf_map. reflexivity.
      - destruct kept; [reflexivity|discriminate]. }
    set (base := match nestg (EBin OAdd) nf (map fst kept) with Some e => e | None => ENum 0 end) in *.
    assert (D : forall l : list (expr * option pexpr), eval rho (fold_right (fun z acc => EBin OAdd (fst z) acc) base l)
                          == sumf (fun x => eval rho (fst x)) l + eval rho base).
    { induction l as [|z l IHl]; simpl; [ring|]. rewrite IHl. ring. }
    rewrite D, B. rewrite <- (sumf_filter (fun x => eval rho (fst x)) (fun x => is_some (snd x)) L).
    fold kept dropped. ring.
  Qed.

  Lemma hint_mul_eval L : L <> [] -> eval rho (hint_mul L) == prodf (fun x => eval rho (fst x)) L.
  Proof.
    intros NE. unfold hint_mul. destruct (forallb (fun x => is_some (snd x)) L).
    - set (nf := match L with x :: _ => printed_num (snd x) | [] => false end).
      pose proof (nestg_mul_eval nf (map fst L)) as N.
      destruct (nestg (EBin OMul) nf (map fst L)) as [e|].
      + rewrite N, prodf_map. reflexivity.
      + destruct L; [contradiction|discriminate].
    - induction L as [|z l IHl]; [contradiction|]. simpl.
      destruct l as [|z' l']; [simpl; ring|]. rewrite IHl by discriminate. reflexivity.
  Qed.

  Lemma qpow_comp x y n : x == y -> qpow x n == qpow y n.
  Proof. intros H. induction n as [|k IH]; simpl; [reflexivity|]. rewrite IH, H. reflexivity. Qed.

  Lemma hchain_eval hb n : eval rho (hchain hb n) == qpow (eval rho hb) (S n).
  Proof. induction n as [|k IH]; simpl; [ring|]. rewrite IH. simpl. ring. Qed.

  Lemma sumf_ext {A} (f g : A -> Q) l : Forall (fun a => f a == g a) l -> sumf f l == sumf g l.
  Proof. induction 1 as [|a l H _ IH]; simpl; [reflexivity|]. rewrite H, IH. reflexivity. Qed.

  Lemma prodf_ext {A} (f g : A -> Q) l : Forall (fun a => f a == g a) l -> prodf f l == prodf g l.
  Proof. induction 1 as [|a l H _ IH]; simpl; [reflexivity|]. rewrite H, IH. reflexivity. Qed.

  Theorem hint_value d flag m t : wf_tree t = true -> eval rho (hint_of d flag m t) == seval d m rho t.
  Proof.
    induction t as [args IH|args IH|b e IHb _|v|z|p q|s|c] using stree_ind'; intros W.
    - cbn [hint_of seval]. rewrite hint_add_eval, sumf_map. cbn [fst].
      change (fold_right (fun a acc => seval d m rho a + acc) 0 args) with (sumf (seval d m rho) args).
      apply sumf_ext. cbn [wf_tree] in W. rewrite forallb_forall in W. rewrite Forall_forall in IH |- *.
      intros a Ha. apply IH; auto.
    - cbn [hint_of seval]. cbn [wf_tree] in W. apply andb_true_iff in W. destruct W as [NE W].
      rewrite hint_mul_eval by (destruct args; [discriminate|discriminate]).
      rewrite prodf_map. cbn [fst].
      change (fold_right (fun a acc => seval d m rho a * acc) 1 args) with (prodf (seval d m rho) args).
      apply prodf_ext. rewrite forallb_forall in W. rewrite Forall_forall in IH |- *.
      intros a Ha. apply IH; auto.
    - destruct e as [| | | |z| | |]; cbn [hint_of seval]; try reflexivity.
      cbn [wf_tree] in W. apply andb_true_iff in W. destruct W as [Z W]. apply negb_true_iff in Z. apply Z.eqb_neq in Z.
      unfold hint_pow. cbv zeta.
      assert (E : S (Z.to_nat (Z.abs z) - 1) = Z.to_nat (Z.abs z)) by lia.
      pose proof (qpow_comp _ _ (Z.to_nat (Z.abs z)) (IHb W)) as Q.
      destruct (Z.ltb 0 z); cbn [eval bin_sem]; rewrite hchain_eval, E, Q; reflexivity.
    - reflexivity.
    - reflexivity.
    - reflexivity.
    - cbn [hint_of seval]. destruct (lookup_sym m s); reflexivity.
    - reflexivity.
  Qed.
End Value.

(* ------------------------------------------------------------------ symbol names are injective *)
Lemma NoDup_snoc {A} (l : list A) x : NoDup l -> ~ In x l -> NoDup (l ++ [x]).
Proof.
  intros N H. induction N as [|a l Ha N IH]; simpl; [constructor; [intros []|constructor]|].
  constructor.
  - intros Hin. apply in_app_or in Hin. destruct Hin as [Hin|[<-|[]]]; [contradiction|]. apply H. left. reflexivity.
  - apply IH. intros Hin. apply H. right. exact Hin.
Qed.

Lemma fresh_name_fresh base used n : fresh_name base used = Ok n -> ~ In n used.
Proof.
  unfold fresh_name. destruct (find _ _) as [i|] eqn:F; [|discriminate]. intros H. injection H as <-.
  apply find_some in F. destruct F as [_ F]. apply negb_true_iff in F. intros Hin. apply str_in_In in Hin. congruence.
Qed.

Definition inj_map (m : list (string * string)) : Prop := NoDup (map fst m) /\ NoDup (map snd m).

Lemma transform_step (m m' : list (string * string)) v :
  inj_map m ->
  (if str_in v (map fst m) then Ok m
   else do n <- fresh_name (symbol_name v) (map snd m); Ok (m ++ [(v, n)])) = Ok m' ->
  inj_map m'.
Proof.
  intros [N1 N2] H. destruct (str_in v (map fst m)) eqn:E.
  - injection H as <-. split; assumption.
  - apply bind_ok_inv in H. destruct H as (n & Hn & H). injection H as <-.
    apply fresh_name_fresh in Hn. split; rewrite map_app; simpl; apply NoDup_snoc; auto.
    intros Hin. apply str_in_In in Hin. congruence.
Qed.

(* every function text gets its own symbol and every symbol stands for one function text *)
Theorem transform_map_injective given found m :
  transform_map given found = Ok m -> inj_map given -> inj_map m.
Proof.
  unfold transform_map. generalize (sort_strings found) as l. intros l. revert given.
  induction l as [|v l IH]; intros given H G; simpl in H.
  - injection H as <-. exact G.
  - destruct (str_in v (map fst given)) eqn:E.
    + apply (IH given); [|exact G]. exact H.
    + destruct (fresh_name (symbol_name v) (map snd given)) as [n|k] eqn:F.
      * apply (IH (given ++ [(v, n)])); [exact H|].
        apply (transform_step given _ v G). rewrite E, F. reflexivity.
      * (* the error propagates through the remaining steps *)
        exfalso. clear -H. simpl in H. induction l as [|w l IHl]; simpl in H; [discriminate|]. apply IHl. exact H.
Qed.

(* in an injective map a symbol is looked up to the one text it was made for, and different texts have different symbols *)
Lemma lookup_sym_in m s t : lookup_sym m s = Some t -> In (t, s) m.
Proof.
  induction m as [|[t' s'] m IH]; simpl; [discriminate|].
  destruct (lookup_sym m s) as [t''|] eqn:E.
  - intros H. injection H as <-. right. apply IH. reflexivity.
  - destruct (String.eqb s' s) eqn:Es; [|discriminate]. intros H. injection H as <-.
    apply String.eqb_eq in Es. subst. left. reflexivity.
Qed.

Lemma NoDup_fst_functional {A B} (m : list (A * B)) a b b' : NoDup (map fst m) -> In (a, b) m -> In (a, b') m -> b = b'.
Proof.
  induction m as [|[x y] m IH]; simpl; intros N H H'; [contradiction|].
  inversion N as [|? ? Hx N']; subst.
  destruct H as [H|H], H' as [H'|H'].
  - congruence.
  - injection H as <- <-. exfalso. apply Hx. apply (in_map fst) in H'. exact H'.
  - injection H' as <- <-. exfalso. apply Hx. apply (in_map fst) in H. exact H.
  - eauto.
Qed.

Theorem lookup_sym_injective m s1 s2 t :
  inj_map m -> lookup_sym m s1 = Some t -> lookup_sym m s2 = Some t -> s1 = s2.
Proof.
  intros [N _] H1 H2. apply lookup_sym_in in H1. apply lookup_sym_in in H2.
  exact (NoDup_fst_functional m t s1 s2 N H1 H2).
Qed.

(* ------------------------------------------------------------------ the glue theorem *)
Theorem glue_sound d flag m t r :
  conv d flag m t = Ok r ->
  exists h : expr,
    (wf_tree t = true -> forall rho, eval rho h == seval d m rho t) /\
    match r with
    | Some p => exists e, pe_expr p = Some e /\ eround (tol_of d) h e
    | None => vanishing (tol_of d) h = true
    end.
Proof.
  intros H. exists (hint_of d flag m t). split.
  - intros W rho. apply hint_value. exact W.
  - exact (conv_rounds d flag m t r H).
Qed.

(* convert_expr_to_pddl prints that expression, or 0 when everything vanished *)
Theorem convert_text d flag m t s :
  convert_expr_to_pddl d flag m t = Ok s ->
  exists r, conv d flag m t = Ok r /\ s = match r with Some p => show_pexpr p | None => "0" end.
Proof.
  unfold convert_expr_to_pddl. intros H. apply bind_ok_inv in H. destruct H as (_ & _ & H).
  apply bind_ok_inv in H. destruct H as (r & Hr & H). injection H as <-. exists r. auto.
Qed.

(* the hypotheses are satisfiable: 0.004*x*y + 2.99999*x**-2 + y/3 at 2 decimals, as sympy orders it *)
Example glue_example :
  let m := [("(x ?a)", "xa"); ("(y ?a)", "ya")] in
  let t := SAdd [SMul [SFloat (4 # 1000); SSym "xa"; SSym "ya"];
                 SMul [SFloat (299999 # 100000); SPow (SSym "xa") (SInt (-2))];
                 SMul [SRat 1 3; SSym "ya"]] in
  wf_tree t = true /\
  convert_expr_to_pddl 2 true m t = Ok "(+ (* (/ 1 (* (x ?a) (x ?a))) 3) (* (y ?a) 0.33))".
Proof. vm_compute. split; reflexivity. Qed.

Example naming_example :
  transform_map [] ["(fx ?a)"; "(f-x ?a)"; "(fx_1 ?a)"]
  = Ok [("(f-x ?a)", "fxa"); ("(fx ?a)", "fxa_1"); ("(fx_1 ?a)", "fx_1a")].
Proof. vm_compute. reflexivity. Qed.

(* ------------------------------------------------------------------ the naming loop always finds a free name *)
Lemma append_nil_r' (s : string) : (s ++ "")%string = s.
Proof. induction s as [|c s IH]; simpl; [reflexivity|]. rewrite IH. reflexivity. Qed.

Lemma append_same_prefix (b s1 s2 : string) : (b ++ s1)%string = (b ++ s2)%string -> s1 = s2.
Proof. induction b as [|c b IH]; simpl; intros H; [exact H|]. injection H as H. apply IH. exact H. Qed.

Lemma nat_digits_inj a b : (0 < a)%Z -> (0 < b)%Z -> nat_digits a = nat_digits b -> a = b.
Proof.
  unfold nat_digits. intros Ha Hb H.
  assert (N : forall z, (0 < z)%Z -> Z.to_int z <> Decimal.Pos Decimal.Nil /\ Z.to_int z <> Decimal.Neg Decimal.Nil).
  { intros z Hz. destruct z as [|p|p]; try lia. simpl. split; [|discriminate].
    intros E. injection E as E. apply (DecimalPos.Unsigned.to_uint_nonnil p). exact E. }
  destruct (N a Ha) as [A1 A2]. destruct (N b Hb) as [B1 B2].
  pose proof (NilZero.isi _ A1 A2) as Ia. pose proof (NilZero.isi _ B1 B2) as Ib.
  rewrite H in Ia. rewrite Ia in Ib. injection Ib as Ib. apply DecimalZ.to_int_inj. exact Ib.
Qed.

Definition name_suffix (i : nat) : string := match i with O => "" | S _ => ("_" ++ nat_digits (Z.of_nat i))%string end.

Lemma name_cand_suffix base i : name_cand base i = (base ++ name_suffix i)%string.
Proof. destruct i; simpl; [symmetry; apply append_nil_r'|reflexivity]. Qed.

Lemma name_cand_inj base : Injective (name_cand base).
Proof.
  intros i j H. rewrite !name_cand_suffix in H. apply append_same_prefix in H.
  destruct i as [|i], j as [|j]; simpl in H; try discriminate; [reflexivity|].
  injection H as H. apply nat_digits_inj in H; lia.
Qed.

Theorem fresh_name_total base used : exists n, fresh_name base used = Ok n.
Proof.
  unfold fresh_name. destruct (find _ _) as [i|] eqn:F; [eauto|]. exfalso.
  set (l := map (name_cand base) (seq 0 (S (List.length used)))).
  assert (I : incl l used).
  { intros x Hx. unfold l in Hx. apply in_map_iff in Hx. destruct Hx as (i & <- & Hi).
    pose proof (find_none _ _ F i Hi) as Hn. apply negb_false_iff in Hn. apply str_in_In. exact Hn. }
  assert (N : NoDup l).
  { unfold l. apply Injective_map_NoDup; [apply name_cand_inj|apply seq_NoDup]. }
  pose proof (NoDup_incl_length N I) as L. unfold l in L. rewrite map_length, seq_length in L. lia.
Qed.

(* hence transform_expression's dictionary is always built *)
Theorem transform_map_total given found : exists m, transform_map given found = Ok m.
Proof.
  unfold transform_map. generalize (sort_strings found) as l. intros l. revert given.
  induction l as [|v l IH]; intros given; simpl; [eauto|].
  destruct (str_in v (map fst given)); [apply IH|].
  destruct (fresh_name_total (symbol_name v) (map snd given)) as (n & ->). simpl. apply IH.
Qed.

Open Scope Q_scope.
(* ------------------------------------------------------------------ str(Float): the 15-digit decimal is close *)
Lemma q10_pos z : 0 < q10 z.
Proof. unfold q10. apply Qpower_0_lt. reflexivity. Qed.

Lemma q10_succ z : q10 (z + 1) == q10 z * (10 # 1).
Proof. unfold q10. rewrite Qpower_plus by (intros H; discriminate H). reflexivity. Qed.

Lemma q10_pred z : q10 (z - 1) == q10 z / (10 # 1).
Proof.
  assert (E : q10 z == q10 (z - 1 + 1)) by (replace (z - 1 + 1)%Z with z by lia; reflexivity).
  rewrite E, q10_succ. field.
Qed.

(* x * 10^e is invariant; x >= 1 *)
Lemma ilog_up_spec fuel : forall x e, 1 <= x -> x < q10 (Z.of_nat fuel) ->
  let e' := ilog_up fuel x e in
  q10 e' <= x * q10 e /\ x * q10 e < q10 (e' + 1).
Proof.
  induction fuel as [|f IH]; intros x e H1 Hf; cbn [ilog_up].
  - exfalso. change (q10 (Z.of_nat 0)) with (q10 0) in Hf. unfold q10 in Hf. simpl in Hf. lra.
  - destruct (Qle_bool (10 # 1) x) eqn:E.
    + apply Qle_bool_iff in E.
      assert (H1' : 1 <= x / (10 # 1)). { apply Qle_shift_div_l; [reflexivity|]. lra. }
      assert (Hf' : x / (10 # 1) < q10 (Z.of_nat f)).
      { apply Qlt_shift_div_r; [reflexivity|]. rewrite <- q10_succ. rewrite Nat2Z.inj_succ in Hf. exact Hf. }
      specialize (IH (x / (10 # 1)) (e + 1)%Z H1' Hf'). cbv zeta in IH.
      assert (Ei : x / (10 # 1) * q10 (e + 1) == x * q10 e) by (rewrite q10_succ; field).
      rewrite Ei in IH. exact IH.
    + assert (L : x < 10 # 1).
      { destruct (Qlt_le_dec x (10 # 1)) as [L|L]; [exact L|]. apply Qle_bool_iff in L. congruence. }
      pose proof (q10_pos e) as P. split.
      * rewrite <- (Qmult_1_l (q10 e)) at 1. apply Qmult_le_compat_r; [exact H1|lra].
      * rewrite q10_succ. rewrite (Qmult_comm (q10 e)). apply Qmult_lt_compat_r; assumption.
Qed.

Lemma ilog_down_spec fuel : forall x e, 0 < x -> x < 10 # 1 -> q10 (- Z.of_nat fuel) <= x ->
  let e' := ilog_down fuel x e in
  q10 e' <= x * q10 e /\ x * q10 e < q10 (e' + 1).
Proof.
  assert (Base : forall x e, 1 <= x -> x < 10 # 1 -> q10 e <= x * q10 e /\ x * q10 e < q10 (e + 1)).
  { intros x e H1 H10. pose proof (q10_pos e) as P. split.
    - rewrite <- (Qmult_1_l (q10 e)) at 1. apply Qmult_le_compat_r; [exact H1|lra].
    - rewrite q10_succ. rewrite (Qmult_comm (q10 e)). apply Qmult_lt_compat_r; assumption. }
  induction fuel as [|f IH]; intros x e H0 H10 Hf; cbn [ilog_down].
  - apply Base; [|exact H10]. unfold q10 in Hf. simpl in Hf. exact Hf.
  - destruct (Qle_bool 1 x) eqn:E.
    + apply Qle_bool_iff in E. apply Base; assumption.
    + assert (L : x < 1).
      { destruct (Qlt_le_dec x 1) as [L|L]; [exact L|]. apply Qle_bool_iff in L. congruence. }
      assert (Hf' : q10 (- Z.of_nat f) <= x * (10 # 1)).
      { rewrite Nat2Z.inj_succ in Hf. replace (- Z.succ (Z.of_nat f))%Z with (- Z.of_nat f - 1)%Z in Hf by lia.
        rewrite q10_pred in Hf. pose proof (q10_pos (- Z.of_nat f)) as P.
        set (q := q10 (- Z.of_nat f)) in *.
        assert (Hq : q == q / (10 # 1) * (10 # 1)) by field.
        rewrite Hq. apply Qmult_le_compat_r; [exact Hf|discriminate]. }
      assert (H0' : 0 < x * (10 # 1)) by lra. assert (H10' : x * (10 # 1) < 10 # 1) by lra.
      specialize (IH (x * (10 # 1)) (e - 1)%Z H0' H10' Hf'). cbv zeta in IH.
      assert (Ei : x * (10 # 1) * q10 (e - 1) == x * q10 e) by (rewrite q10_pred; field).
      rewrite Ei in IH. exact IH.
Qed.

Lemma ilog10_spec a : q10 (-400) <= a -> a < q10 400 ->
  q10 (ilog10 a) <= a /\ a < q10 (ilog10 a + 1).
Proof.
  intros L U. unfold ilog10. pose proof (q10_pos (-400)) as P.
  assert (E0 : a * q10 0 == a) by (unfold q10; simpl; ring).
  destruct (Qle_bool 1 a) eqn:E.
  - apply Qle_bool_iff in E. pose proof (ilog_up_spec 400 a 0 E U) as S. cbv zeta in S. rewrite E0 in S. exact S.
  - assert (L1 : a < 1).
    { destruct (Qlt_le_dec a 1) as [L1|L1]; [exact L1|]. apply Qle_bool_iff in L1. congruence. }
    assert (H0 : 0 < a) by lra. assert (H10 : a < 10 # 1) by lra.
    pose proof (ilog_down_spec 400 a 0 H0 H10 L) as S. cbv zeta in S. rewrite E0 in S. exact S.
Qed.

Lemma rhu_close x : Qabs (x - inject_Z (rhu x)) <= 1 # 2.
Proof.
  unfold rhu. pose proof (Qfloor_le (x + (1 # 2))) as L. pose proof (Qlt_floor (x + (1 # 2))) as U.
  rewrite inject_Z_plus in U. change (inject_Z 1) with 1 in U.
  apply Qabs_case; intros; lra.
Qed.

(* relative error at most 5e-15 *)
Theorem sig15_close v : (v == 0 \/ (q10 (-400) <= Qabs v /\ Qabs v < q10 400)) ->
  Qabs (sig15 v - v) <= (5 # 1) * q10 (-15) * Qabs v.
Proof.
  intros H. unfold sig15. destruct (Qeq_bool v 0) eqn:Z.
  - apply Qeq_bool_iff in Z. rewrite Z. simpl. unfold q10. simpl. lra.
  - destruct H as [H|[L U]]; [apply Qeq_bool_iff in H; congruence|].
    cbv zeta. set (a := Qabs v) in *. destruct (ilog10_spec a L U) as [E1 E2].
    set (e := ilog10 a) in *. set (s := q10 (14 - e)).
    pose proof (q10_pos (14 - e)) as Ps. fold s in Ps. pose proof (q10_pos e) as Pe.
    pose proof (rhu_close (a * s)) as R. set (n := rhu (a * s)) in *.
    (* | n/s - a | <= 1/(2 s) <= 5e-15 * a *)
    assert (Es : s * q10 e == q10 14).
    { unfold s, q10. rewrite <- Qpower_plus by (intros X; discriminate X). replace (14 - e + e)%Z with 14%Z by lia. reflexivity. }
    assert (B : Qabs (inject_Z n / s - a) <= (5 # 1) * q10 (-15) * a).
    { assert (E : inject_Z n / s - a == - (a * s - inject_Z n) / s) by (field; lra).
      rewrite E. unfold Qdiv. rewrite Qabs_Qmult, Qabs_opp, (Qabs_pos (/ s)) by (apply Qlt_le_weak, Qinv_lt_0_compat; exact Ps).
      apply Qle_trans with ((1 # 2) * / s).
      - apply Qmult_le_compat_r; [exact R|]. apply Qlt_le_weak, Qinv_lt_0_compat. exact Ps.
      - (* 1/(2s) = 10^e / (2 * 10^14) <= a * 5e-15 *)
        assert (Ei : / s == q10 e / q10 14). { rewrite <- Es. field. split; lra. }
        rewrite Ei. assert (V14 : q10 14 == 100000000000000 # 1) by (unfold q10; reflexivity).
        assert (V15 : q10 (-15) == 1 # 1000000000000000) by (unfold q10; reflexivity).
        rewrite V14, V15.
        assert (G : (1 # 2) * (q10 e / (100000000000000 # 1)) == (5 # 1) * (1 # 1000000000000000) * q10 e) by field.
        rewrite G. apply Qmult_le_l; [reflexivity|exact E1]. }
    destruct (Qle_bool 0 v) eqn:Sg; rewrite Qred_correct.
    + apply Qle_bool_iff in Sg. assert (Ev : v == a) by (unfold a; rewrite Qabs_pos; [reflexivity|exact Sg]).
      assert (G : inject_Z n / s - v == inject_Z n / s - a) by (rewrite Ev; reflexivity).
      rewrite G. exact B.
    + assert (N : v < 0).
      { destruct (Qlt_le_dec v 0) as [N|N]; [exact N|]. apply Qle_bool_iff in N. congruence. }
      assert (Ev : v == - a) by (unfold a; rewrite Qabs_neg by lra; ring).
      assert (G : - (inject_Z n / s) - v == - (inject_Z n / s - a)) by (rewrite Ev; ring).
      rewrite G, Qabs_opp. exact B.
Qed.

(* hence the reference value of a Float atom is within 5e-15 (relative) of its exact binary value *)
Corollary href_close d v : (v == 0 \/ (q10 (-400) <= Qabs v /\ Qabs v < q10 400)) ->
  Qabs (href d v (sig15 v) - v) <= (5 # 1) * q10 (-15) * Qabs v.
Proof.
  intros H. unfold href. destruct (Z.eqb _ 0); [|apply sig15_close; exact H].
  assert (E : v - v == 0) by ring. rewrite E. simpl.
  pose proof (q10_pos (-15)) as P. pose proof (Qabs_nonneg v) as N. 
  apply Qmult_le_0_compat; [|exact N]. apply Qmult_le_0_compat; [discriminate|]. apply Qlt_le_weak. exact P.
Qed.
