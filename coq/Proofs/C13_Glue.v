(* C13 — the glue around sympy: what the printer prints has the value of sympy's tree *)
From Coq Require Import List String Ascii Bool ZArith QArith Qabs Qround Lqa Lia.
From Verif Require Import Base.Result Base.Str Spec.Poly Model.SymbolicGlue.
Import ListNotations.
Open Scope string_scope.
Open Scope list_scope.

