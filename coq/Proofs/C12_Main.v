(* C12: witnesses (the hypotheses of the theorems are satisfiable; the pinned configuration violates the
   property: D08, D20) and small corollaries. *)
From Coq Require Import ZArith List Bool String Ascii Lia PrimFloat FloatOps.
From Verif Require Import Base.Result Base.Str Base.Sexp Base.Float Model.NumExpr Spec.Arith
  Proofs.C12_Eval Proofs.C12_Cmp Proofs.C12_Print.
Import ListNotations.
Open Scope string_scope.
Open Scope list_scope.

(* a small world: float("0.5") = 0.5, float("3") = 3; functions x/0 and load/1 *)
Definition ex_pn (s : string) : option float :=
  if String.eqb s "0.5" then Some 0.5%float else if String.eqb s "3" then Some 3%float else None.
Definition ex_tok (v : float) : string := if PrimFloat.eqb v 3%float then "3" else "0.5".
Definition ex_funcs : domain_functions := [("x", []); ("load", ["?t"])].
Definition ex_e : aexp := ABin Sub (ABin Div (ANum 3%float) (ANum 0.5%float)) (ABin Mul (AFl "load" ["t1"]) (AFl "x" [])).
Definition ex_st : fluents := [("(load t1)", 0.5%float); ("(x )", 3%float)].

Example wf_aexp_satisfiable : wf_aexp ex_pn ex_funcs ex_tok ex_e.
Proof.
  cbn. split; [repeat split; reflexivity|]. split; [|split; [reflexivity|split; [constructor|]]].
  - split; [reflexivity|]. split; [constructor; [intros []|constructor]|].
    exists ["?t"]. split; reflexivity.
  - exists []. split; reflexivity.
Qed.

(* operand order: minus (div 3 0.5) (times (load t1) (x)) = 3/0.5 - 0.5*3 = 4.5 *)
Example eval_operand_order :
  (do t <- construct true ex_pn ex_funcs (render ex_tok ex_e); calculate ex_st t) = Ok 4.5%float
  /\ aeval (val_of ex_st) ex_e = Some 4.5%float.
Proof. split; reflexivity. Qed.

(* D08 on the pinned configuration (strict = false): a third operand is silently dropped, a unary form is an
   IndexError; with the arity check (strict = true) both are SyntaxErrors *)
Definition nary : sexp := SList [Atom "+"; SList [Atom "x"]; Atom "3"; Atom "0.5"].
Definition unary : sexp := SList [Atom "-"; SList [Atom "x"]].

Theorem C12_arity_refuted_pinned_lemma :
  exists h args, str_in h LEGAL_NUMERICAL_EXPRESSIONS = true /\ List.length args <> 2%nat /\
                 exists t, construct false ex_pn ex_funcs (headed h args) = Ok t.
Proof.
  exists "+", [SList [Atom "x"]; Atom "3"; Atom "0.5"]. split; [reflexivity|]. split; [discriminate|].
  eexists. reflexivity.
Qed.

Example arity_examples :
  construct false ex_pn ex_funcs nary = Ok (NBin "+" (NFl {| nf_name := "x"; nf_params := [] |}) (NNum 3%float)) /\
  construct false ex_pn ex_funcs unary = Err EIndex /\
  construct true ex_pn ex_funcs nary = Err ESyntax /\
  construct true ex_pn ex_funcs unary = Err ESyntax.
Proof. repeat split; reflexivity. Qed.

(* a comparison / assignment whose operands are all bare tokens is taken for a function named like the operator
   (KeyError): modelled quirk of construct_expression_tree, outside the statement of C12 *)
Example bare_token_comparison_quirk :
  construct true ex_pn ex_funcs (SList [Atom "<="; Atom "3"; Atom "0.5"]) = Err EKey.
Proof. reflexivity. Qed.

(* comparisons: the hypotheses of C12_cmp_abs hold e.g. for 1 vs 2 under the pinned configuration, and those of
   C12_cmp_fixed for the default tolerance *)
Example cmp_abs_satisfiable :
  tol_ok (cfg_rel (cfg_pinned eps_default 4)) eps_default /\ is_infinity 1%float = false /\ is_infinity 2%float = false /\
  rel_term (cfg_rel (cfg_pinned eps_default 4)) 1%float 2%float = false /\
  compare_op (cfg_pinned eps_default 4) "<=" 1%float 2%float = Ok true.
Proof. vm_compute. repeat split; reflexivity. Qed.

Example cmp_fixed_satisfiable :
  f_is_finite D20_x = true /\ f_is_finite D20_y = true /\ PrimFloat.leb 0%float eps_default = true /\
  PrimFloat.ltb eps_default 0%float = false /\
  compare_op (cfg_fixed eps_default 4) "=" D20_x D20_y = Ok false.
Proof. vm_compute. repeat split; reflexivity. Qed.

(* boundary: 1 vs 1 + eps/2 are equal, 1 vs 1 + 2 eps are not (default tolerance, repaired configuration) *)
Example cmp_boundary :
  compare_op (cfg_fixed eps_default 4) "=" 1%float 0x1.000346dc5d639p+0%float = Ok true /\
  compare_op (cfg_fixed eps_default 4) "=" 1%float 0x1.000d1b71758e2p+0%float = Ok false /\
  compare_op (cfg_fixed eps_default 4) ">=" 1%float 0x1.000346dc5d639p+0%float = Ok true /\
  compare_op (cfg_fixed eps_default 4) ">" 1%float 0x1.000346dc5d639p+0%float = Ok false.
Proof. vm_compute. repeat split; reflexivity. Qed.

(* assignments *)
Example assign_example :
  evaluate (cfg_fixed eps_default 4) ex_st (NBin "decrease" (NFl {| nf_name := "x"; nf_params := [] |}) (NNum 0.5%float))
  = Ok (EvAssign "(x )" 2.5%float).
Proof. reflexivity. Qed.

(* printing *)
Definition ex_tree : ntree :=
  NBin "<=" (NBin "+" (NNum 0.5%float) (NNum 3%float)) (NFl {| nf_name := "load"; nf_params := ["t1"] |}).
Definition ex_pn4 (s : string) : option float :=
  if String.eqb s "0.5000" then Some 0.5%float else if String.eqb s "3" then Some 3%float else None.

Example tree_ok_satisfiable : tree_ok ex_pn4 ex_funcs 4 ex_tree.
Proof.
  unfold ex_tree. cbn [tree_ok is_num andb]. unfold fl_ok.
  repeat split; try (vm_compute; reflexivity); try (vm_compute; discriminate); try discriminate.
  - constructor; [intros []|constructor].
  - exists ["?t"]. repeat split; discriminate.
Qed.

Example print_examples :
  to_pddl 4 ex_tree = "(<= (+ 0.5000 3) (load t1))" /\
  num_text 2 0.125%float = "0.12" /\ num_text 2 0.375%float = "0.38" /\ num_text 0 2.5%float = "2" /\
  num_text 4 (-0x1p-20)%float = "-0.0000" /\ num_text 4 (-0)%float = "0" /\ num_text 1 1e22%float = "10000000000000000000000".
Proof. vm_compute. repeat split; reflexivity. Qed.
