(* C03: an Operator built WITHOUT an object table (problem_objects=None).
   The library then has nothing to range over: a quantified condition reads true (with a warning), the universal effects are
   not applied.  Here:
     - no_table_is_empty_table: on the model, "no table" behaves exactly like "the EMPTY table" - the same value or the same
       exception, for every action, state, flags and visiting orders;
     - hence (no_table_successor) whatever such a call returns is the PDDL successor over the EMPTY universe of objects;
     - strip_action (the oracle of the correspondence check for such calls: every (forall ...) condition replaced by truth, every
       forall-when effect dropped) has, over ANY universe, the groups of the action itself over the empty universe
       (strip_groups), so the check's oracle is the successor the theorem speaks about.
   Note what this is NOT: an EMPTY table handed to the Operator ({}: a problem without objects) is still a table; the Operator
   then ranges over the domain's constants (Model.Exec.quantification_objects d [] = d_consts d).  Confusing the two (seeded
   change C02_E: 'not problem_objects' instead of 'is None') is reported by the correspondence check. *)
From Coq Require Import List String Bool PrimFloat Permutation.
From Verif Require Import Base.Result Base.Str Base.PyDict Model.Types Model.Domain Model.Exec Spec.Pddl
  Proofs.C03_Spec Proofs.C03_Defs Proofs.C03_Eval Proofs.C03_Refine Proofs.C03_Main Proofs.C03_Closed.
Import ListNotations.
Open Scope string_scope.
Open Scope list_scope.

(* ---------- the spec side: the action without its quantified parts ---------- *)
Fixpoint strip_form (f : form) : form :=
  match f with
  | FAnd l => FAnd (map strip_form l)
  | FOr l => FOr (map strip_form l)
  | FForall _ _ _ => FAnd []
  | x => x
  end.

Definition strip_eff (e : eff) : list eff :=
  match e with
  | EPrims es => [EPrims es]
  | EWhen c es => [EWhen (strip_form c) es]
  | EForall _ _ _ _ => []
  end.

Definition strip_action (A : action) : action :=
  {| a_name := a_name A; a_params := a_params A; a_pre := strip_form (a_pre A); a_effs := flat_map strip_eff (a_effs A) |}.

Lemma forallb_map_ext : forall (A : Type) (f g : A -> bool) (h : A -> A) l,
  Forall (fun x => f (h x) = g x) l -> forallb f (map h l) = forallb g l.
Proof. intros A f g h l H. induction H as [|x r Hx _ IH]; simpl; [reflexivity|]. rewrite Hx, IH. reflexivity. Qed.

Lemma existsb_map_ext : forall (A : Type) (f g : A -> bool) (h : A -> A) l,
  Forall (fun x => f (h x) = g x) l -> existsb f (map h l) = existsb g l.
Proof. intros A f g h l H. induction H as [|x r Hx _ IH]; simpl; [reflexivity|]. rewrite Hx, IH. reflexivity. Qed.

(* a stripped condition, over any universe, is the condition over the empty universe *)
Lemma strip_holds : forall eps tt objs s f e,
  holds eps tt objs e s (strip_form f) = holds eps tt [] e s f.
Proof.
  intros eps tt objs s f.
  induction f as [p a|p a|a b|a b|c l r|l IH|l IH|v ty b IH] using form_ind'; intros e; try reflexivity.
  - simpl. apply forallb_map_ext. eapply Forall_impl; [|exact IH]. intros x Hx. apply Hx.
  - simpl. apply existsb_map_ext. eapply Forall_impl; [|exact IH]. intros x Hx. apply Hx.
Qed.

Lemma strip_fires : forall eps tt objs e s ef,
  flat_map (fires eps tt objs e s) (strip_eff ef) = fires eps tt [] e s ef.
Proof.
  intros eps tt objs e s [es|c es|v ty c es]; simpl.
  - reflexivity.
  - rewrite strip_holds. rewrite app_nil_r. reflexivity.
  - reflexivity.
Qed.

Theorem strip_groups : forall eps tt objs A args s,
  all_groups eps tt objs (strip_action A) args s = all_groups eps tt [] A args s.
Proof.
  intros eps tt objs A args s. unfold all_groups, strip_action, bind_args. simpl.
  induction (a_effs A) as [|ef r IH]; simpl; [reflexivity|].
  rewrite flat_map_app, strip_fires, IH. reflexivity.
Qed.

Theorem strip_successor : forall eps tt objs A args s,
  successor eps tt objs (strip_action A) args s = successor eps tt [] A args s /\
  applicable eps tt objs (strip_action A) args s = applicable eps tt [] A args s.
Proof.
  intros. split.
  - unfold successor. rewrite strip_groups. reflexivity.
  - unfold applicable, strip_action, bind_args. simpl. apply strip_holds.
Qed.

(* ---------- the model side: no table = the empty table ---------- *)
Section NoTable.
  Variable dom : mdomain.
  Variable eps : float.

  Lemma loopM_ext : forall (f g : mcond -> result bool) op l acc,
    Forall (fun c => f c = g c) l -> loopM f op l acc = loopM g op l acc.
  Proof.
    intros f g op l acc H. revert acc. induction H as [|c r Hc _ IH]; intros acc; simpl; [reflexivity|].
    rewrite Hc. destruct (g c); simpl; [apply IH | reflexivity].
  Qed.

  Lemma gloopM_ext : forall (f g : gcond -> result bool) op l acc,
    Forall (fun c => f c = g c) l -> gloopM f op l acc = gloopM g op l acc.
  Proof.
    intros f g op l acc H. revert acc. induction H as [|c r Hc _ IH]; intros acc; simpl; [reflexivity|].
    rewrite Hc. destruct (g c); simpl; [apply IH | reflexivity].
  Qed.

  Lemma eval_lifted_no_table : forall s p pm,
    eval_lifted dom eps None s pm p = eval_lifted dom eps (Some []) s pm p.
  Proof.
    intros s.
    apply (mpre_ind' (fun p => forall pm, eval_lifted dom eps None s pm p = eval_lifted dom eps (Some []) s pm p)
                     (fun c => forall pm, eval_lifted_cond dom eps None s pm c = eval_lifted_cond dom eps (Some []) s pm c)).
    - intros op os eqs neqs HF pm. rewrite !eval_lifted_unfold.
      destruct (ground_pairs pm eqs); [|reflexivity]. destruct (ground_pairs pm neqs); [|reflexivity]. simpl.
      apply loopM_ext. eapply Forall_impl; [|exact HF]. intros c Hc. apply Hc.
    - reflexivity.
    - reflexivity.
    - intros q Hq pm. simpl. apply Hq.
    - reflexivity.
  Qed.

  (* the grounded trees: a nested induction of their own *)
  Section GpreInd.
    Variable P : gpre -> Prop.
    Variable Q : gcond -> Prop.
    Hypothesis HPre : forall op os eqs neqs, Forall Q os -> P (GPre op os eqs neqs).
    Hypothesis HLit : forall pos a, Q (GLit pos a).
    Hypothesis HNum : forall t, Q (GNum t).
    Hypothesis HNested : forall g, P g -> Q (GNested g).
    Hypothesis HUniv : forall v ty b pm, Q (GUniv v ty b pm).
    Fixpoint gpre_ind2 (g : gpre) : P g :=
      match g with
      | GPre op os eqs neqs =>
          HPre op os eqs neqs
               ((fix go (l : list gcond) : Forall Q l :=
                   match l with [] => Forall_nil _ | c :: r => Forall_cons _ (gcond_ind2 c) (go r) end) os)
      end
    with gcond_ind2 (c : gcond) : Q c :=
      match c with
      | GLit pos a => HLit pos a
      | GNum t => HNum t
      | GNested g => HNested g (gpre_ind2 g)
      | GUniv v ty b pm => HUniv v ty b pm
      end.
  End GpreInd.

  Lemma eval_g_no_table : forall s g, eval_g dom eps None s g = eval_g dom eps (Some []) s g.
  Proof.
    intros s.
    apply (gpre_ind2 (fun g => eval_g dom eps None s g = eval_g dom eps (Some []) s g)
                     (fun c => eval_gcond dom eps None s c = eval_gcond dom eps (Some []) s c)).
    - intros op os eqs neqs HF. rewrite !eval_g_unfold. apply gloopM_ext. exact HF.
    - reflexivity.
    - reflexivity.
    - intros g Hg. simpl. exact Hg.
    - reflexivity.
  Qed.

  Lemma antecedents_no_table : forall g s,
    antecedents_hold dom eps None g s = antecedents_hold dom eps (Some []) g s.
  Proof. intros g s. unfold antecedents_hold. destruct (gg_ante g); [apply eval_g_no_table | reflexivity]. Qed.

  Lemma foldM_ext : forall (A S : Type) (f g : S -> A -> result S) l s,
    (forall a x, f a x = g a x) -> foldM f l s = foldM g l s.
  Proof.
    intros A S f g l. induction l as [|x r IH]; intros s H; simpl; [reflexivity|].
    rewrite H. destruct (g s x); simpl; [apply IH; exact H | reflexivity].
  Qed.

  (* Operator.apply of an Operator without an object table = of an Operator with the empty table: the same state or the same
     exception, whatever the flags and the visiting orders *)
  Theorem no_table_is_empty_table : forall ga allow skip order uorder s,
    apply_op dom eps ga None allow skip order uorder s = apply_op dom eps ga (Some []) allow skip order uorder s.
  Proof.
    intros ga allow skip order uorder s. unfold apply_op, is_applicable.
    rewrite eval_g_no_table.
    destruct (if skip then Ok true else eval_g dom eps (Some []) s (ga_pre ga)) as [okb|k]; simpl; [|reflexivity].
    destruct (negb okb && negb allow); [reflexivity|].
    match goal with
    | |- (do cur <- foldM ?f ?l ?s0; _) = (do cur' <- foldM ?g ?l ?s0; _) =>
        rewrite (foldM_ext _ _ f g l s0) by (intros a x; rewrite antecedents_no_table; reflexivity)
    end.
    destruct (foldM _ _ _) as [cur|k]; simpl; reflexivity.
  Qed.

  Theorem is_applicable_no_table : forall ga s,
    is_applicable dom eps None ga s = is_applicable dom eps (Some []) ga s.
  Proof. intros. apply eval_g_no_table. Qed.
End NoTable.

(* whatever an Operator WITHOUT an object table returns (default flags or allow_inapplicable_actions, any visiting order) is the
   PDDL successor of the action over the empty universe - which is, over any universe [objs], the successor of the action without
   its quantified parts (the oracle of the correspondence check for such calls) *)
Theorem no_table_successor :
  forall (d : mdomain) (eps : float) (a : maction) (effs : list eff) (args : list string) (ga : gaction)
         (s s1 : state) (allow : bool) (order uorder : list nat) (objs : objects),
    denote_effs a = Some effs -> names_ok d a = true ->
    ground_action d a args = Ok ga ->
    is_order order (List.length (ga_groups ga)) -> is_order uorder (List.length (ma_univ a)) ->
    apply_op d eps ga None allow false order uorder s = Ok s1 ->
    consistent (all_groups eps (d_types d) objs (strip_action (spec_action a effs)) args s) = true ->
    state_eq s1 (successor eps (d_types d) objs (strip_action (spec_action a effs)) args s).
Proof.
  intros d eps a effs args ga s s1 allow order uorder objs Hd Hn Hg Ho Hu Hret Hc.
  rewrite no_table_is_empty_table in Hret. rewrite strip_groups in Hc.
  rewrite (proj1 (strip_successor eps (d_types d) objs (spec_action a effs) args s)).
  exact (C03_returned_is_successor_lemma d eps a effs args ga [] s s1 allow order uorder Hd Hn Hg Ho Hu Hret Hc).
Qed.

(* the EMPTY table is a table: an Operator of a problem that declares no object ranges over the domain's constants *)
Theorem empty_table_is_constants : forall d : mdomain, quantification_objects d [] = d_consts d.
Proof. intros d. reflexivity. Qed.
