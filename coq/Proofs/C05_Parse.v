(* C05: the whole problem.  On every token tree of the grammar the model parser (repaired configuration) returns
   [built sp] when the checks [wf_code] pass and raises otherwise. *)
From Coq Require Import List Ascii String Bool Arith Lia PrimFloat.
From Verif Require Import Base.Result Base.Str Base.Sexp Base.PyDict
  Model.Types Model.Domain Model.NumExpr Model.Problem Model.ProblemObs
  Spec.Pddl Spec.Grammar Spec.Problem
  Proofs.C05_Lemmas Proofs.C05_Objects Proofs.C05_Items Proofs.C05_Goal.
Import ListNotations.
Open Scope string_scope.
Open Scope list_scope.

Lemma forallb_ext_pt {A} (f g : A -> bool) l : (forall x, f x = g x) -> forallb f l = forallb g l.
Proof. intros H. induction l as [|x xs IH]; simpl; [reflexivity|]. rewrite H, IH. reflexivity. Qed.

Lemma forallb_and_guard {A} (gt : bool) (C T : A -> bool) l :
  forallb (fun g => C g && (negb gt || T g)) l = forallb C l && (negb gt || forallb T l).
Proof.
  induction l as [|x xs IH]; cbn [forallb]; [destruct gt; reflexivity|]. rewrite IH.
  destruct gt, (C x), (T x), (forallb C xs), (forallb T xs); reflexivity.
Qed.

Section Parse.
  Variable gt : bool.                         (* with / without the repair proposed for D19d (Model.Problem.cfg_gt) *)
  Variable num : string -> option float.
  Variable dom : mdomain.
  Hypothesis Hdom : dom_ok dom.
  Hypothesis Hnum : num_ok num.

  Local Notation v := (vocab_of dom).

  (* ---------- what the code checks ---------- *)
  Definition fluent_ok (objs : list (string * string)) (fl : atom * string) : bool :=
    atom_ok v (v_funcs v) objs (fst fl) && match num (snd fl) with Some _ => true | None => false end.

  Definition wf_code (sp : sproblem) : bool :=
    let objs := sp_objects sp in
    String.eqb (sp_domain sp) (d_name dom)
    && types_ok (d_types dom) objs
    && forallb (atom_ok v (v_preds v) objs) (sp_facts sp)
    && forallb (fluent_ok objs) (sp_fluents sp)
    && forallb (atom_ok v (v_preds v) objs) (sp_goal sp)
    && forallb (fun g => match g with (_, l, r) => code_ok (d_funcs dom) l && code_ok (d_funcs dom) r end) (sp_goal_num sp).

  (* the check proposed for D19d: in numeric goals, arguments that are declared have conforming types *)
  Definition goal_typed (sp : sproblem) : bool :=
    negb gt || forallb (fun g : cmpop * nexp * nexp => match g with (_, l, r) =>
                          tyd dom (sp_objects sp) l && tyd dom (sp_objects sp) r end) (sp_goal_num sp).

  Definition wf_code_t (sp : sproblem) : bool := wf_code sp && goal_typed sp.

  (* ---------- what the code builds ---------- *)
  Definition value_of (tok : string) : float := match num tok with Some x => x | None => 0%float end.

  Definition add_fluent (objs : pydict string) (fls : list (fkey * mfluent)) (fl : atom * string) : list (fkey * mfluent) :=
    let m := mk_fluent dom objs (fst (fst fl)) (snd (fst fl)) (value_of (snd fl)) in
    kset fls (fst (fst fl), dkeys (fl_sig m)) m.

  Definition built (sp : sproblem) : mproblem :=
    {| pb_name := sp_name sp;
       pb_objects := sp_objects sp;
       pb_facts := fold_left (fun fs a => add_fact fs (fst a) (snd a)) (sp_facts sp) [];
       pb_fluents := fold_left (add_fluent (sp_objects sp)) (sp_fluents sp) [];
       pb_goal := sp_goal sp;
       pb_goal_num := map goal_tree (sp_goal_num sp) |}.

  (* ---------- the folds over :init and the goal in closed form ---------- *)
  Lemma lefts_cons_inl {A B} (a : A) (l : list (A + B)) : lefts (inl a :: l) = a :: lefts l.
  Proof. reflexivity. Qed.
  Lemma lefts_cons_inr {A B} (b : B) (l : list (A + B)) : lefts (inr b :: l) = lefts l.
  Proof. reflexivity. Qed.
  Lemma rights_cons_inl {A B} (a : A) (l : list (A + B)) : rights (inl a :: l) = rights l.
  Proof. reflexivity. Qed.
  Lemma rights_cons_inr {A B} (b : B) (l : list (A + B)) : rights (inr b :: l) = b :: rights l.
  Proof. reflexivity. Qed.

  Lemma fold_init_closed its : forall pb,
    fold_opt (step_init num dom) its pb =
    if forallb (atom_ok v (v_preds v) (pb_objects pb)) (lefts its) && forallb (fluent_ok (pb_objects pb)) (rights its)
    then Some (with_fluents
                 (with_facts pb (fold_left (fun fs a => add_fact fs (fst a) (snd a)) (lefts its) (pb_facts pb)))
                 (fold_left (add_fluent (pb_objects pb)) (rights its) (pb_fluents pb)))
    else None.
  Proof.
    induction its as [|it its IH]; intros pb.
    - destruct pb. reflexivity.
    - cbn [fold_opt]. destruct it as [[p args]|[[f args] tok]].
      + rewrite lefts_cons_inl, rights_cons_inl. cbn [step_init forallb fold_left fst snd].
        destruct (atom_ok v (v_preds v) (pb_objects pb) (p, args)); cbn [andb]; [|reflexivity].
        rewrite IH. destruct pb. reflexivity.
      + rewrite lefts_cons_inr, rights_cons_inr. cbn [step_init forallb fold_left fst snd].
        unfold fluent_ok at 1. cbn [fst snd].
        destruct (num tok) as [x|] eqn:En.
        * destruct (atom_ok v (v_funcs v) (pb_objects pb) (f, args)); cbn [andb].
          -- rewrite IH. unfold add_fluent at 3. unfold value_of. cbn [fst snd]. rewrite En. destruct pb. reflexivity.
          -- rewrite andb_false_r. reflexivity.
        * rewrite andb_false_r, andb_false_r. reflexivity.
  Qed.

  Lemma fold_goal_closed gs : forall pb,
    fold_opt (step_goal gt dom) gs pb =
    if forallb (atom_ok v (v_preds v) (pb_objects pb)) (lefts gs)
       && forallb (fun g => match g with (_, l, r) =>
                    code_ok (d_funcs dom) l && code_ok (d_funcs dom) r
                    && (negb gt || (tyd dom (pb_objects pb) l && tyd dom (pb_objects pb) r)) end) (rights gs)
    then Some (with_goal pb (pb_goal pb ++ lefts gs) (pb_goal_num pb ++ map goal_tree (rights gs)))
    else None.
  Proof.
    induction gs as [|g gs IH]; intros pb.
    - cbn. rewrite !app_nil_r. destruct pb. reflexivity.
    - cbn [fold_opt]. destruct g as [[p args]|[[c l] r]].
      + rewrite lefts_cons_inl, rights_cons_inl. cbn [step_goal forallb].
        destruct (atom_ok v (v_preds v) (pb_objects pb) (p, args)); cbn [andb]; [|reflexivity].
        rewrite IH. destruct pb. cbn. rewrite <- app_assoc. reflexivity.
      + rewrite lefts_cons_inr, rights_cons_inr. cbn [step_goal forallb].
        destruct (code_ok (d_funcs dom) l && code_ok (d_funcs dom) r
                  && (negb gt || (tyd dom (pb_objects pb) l && tyd dom (pb_objects pb) r))); cbn [andb].
        * rewrite IH. destruct pb. cbn. rewrite <- app_assoc. reflexivity.
        * rewrite andb_false_r. reflexivity.
  Qed.

  (* ---------- sections ---------- *)
  Lemma foldM_init items its pb :
    all_some (map read_init_item items) = Some its ->
    res_rel (foldM (parse_state_component (cfg_gt gt) num dom) items pb) (fold_opt (step_init num dom) its pb).
  Proof.
    intros H. apply (foldM_res_rel (fun _ => True)); [| trivial | | trivial].
    - intros s x y _ Hin.
      change (parse_state_component (cfg_gt gt) num dom s x) with (parse_state_component cfg_fixed num dom s x).
      apply parse_state_component_spec; [exact Hdom|]. eapply all_some_In; eassumption.
    - rewrite <- (all_some_length _ _ H). rewrite map_length. reflexivity.
  Qed.

  Lemma foldM_goal gitems gs pb :
    all_some (map (read_goal_item num) gitems) = Some gs ->
    res_rel (foldM (parse_goal_item (cfg_gt gt) num dom) gitems pb) (fold_opt (step_goal gt dom) gs pb).
  Proof.
    intros H. apply (foldM_res_rel (fun _ => True)); [| trivial | | trivial].
    - intros s x y _ Hin. apply parse_goal_item_spec; [exact Hdom | exact Hnum |]. eapply all_some_In; eassumption.
    - rewrite <- (all_some_length _ _ H). rewrite map_length. reflexivity.
  Qed.

  Lemma res_rel_bind {A B} (r : result A) (o : option A) (f : A -> result B) (g : A -> option B) :
    res_rel r o -> (forall a, res_rel (f a) (g a)) ->
    res_rel (bind r f) (match o with Some a => g a | None => None end).
  Proof.
    intros Hr Hf. destruct o as [a|]; simpl in Hr.
    - rewrite Hr. apply Hf.
    - destruct Hr as [k ->]. exists k. reflexivity.
  Qed.

  Lemma res_rel_ext {A} (r : result A) o o' : o = o' -> res_rel r o -> res_rel r o'.
  Proof. intros ->. trivial. Qed.

  (* the tail of the section list: :init, :goal and an optional :metric, the object table being [os] *)
  Definition after_objects (n : string) (os : list (string * string)) : mproblem :=
    with_objects (with_name empty_problem n) os.

  Lemma tail_sections items gitems tail its gs pb :
    all_some (map read_init_item items) = Some its ->
    all_some (map (read_goal_item num) gitems) = Some gs ->
    match tail with [] => true | [SList (Atom km :: _)] => String.eqb km ":metric" | _ => false end = true ->
    res_rel (foldM (parse_section (cfg_gt gt) num dom)
                   (SList (Atom ":init" :: items) :: SList [Atom ":goal"; SList (Atom "and" :: gitems)] :: tail) pb)
            (match fold_opt (step_init num dom) its pb with
             | Some pb1 => fold_opt (step_goal gt dom) gs pb1
             | None => None
             end).
  Proof.
    intros Hits Hgs Htail. cbn [foldM].
    change (parse_section (cfg_gt gt) num dom pb (SList (Atom ":init" :: items)))
      with (foldM (parse_state_component (cfg_gt gt) num dom) items pb).
    apply res_rel_bind; [apply foldM_init; exact Hits|]. intros pb1.
    change (parse_section (cfg_gt gt) num dom pb1 (SList [Atom ":goal"; SList (Atom "and" :: gitems)]))
      with (foldM (parse_goal_item (cfg_gt gt) num dom) gitems pb1).
    pose proof (foldM_goal gitems gs pb1 Hgs) as Hg.
    destruct (fold_opt (step_goal gt dom) gs pb1) as [pb2|]; simpl in Hg.
    - rewrite Hg. cbn [bind]. destruct tail as [|[|[|[km|] body]] [|]]; try discriminate.
      + reflexivity.
      + apply String.eqb_eq in Htail. subst km. reflexivity.
    - destruct Hg as [k ->]. exists k. reflexivity.
  Qed.

  Lemma has_dup_false_NoDup (os : list (string * string)) : has_dup_name (map fst os) = false -> NoDup (map fst os).
  Proof. apply has_dup_name_NoDup. Qed.

  (* ---------- the theorem on the model ---------- *)
  Theorem parse_problem_spec_t e sp :
    read_problem num e = Some sp ->
    res_rel (parse_problem (cfg_gt gt) num dom e) (if wf_code_t sp then Some (built sp) else None).
  Proof.
    unfold read_problem. destruct e as [|[|[kd|] [|[|[|[kp|] [|[n|] [|]]]] [|[|[|[kdom|] [|[d|] [|]]]] rest]]]]; try discriminate.
    destruct (String.eqb kd "define") eqn:E1; [|discriminate].
    destruct (String.eqb kp "problem") eqn:E2; [|discriminate].
    destruct (String.eqb kdom ":domain") eqn:E3; [|discriminate]. cbn [andb].
    apply String.eqb_eq in E1, E2, E3. subst kd kp kdom.
    unfold read_body.
    (* the first three elements of the top-level list *)
    assert (Hhead : forall rest',
      foldM (parse_section (cfg_gt gt) num dom)
            (Atom "define" :: SList [Atom "problem"; Atom n] :: SList [Atom ":domain"; Atom d] :: rest') empty_problem
      = if String.eqb d (d_name dom)
        then foldM (parse_section (cfg_gt gt) num dom) rest' (with_name empty_problem n) else Err EValue).
    { intros rest'. cbn [foldM parse_section bind]. cbn. destruct (String.eqb d (d_name dom)); reflexivity. }
    change (parse_problem (cfg_gt gt) num dom
              (SList (Atom "define" :: SList [Atom "problem"; Atom n] :: SList [Atom ":domain"; Atom d] :: rest)))
      with (foldM (parse_section (cfg_gt gt) num dom)
              (Atom "define" :: SList [Atom "problem"; Atom n] :: SList [Atom ":domain"; Atom d] :: rest) empty_problem).
    rewrite Hhead. clear Hhead.
    (* common continuation once the object table is known *)
    assert (Hcont : forall os items gitems tail its gs,
      all_some (map read_init_item items) = Some its ->
      all_some (map (read_goal_item num) gitems) = Some gs ->
      match tail with [] => true | [SList (Atom km :: _)] => String.eqb km ":metric" | _ => false end = true ->
      let sp' := {| sp_name := n; sp_domain := d; sp_objects := os; sp_facts := lefts its; sp_fluents := rights its;
                    sp_goal := lefts gs; sp_goal_num := rights gs |} in
      res_rel (foldM (parse_section (cfg_gt gt) num dom)
                     (SList (Atom ":init" :: items) :: SList [Atom ":goal"; SList (Atom "and" :: gitems)] :: tail)
                     (after_objects n os))
              (if forallb (atom_ok v (v_preds v) os) (sp_facts sp') && forallb (fluent_ok os) (sp_fluents sp')
                  && (forallb (atom_ok v (v_preds v) os) (sp_goal sp')
                      && (forallb (fun g => match g with (_, l, r) => code_ok (d_funcs dom) l && code_ok (d_funcs dom) r end)
                                  (sp_goal_num sp')
                          && goal_typed sp'))
               then Some (built sp') else None)).
    { intros os items gitems tail its gs Hits Hgs Htail sp'.
      eapply res_rel_ext; [|apply (tail_sections items gitems tail its gs); eassumption].
      rewrite fold_init_closed. cbn [after_objects with_objects with_name pb_objects empty_problem].
      subst sp'. cbn [sp_facts sp_fluents sp_goal sp_goal_num].
      destruct (forallb (atom_ok v (v_preds v) os) (lefts its) && forallb (fluent_ok os) (rights its)); cbn [andb]; [|reflexivity].
      rewrite fold_goal_closed.
      cbn [after_objects with_objects with_name pb_objects pb_facts pb_fluents pb_goal pb_goal_num pb_name empty_problem
           with_fluents with_facts with_goal app].
      unfold goal_typed. cbn [sp_objects sp_goal_num].
      assert (Hsplit : forallb (fun g : cmpop * nexp * nexp => match g with (_, l, r) =>
                           code_ok (d_funcs dom) l && code_ok (d_funcs dom) r && (negb gt || (tyd dom os l && tyd dom os r)) end) (rights gs)
                       = forallb (fun g : cmpop * nexp * nexp => match g with (_, l, r) =>
                                    code_ok (d_funcs dom) l && code_ok (d_funcs dom) r end) (rights gs)
                         && (negb gt || forallb (fun g : cmpop * nexp * nexp => match g with (_, l, r) =>
                                                   tyd dom os l && tyd dom os r end) (rights gs))).
      { rewrite <- forallb_and_guard. apply forallb_ext_pt. intros [[c l] r]. reflexivity. }
      rewrite Hsplit.
      destruct (forallb (atom_ok v (v_preds v) os) (lefts gs)
                && (forallb (fun g => match g with (_, l, r) => code_ok (d_funcs dom) l && code_ok (d_funcs dom) r end) (rights gs)
                    && (negb gt || forallb (fun g : cmpop * nexp * nexp => match g with (_, l, r) =>
                                              tyd dom os l && tyd dom os r end) (rights gs))));
        reflexivity. }
    (* with or without an (:objects ...) section *)
    destruct rest as [|s1 rest1]; [discriminate|].
    assert (Hnoobj : forall items gitems tail,
      s1 :: rest1 = SList (Atom ":init" :: items) :: SList [Atom ":goal"; SList (Atom "and" :: gitems)] :: tail ->
      match tail with [] => true | [SList (Atom km :: _)] => String.eqb km ":metric" | _ => false end = true ->
      forall its gs, all_some (map read_init_item items) = Some its -> all_some (map (read_goal_item num) gitems) = Some gs ->
      sp = {| sp_name := n; sp_domain := d; sp_objects := []; sp_facts := lefts its; sp_fluents := rights its;
              sp_goal := lefts gs; sp_goal_num := rights gs |} ->
      res_rel (if String.eqb d (d_name dom)
               then foldM (parse_section (cfg_gt gt) num dom) (s1 :: rest1) (with_name empty_problem n) else Err EValue)
              (if wf_code_t sp then Some (built sp) else None)).
    { intros items gitems tail -> Htail its gs Hits Hgs ->. unfold wf_code_t, wf_code. cbn [sp_domain sp_objects types_ok forallb andb].
      destruct (String.eqb d (d_name dom)); cbn [andb]; [|exists EValue; reflexivity].
      pose proof (Hcont [] items gitems tail its gs Hits Hgs Htail) as H. cbn zeta in H.
      rewrite <- !andb_assoc. rewrite <- !andb_assoc in H. exact H. }
    destruct s1 as [|[|[k|] toks]].
    - discriminate.
    - discriminate.
    - destruct (String.eqb k ":objects") eqn:Ek.
      + (* an (:objects ...) section *)
        apply String.eqb_eq in Ek. subst k.
        destruct (read_objs toks []) as [os|] eqn:Eos; [|discriminate].
        destruct rest1 as [|[|[|[ki|] items]] [|[|[|[kg|] [|[|[|[ka|] gitems]] [|]]]] tail]]; try discriminate.
        destruct (String.eqb ki ":init") eqn:Ei; [|discriminate].
        destruct (String.eqb kg ":goal") eqn:Eg; [|discriminate].
        destruct (String.eqb ka "and") eqn:Ea; [|discriminate]. cbn [andb].
        apply String.eqb_eq in Ei, Eg, Ea. subst ki kg ka.
        destruct (has_dup_name (map fst os)) eqn:Edup; [discriminate|]. cbn [negb andb].
        destruct (match tail with [] => true | [SList (Atom km :: _)] => String.eqb km ":metric" | _ => false end) eqn:Etail;
          [|discriminate].
        destruct (all_some (map read_init_item items)) as [its|] eqn:Eits; [|discriminate].
        destruct (all_some (map (read_goal_item num) gitems)) as [gs|] eqn:Egs; [|discriminate].
        intros H. injection H as <-.
        unfold wf_code_t, wf_code. cbn [sp_domain sp_objects].
        destruct (String.eqb d (d_name dom)); cbn [andb]; [|exists EValue; reflexivity].
        cbn [foldM].
        change (parse_section (cfg_gt gt) num dom (with_name empty_problem n) (SList (Atom ":objects" :: toks)))
          with (do objs <- parse_objects_sx (cfg_gt gt) (ptt dom) (SList (Atom ":objects" :: toks));
                Ok (with_objects (with_name empty_problem n) objs)).
        pose proof (parse_objects_read gt (ptt dom) ":objects" toks os Eos (has_dup_false_NoDup os Edup)) as Ho.
        unfold ptt in *.
        destruct (types_ok (d_types dom) os); cbn [andb].
        * assert (Ho' : parse_objects_sx (cfg_gt gt) (d_types dom) (SList (Atom ":objects" :: toks)) = Ok os) by exact Ho.
          rewrite Ho'. cbn [bind].
          pose proof (Hcont os items gitems tail its gs Eits Egs Etail) as H. cbn zeta in H.
          rewrite <- !andb_assoc. rewrite <- !andb_assoc in H. exact H.
        * destruct Ho as [kk Ho]. rewrite Ho. exists kk. reflexivity.
      + (* no object section: the first section is (:init ...) *)
        destruct rest1 as [|[|[|[kg|] [|[|[|[ka|] gitems]] [|]]]] tail]; try discriminate.
        destruct (String.eqb k ":init") eqn:Ei; [|discriminate].
        destruct (String.eqb kg ":goal") eqn:Eg; [|discriminate].
        destruct (String.eqb ka "and") eqn:Ea; [|discriminate]. cbn [andb map has_dup_name negb].
        apply String.eqb_eq in Ei, Eg, Ea. subst k kg ka.
        destruct (match tail with [] => true | [SList (Atom km :: _)] => String.eqb km ":metric" | _ => false end) eqn:Etail;
          [|discriminate].
        destruct (all_some (map read_init_item toks)) as [its|] eqn:Eits; [|discriminate].
        destruct (all_some (map (read_goal_item num) gitems)) as [gs|] eqn:Egs; [|discriminate].
        intros H. injection H as <-.
        eapply Hnoobj; [reflexivity | exact Etail | exact Eits | exact Egs | reflexivity].
    - discriminate.
  Qed.
End Parse.

(* the tree as it is ([cfg_fixed] = [cfg_gt false]): the statement used by C09 and by the theorems about /repo *)
Theorem parse_problem_spec num dom (Hdom : dom_ok dom) (Hnum : num_ok num) e sp :
  read_problem num e = Some sp ->
  res_rel (parse_problem cfg_fixed num dom e) (if wf_code num dom sp then Some (built num dom sp) else None).
Proof.
  intros Hr. pose proof (parse_problem_spec_t false num dom Hdom Hnum e sp Hr) as H.
  unfold wf_code_t, goal_typed in H. cbn [negb orb] in H. rewrite andb_true_r in H. exact H.
Qed.
