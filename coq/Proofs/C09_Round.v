(* C09: one export / re-parse round of the model. *)
From Coq Require Import List Ascii String Bool Arith Lia PrimFloat.
From Verif Require Import Base.Result Base.Str Base.Sexp Base.PyDict Base.Float
  Model.Types Model.Domain Model.NumExpr Model.Problem Model.ProblemObs Model.ProblemExporter
  Spec.Pddl Spec.Grammar Spec.Problem
  Proofs.C05_Lemmas Proofs.C05_Objects Proofs.C05_Items Proofs.C05_Goal Proofs.C05_Parse Proofs.C05_Faithful
  Proofs.C09_Export.
Import ListNotations.
Open Scope string_scope.
Open Scope list_scope.

Lemma atom_names_atoms names : atom_names (map Atom names) = Some names.
Proof. unfold atom_names. induction names as [|x xs IH]; simpl; [reflexivity|]. rewrite IH. reflexivity. Qed.

Lemma all_some_app {A} (a b : list (option A)) ra rb :
  all_some a = Some ra -> all_some b = Some rb -> all_some (a ++ b) = Some (ra ++ rb).
Proof.
  revert ra. induction a as [|[x|] xs IH]; intros ra; simpl; [intros H; injection H as <-; trivial | | discriminate].
  destruct (all_some xs) eqn:E; [|discriminate]. intros H Hb. injection H as <-. rewrite (IH l eq_refl Hb). reflexivity.
Qed.

Lemma all_some_map_total {A B} (f : A -> option B) (g : A -> B) l :
  (forall x, In x l -> f x = Some (g x)) -> all_some (map f l) = Some (map g l).
Proof.
  induction l as [|x xs IH]; intros H; simpl; [reflexivity|].
  rewrite (H x (or_introl eq_refl)), IH; [reflexivity|]. intros y Hy. apply H. right. exact Hy.
Qed.

Lemma lefts_app {A B} (a b : list (A + B)) : lefts (a ++ b) = lefts a ++ lefts b.
Proof. unfold lefts. apply flat_map_app. Qed.
Lemma rights_app {A B} (a b : list (A + B)) : rights (a ++ b) = rights a ++ rights b.
Proof. unfold rights. apply flat_map_app. Qed.
Lemma lefts_inl {A B} (l : list A) : lefts (map (@inl A B) l) = l.
Proof. induction l as [|x xs IH]; simpl; [reflexivity|]. f_equal. exact IH. Qed.
Lemma lefts_inr {A B} (l : list B) : lefts (map (@inr A B) l) = [].
Proof. induction l as [|x xs IH]; simpl; [reflexivity | exact IH]. Qed.
Lemma rights_inl {A B} (l : list A) : rights (map (@inl A B) l) = [].
Proof. induction l as [|x xs IH]; simpl; [reflexivity | exact IH]. Qed.
Lemma rights_inr {A B} (l : list B) : rights (map (@inr A B) l) = l.
Proof. induction l as [|x xs IH]; simpl; [reflexivity|]. f_equal. exact IH. Qed.

Lemma lefts_inr_map {A B C} (g : C -> B) (l : list C) : lefts (map (fun x => @inr A B (g x)) l) = [].
Proof. induction l as [|x xs IH]; simpl; [reflexivity | exact IH]. Qed.
Lemma rights_inr_map {A B C} (g : C -> B) (l : list C) : rights (map (fun x => @inr A B (g x)) l) = map g l.
Proof. induction l as [|x xs IH]; simpl; [reflexivity|]. f_equal. exact IH. Qed.

Lemma not_keyword_not_binop f : str_in f keywords = false -> read_binop f = None.
Proof.
  intros H. destruct (read_binop f) as [o|] eqn:E; [|reflexivity].
  destruct (read_binop_facts f o E) as (_ & _ & Hk). congruence.
Qed.

Lemma read_binop_name o : read_binop (binop_name o) = Some o.
Proof. destruct o; reflexivity. Qed.
Lemma read_cmpop_cmpop_name c : read_cmpop (cmpop_name c) = Some c.
Proof. destruct c; reflexivity. Qed.

Section Round.
  Variable num : string -> option float.
  Variable repr_text : float -> string.
  Variable dom : mdomain.

  (* float(repr(x)) == x, required only of the values that occur in the problem *)
  Fixpoint nexp_consts (n : nexp) : list float :=
    match n with
    | Pddl.NNum x => [x]
    | Pddl.NFl _ _ => []
    | Pddl.NBin _ a b => nexp_consts a ++ nexp_consts b
    end.
  Definition goal_consts (g : cmpop * nexp * nexp) : list float :=
    match g with (_, l, r) => nexp_consts l ++ nexp_consts r end.
  Definition values_of (sp : sproblem) : list float :=
    map (fun fl : atom * string => value_of num (snd fl)) (sp_fluents sp) ++ flat_map goal_consts (sp_goal_num sp).
  Definition repr_on (xs : list float) : Prop := forall x, In x xs -> num (repr_text x) = Some x.
  Definition repr_ok (sp : sproblem) : Prop := repr_on (values_of sp).

  Local Notation export_tree := (export_tree repr_text None).

  (* ---------- reading back what the exporter writes ---------- *)
  Lemma read_objs_export (os : list (string * string)) :
    Forall (fun o => fst o <> "-") os -> read_objs (export_objects os) [] = Some os.
  Proof.
    unfold export_objects. induction os as [|[n t] r IH]; intros H; [reflexivity|].
    inversion H as [|? ? Hn Hr]; subst. simpl in Hn. cbn [flat_map app read_objs].
    rewrite eqb_neq_false by exact Hn. cbn [app read_objs]. rewrite String.eqb_refl.
    rewrite IH by exact Hr. reflexivity.
  Qed.

  Lemma read_init_fact p args : String.eqb p "=" = false ->
    read_init_item (export_atom p args) = Some (inl (p, args)).
  Proof. intros H. unfold read_init_item, export_atom. rewrite H, atom_names_atoms. reflexivity. Qed.

  Lemma read_init_fluent f args tok :
    read_init_item (SList [Atom "="; export_atom f args; Atom tok]) = Some (inr ((f, args), tok)).
  Proof. unfold read_init_item, export_atom. cbn. rewrite atom_names_atoms. reflexivity. Qed.

  Lemma read_fluent_flat f args : str_in f keywords = false ->
    read_nexp num (SList (Atom f :: map Atom args)) = Some (Pddl.NFl f args).
  Proof.
    intros Hk. cbn [read_nexp]. destruct args as [|a [|b [|c r]]]; cbn [map].
    - rewrite Hk. reflexivity.
    - rewrite Hk. reflexivity.
    - rewrite (not_keyword_not_binop f Hk), Hk. reflexivity.
    - rewrite Hk. change [Atom a; Atom b; Atom c] with (map Atom [a; b; c]).
      change (Atom a :: Atom b :: Atom c :: map Atom r) with (map Atom (a :: b :: c :: r)).
      rewrite atom_names_atoms. reflexivity.
  Qed.

  Lemma read_export_nexp n : repr_on (nexp_consts n) -> nexp_names_ok n = true ->
    read_nexp num (export_tree (tree_of_nexp n)) = Some n /\
    is_atom (export_tree (tree_of_nexp n)) = is_num n.
  Proof.
    induction n as [x|f args|o a IHa b IHb]; intros Hrepr Hn.
    - split; [|reflexivity]. cbn. rewrite (Hrepr x (or_introl eq_refl)). reflexivity.
    - split; [|reflexivity]. cbn [tree_of_nexp ProblemExporter.export_tree nf_name nf_params].
      apply read_fluent_flat. simpl in Hn. apply negb_true_iff in Hn. exact Hn.
    - split; [|reflexivity]. simpl in Hn. apply andb_true_iff in Hn.
      destruct Hn as [Hna Hnb].
      assert (Hra : repr_on (nexp_consts a)) by (intros x Hx; apply Hrepr; simpl; apply in_or_app; left; exact Hx).
      assert (Hrb : repr_on (nexp_consts b)) by (intros x Hx; apply Hrepr; simpl; apply in_or_app; right; exact Hx).
      destruct (IHa Hra Hna) as [Ha _]. destruct (IHb Hrb Hnb) as [Hb _].
      cbn [tree_of_nexp ProblemExporter.export_tree read_nexp]. rewrite read_binop_name, Ha, Hb. reflexivity.
  Qed.

  Lemma read_goal_literal p args : read_cmpop p = None ->
    read_goal_item num (export_atom p args) = Some (inl (p, args)).
  Proof. intros H. unfold read_goal_item, export_atom. rewrite H, atom_names_atoms. reflexivity. Qed.

  Lemma read_goal_numeric c l r :
    repr_on (goal_consts (c, l, r)) ->
    nexp_names_ok l && nexp_names_ok r && negb (is_num l && is_num r) = true ->
    read_goal_item num (export_tree (goal_tree (c, l, r))) = Some (inr (c, l, r)).
  Proof.
    intros Hrepr Ht. apply andb_true_iff in Ht. destruct Ht as [Ht Hnn]. apply andb_true_iff in Ht.
    destruct Ht as [Hl Hr].
    assert (Hrl : repr_on (nexp_consts l)) by (intros x Hx; apply Hrepr; simpl; apply in_or_app; left; exact Hx).
    assert (Hrr : repr_on (nexp_consts r)) by (intros x Hx; apply Hrepr; simpl; apply in_or_app; right; exact Hx).
    destruct (read_export_nexp l Hrl Hl) as [Rl Al]. destruct (read_export_nexp r Hrr Hr) as [Rr Ar].
    unfold read_goal_item. cbn [goal_tree ProblemExporter.export_tree]. rewrite read_cmpop_cmpop_name, Al, Ar.
    apply negb_true_iff in Hnn. rewrite Hnn, Rl, Rr. reflexivity.
  Qed.

  Lemma export_facts_dump facts :
    export_facts facts = map (fun a : atom => export_atom (fst a) (snd a)) (dump_facts facts).
  Proof.
    unfold export_facts, dump_facts. induction facts as [|[k l] r IH]; simpl; [reflexivity|].
    rewrite map_app, map_map, IH. reflexivity.
  Qed.

  (* ---------- the problem the exported text declares ---------- *)
  Definition reexported (sp : sproblem) : sproblem :=
    let pb := built num dom sp in
    {| sp_name := sp_name sp; sp_domain := d_name dom; sp_objects := sp_objects sp;
       sp_facts := dump_facts (pb_facts pb);
       sp_fluents := map (fun kf : fkey * mfluent => (fst (dump_fluent (snd kf)), repr_text (snd (dump_fluent (snd kf)))))
                         (pb_fluents pb);
       sp_goal := sp_goal sp; sp_goal_num := sp_goal_num sp |}.

  Lemma built_facts_sub sp a : In a (dump_facts (pb_facts (built num dom sp))) -> In a (sp_facts sp).
  Proof.
    intros Hin. cbn [built pb_facts] in Hin. destruct a as [q xs].
    destruct (fold_add_fact (sp_facts sp) [] q xs (NoDup_nil _)) as [Hnd Hm].
    pose proof (In_atom_in _ _ Hin) as Hai. rewrite atom_in_dump in Hai by exact Hnd.
    rewrite Hm in Hai. unfold mem_fact in Hai. simpl in Hai. rewrite orb_false_r in Hai.
    unfold atom_in in Hai. apply existsb_exists in Hai. destruct Hai as (a' & Hin' & Heq).
    apply atom_eqb_eq in Heq. subst. exact Hin'.
  Qed.

  Theorem read_export sp :
    repr_ok sp -> tokens_ok sp = true -> sp_name sp <> "" ->
    read_problem num (export_problem repr_text None (d_name dom) (built num dom sp)) = Some (reexported sp).
  Proof.
    intros Hrepr Htok Hname. unfold tokens_ok in Htok.
    apply andb_true_iff in Htok. destruct Htok as [Htok Hgn]. apply andb_true_iff in Htok. destruct Htok as [Htok Hgl].
    apply andb_true_iff in Htok. destruct Htok as [Htok Hfacts]. apply andb_true_iff in Htok. destruct Htok as [Hdash Hdup].
    unfold export_problem, read_problem. cbn [built pb_name pb_objects pb_goal pb_goal_num].
    rewrite (eqb_neq_false _ _ Hname). cbn [String.eqb Ascii.eqb Bool.eqb andb].
    unfold read_body. cbn [String.eqb Ascii.eqb Bool.eqb].
    rewrite read_objs_export.
    2:{ apply Forall_forall. intros o Ho. rewrite forallb_forall in Hdash. specialize (Hdash o Ho).
        apply negb_true_iff in Hdash. apply String.eqb_neq in Hdash. exact Hdash. }
    cbn [String.eqb Ascii.eqb Bool.eqb andb]. rewrite Hdup. cbn [andb].
    (* :init *)
    rewrite export_facts_dump, map_app, map_map, map_map.
    rewrite (all_some_app _ _ (map inl (dump_facts (pb_facts (built num dom sp))))
                          (map (fun kf : fkey * mfluent => inr (fst (dump_fluent (snd kf)), repr_text (snd (dump_fluent (snd kf)))))
                               (pb_fluents (built num dom sp)))).
    2:{ rewrite <- (map_map (fun a : atom => export_atom (fst a) (snd a)) read_init_item).
        rewrite map_map. apply all_some_map_total. intros [p args] Hin. cbn [fst snd].
        apply read_init_fact. apply built_facts_sub in Hin. rewrite forallb_forall in Hfacts.
        specialize (Hfacts _ Hin). apply negb_true_iff in Hfacts. exact Hfacts. }
    2:{ apply all_some_map_total. intros [k fl] _. cbn [snd]. unfold export_fluent, dump_fluent. cbn [fst snd].
        apply read_init_fluent. }
    (* the goal *)
    rewrite map_app, !map_map.
    rewrite (all_some_app _ _ (map inl (sp_goal sp)) (map inr (sp_goal_num sp))).
    2:{ apply all_some_map_total. intros [p args] Hin. cbn [fst snd]. apply read_goal_literal.
        rewrite forallb_forall in Hgl. specialize (Hgl _ Hin). cbn [fst] in Hgl. destruct (read_cmpop p); [discriminate | reflexivity]. }
    2:{ apply all_some_map_total. intros [[c l] r] Hin.
        rewrite forallb_forall in Hgn. apply read_goal_numeric; [| exact (Hgn _ Hin)].
        intros x Hx. apply Hrepr. unfold values_of. apply in_or_app. right. apply in_flat_map.
        exists (c, l, r). split; [exact Hin | exact Hx]. }
    unfold reexported. rewrite !lefts_app, !rights_app, !lefts_inl, !rights_inr, !lefts_inr, !rights_inl,
      lefts_inr_map, rights_inr_map, !app_nil_r.
    reflexivity.
  Qed.
End Round.
