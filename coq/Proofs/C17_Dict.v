(* C17: facts about insertion-ordered dictionaries (set_item / update) and add-if-new lists. *)
From Coq Require Import List String Bool Permutation.
From Verif Require Import Base.Result Base.Str Model.Combine Spec.Combine.
Import ListNotations.
Open Scope string_scope.
Open Scope list_scope.

Lemma NoDup_snoc {A} (l : list A) (x : A) : NoDup l -> ~ In x l -> NoDup (l ++ [x]).
Proof.
  induction l as [|y l IH]; simpl; intros Hnd Hni.
  - constructor; [intros []|constructor].
  - inversion Hnd as [|y' l' Hy Hl]; subst. constructor.
    + rewrite in_app_iff. simpl. intros [H|[H|[]]]; [contradiction|subst; apply Hni; now left].
    + apply IH; [assumption|]. intros H. apply Hni. now right.
Qed.

Lemma NoDup_app_disjoint {A} (a b : list A) :
  NoDup a -> NoDup b -> (forall x, In x b -> ~ In x a) -> NoDup (a ++ b).
Proof.
  induction a as [|y a IH]; simpl; intros Ha Hb Hd; [assumption|].
  inversion Ha as [|y' a' Hy Ha']; subst. constructor.
  - rewrite in_app_iff. intros [H|H]; [contradiction|]. apply (Hd y H). now left.
  - apply IH; [assumption|assumption|]. intros x Hx Hxa. apply (Hd x Hx). now right.
Qed.

Lemma NoDup_filter {A} (p : A -> bool) (l : list A) : NoDup l -> NoDup (filter p l).
Proof.
  induction l as [|y l IH]; simpl; intros Hnd; [constructor|].
  inversion Hnd as [|y' l' Hy Hl]; subst. destruct (p y) eqn:E.
  - constructor; [|now apply IH]. rewrite filter_In. intros [H _]. contradiction.
  - now apply IH.
Qed.

Definition functional {V} (d : adict V) : Prop :=
  forall k v w, In (k, v) d -> In (k, w) d -> v = w.

Lemma functional_incl {V} (a b : adict V) :
  (forall x, In x a -> In x b) -> functional b -> functional a.
Proof. intros Hi Hf k v w H1 H2. apply (Hf k v w); now apply Hi. Qed.

Section Dict.
  Context {V : Type}.
  Implicit Types d e : adict V.

  Lemma lookup_set_item k' k (v : V) d :
    lookup k' (set_item k v d) = if String.eqb k' k then Some v else lookup k' d.
  Proof.
    induction d as [|[k0 v0] r IH]; simpl.
    - destruct (String.eqb k' k); reflexivity.
    - destruct (String.eqb k k0) eqn:E; simpl.
      + apply String.eqb_eq in E. subst k0. destruct (String.eqb k' k); reflexivity.
      + destruct (String.eqb k' k0) eqn:E0.
        * apply String.eqb_eq in E0. subst k0.
          destruct (String.eqb k' k) eqn:E1; [|reflexivity].
          apply String.eqb_eq in E1. subst k'. rewrite String.eqb_refl in E. discriminate.
        * apply IH.
  Qed.

  Lemma keys_set_item k (v : V) d :
    keys (set_item k v d) = if str_in k (keys d) then keys d else keys d ++ [k].
  Proof.
    unfold keys. induction d as [|[k0 v0] r IH]; simpl; [reflexivity|].
    destruct (String.eqb k k0) eqn:E; simpl.
    - apply String.eqb_eq in E. now subst k0.
    - rewrite IH. destruct (str_in k (map fst r)); reflexivity.
  Qed.

  Lemma NoDup_set_item k (v : V) d : NoDup (keys d) -> NoDup (keys (set_item k v d)).
  Proof.
    intros H. rewrite keys_set_item. destruct (str_in k (keys d)) eqn:E; [assumption|].
    apply NoDup_snoc; [assumption|]. intros Hin. apply str_in_In in Hin. congruence.
  Qed.

  Lemma In_keys k (v : V) d : In (k, v) d -> In k (keys d).
  Proof. intros H. unfold keys. apply in_map_iff. exists (k, v). auto. Qed.

  Lemma In_lookup k (v : V) d : NoDup (keys d) -> (In (k, v) d <-> lookup k d = Some v).
  Proof.
    induction d as [|[k0 v0] r IH]; simpl; intros Hnd.
    - split; [intros []|discriminate].
    - inversion Hnd as [|x l Hk0 Hr]; subst. destruct (String.eqb k k0) eqn:E.
      + apply String.eqb_eq in E. subst k0. split.
        * intros [H|H]; [congruence|]. exfalso. apply Hk0. exact (In_keys _ _ _ H).
        * intros H. left. congruence.
      + apply String.eqb_neq in E. rewrite <- (IH Hr). split.
        * intros [H|H]; [congruence|assumption].
        * intros H. now right.
  Qed.

  Lemma lookup_None_keys k d : lookup k d = None <-> ~ In k (keys d).
  Proof.
    unfold keys. induction d as [|[k0 v0] r IH]; simpl.
    - split; [intros _ []|reflexivity].
    - destruct (String.eqb k k0) eqn:E.
      + apply String.eqb_eq in E. subst. split; [discriminate|]. intros H. exfalso. apply H. now left.
      + apply String.eqb_neq in E. rewrite IH. split.
        * intros H [H1|H1]; [congruence|contradiction].
        * intros H H1. apply H. now right.
  Qed.

  Lemma In_set_item k' (v' : V) k v d :
    NoDup (keys d) ->
    (In (k', v') (set_item k v d) <-> (k' = k /\ v' = v) \/ (k' <> k /\ In (k', v') d)).
  Proof.
    intros Hnd. rewrite (In_lookup _ _ _ (NoDup_set_item k v d Hnd)), lookup_set_item.
    destruct (String.eqb k' k) eqn:E.
    - apply String.eqb_eq in E. subst k'. split.
      + intros H. left. split; [reflexivity|congruence].
      + intros [[_ H]|[H _]]; [congruence|congruence].
    - apply String.eqb_neq in E. rewrite <- (In_lookup _ _ _ Hnd). split.
      + intros H. right. now split.
      + intros [[H _]|[_ H]]; [congruence|assumption].
  Qed.

  Lemma NoDup_update e : forall d, NoDup (keys d) -> NoDup (keys (update d e)).
  Proof.
    unfold update. induction e as [|[k1 v1] e IH]; simpl; intros d Hnd; [assumption|].
    apply IH. now apply NoDup_set_item.
  Qed.

  (* agreeing bindings: the update is the union *)
  Lemma In_update e : forall d, NoDup (keys d) -> functional (d ++ e) ->
    forall k v, In (k, v) (update d e) <-> In (k, v) (d ++ e).
  Proof.
    unfold update. induction e as [|[k1 v1] e IH]; simpl; intros d Hnd Hf k v.
    - now rewrite app_nil_r.
    - assert (Hsub : forall x, In x (set_item k1 v1 d ++ e) -> In x (d ++ (k1, v1) :: e)).
      { intros [k0 v0]. rewrite !in_app_iff, (In_set_item _ _ _ _ _ Hnd). simpl.
        intros [[[H1 H2]|[_ H]]|H]; [subst; right; now left|now left|right; now right]. }
      rewrite (IH (set_item k1 v1 d) (NoDup_set_item k1 v1 d Hnd) (functional_incl _ _ Hsub Hf)).
      split; [apply Hsub|].
      rewrite !in_app_iff, (In_set_item _ _ _ _ _ Hnd). simpl.
      intros [H|[H|H]].
      + destruct (String.eqb k k1) eqn:E.
        * apply String.eqb_eq in E. subst k1. left. left. split; [reflexivity|].
          apply (Hf k v v1); rewrite in_app_iff; [now left|right; now left].
        * apply String.eqb_neq in E. left. right. now split.
      + inversion H; subst. left. left. now split.
      + now right.
  Qed.

  (* without agreement: every binding comes from somewhere, no key is lost *)
  Lemma In_update_weak e : forall d, NoDup (keys d) ->
    (forall k v, In (k, v) (update d e) -> In (k, v) (d ++ e)) /\
    (forall k, In k (keys (d ++ e)) -> In k (keys (update d e))).
  Proof.
    unfold update. induction e as [|[k1 v1] e IH]; simpl; intros d Hnd.
    - rewrite app_nil_r. split; auto.
    - destruct (IH (set_item k1 v1 d) (NoDup_set_item k1 v1 d Hnd)) as [IH1 IH2]. split.
      + intros k v H. apply IH1 in H. revert H.
        rewrite !in_app_iff, (In_set_item _ _ _ _ _ Hnd). simpl.
        intros [[[H1 H2]|[_ H]]|H]; [subst; right; now left|now left|right; now right].
      + intros k H. apply IH2. revert H. unfold keys. rewrite !map_app, !in_app_iff.
        fold (keys (set_item k1 v1 d)). rewrite keys_set_item. simpl.
        intros [H|[H|H]].
        * left. destruct (str_in k1 (keys d)); [assumption|]. rewrite in_app_iff. now left.
        * subst k. left. destruct (str_in k1 (keys d)) eqn:E; [now apply str_in_In|].
          rewrite in_app_iff. right. now left.
        * now right.
  Qed.

  (* fold of updates over the files' sections *)
  Lemma NoDup_fold_update (secs : list (adict V)) : forall d, NoDup (keys d) ->
    NoDup (keys (fold_left update secs d)).
  Proof.
    induction secs as [|s secs IH]; simpl; intros d Hnd; [assumption|].
    apply IH. now apply NoDup_update.
  Qed.

  Lemma In_fold_update (secs : list (adict V)) : forall d, NoDup (keys d) ->
    functional (d ++ List.concat secs) ->
    forall k v, In (k, v) (fold_left update secs d) <-> In (k, v) (d ++ List.concat secs).
  Proof.
    induction secs as [|s secs IH]; simpl; intros d Hnd Hf k v.
    - now rewrite app_nil_r.
    - assert (Hf1 : functional (d ++ s)).
      { apply (functional_incl _ (d ++ s ++ List.concat secs)); [|assumption].
        intros x. rewrite !in_app_iff. tauto. }
      assert (Hsub : forall x, In x (update d s ++ List.concat secs) <-> In x (d ++ s ++ List.concat secs)).
      { intros [k0 v0]. rewrite in_app_iff, (In_update s d Hnd Hf1), !in_app_iff. tauto. }
      rewrite (IH (update d s) (NoDup_update s d Hnd)).
      + apply Hsub.
      + apply (functional_incl _ (d ++ s ++ List.concat secs)); [|assumption].
        intros x. apply Hsub.
  Qed.

  Lemma In_fold_update_weak (secs : list (adict V)) : forall d, NoDup (keys d) ->
    (forall k v, In (k, v) (fold_left update secs d) -> In (k, v) (d ++ List.concat secs)) /\
    (forall k, In k (keys (d ++ List.concat secs)) -> In k (keys (fold_left update secs d))).
  Proof.
    induction secs as [|s secs IH]; simpl; intros d Hnd.
    - rewrite app_nil_r. split; auto.
    - destruct (IH (update d s) (NoDup_update s d Hnd)) as [IH1 IH2].
      destruct (In_update_weak s d Hnd) as [U1 U2]. split.
      + intros k v H. apply IH1 in H. revert H. rewrite !in_app_iff.
        intros [H|H]; [|tauto]. apply U1 in H. rewrite in_app_iff in H. tauto.
      + intros k H. apply IH2. revert H. unfold keys. rewrite !map_app, !in_app_iff.
        intros [H|[H|H]].
        * left. apply U2. unfold keys. rewrite map_app, in_app_iff. now left.
        * left. apply U2. unfold keys. rewrite map_app, in_app_iff. now right.
        * now right.
  Qed.
End Dict.

(* ---------------------------------------------------------------- add-if-new lists *)
Lemma In_add_one acc x y : In y (add_one acc x) <-> In y acc \/ y = x.
Proof.
  unfold add_one. destruct (str_in x acc) eqn:E.
  - apply str_in_In in E. split; [now left|]. intros [H|H]; [assumption|now subst].
  - rewrite in_app_iff. simpl. split.
    + intros [H|[H|[]]]; [now left|right; now subst].
    + intros [H|H]; [now left|right; left; now subst].
Qed.

Lemma NoDup_add_one acc x : NoDup acc -> NoDup (add_one acc x).
Proof.
  unfold add_one. intros H. destruct (str_in x acc) eqn:E; [assumption|].
  apply NoDup_snoc; [assumption|]. intros Hin. apply str_in_In in Hin. congruence.
Qed.

Lemma In_add_new a : forall c y, In y (add_new c a) <-> In y c \/ In y a.
Proof.
  unfold add_new. induction a as [|x a IH]; simpl; intros c y; [tauto|].
  rewrite IH, In_add_one. intuition (subst; auto).
Qed.

Lemma NoDup_add_new a : forall c, NoDup c -> NoDup (add_new c a).
Proof.
  unfold add_new. induction a as [|x a IH]; simpl; intros c H; [assumption|].
  apply IH. now apply NoDup_add_one.
Qed.

Lemma In_fold_add_new (ls : list (list string)) : forall c y,
  In y (fold_left add_new ls c) <-> In y c \/ exists l, In l ls /\ In y l.
Proof.
  induction ls as [|l ls IH]; simpl; intros c y.
  - split; [now left|]. intros [H|[l [[] _]]]. assumption.
  - rewrite IH, In_add_new. split.
    + intros [[H|H]|[l' [H1 H2]]]; [now left|right; exists l; auto|right; exists l'; auto].
    + intros [H|[l' [[H1|H1] H2]]]; [left; now left|subst; left; now right|right; exists l'; auto].
Qed.

Lemma NoDup_fold_add_new (ls : list (list string)) : forall c, NoDup c -> NoDup (fold_left add_new ls c).
Proof.
  induction ls as [|l ls IH]; simpl; intros c H; [assumption|]. apply IH. now apply NoDup_add_new.
Qed.

(* ---------------------------------------------------------------- projections of a fold *)
Lemma fold_proj {R A B} (merge : R -> R -> R) (pc : R -> A) (pa : R -> B) (g : A -> B -> A) :
  (forall c a, pc (merge c a) = g (pc c) (pa a)) ->
  forall l c, pc (fold_left merge l c) = fold_left g (map pa l) (pc c).
Proof.
  intros H. induction l as [|x l IH]; simpl; intros c; [reflexivity|]. now rewrite IH, H.
Qed.

(* ---------------------------------------------------------------- agreement *)
Lemma agree_functional {V} (ds : list (adict V)) : agree ds <-> functional (List.concat ds).
Proof.
  unfold agree, functional. split.
  - intros H k v w H1 H2. apply in_concat in H1, H2.
    destruct H1 as [d [Hd H1]], H2 as [e [He H2]]. exact (H d e k v w Hd He H1 H2).
  - intros H d e k v w Hd He H1 H2. apply (H k v w); apply in_concat; eauto.
Qed.

Lemma agree_incl {V} (ds ds' : list (adict V)) :
  (forall d, In d ds' -> In d ds) -> agree ds -> agree ds'.
Proof. intros Hi H d e k v w Hd He. apply H; now apply Hi. Qed.

Lemma union_of_intro {V} (d0 : adict V) (secs : list (adict V)) :
  NoDup (keys d0) -> agree (d0 :: secs) -> union_of (d0 :: secs) (fold_left update secs d0).
Proof.
  intros Hnd Ha. apply agree_functional in Ha. simpl in Ha. split.
  - exact (NoDup_fold_update secs d0 Hnd).
  - intros k v. rewrite (In_fold_update secs d0 Hnd Ha).
    change (d0 ++ List.concat secs) with (List.concat (d0 :: secs)). apply in_concat.
Qed.

Lemma union_of_intro_nil {V} (secs : list (adict V)) :
  agree secs -> union_of secs (fold_left update secs []).
Proof.
  intros Ha. assert (H0 : NoDup (keys (@nil (string * V)))) by constructor.
  assert (Ha' : agree ([] :: secs)).
  { intros d e k v w [Hd|Hd] [He|He] H1 H2; subst; try contradiction. exact (Ha d e k v w Hd He H1 H2). }
  destruct (union_of_intro [] secs H0 Ha') as [U1 U2]. split; [assumption|].
  intros k v. rewrite U2. split.
  - intros [d [[Hd|Hd] H]]; [subst; contradiction|eauto].
  - intros [d [Hd H]]. exists d. split; [now right|assumption].
Qed.

Lemma weak_union_of_intro {V} (d0 : adict V) (secs : list (adict V)) :
  NoDup (keys d0) -> weak_union_of (d0 :: secs) (fold_left update secs d0).
Proof.
  intros Hnd. destruct (In_fold_update_weak secs d0 Hnd) as [W1 W2]. split; [|split].
  - exact (NoDup_fold_update secs d0 Hnd).
  - intros k v H. apply W1 in H. change (d0 ++ List.concat secs) with (List.concat (d0 :: secs)) in H.
    now apply in_concat.
  - intros d k v Hd H. apply W2. apply (In_keys k v).
    change (d0 ++ List.concat secs) with (List.concat (d0 :: secs)). apply in_concat. eauto.
Qed.

(* two exact unions of the same family are equal as maps *)
Lemma union_of_equiv {V} (ds ds' : list (adict V)) (c c' : adict V) :
  (forall d, In d ds <-> In d ds') -> union_of ds c -> union_of ds' c' -> map_equiv c c'.
Proof.
  intros Hi [N1 U1] [N2 U2]. split; [assumption|split; [assumption|]].
  intros k v. rewrite U1, U2. split; intros [d [Hd H]]; exists d; split; try assumption; now apply Hi.
Qed.

Lemma set_union_of_equiv (ls ls' : list (list string)) (c c' : list string) :
  (forall l, In l ls <-> In l ls') -> set_union_of ls c -> set_union_of ls' c' -> set_equiv c c'.
Proof.
  intros Hi [N1 U1] [N2 U2]. split; [assumption|split; [assumption|]].
  intros x. rewrite U1, U2. split; intros [l [Hl H]]; exists l; split; try assumption; now apply Hi.
Qed.

Lemma perm_map_In {A B} (f : A -> B) (l l' : list A) :
  Permutation l l' -> forall y, In y (map f l) <-> In y (map f l').
Proof.
  intros P y. split; apply Permutation_in; [|apply Permutation_sym]; now apply Permutation_map.
Qed.
