(* C18, part 1: the dict comprehension {m.get(k, k): v for k, v in sg.items()} on Base.PyDict.
   With distinct new keys it is a map over the items (same order, same values); with a repeated new key it
   collapses (first position, last value). *)
From Coq Require Import List String Bool Lia.
From Verif Require Import Base.Result Base.PyDict Model.Domain Model.ChangeSignature.
Import ListNotations.
Open Scope string_scope.
Open Scope list_scope.

Lemma dset_fresh {V} (d : pydict V) k v : ~ In k (dkeys d) -> dset d k v = d ++ [(k, v)].
Proof.
  induction d as [|[k' v'] r IH]; simpl; intros Hn.
  - reflexivity.
  - destruct (String.eqb k k') eqn:E.
    + apply String.eqb_eq in E. subst k'. exfalso. apply Hn. left. reflexivity.
    + f_equal. apply IH. intros Hin. apply Hn. right. exact Hin.
Qed.

Lemma dset_present_keys {V} (d : pydict V) k v : In k (dkeys d) -> dkeys (dset d k v) = dkeys d.
Proof.
  induction d as [|[k' v'] r IH]; simpl; intros Hin.
  - contradiction.
  - destruct (String.eqb k k') eqn:E; simpl.
    + reflexivity.
    + f_equal. apply IH. destruct Hin as [Heq|Hin]; [|exact Hin].
      subst k'. rewrite String.eqb_refl in E. discriminate.
Qed.

Lemma dkeys_app {V} (a b : pydict V) : dkeys (a ++ b) = dkeys a ++ dkeys b.
Proof. unfold dkeys. apply map_app. Qed.

Definition rn_item {V} (m : renaming) (kv : string * V) : string * V := (rn m (fst kv), snd kv).

Lemma rebuild_acc {V} (m : renaming) (sg acc : pydict V) :
  NoDup (dkeys acc ++ map (rn m) (dkeys sg)) ->
  fold_left (fun a kv => dset a (rn m (fst kv)) (snd kv)) sg acc = acc ++ map (rn_item m) sg.
Proof.
  revert acc. induction sg as [|[k v] r IH]; simpl; intros acc Hnd.
  - rewrite app_nil_r. reflexivity.
  - rewrite dset_fresh.
    + rewrite IH.
      * rewrite <- app_assoc. reflexivity.
      * rewrite dkeys_app. simpl. rewrite <- app_assoc. simpl. exact Hnd.
    + apply NoDup_remove_2 in Hnd. intros Hin. apply Hnd. apply in_or_app. left. exact Hin.
Qed.

(* the comprehension is a map when the new keys are pairwise distinct *)
Lemma rebuild_map {V} (m : renaming) (sg : pydict V) :
  NoDup (map (rn m) (dkeys sg)) -> rebuild m sg = map (rn_item m) sg.
Proof. intros H. unfold rebuild. rewrite rebuild_acc; [reflexivity|exact H]. Qed.

Lemma dkeys_args_dict (args : list string) : dkeys (args_dict args) = args.
Proof. unfold dkeys, args_dict. rewrite map_map. simpl. apply map_id. Qed.

Lemma rename_args_map (m : renaming) (args : list string) :
  NoDup (map (rn m) args) -> rename_args m args = map (rn m) args.
Proof.
  intros H. unfold rename_args. rewrite rebuild_map.
  - unfold dkeys, args_dict. rewrite !map_map. reflexivity.
  - rewrite dkeys_args_dict. exact H.
Qed.

Lemma rename_args_length (m : renaming) (args : list string) :
  NoDup (map (rn m) args) -> List.length (rename_args m args) = List.length args.
Proof. intros H. rewrite rename_args_map by exact H. apply map_length. Qed.

(* injectivity on a duplicate-free list gives distinct new keys *)
Lemma NoDup_map_inj {A B} (f : A -> B) (l : list A) :
  (forall x y, In x l -> In y l -> f x = f y -> x = y) -> NoDup l -> NoDup (map f l).
Proof.
  induction l as [|a r IH]; simpl; intros Hinj Hnd.
  - constructor.
  - inversion Hnd as [|? ? Hnotin Hnd']; subst. constructor.
    + intros Hin. apply in_map_iff in Hin. destruct Hin as [y [Hy Hin]].
      assert (y = a) by (apply Hinj; auto). subst y. contradiction.
    + apply IH; [|exact Hnd']. intros x y Hx Hy. apply Hinj; auto.
Qed.

(* ---------- the mapping restricted below a quantifier ---------- *)
Lemma dget_drop_same (m : renaming) v : dget (drop m v) v = None.
Proof.
  induction m as [|[k x] r IH]; simpl; [reflexivity|].
  destruct (String.eqb k v) eqn:E; simpl.
  - exact IH.
  - rewrite String.eqb_sym in E. rewrite E. exact IH.
Qed.

Lemma dget_drop_other (m : renaming) v n : n <> v -> dget (drop m v) n = dget m n.
Proof.
  intros Hne. induction m as [|[k x] r IH]; simpl; [reflexivity|].
  destruct (String.eqb k v) eqn:E; simpl.
  - apply String.eqb_eq in E. subst k.
    destruct (String.eqb n v) eqn:E2; [apply String.eqb_eq in E2; contradiction|exact IH].
  - destruct (String.eqb n k); [reflexivity|exact IH].
Qed.

Lemma rn_drop (m : renaming) v n : rn (drop m v) n = if String.eqb n v then n else rn m n.
Proof.
  unfold rn. destruct (String.eqb n v) eqn:E.
  - apply String.eqb_eq in E. subst n. rewrite dget_drop_same. reflexivity.
  - rewrite dget_drop_other; [reflexivity|]. intros H. subst n. rewrite String.eqb_refl in E. discriminate.
Qed.

(* ---------- what a repeated new key does: the collapse is a computed fact ---------- *)
Example rebuild_collapses :
  rebuild [("?x", "?z"); ("?y", "?z")] [("?x", "t0"); ("?y", "t1")] = [("?z", "t1")].
Proof. reflexivity. Qed.

Example rebuild_swap :
  rebuild [("?x", "?y"); ("?y", "?x")] [("?x", "t0"); ("?y", "t1"); ("?w", "t2")] = [("?y", "t0"); ("?x", "t1"); ("?w", "t2")].
Proof. reflexivity. Qed.
