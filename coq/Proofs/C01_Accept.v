(* C01_supported_accepted: every domain of the supported fragment G (Spec/Fragment.v) is accepted by the parser. *)
From Coq Require Import List Ascii String Bool Arith Lia PrimFloat.
From Verif Require Import Base.Result Base.Str Base.Sexp Base.PyDict Model.Types Model.Domain Model.Exec
  Spec.Pddl Spec.Grammar Spec.Faithful Spec.Fragment Proofs.C01_Defs Proofs.C01_Typed Proofs.C01_Vocab
  Proofs.C01_Pre Proofs.C01_Eff Proofs.C01_Domain.
Import ListNotations.
Open Scope string_scope.
Open Scope list_scope.

(* ---------- the spec's small functions are the parser's ---------- *)
Lemma distinct_has_dup l : distinct l = negb (has_dup l).
Proof. induction l as [|x r IH]; [reflexivity|]. simpl. rewrite IH, negb_orb. reflexivity. Qed.

Lemma is_variable_q s : is_variable s = starts_with_q s.
Proof. reflexivity. Qed.

Lemma size_pos e : 1 <= size e.
Proof. destruct e; simpl; lia. Qed.

Lemma size_list_elem x l : In x l -> size x <= list_sum (map size l).
Proof.
  induction l as [|y r IH]; intros Hin; [destruct Hin|]. simpl. destruct Hin as [<-|Hin]; [lia|].
  specialize (IH Hin). lia.
Qed.

Section AcceptBodies.
  Variable num : numparser.
  Variable tt : typetable.
  Variable consts : pydict string.
  Variable preds : pydict signature.
  Variable funcs : pydict signature.
  Variable known_type : string -> bool.
  Variable is_const : string -> bool.
  Variable pred_arity : string -> option nat.
  Variable func_arity : string -> option nat.
  Hypothesis Hkt : forall ty, known_type ty = type_known tt ty.
  Hypothesis Hc : forall a, is_const a = dmem consts a.
  Hypothesis Hp : forall p, pred_arity p = match dget preds p with Some sg => Some (List.length sg) | None => None end.
  Hypothesis Hf : forall f, func_arity f = match dget funcs f with Some sg => Some (List.length sg) | None => None end.
  Hypothesis Hpk : forall p, dmem preds p = true -> str_in p keywords = false.

  (* the names in scope are the keys of the signature *)
  Definition scope_ok (scope : list string) (sg : signature) : Prop := forall a, str_in a scope = dmem sg a.

  Lemma dmem_dset {V} (d : pydict V) k v a : dmem (dset d k v) a = String.eqb a k || dmem d a.
  Proof.
    unfold dmem. destruct (String.eqb a k) eqn:E.
    - apply String.eqb_eq in E. subst. rewrite dget_dset_same. reflexivity.
    - apply String.eqb_neq in E. rewrite dget_dset_other by exact E. reflexivity.
  Qed.

  Lemma scope_ok_dset scope sg v ty : scope_ok scope sg -> scope_ok (v :: scope) (dset sg v ty).
  Proof. intros H a. simpl. rewrite dmem_dset, H. reflexivity. Qed.

  (* ----- arguments and literals ----- *)
  Lemma g_args_ok scope sg args arity :
    scope_ok scope sg -> g_args is_const scope args arity = true ->
    exists names, atoms_of args = Ok names /\ List.length names = arity /\
                  forallb (fun a => dmem sg a || dmem consts a) names = true /\ has_dup names = false.
  Proof.
    intros Hs. unfold g_args. destruct (atom_names args) as [names|] eqn:En; [|discriminate].
    intros H. apply andb_true_iff in H as [H Hd]. apply andb_true_iff in H as [Hl Ha].
    exists names. split; [apply atom_names_atoms_of; exact En|]. split; [apply Nat.eqb_eq; exact Hl|]. split.
    - rewrite forallb_forall in Ha |- *. intros a Hin. specialize (Ha a Hin). rewrite <- Hs, <- Hc. exact Ha.
    - rewrite distinct_has_dup in Hd. apply negb_true_iff. exact Hd.
  Qed.

  Lemma literal_accepts scope sg pos e :
    scope_ok scope sg -> g_literal is_const pred_arity scope e = true ->
    exists l, parse_untyped_predicate sg consts pos e = Ok l /\
              exists p args, e = SList (Atom p :: args) /\ dmem preds p = true.
  Proof.
    intros Hs. unfold g_literal. destruct e as [s|[|[p|sub] args]]; try discriminate.
    rewrite Hp. destruct (dget preds p) as [psg|] eqn:Ep; [|discriminate]. intros H.
    destruct (g_args_ok scope sg args _ Hs H) as (names & Ha & _ & Hin & Hd).
    simpl. rewrite Ha. simpl. rewrite Hin, Hd. simpl. eexists. split; [reflexivity|].
    exists p, args. split; [reflexivity|]. unfold dmem. rewrite Ep. reflexivity.
  Qed.

  (* ----- numeric terms ----- *)
  Lemma fluent_accepts fu scope e :
    g_fluent is_const func_arity scope e = true -> exists t, construct num funcs (S fu) e = Ok t.
  Proof.
    unfold g_fluent. destruct e as [s|[|[f|sub] args]]; try discriminate.
    intros H. apply andb_true_iff in H as [Hna H]. apply negb_true_iff in Hna.
    rewrite Hf in H. destruct (dget funcs f) as [fsg|] eqn:Ef; [|discriminate].
    assert (Hs : scope_ok scope (map (fun a => (a, "")) scope)).
    { intros a. rewrite dmem_str_in. unfold dkeys. rewrite map_map. simpl. rewrite map_id. reflexivity. }
    destruct (g_args_ok scope _ args _ Hs H) as (names & Ha & Hl & _ & Hd).
    cbn [construct].
    assert (Hall : all_atoms (Atom f :: args) = true).
    { simpl. apply all_atoms_atom_names. rewrite (atoms_of_atom_names _ _ Ha). discriminate. }
    rewrite Hall. change (str_in f numeric_ops) with (is_arith f). rewrite Hna, Ef, Ha. cbn [bind].
    rewrite Hl, Nat.eqb_refl, Hd. simpl. eauto.
  Qed.

  Lemma construct_accepts : forall fuel scope e,
    size e <= fuel -> g_nexp num is_const func_arity scope e = true -> exists t, construct num funcs fuel e = Ok t.
  Proof.
    induction fuel as [|fu IH]; intros scope e Hsz Hg.
    - pose proof (size_pos e). lia.
    - destruct e as [s|l].
      + cbn [g_nexp] in Hg. apply andb_true_iff in Hg as [Hn Hr]. apply negb_true_iff in Hr.
        cbn [construct]. unfold leaf_number. change legal_numerical with reserved_numeric. rewrite Hr.
        destruct (num s) as [x|]; [eauto|discriminate].
      + assert (Hcase : (exists h a b, l = [Atom h; a; b] /\ is_arith h = true /\
                                      g_nexp num is_const func_arity scope a = true /\
                                      g_nexp num is_const func_arity scope b = true) \/
                        g_fluent is_const func_arity scope (SList l) = true).
        { destruct l as [|[h|sub] [|a [|b [|c r]]]]; try (right; exact Hg).
          cbn [g_nexp] in Hg. destruct (is_arith h) eqn:Eh; [|right; exact Hg].
          apply andb_true_iff in Hg as [Ha Hb]. left. exists h, a, b. repeat split; assumption. }
        destruct Hcase as [(h & a & b & -> & Hh & Ha & Hb)|Hfl]; [|exact (fluent_accepts fu scope _ Hfl)].
        assert (Hsa : size a <= fu) by (simpl in Hsz; lia).
        assert (Hsb : size b <= fu) by (simpl in Hsz; lia).
        destruct (IH scope a Hsa Ha) as [ta Hta]. destruct (IH scope b Hsb Hb) as [tb Htb].
        cbn [construct]. destruct (all_atoms [Atom h; a; b]) eqn:Eall.
        * change (str_in h numeric_ops) with (is_arith h). rewrite Hh.
          destruct a as [sa|la]; [|simpl in Eall; discriminate].
          destruct b as [sb|lb]; [|simpl in Eall; discriminate].
          cbn [g_nexp] in Ha, Hb. apply andb_true_iff in Ha as [Hna _]. apply andb_true_iff in Hb as [Hnb _].
          destruct (num sa); [|discriminate]. destruct (num sb); [|discriminate]. eauto.
        * rewrite Hta, Htb. simpl. eauto.
  Qed.

  (* a comparison / numeric equality node with a compound operand *)
  Lemma cmp_node_accepts scope h l r :
    (is_list l || is_list r) = true ->
    g_nexp num is_const func_arity scope l = true -> g_nexp num is_const func_arity scope r = true ->
    exists t, construct num funcs (tree_fuel (SList [Atom h; l; r])) (SList [Atom h; l; r]) = Ok t.
  Proof.
    intros Hlist Hl Hr. unfold tree_fuel.
    remember (size (SList [Atom h; l; r])) as fu0 eqn:Efu.
    assert (Hsl : size l <= fu0) by (subst fu0; simpl; lia).
    assert (Hsr : size r <= fu0) by (subst fu0; simpl; lia).
    clear Efu. cbn [construct].
    assert (Hall : all_atoms [Atom h; l; r] = false).
    { simpl. destruct l; destruct r; simpl in *; try reflexivity. discriminate. }
    rewrite Hall.
    destruct (construct_accepts fu0 scope l Hsl Hl) as [tl ->].
    destruct (construct_accepts fu0 scope r Hsr Hr) as [tr ->]. simpl. eauto.
  Qed.

  Notation g_cond' := (g_cond num known_type is_const pred_arity func_arity).

  Lemma keyword_not_pred h : str_in h keywords = true -> dmem preds h = false.
  Proof. intros Hk. destruct (dmem preds h) eqn:E; [|reflexivity]. rewrite (Hpk h E) in Hk. discriminate. Qed.

  Lemma is_cmp_keyword h : is_cmp h = true -> str_in h keywords = true /\ String.eqb h "=" = false /\
                                               String.eqb h "not" = false.
  Proof.
    unfold is_cmp. simpl. intros H.
    destruct (String.eqb h "<=") eqn:E1; [apply String.eqb_eq in E1; subst; repeat split|].
    destruct (String.eqb h ">=") eqn:E2; [apply String.eqb_eq in E2; subst; repeat split|].
    destruct (String.eqb h ">") eqn:E3; [apply String.eqb_eq in E3; subst; repeat split|].
    destruct (String.eqb h "<") eqn:E4; [apply String.eqb_eq in E4; subst; repeat split|].
    discriminate.
  Qed.

  Theorem parse_pre_accepts : forall fuel nodes sg scope root,
    scope_ok scope sg ->
    list_sum (map size nodes) < fuel ->
    forallb (g_cond' scope) nodes = true ->
    exists r, parse_pre num tt consts preds funcs fuel sg root nodes = Ok r.
  Proof.
    induction fuel as [|fu IH]; intros nodes sg scope root Hs Hsz Hg; [lia|].
    destruct nodes as [|node rest]; [rewrite parse_pre_nil; eauto|].
    rewrite parse_pre_cons. cbn [forallb] in Hg. apply andb_true_iff in Hg as [Hnode Hrest].
    change (list_sum (map size (node :: rest))) with (size node + list_sum (map size rest)) in Hsz.
    pose proof (size_pos node) as Hpos.
    assert (Hszr : list_sum (map size rest) < fu) by lia.
    destruct node as [s|[|[h|sub] args]]; try discriminate Hnode.
    cbn [head_of bind].
    assert (Hstep : exists root', node_step num tt consts preds funcs fu sg root (SList (Atom h :: args)) h = Ok root').
    { unfold node_step. cbn [g_cond] in Hnode.
      assert (Hargs : list_sum (map size args) < fu) by (simpl in Hsz; lia).
      destruct (String.eqb h "and" || String.eqb h "or") eqn:Eao.
      { destruct (IH args sg scope (MPre h [] [] []) Hs Hargs Hnode) as [nested ->]. simpl. eauto. }
      destruct (String.eqb h "not") eqn:Enot.
      { apply String.eqb_eq in Enot. subst h. rewrite (keyword_not_pred "not" eq_refl).
        destruct args as [|[s|[|[p|sub] pargs]] [|x q]]; try discriminate Hnode.
        cbn [head_of bind]. destruct (String.eqb p "=") eqn:Ep.
        - destruct pargs as [|[a|sa] [|[b|sb] [|c q]]]; try discriminate Hnode. eauto.
        - destruct (literal_accepts scope sg false _ Hs Hnode) as (l & -> & _). simpl. eauto. }
      destruct (String.eqb h "=") eqn:Eeq.
      { apply String.eqb_eq in Eeq. subst h. rewrite (keyword_not_pred "=" eq_refl).
        destruct args as [|[a|l0] [|[b|r0] [|z zs]]]; try discriminate Hnode.
        - eauto.
        - apply andb_true_iff in Hnode as [Hl Hr].
          destruct (cmp_node_accepts scope "=" (SList l0) (Atom b) eq_refl Hl Hr) as [t ->]. simpl. eauto.
        - apply andb_true_iff in Hnode as [Hl Hr].
          destruct (cmp_node_accepts scope "=" (SList l0) (SList r0) eq_refl Hl Hr) as [t ->]. simpl. eauto. }
      destruct (is_cmp h) eqn:Ecmp.
      { destruct (is_cmp_keyword h Ecmp) as (Hk & _ & _). rewrite (keyword_not_pred h Hk).
        change (str_in h comparison_ops) with (is_cmp h). rewrite Ecmp.
        destruct args as [|l [|r [|z zs]]]; try discriminate Hnode.
        apply andb_true_iff in Hnode as [Hnode Hr]. apply andb_true_iff in Hnode as [Hlist Hl].
        destruct (cmp_node_accepts scope h l r Hlist Hl Hr) as [t ->]. simpl. eauto. }
      change (str_in h comparison_ops) with (is_cmp h). rewrite Ecmp.
      destruct (String.eqb h "forall") eqn:Efa.
      { apply String.eqb_eq in Efa. subst h. rewrite (keyword_not_pred "forall" eq_refl).
        destruct args as [|[s|[|[v|sv] [|[d|sd] [|[ty|sty] [|x q]]]]] [|[s2|[|[bh|sbh] subs]] [|y r]]];
          try discriminate Hnode.
        apply andb_true_iff in Hnode as [Hnode Hsubs]. apply andb_true_iff in Hnode as [Hnode Hbh].
        apply andb_true_iff in Hnode as [_ Hty].
        cbn [head_of bind]. rewrite Hbh. cbn [negb]. rewrite <- Hkt, Hty. cbn [negb].
        assert (Hsub : list_sum (map size subs) < fu) by (simpl in Hsz; lia).
        destruct (IH subs (dset sg v ty) (v :: scope) (MPre bh [] [] []) (scope_ok_dset scope sg v ty Hs) Hsub Hsubs)
          as [u ->].
        simpl. eauto. }
      (* a positive literal *)
      destruct (literal_accepts scope sg true _ Hs Hnode) as (l & Hl & p & args0 & Hshape & Hdm).
      injection Hshape as <- <-. rewrite Hdm, Hl. simpl. eauto. }
    destruct Hstep as [root' ->]. cbn [bind]. exact (IH rest sg scope root' Hs Hszr Hrest).
  Qed.

  Theorem parse_preconditions_accepts sg scope e :
    scope_ok scope sg ->
    g_precondition num known_type is_const pred_arity func_arity scope e = true ->
    exists p, parse_preconditions num tt consts preds funcs sg e = Ok p.
  Proof.
    intros Hs Hg. destruct e as [s|[|[h|sub] args]]; try discriminate Hg.
    - simpl. eauto.
    - cbn [g_precondition] in Hg. destruct (String.eqb h "and") eqn:Eand.
      + apply String.eqb_eq in Eand. subst h. cbn [parse_preconditions].
        apply (parse_pre_accepts _ args sg scope empty_pre Hs); [simpl; lia|exact Hg].
      + rewrite parse_preconditions_other by exact Eand.
        apply andb_true_iff in Hg as [Hlen Hc']. apply Nat.leb_le in Hlen.
        destruct (Nat.ltb 1 (List.length args)) eqn:El; [apply Nat.ltb_lt in El; lia|].
        apply (parse_pre_accepts _ [SList (Atom h :: args)] sg scope empty_pre Hs).
        * change (list_sum (map size [SList (Atom h :: args)])) with (size (SList (Atom h :: args)) + 0). lia.
        * cbn [forallb]. rewrite Hc'. reflexivity.
  Qed.

  (* ----- effects ----- *)
  Lemma is_assign_facts h : is_assign h = true -> str_in h keywords = true /\ String.eqb h "not" = false /\
                                                  String.eqb h "when" = false /\ String.eqb h "forall" = false.
  Proof.
    unfold is_assign. simpl. intros H.
    destruct (String.eqb h "assign") eqn:E1; [apply String.eqb_eq in E1; subst; repeat split|].
    destruct (String.eqb h "increase") eqn:E2; [apply String.eqb_eq in E2; subst; repeat split|].
    destruct (String.eqb h "decrease") eqn:E3; [apply String.eqb_eq in E3; subst; repeat split|].
    discriminate.
  Qed.

  Lemma assign_node_accepts scope h l rhs :
    g_fluent is_const func_arity scope (SList l) = true -> g_nexp num is_const func_arity scope rhs = true ->
    exists t, construct num funcs (tree_fuel (SList [Atom h; SList l; rhs])) (SList [Atom h; SList l; rhs]) = Ok t.
  Proof.
    intros Hfl Hr. unfold tree_fuel.
    remember (size (SList [Atom h; SList l; rhs])) as fu0 eqn:Efu.
    assert (Hsr : size rhs <= fu0) by (subst fu0; simpl; lia).
    assert (Hpos : exists fu1, fu0 = S fu1) by (subst fu0; simpl; eauto).
    clear Efu. cbn [construct all_atoms forallb andb].
    destruct (construct_accepts fu0 scope rhs Hsr Hr) as [tr ->].
    destruct Hpos as [fu1 ->].
    destruct (fluent_accepts fu1 scope _ Hfl) as [tl ->]. simpl. eauto.
  Qed.

  Notation g_prim' := (g_prim num is_const pred_arity func_arity).

  Lemma prim_accepts scope sg e :
    scope_ok scope sg -> g_prim' scope e = true -> exists r, parse_result num consts funcs sg e = Ok r.
  Proof.
    intros Hs Hg. unfold g_prim in Hg. destruct e as [s|[|[h|sub] args]]; try discriminate Hg.
    unfold parse_result. cbn [head_of bind].
    destruct (String.eqb h "not") eqn:Enot.
    - destruct args as [|lit [|x q]]; try discriminate Hg.
      destruct (literal_accepts scope sg false lit Hs Hg) as (l & -> & _). simpl. eauto.
    - change (str_in h assignment_ops) with (is_assign h).
      destruct (is_assign h) eqn:Eas.
      + destruct args as [|[a|l] [|rhs [|x q]]]; try discriminate Hg.
        apply andb_true_iff in Hg as [Hfl Hr].
        destruct (assign_node_accepts scope h l rhs Hfl Hr) as [t ->]. simpl. eauto.
      + destruct (literal_accepts scope sg true _ Hs Hg) as (l & -> & _). simpl. eauto.
  Qed.

  Lemma prims_accept scope sg : forall items,
    scope_ok scope sg -> forallb (g_prim' scope) items = true ->
    exists rs, mapM (parse_result num consts funcs sg) items = Ok rs.
  Proof.
    induction items as [|e rest IH]; intros Hs Hg; [simpl; eauto|].
    cbn [forallb] in Hg. apply andb_true_iff in Hg as [He Hr].
    cbn [mapM]. destruct (prim_accepts scope sg e Hs He) as [r ->]. cbn [bind].
    destruct (IH Hs Hr) as [rs ->]. simpl. eauto.
  Qed.

  Lemma result_accepts scope sg res :
    scope_ok scope sg -> g_result num is_const pred_arity func_arity scope res = true ->
    exists rs, parse_results num consts funcs sg res = Ok rs.
  Proof.
    intros Hs Hg. unfold g_result in Hg. destruct res as [s|[|[h|sub] items]]; try discriminate Hg.
    unfold parse_results. cbn [head_of bind]. destruct (String.eqb h "and").
    - exact (prims_accept scope sg items Hs Hg).
    - destruct (prim_accepts scope sg _ Hs Hg) as [r ->]. simpl. eauto.
  Qed.

  Lemma when_accepts scope sg args :
    scope_ok scope sg -> g_when_parts num known_type is_const pred_arity func_arity scope args = true ->
    exists ce, parse_conditional_effect num tt consts preds funcs sg (SList (Atom "when" :: args)) = Ok ce.
  Proof.
    intros Hs Hg. unfold g_when_parts in Hg. destruct args as [|c [|res [|x q]]]; try discriminate Hg.
    apply andb_true_iff in Hg as [Hc' Hres]. rewrite parse_conditional_effect_unfold.
    destruct c as [s|[|[h|sub] subs]]; try discriminate Hc'. cbn [head_of bind].
    assert (Hante : exists ante, parse_pre num tt consts preds funcs (S (size (SList (Atom h :: subs)))) sg
                                   (MPre "and" [] [] [])
                                   (if String.eqb h "and" then subs else [SList (Atom h :: subs)]) = Ok ante).
    { destruct (String.eqb h "and").
      - apply (parse_pre_accepts _ subs sg scope _ Hs); [simpl; lia|exact Hc'].
      - apply (parse_pre_accepts _ [SList (Atom h :: subs)] sg scope _ Hs).
        + change (list_sum (map size [SList (Atom h :: subs)])) with (size (SList (Atom h :: subs)) + 0). lia.
        + cbn [forallb]. rewrite Hc'. reflexivity. }
    destruct Hante as [ante ->]. cbn [bind].
    destruct (result_accepts scope sg res Hs Hres) as [rs ->]. cbn [bind].
    destruct (split_results rs). eauto.
  Qed.

  Notation g_effect_item' := (g_effect_item num known_type is_const pred_arity func_arity).

  Lemma effect_item_accepts scope sg acc e :
    scope_ok scope sg -> g_effect_item' scope e = true ->
    exists acc', parse_effect_node num tt consts preds funcs sg acc e = Ok acc'.
  Proof.
    intros Hs Hg. unfold g_effect_item in Hg. destruct e as [s|[|[h|sub] args]]; try discriminate Hg.
    unfold parse_effect_node. cbn [head_of bind].
    destruct (String.eqb h "when") eqn:Ewh.
    { apply String.eqb_eq in Ewh. subst h. rewrite (keyword_not_pred "when" eq_refl).
      cbn [String.eqb Ascii.eqb Bool.eqb andb].
      destruct (when_accepts scope sg args Hs Hg) as [ce ->]. simpl. eauto. }
    destruct (String.eqb h "forall") eqn:Efa.
    { apply String.eqb_eq in Efa. subst h. rewrite (keyword_not_pred "forall" eq_refl).
      cbn [String.eqb Ascii.eqb Bool.eqb andb].
      destruct args as [|[s|[|[v|sv] [|[d|sd] [|[ty|sty] [|x q]]]]] [|[s2|[|[w|sw] wargs]] [|y r]]];
        try discriminate Hg.
      apply andb_true_iff in Hg as [Hg Hw]. apply andb_true_iff in Hg as [Hg Hwhen].
      apply andb_true_iff in Hg as [_ Hty]. apply String.eqb_eq in Hwhen. subst w.
      cbn [parse_universal_effect]. rewrite <- Hkt, Hty. cbn [negb].
      destruct (when_accepts (v :: scope) (dset sg v ty) wargs (scope_ok_dset scope sg v ty Hs) Hw) as [ce ->].
      simpl. eauto. }
    (* a primitive effect *)
    unfold g_prim in Hg.
    destruct (String.eqb h "not") eqn:Enot.
    { apply String.eqb_eq in Enot. subst h. rewrite (keyword_not_pred "not" eq_refl).
      destruct args as [|lit [|x q]]; try discriminate Hg.
      destruct (literal_accepts scope sg false lit Hs Hg) as (l & -> & _). simpl. eauto. }
    destruct (is_assign h) eqn:Eas.
    { destruct (is_assign_facts h Eas) as (Hk & _ & _ & _). rewrite (keyword_not_pred h Hk).
      change (str_in h assignment_ops) with (is_assign h). rewrite Eas.
      destruct args as [|[a|l] [|rhs [|x q]]]; try discriminate Hg.
      apply andb_true_iff in Hg as [Hfl Hr].
      destruct (assign_node_accepts scope h l rhs Hfl Hr) as [t ->]. simpl. eauto. }
    destruct (literal_accepts scope sg true _ Hs Hg) as (l & Hl & p & args0 & Hshape & Hdm).
    injection Hshape as <- <-. rewrite Hdm, Hl. simpl. eauto.
  Qed.

  Theorem parse_effects_accepts scope sg e :
    scope_ok scope sg -> g_effect num known_type is_const pred_arity func_arity scope e = true ->
    exists ef, parse_effects num tt consts preds funcs sg e = Ok ef.
  Proof.
    intros Hs Hg. unfold g_effect in Hg. destruct e as [s|[|[h|sub] items]]; try discriminate Hg.
    apply andb_true_iff in Hg as [Hand Hitems]. apply String.eqb_eq in Hand. subst h.
    unfold parse_effects. cbn [head_of bind]. rewrite String.eqb_refl. cbn [negb].
    generalize {| ea_disc := []; ea_num := []; ea_cond := []; ea_univ := [] |}.
    induction items as [|x rest IH]; intros acc; [simpl; eauto|].
    cbn [forallb] in Hitems. apply andb_true_iff in Hitems as [Hx Hrest].
    cbn [foldM]. destruct (effect_item_accepts scope sg acc x Hs Hx) as [acc' ->]. cbn [bind].
    exact (IH Hrest acc').
  Qed.
End AcceptBodies.

(* ---------- typed lists ---------- *)
Lemma atom_names_map names : atom_names (map Atom names) = Some names.
Proof. induction names as [|x r IH]; [reflexivity|]. simpl map. rewrite atom_names_cons_atom, IH. reflexivity. Qed.

Lemma atom_names_is_map l names : atom_names l = Some names -> l = map Atom names.
Proof.
  revert names. induction l as [|[s|sub] r IH]; intros names H.
  - injection H as <-. reflexivity.
  - rewrite atom_names_cons_atom in H. destruct (atom_names r) as [xs|] eqn:E; [|discriminate].
    injection H as <-. simpl. rewrite (IH xs eq_refl). reflexivity.
  - discriminate.
Qed.

Lemma parse_signature_aux_accepts tt known : (forall ty, known ty = type_known tt ty) ->
  forall n toks grouped sg,
  List.length toks <= n -> forallb starts_with_q grouped = true ->
  g_typed_vars known toks = true ->
  exists sg', parse_signature_aux tt (map Atom toks) grouped sg = Ok sg'.
Proof.
  intros Hk. induction n as [|n IH]; intros toks grouped sg Hlen Hgr Hg.
  - destruct toks; [|simpl in Hlen; lia]. simpl. eauto.
  - destruct toks as [|t rest]; [simpl; eauto|]. cbn [g_typed_vars] in Hg. cbn [map parse_signature_aux].
    destruct (String.eqb t "-") eqn:Ed.
    + destruct rest as [|ty rest']; [discriminate|]. apply andb_true_iff in Hg as [Hty Hrest].
      cbn [map]. rewrite Hgr. cbn [negb]. rewrite <- Hk, Hty. cbn [negb].
      apply IH; [simpl in Hlen; lia|reflexivity|exact Hrest].
    + apply andb_true_iff in Hg as [Hv Hrest]. rewrite is_variable_q in Hv. rewrite Hv. cbn [negb].
      apply IH; [simpl in Hlen; lia| |exact Hrest]. rewrite forallb_app, Hgr. simpl. rewrite Hv. reflexivity.
Qed.

Lemma parse_signature_accepts tt known toks :
  (forall ty, known ty = type_known tt ty) -> g_typed_vars known toks = true ->
  exists sg, parse_signature tt (map Atom toks) = Ok sg.
Proof. intros Hk Hg. exact (parse_signature_aux_accepts tt known Hk _ toks [] [] (le_n _) eq_refl Hg). Qed.

Lemma parse_constants_aux_accepts tt known : (forall ty, known ty = type_known tt ty) ->
  forall n toks same acc,
  List.length toks <= n -> g_typed_names known toks = true ->
  exists r, parse_constants_aux tt (map Atom toks) same false acc = Ok r.
Proof.
  intros Hk. induction n as [|n IH]; intros toks same acc Hlen Hg.
  - destruct toks; [|simpl in Hlen; lia]. simpl. eauto.
  - destruct toks as [|t rest]; [simpl; eauto|]. cbn [g_typed_names] in Hg. cbn [map parse_constants_aux].
    destruct (String.eqb t "-") eqn:Ed.
    + destruct rest as [|ty rest']; [discriminate|]. apply andb_true_iff in Hg as [Hty Hrest].
      cbn [map parse_constants_aux]. rewrite <- Hk, Hty. cbn [negb].
      apply IH; [simpl in Hlen; lia|exact Hrest].
    + apply IH; [simpl in Hlen; lia|exact Hg].
Qed.

(* function parameters one by one are in particular a typed list of variables, of length 3k *)
Lemma g_triples_vars known : forall n toks, List.length toks <= n ->
  g_triples known toks = true -> g_typed_vars known toks = true /\ Nat.modulo (List.length toks) 3 = 0.
Proof.
  induction n as [|n IH]; intros toks Hlen Hg.
  - destruct toks; [split; reflexivity|simpl in Hlen; lia].
  - destruct toks as [|v [|d [|ty rest]]]; try discriminate Hg; [split; reflexivity|].
    cbn [g_triples] in Hg. apply andb_true_iff in Hg as [Hg Hrest]. apply andb_true_iff in Hg as [Hg Hty].
    apply andb_true_iff in Hg as [Hg Hnd]. apply andb_true_iff in Hg as [Hv Hd].
    apply String.eqb_eq in Hd. subst d. apply negb_true_iff in Hnd.
    destruct (IH rest) as [Hr Hm]; [simpl in Hlen; lia|exact Hrest|].
    split.
    + cbn [g_typed_vars].
      assert (Hvd : String.eqb v "-" = false).
      { destruct v as [|c v']; [discriminate Hv|]. simpl in Hv. apply Ascii.eqb_eq in Hv. subst c. reflexivity. }
      rewrite Hvd, Hv. cbn [String.eqb Ascii.eqb Bool.eqb andb]. rewrite Hty, Hr. reflexivity.
    + change (List.length (v :: "-" :: ty :: rest)) with (3 + List.length rest).
      rewrite <- (Nat.add_mod_idemp_l 3 _ 3) by discriminate. simpl (3 mod 3). simpl. exact Hm.
Qed.

(* ---------- (:types ...) ---------- *)
Lemma walk_ancestor : forall f d t target,
  ancestor_walk f d t target = true -> walk f d t target = Ok true.
Proof.
  induction f as [|f IH]; intros d t target H; simpl in H |- *.
  - destruct (String.eqb t target); [reflexivity|discriminate].
  - destruct (String.eqb t target); [reflexivity|].
    destruct (String.eqb t "object"); [discriminate|].
    rewrite lookup_dget in H. destruct (dget d t) as [parent|] eqn:E; unfold typetable, tytree, name in *; rewrite E; apply IH; exact H.
Qed.

Lemma collect_decls_accepts : forall n names same d rows,
  List.length names <= n -> read_typed_list names same = Some rows ->
  exists d' trailing, collect_decls (map Atom names) same d = Ok (d', trailing).
Proof.
  induction n as [|n IH]; intros names same d rows Hlen Hr.
  - destruct names; [|simpl in Hlen; lia]. simpl. eauto.
  - destruct names as [|t rest]; [simpl; eauto|]. cbn [read_typed_list] in Hr. cbn [map collect_decls].
    destruct (String.eqb t "-") eqn:Ed.
    + destruct rest as [|p rest']; [discriminate|].
      destruct (read_typed_list rest' []) as [r2|] eqn:E2; [|discriminate].
      cbn [map]. eapply IH; [simpl in Hlen; lia|exact E2].
    + eapply IH; [simpl in Hlen; lia|exact Hr].
Qed.

Lemma types_section_accepts body rows : g_types_section body = Some rows -> parse_types body = Ok rows.
Proof.
  unfold g_types_section, read_types, read_typed. intros H.
  destruct (atom_names body) as [names|] eqn:En; [|discriminate].
  destruct (read_typed_list names []) as [rs|] eqn:Er; [|discriminate].
  destruct (g_typed_names _ names && acyclic (type_rows rs)) eqn:Eg; [|discriminate]. injection H as <-.
  apply andb_true_iff in Eg as [_ Hac].
  rewrite (atom_names_is_map body names En). unfold parse_types.
  destruct (collect_decls_accepts _ names [] [] rs (le_n _) Er) as (d' & trailing & Hc). rewrite Hc.
  destruct (collect_decls_spec _ _ [] [] d' trailing (le_n _) Hc) as (names' & rows' & Hn' & Hr' & Hfin).
  rewrite atom_names_map in Hn'. injection Hn' as <-. rewrite Er in Hr'. injection Hr' as <-.
  rewrite Hfin. fold (dict_of rs). rewrite add_parent_only_spec.
  change (filter (fun kv : string * string => negb (fst kv =? "object"))
                 (dict_of rs ++ obj_rows (parent_only (dict_of rs)))) with (type_rows rs).
  assert (Hall : forallb (fun kv => reaches_object (type_rows rs) (fst kv)) (type_rows rs) = true).
  { unfold acyclic in Hac. rewrite forallb_forall in Hac |- *. intros kv Hin. specialize (Hac kv Hin).
    unfold subtypeb in Hac. apply walk_ancestor in Hac. unfold reaches_object.
    unfold typed, typetable, tytree, pydict, name in *. rewrite Hac. reflexivity. }
  rewrite Hall. reflexivity.
Qed.

(* ---------- declarations ---------- *)
Lemma decl_shape known triples e :
  g_decl known triples e = true ->
  exists n toks, e = SList (Atom n :: map Atom toks) /\ str_in n keywords = false /\ n <> ":private" /\
                 (if triples then g_triples known toks else g_typed_vars known toks) = true.
Proof.
  unfold g_decl. destruct e as [s|[|[n|sub] params]]; try discriminate.
  intros H. apply andb_true_iff in H as [H Hp]. apply andb_true_iff in H as [Hk Hpriv].
  destruct (atom_names params) as [toks|] eqn:En; [|discriminate].
  exists n, toks. rewrite (atom_names_is_map params toks En). split; [reflexivity|].
  split; [apply negb_true_iff; exact Hk|]. split; [|exact Hp].
  apply negb_true_iff in Hpriv. apply String.eqb_neq. exact Hpriv.
Qed.

Lemma predicates_accept tt known : (forall ty, known ty = type_known tt ty) ->
  forall body acc, forallb (g_decl known false) body = true -> exists r, parse_predicates tt body acc = Ok r.
Proof.
  intros Hk. induction body as [|e rest IH]; intros acc Hg; [simpl; eauto|].
  cbn [forallb] in Hg. apply andb_true_iff in Hg as [He Hr].
  destruct (decl_shape known false e He) as (n & toks & -> & _ & Hnp & Ht).
  rewrite parse_predicates_cons_other by exact Hnp. cbn [parse_predicate].
  destruct (parse_signature_accepts tt known toks Hk Ht) as [sg ->]. cbn [bind fst snd]. apply IH. exact Hr.
Qed.

Lemma functions_accept tt known : (forall ty, known ty = type_known tt ty) ->
  forall body acc, forallb (g_decl known true) body = true ->
  exists r, foldM (fun acc f => do ns <- parse_function tt f; Ok (dset acc (fst ns) (snd ns))) body acc = Ok r.
Proof.
  intros Hk. induction body as [|e rest IH]; intros acc Hg; [simpl; eauto|].
  cbn [forallb] in Hg. apply andb_true_iff in Hg as [He Hr].
  destruct (decl_shape known true e He) as (n & toks & -> & _ & _ & Ht).
  destruct (g_triples_vars known _ toks (le_n _) Ht) as [Hv Hm].
  cbn [foldM parse_function]. rewrite map_length, Hm. cbn [Nat.eqb negb].
  destruct (parse_signature_accepts tt known toks Hk Hv) as [sg ->]. cbn [bind fst snd]. apply IH. exact Hr.
Qed.

(* the names a list of accepted declarations declares *)
Lemma decls_names known triples : forall body decls,
  forallb (g_decl known triples) body = true -> all_some (map read_decl body) = Some decls ->
  names_not_keywords (map fst decls) = true /\ ~ In ":private" (map fst decls).
Proof.
  induction body as [|e rest IH]; intros decls Hg Hd.
  - simpl in Hd. injection Hd as <-. split; [reflexivity|intros []].
  - cbn [forallb] in Hg. apply andb_true_iff in Hg as [He Hr].
    cbn [map] in Hd. rewrite all_some_cons in Hd.
    destruct (read_decl e) as [[n rows]|] eqn:Ee; [|discriminate].
    destruct (all_some (map read_decl rest)) as [ds|] eqn:Eds; [|discriminate]. injection Hd as <-.
    destruct (decl_shape known triples e He) as (n' & toks & -> & Hk & Hnp & _).
    assert (Hn : n' = n).
    { simpl in Ee. destruct (read_typed (map Atom toks)); [|discriminate]. injection Ee as -> _. reflexivity. }
    subst n'. destruct (IH ds Hr eq_refl) as [Hks Hps]. split.
    + unfold names_not_keywords in *. cbn [map fst forallb]. rewrite Hk. exact Hks.
    + simpl. intros [H|H]; [apply Hnp; exact H|exact (Hps H)].
Qed.

(* ---------- the tables so far ---------- *)
Definition ctx_rel (c : gctx) (d : mdomain) : Prop :=
  d_types d = c_types c /\ d_consts d = dict_of (c_consts c) /\
  d_preds d = dict_of (map decl_row (c_preds c)) /\ d_funcs d = dict_of (map decl_row (c_funcs c)) /\
  names_not_keywords (map fst (c_preds c)) = true.

Lemma dmem_dupdate {V} (l : list (string * V)) : forall d a, dmem (dupdate d l) a = dmem d a || str_in a (map fst l).
Proof.
  induction l as [|[k v] r IH]; intros d a.
  - simpl. rewrite orb_false_r. reflexivity.
  - rewrite dupdate_cons. cbn [fst snd]. rewrite IH, dmem_dset. simpl.
    destruct (String.eqb a k), (dmem d a), (str_in a (map fst r)); reflexivity.
Qed.

Lemma dmem_dict_of {V} (l : list (string * V)) a : dmem (dict_of l) a = str_in a (map fst l).
Proof. unfold dict_of. rewrite dmem_dupdate. reflexivity. Qed.

Lemma ctx_known_type_ok c d ty : d_types d = c_types c -> ctx_known_type c ty = type_known (d_types d) ty.
Proof. intros ->. unfold ctx_known_type, type_known. rewrite dmem_str_in. reflexivity. Qed.

Lemma action_accepts num c d body :
  ctx_rel c d -> g_action num c body = true ->
  exists a, parse_action num (d_types d) (d_consts d) (d_preds d) (d_funcs d) body = Ok a.
Proof.
  intros (Ht & Hco & Hpr & Hfu & Hnk) Hg. unfold g_action in Hg.
  destruct body as [|[n|sn] [|[k1|s1] [|[s2|ps] [|[k2|s3] [|pre [|[k3|s4] [|eff [|x q]]]]]]]]; try discriminate Hg.
  apply andb_true_iff in Hg as [Hkeys Hg]. apply andb_true_iff in Hkeys as [Hkeys Hk3].
  apply andb_true_iff in Hkeys as [Hk1 Hk2].
  apply String.eqb_eq in Hk1, Hk2, Hk3. subst k1 k2 k3.
  destruct (atom_names ps) as [toks|] eqn:En; [|discriminate].
  destruct (read_typed ps) as [params|] eqn:Er; [|discriminate].
  apply andb_true_iff in Hg as [Hg Heff]. apply andb_true_iff in Hg as [Hvars Hpre].
  assert (Hkt : forall ty, ctx_known_type c ty = type_known (d_types d) ty) by (intros ty; apply ctx_known_type_ok; exact Ht).
  assert (Hc : forall a, ctx_is_const c a = dmem (d_consts d) a).
  { intros a. rewrite Hco, dmem_dict_of. reflexivity. }
  assert (Hp : forall p, ctx_arity (c_preds c) p =
                         match dget (d_preds d) p with Some sg => Some (List.length sg) | None => None end).
  { intros p. unfold ctx_arity. rewrite lookup_dget, Hpr. reflexivity. }
  assert (Hf : forall f, ctx_arity (c_funcs c) f =
                         match dget (d_funcs d) f with Some sg => Some (List.length sg) | None => None end).
  { intros f. unfold ctx_arity. rewrite lookup_dget, Hfu. reflexivity. }
  assert (Hpk : forall p, dmem (d_preds d) p = true -> str_in p keywords = false).
  { intros p Hdm. rewrite Hpr in Hdm. apply dmem_dict_of_in in Hdm. rewrite map_map in Hdm.
    exact (names_not_keywords_in _ _ Hnk Hdm). }
  cbn [parse_action List.length Nat.eqb negb].
  cbn [parse_sections bind ma_name ma_sig ma_pre ma_disc ma_num ma_cond ma_univ].
  rewrite (atom_names_is_map ps toks En) in *.
  destruct (parse_signature_accepts (d_types d) _ toks Hkt Hvars) as [sg Hsg]. rewrite Hsg.
  cbn [parse_sections bind ma_name ma_sig ma_pre ma_disc ma_num ma_cond ma_univ].
  destruct (parse_signature_spec _ _ _ Hsg) as (rows & Hrows & ->). rewrite Er in Hrows. injection Hrows as <-.
  assert (Hs : scope_ok (map fst params) (dict_of params)).
  { intros a. rewrite dmem_dict_of. reflexivity. }
  destruct (parse_preconditions_accepts num (d_types d) (d_consts d) (d_preds d) (d_funcs d) _ _ _ _
              Hkt Hc Hp Hf Hpk (dict_of params) (map fst params) pre Hs Hpre) as [p ->].
  cbn [parse_sections bind ma_name ma_sig ma_pre ma_disc ma_num ma_cond ma_univ].
  destruct (parse_effects_accepts num (d_types d) (d_consts d) (d_preds d) (d_funcs d) _ _ _ _
              Hkt Hc Hp Hf Hpk (map fst params) (dict_of params) eff Hs Heff) as [ef ->].
  cbn [parse_sections bind]. eauto.
Qed.

(* ---------- the sections ---------- *)
Lemma sections_accept num : forall sections stage c d,
  ctx_rel c d -> g_sections num stage c sections = true ->
  exists m, foldM (parse_domain_section num) sections d = Ok m.
Proof.
  induction sections as [|s rest IH]; intros stage c d Hrel Hg; [simpl; eauto|].
  cbn [g_sections] in Hg. destruct s as [a|[|[h|sub] body]]; try discriminate Hg.
  cbn [foldM]. unfold parse_domain_section.
  destruct Hrel as (Ht & Hco & Hpr & Hfu & Hnk).
  assert (Hkt : forall ty, ctx_known_type c ty = type_known (d_types d) ty) by (intros ty; apply ctx_known_type_ok; exact Ht).
  destruct (String.eqb h "domain") eqn:E1.
  { apply andb_true_iff in Hg as [Hg Hrest]. apply andb_true_iff in Hg as [_ Hb].
    destruct body as [|[n|sn] [|x q]]; try discriminate Hb. cbn [bind].
    apply (IH 1 c); [|exact Hrest]. repeat split; assumption. }
  destruct (String.eqb h ":requirements") eqn:E2.
  { apply andb_true_iff in Hg as [Hg Hrest]. apply andb_true_iff in Hg as [_ Hb].
    destruct (atom_names body) as [rs|] eqn:En; [|discriminate]. rewrite (atom_names_atoms_of _ _ En). cbn [bind].
    apply (IH 2 c); [|exact Hrest]. repeat split; assumption. }
  destruct (String.eqb h ":types") eqn:E3.
  { apply andb_true_iff in Hg as [_ Hg].
    destruct (g_types_section body) as [rows|] eqn:Et; [|discriminate].
    rewrite (types_section_accepts body rows Et). cbn [bind].
    eapply IH; [|exact Hg]. repeat split; assumption. }
  destruct (String.eqb h ":constants") eqn:E4.
  { apply andb_true_iff in Hg as [_ Hg].
    destruct (atom_names body) as [toks|] eqn:En; [|discriminate].
    destruct (read_typed body) as [rows|] eqn:Er; [|discriminate].
    apply andb_true_iff in Hg as [Hnames Hrest].
    rewrite (atom_names_is_map body toks En) in *.
    destruct (parse_constants_aux_accepts (d_types d) _ Hkt _ toks [] [] (le_n _) Hnames) as [cs Hcs].
    fold (parse_constants (d_types d) (map Atom toks)) in Hcs. rewrite Hcs. cbn [bind].
    unfold read_typed in Er. rewrite atom_names_map in Er.
    pose proof (parse_constants_spec _ _ _ toks rows Hcs (atom_names_map toks) Er) as ->.
    eapply IH; [|exact Hrest]. repeat split; assumption. }
  destruct (String.eqb h ":predicates") eqn:E5.
  { apply andb_true_iff in Hg as [Hg Hrest]. apply andb_true_iff in Hg as [_ Hdecls].
    destruct (all_some (map read_decl body)) as [decls|] eqn:Ed; [|discriminate].
    destruct (predicates_accept (d_types d) _ Hkt body [] Hdecls) as [ps Hps]. rewrite Hps. cbn [bind].
    destruct (decls_names _ _ body decls Hdecls Ed) as [Hks Hnp].
    pose proof (parse_predicates_spec _ _ _ _ decls Hps Ed Hnp) as ->.
    eapply IH; [|exact Hrest]. repeat split; assumption. }
  destruct (String.eqb h ":functions") eqn:E6.
  { apply andb_true_iff in Hg as [Hg Hrest]. apply andb_true_iff in Hg as [_ Hdecls].
    destruct (all_some (map read_decl body)) as [decls|] eqn:Ed; [|discriminate].
    destruct (functions_accept (d_types d) _ Hkt body [] Hdecls) as [fs Hfs]. rewrite Hfs. cbn [bind].
    pose proof (parse_functions_spec _ _ _ _ decls Hfs Ed) as ->.
    eapply IH; [|exact Hrest]. repeat split; assumption. }
  destruct (String.eqb h ":action") eqn:E7; [|discriminate].
  apply andb_true_iff in Hg as [Hg Hrest]. apply andb_true_iff in Hg as [_ Hact].
  destruct (action_accepts num c d body (conj Ht (conj Hco (conj Hpr (conj Hfu Hnk)))) Hact) as [a ->]. cbn [bind].
  apply (IH 6 c); [|exact Hrest]. repeat split; assumption.
Qed.

(* ---------- C01_supported_accepted ---------- *)
Theorem supported_accepted num e : G num e = true -> exists m, parse_domain num e = Ok m.
Proof.
  unfold G. destruct e as [s|[|[dname|sub] sections]]; try discriminate.
  intros H. apply andb_true_iff in H as [Hd Hs]. apply String.eqb_eq in Hd. subst dname.
  unfold parse_domain.
  apply (sections_accept num sections 0 {| c_types := []; c_consts := []; c_preds := []; c_funcs := [] |} empty_domain);
    [|exact Hs].
  repeat split; reflexivity.
Qed.

(* G is not empty: the non-trivial example domain of Proofs/C01_Witness.v is in it *)
