(* C16: the joint action of the model against the spec's sequential composition, in any order.
   The link between one member's application in the model (Operator.apply with allow_inapplicable_actions=True, what
   apply_actions calls) and the spec successor is a premise here ([seq_refines]): it is the statement of C03
   (apply = successor) at the states the joint execution visits. *)
From Coq Require Import List Ascii String Bool Arith Lia PrimFloat Permutation.
From Verif Require Import Base.Result Base.Str Base.Sexp Base.PyDict Model.Types Model.Domain Model.Exec Model.Plan
  Model.Joint Spec.Pddl Spec.Joint Proofs.C04_Plan Proofs.C16_Sets Proofs.C16_Commute Proofs.C16_Joint.
Import ListNotations.
Open Scope string_scope.
Open Scope list_scope.

Section Bridge.
  Variable d : mdomain.
  Variable eps : float.
  Variable objs : objects.
  Variable tt : tytree.
  Variable sch : schedule.

  (* member by member: applied to the state the model has reached, the k-th call returns a state that is (as a set of
     facts and a map of fluents) the spec successor of that state under the k-th spec member *)
  Fixpoint seq_refines (k : nat) (ex : list acall) (ms : list member) (s : state) : Prop :=
    match ex, ms with
    | [], [] => True
    | c :: ex', m :: ms' =>
        exists s', apply_call d eps (Some objs) true (sch k) c s = Ok s' /\
                   st_equiv s' (m_step tt objs eps s m) /\ seq_refines (S k) ex' ms' s'
    | _, _ => False
    end.

  Lemma seq_members_refines ex : forall ms k s t,
    st_equiv s t -> seq_refines k ex ms s ->
    exists s', seq_members d eps (Some objs) sch s (number_from k ex) = Ok s' /\
               st_equiv s' (seq_apply tt objs eps t ms).
  Proof.
    induction ex as [|c r IH]; intros [|m ms'] k s t Hst H; simpl in H; try contradiction.
    - exists s. split; [reflexivity | exact Hst].
    - destruct H as [s1 [Hc [He Hr]]].
      assert (Hst1 : st_equiv s1 (m_step tt objs eps t m)).
      { eapply st_equiv_trans; [exact He | apply step_congr; exact Hst]. }
      destruct (IH ms' (S k) s1 (m_step tt objs eps t m) Hst1 Hr) as [s' [Hs' He']].
      exists s'. split; [|exact He'].
      rewrite number_from_cons. unfold seq_members in *. simpl. rewrite Hc. simpl. exact Hs'.
  Qed.

  (* THE PROPERTY.  All non-nop members applicable in the current state, pairwise non-interfering: the joint action
     returns a state, and it is the state obtained by applying the members one after the other IN ANY ORDER. *)
  Theorem joint_any_order cur calls allow ms :
    Forall (fun c => call_applicable d eps (Some objs) c (ms_st cur) = Ok true)
           (filter (fun c => negb (is_nop c)) calls) ->
    pairwise_non_interfering tt objs ms = true ->
    seq_refines 0 (filter (fun c => negb (is_nop c)) calls) ms (ms_st cur) ->
    exists s', apply_actions d eps (Some objs) sch cur calls allow = Ok {| ms_init := false; ms_st := s' |} /\
               forall pi, Permutation ms pi -> st_equiv s' (seq_apply tt objs eps (ms_st cur) pi).
  Proof.
    intros Happ Hni Href.
    destruct (seq_members_refines _ ms 0 (ms_st cur) (ms_st cur) (st_equiv_refl _) Href) as [s' [Hs' He]].
    exists s'. split.
    - rewrite (apply_actions_sequential d eps (Some objs) sch cur calls allow Happ).
      rewrite number_from_0, Hs'. reflexivity.
    - intros pi Hpi. eapply st_equiv_trans; [exact He|]. apply seq_apply_perm; assumption.
  Qed.
End Bridge.
