(* C01, vocabulary sections: (:types ...), (:constants ...), (:predicates ...), (:functions ...) of the model
   parser against the independent reading. *)
From Coq Require Import List Ascii String Bool Arith Lia.
From Verif Require Import Base.Result Base.Str Base.Sexp Base.PyDict Model.Types Model.Domain
  Spec.Pddl Spec.Grammar Spec.Faithful Proofs.C01_Typed.
Import ListNotations.
Open Scope string_scope.
Open Scope list_scope.

(* ---------- membership in tables ---------- *)
Lemma dmem_str_in {V} (d : pydict V) k : dmem d k = str_in k (dkeys d).
Proof.
  unfold dmem. induction d as [|[k' v] r IH]; simpl; [reflexivity|].
  destruct (String.eqb k k'); simpl; [reflexivity|exact IH].
Qed.

Lemma str_in_app x a b : str_in x (a ++ b) = str_in x a || str_in x b.
Proof. induction a as [|y ys IH]; simpl; [reflexivity|]. rewrite IH, orb_assoc. reflexivity. Qed.

(* ---------- add_parent_only ---------- *)
Definition obj_rows (l : list string) : typed := map (fun p => (p, "object")) l.

Lemma add_parent_only_aux (d : typetable) : forall ps seen,
  fold_left (fun acc p => if dmem acc p || String.eqb p "object" then acc else dset acc p "object")
            ps (d ++ obj_rows seen)
  = d ++ obj_rows (seen ++ dedup (filter (fun p => negb (str_in p (map fst d)) && negb (String.eqb p "object")) ps) seen).
Proof.
  induction ps as [|p ps IH]; intros seen; simpl.
  - rewrite app_nil_r. reflexivity.
  - assert (Hmem : dmem (d ++ obj_rows seen) p = str_in p (map fst d) || str_in p seen).
    { rewrite dmem_str_in, dkeys_app, str_in_app. f_equal. unfold dkeys, obj_rows. rewrite map_map. simpl.
      rewrite map_id. reflexivity. }
    rewrite Hmem.
    destruct (str_in p (map fst d)) eqn:Ed; simpl.
    + apply IH.
    + destruct (String.eqb p "object") eqn:Eo; simpl.
      * rewrite orb_true_r. apply IH.
      * rewrite orb_false_r. destruct (str_in p seen) eqn:Es.
        -- apply IH.
        -- rewrite dset_fresh.
           ++ rewrite <- app_assoc. change [(p, "object")] with (obj_rows [p]).
              unfold obj_rows at 1 2. rewrite <- map_app. fold (obj_rows (seen ++ [p])).
              rewrite IH. rewrite <- app_assoc. reflexivity.
           ++ apply dmem_false_dget. rewrite Hmem. reflexivity.
Qed.

Lemma add_parent_only_spec (d : typetable) : add_parent_only d = d ++ obj_rows (parent_only d).
Proof.
  unfold add_parent_only, parent_only, dvalues.
  pose proof (add_parent_only_aux d (map snd d) []) as H. simpl in H. rewrite app_nil_r in H. exact H.
Qed.

(* ---------- (:types ...) ---------- *)
Lemma parse_types_spec toks tt rows :
  parse_types toks = Ok tt -> read_types toks = Some rows -> tt = type_rows rows.
Proof.
  unfold parse_types, read_types, read_typed. intros H Hr.
  destruct (collect_decls toks [] []) as [[d trailing]|k] eqn:Ec; [|discriminate].
  destruct (collect_decls_spec _ toks [] [] d trailing (le_n _) Ec) as (names & rows' & Hn & Hr' & Hfin).
  rewrite Hn in Hr. rewrite Hr' in Hr. injection Hr as ->.
  rewrite Hfin in H. fold (dict_of rows) in H.
  destruct (forallb _ _); [|discriminate]. injection H as <-.
  unfold type_rows. rewrite add_parent_only_spec. reflexivity.
Qed.

Lemma parse_types_readable toks tt : parse_types toks = Ok tt -> exists rows, read_types toks = Some rows.
Proof.
  unfold parse_types, read_types, read_typed. intros H.
  destruct (collect_decls toks [] []) as [[d trailing]|k] eqn:Ec; [|discriminate].
  destruct (collect_decls_spec _ toks [] [] d trailing (le_n _) Ec) as (names & rows' & Hn & Hr' & Hfin).
  exists rows'. rewrite Hn. exact Hr'.
Qed.

(* ---------- (:predicates ...) and (:functions ...) ---------- *)
Lemma parse_predicate_spec tt e n sg :
  parse_predicate tt e = Ok (n, sg) ->
  exists rows, read_decl e = Some (n, rows) /\ sg = dict_of rows.
Proof.
  destruct e as [s|[|[h|sub] params]]; simpl; try discriminate.
  intros H. destruct (parse_signature tt params) as [sg'|k] eqn:Es; simpl in H; [|discriminate].
  injection H as <- <-. destruct (parse_signature_spec tt params sg' Es) as (rows & Hr & ->).
  exists rows. rewrite Hr. split; reflexivity.
Qed.

Lemma parse_function_spec tt e n sg :
  parse_function tt e = Ok (n, sg) ->
  exists rows, read_decl e = Some (n, rows) /\ sg = dict_of rows.
Proof.
  destruct e as [s|[|[h|sub] params]]; simpl; try discriminate.
  intros H. destruct (negb _); [discriminate|].
  destruct (parse_signature tt params) as [sg'|k] eqn:Es; simpl in H; [|discriminate].
  injection H as <- <-. destruct (parse_signature_spec tt params sg' Es) as (rows & Hr & ->).
  exists rows. rewrite Hr. split; reflexivity.
Qed.

Lemma all_some_cons {A} (x : option A) r :
  all_some (x :: r) = match x with
                      | Some a => match all_some r with Some xs => Some (a :: xs) | None => None end
                      | None => None end.
Proof. destruct x; reflexivity. Qed.

(* unfolding of parse_predicates on one element that is not the ':private' group *)
Lemma parse_predicates_cons_other tt h params rest acc :
  h <> ":private" ->
  parse_predicates tt (SList (Atom h :: params) :: rest) acc =
  (do ns <- parse_predicate tt (SList (Atom h :: params));
   parse_predicates tt rest (dset acc (fst ns) (snd ns))).
Proof.
  intros Hne. cbn [parse_predicates].
  repeat (destruct h as [|[[|] [|] [|] [|] [|] [|] [|] [|]] h]; try reflexivity).
  exfalso. apply Hne. reflexivity.
Qed.

(* no declaration is the ':private' group: each element of the section is one predicate *)
Lemma parse_predicates_spec tt : forall l acc r decls,
  parse_predicates tt l acc = Ok r ->
  all_some (map read_decl l) = Some decls ->
  ~ In ":private" (map fst decls) ->
  r = dupdate acc (map decl_row decls).
Proof.
  induction l as [|e rest IH]; intros acc r decls H Hd Hp.
  - simpl in H, Hd. injection H as <-. injection Hd as <-. reflexivity.
  - simpl map in Hd. rewrite all_some_cons in Hd.
    destruct (read_decl e) as [[n rows]|] eqn:Ee; [|discriminate].
    destruct (all_some (map read_decl rest)) as [ds|] eqn:Eds; [|discriminate]. injection Hd as <-.
    assert (Hnp : n <> ":private") by (intros ->; apply Hp; left; reflexivity).
    destruct e as [s|[|[h|sub] params]]; try discriminate.
    assert (Hh : h = n).
    { simpl in Ee. destruct (read_typed params); [|discriminate]. injection Ee as -> _. reflexivity. }
    subst h. rewrite parse_predicates_cons_other in H by exact Hnp.
    destruct (parse_predicate tt (SList (Atom n :: params))) as [[n' sg]|k] eqn:Epp; simpl in H; [|discriminate].
    destruct (parse_predicate_spec tt _ n' sg Epp) as (rows' & Hr' & ->).
    rewrite Ee in Hr'. injection Hr' as <- <-.
    simpl map. rewrite dupdate_cons. simpl fst. simpl snd.
    apply (IH _ r ds H eq_refl). intros Hin. apply Hp. right. exact Hin.
Qed.

Lemma parse_functions_spec tt : forall l acc r decls,
  foldM (fun acc f => do ns <- parse_function tt f; Ok (dset acc (fst ns) (snd ns))) l acc = Ok r ->
  all_some (map read_decl l) = Some decls ->
  r = dupdate acc (map decl_row decls).
Proof.
  induction l as [|e rest IH]; intros acc r decls H Hd.
  - simpl in H, Hd. injection H as <-. injection Hd as <-. reflexivity.
  - simpl map in Hd. rewrite all_some_cons in Hd.
    destruct (read_decl e) as [[n rows]|] eqn:Ee; [|discriminate].
    destruct (all_some (map read_decl rest)) as [ds|] eqn:Eds; [|discriminate]. injection Hd as <-.
    simpl in H. destruct (parse_function tt e) as [[n' sg]|k] eqn:Epf; simpl in H; [|discriminate].
    destruct (parse_function_spec tt _ n' sg Epf) as (rows' & Hr' & ->).
    rewrite Ee in Hr'. injection Hr' as <- <-.
    simpl map. rewrite dupdate_cons. simpl fst. simpl snd.
    apply (IH _ r ds H eq_refl).
Qed.
