(* C05: generic lemmas on association lists (Python dicts), the subtype walk, and result folds. *)
From Coq Require Import ZArith List Ascii String Bool Arith Lia PrimFloat FloatOps SpecFloat.
From Verif Require Import Base.Result Base.Str Base.Sexp Base.PyDict Base.Float
  Model.Types Model.Domain Model.NumExpr Model.Problem Spec.Pddl Spec.Grammar Spec.Problem.
Import ListNotations.
Open Scope string_scope.
Open Scope list_scope.

(* ---------- strings, lists ---------- *)
Lemma eqb_neq_false a b : a <> b -> String.eqb a b = false.
Proof. intros H. destruct (String.eqb a b) eqn:E; [apply String.eqb_eq in E; contradiction | reflexivity]. Qed.

Lemma strs_eqb_list_eqb a : forall b, strs_eqb a b = list_eqb String.eqb a b.
Proof. induction a as [|x xs IH]; intros [|y ys]; simpl; try reflexivity. rewrite IH. reflexivity. Qed.

Lemma strs_eqb_eq a : forall b, strs_eqb a b = true <-> a = b.
Proof.
  induction a as [|x xs IH]; intros [|y ys]; simpl; try (split; [discriminate | intros H; discriminate H]).
  - split; reflexivity.
  - rewrite andb_true_iff, String.eqb_eq, IH. split; [intros [-> ->]; reflexivity | intros H; injection H as -> ->; split; reflexivity].
Qed.

Lemma strs_eqb_refl a : strs_eqb a a = true.
Proof. apply strs_eqb_eq. reflexivity. Qed.

Lemma atom_eqb_eq (a b : atom) : atom_eqb a b = true <-> a = b.
Proof.
  destruct a as [p xs], b as [q ys]. unfold atom_eqb. simpl.
  rewrite andb_true_iff, String.eqb_eq, <- strs_eqb_list_eqb, strs_eqb_eq.
  split; [intros [-> ->]; reflexivity | intros H; injection H as -> ->; split; reflexivity].
Qed.

Lemma atom_eqb_refl a : atom_eqb a a = true.
Proof. apply atom_eqb_eq. reflexivity. Qed.

Lemma atom_eqb_sym a b : atom_eqb a b = atom_eqb b a.
Proof.
  destruct (atom_eqb a b) eqn:E.
  - apply atom_eqb_eq in E. subst. symmetry. apply atom_eqb_refl.
  - destruct (atom_eqb b a) eqn:E2; [|reflexivity]. apply atom_eqb_eq in E2. subst. rewrite atom_eqb_refl in E. discriminate.
Qed.

Lemma fkey_eqb_atom_eqb a b : fkey_eqb a b = atom_eqb a b.
Proof. unfold fkey_eqb, atom_eqb. rewrite strs_eqb_list_eqb. reflexivity. Qed.

Lemma has_dup_name_NoDup l : has_dup_name l = false <-> NoDup l.
Proof.
  induction l as [|x xs IH]; simpl.
  - split; [constructor | reflexivity].
  - rewrite orb_false_iff, IH. split.
    + intros [Hx Hnd]. constructor; [|exact Hnd]. intros Hin. apply str_in_In in Hin. congruence.
    + intros H. inversion H as [|? ? Hnx Hnd]; subst. split; [|exact Hnd].
      destruct (str_in x xs) eqn:E; [apply str_in_In in E; contradiction | reflexivity].
Qed.

Lemma str_in_false s l : str_in s l = false <-> ~ In s l.
Proof.
  split.
  - intros H Hin. apply str_in_In in Hin. congruence.
  - intros H. destruct (str_in s l) eqn:E; [apply str_in_In in E; contradiction | reflexivity].
Qed.

Lemma NoDup_snoc {A} (l : list A) x : NoDup l -> ~ In x l -> NoDup (l ++ [x]).
Proof.
  induction l as [|y ys IH]; intros Hnd Hx; simpl; [constructor; [intros []|constructor]|].
  inversion Hnd as [|? ? Hy Hnd']; subst. constructor.
  - intros Hin. apply in_app_or in Hin. destruct Hin as [Hin|[Hin|[]]]; [contradiction|]. subst. apply Hx. left. reflexivity.
  - apply IH; [exact Hnd'|]. intros Hin. apply Hx. right. exact Hin.
Qed.

(* ---------- dicts ---------- *)
Lemma dget_lookup {V} (d : list (string * V)) k : dget d k = lookup k d.
Proof. induction d as [|[k' v] r IH]; simpl; [reflexivity|]. rewrite IH. reflexivity. Qed.

Lemma alookup_lookup {V} (d : list (string * V)) k : alookup k d = lookup k d.
Proof. induction d as [|[k' v] r IH]; simpl; [reflexivity|]. rewrite IH. reflexivity. Qed.

Lemma dget_None_notin {V} (d : pydict V) k : dget d k = None <-> ~ In k (dkeys d).
Proof.
  induction d as [|[k' v] r IH]; simpl; [intuition|].
  destruct (String.eqb k k') eqn:E.
  - apply String.eqb_eq in E. subst. split; [discriminate | intros H; exfalso; apply H; left; reflexivity].
  - rewrite IH. split.
    + intros H [Hk|Hk]; [subst; rewrite String.eqb_refl in E; discriminate | contradiction].
    + intros H Hk. apply H. right. exact Hk.
Qed.

Lemma dmem_In {V} (d : pydict V) k : dmem d k = true <-> In k (dkeys d).
Proof.
  unfold dmem. destruct (dget d k) eqn:E.
  - split; [|reflexivity]. intros _. destruct (in_dec string_dec k (dkeys d)) as [H|H]; [exact H|].
    apply dget_None_notin in H. congruence.
  - split; [discriminate|]. intros H. apply dget_None_notin in E. contradiction.
Qed.

Lemma dset_fresh {V} (d : pydict V) k v : dget d k = None -> dset d k v = d ++ [(k, v)].
Proof.
  induction d as [|[k' v'] r IH]; simpl; [reflexivity|].
  destruct (String.eqb k k'); [discriminate|]. intros H. rewrite IH by exact H. reflexivity.
Qed.

Lemma dget_app {V} (a b : pydict V) k : dget (a ++ b) k = match dget a k with Some v => Some v | None => dget b k end.
Proof. induction a as [|[k' v] r IH]; simpl; [reflexivity|]. destruct (String.eqb k k'); [reflexivity|exact IH]. Qed.

Lemma dkeys_app {V} (a b : pydict V) : dkeys (a ++ b) = dkeys a ++ dkeys b.
Proof. unfold dkeys. apply map_app. Qed.

Lemma dkeys_dset_NoDup {V} (d : pydict V) k v : NoDup (dkeys d) -> NoDup (dkeys (dset d k v)).
Proof.
  intros Hnd. destruct (dget d k) eqn:E.
  - assert (Hk : dkeys (dset d k v) = dkeys d).
    { clear Hnd. revert E. induction d as [|[k' v'] r IH]; simpl; [discriminate|].
      destruct (String.eqb k k') eqn:E'; simpl; [reflexivity|]. intros H. rewrite IH by exact H. reflexivity. }
    rewrite Hk. exact Hnd.
  - rewrite dset_fresh by exact E. rewrite dkeys_app. simpl.
    apply NoDup_snoc; [exact Hnd|]. apply dget_None_notin. exact E.
Qed.

(* the add_typed fold on fresh, distinct names is an append *)
Lemma add_typed_fresh (names : list string) ty : forall acc,
  NoDup names -> (forall n, In n names -> ~ In n (dkeys acc)) ->
  add_typed names ty acc = acc ++ map (fun n => (n, ty)) names.
Proof.
  unfold add_typed. induction names as [|n ns IH]; intros acc Hnd Hfresh; simpl; [rewrite app_nil_r; reflexivity|].
  inversion Hnd as [|? ? Hn Hnd']; subst.
  rewrite dset_fresh by (apply dget_None_notin, Hfresh; left; reflexivity).
  rewrite IH; [rewrite <- app_assoc; reflexivity | exact Hnd' |].
  intros m Hm. rewrite dkeys_app. simpl. intros Hin. apply in_app_or in Hin. destruct Hin as [Hin|[Hin|[]]].
  - apply (Hfresh m); [right; exact Hm | exact Hin].
  - subst. contradiction.
Qed.

Lemma dupdate_fresh {V} (kvs : pydict V) : forall acc,
  NoDup (dkeys kvs) -> (forall n, In n (dkeys kvs) -> ~ In n (dkeys acc)) -> dupdate acc kvs = acc ++ kvs.
Proof.
  unfold dupdate. induction kvs as [|[k v] r IH]; intros acc Hnd Hfresh; simpl; [rewrite app_nil_r; reflexivity|].
  simpl in Hnd. inversion Hnd as [|? ? Hk Hnd']; subst.
  rewrite dset_fresh by (apply dget_None_notin, Hfresh; left; reflexivity).
  rewrite IH; [rewrite <- app_assoc; reflexivity | exact Hnd' |].
  intros m Hm. rewrite dkeys_app. simpl. intros Hin. apply in_app_or in Hin. destruct Hin as [Hin|[Hin|[]]].
  - apply (Hfresh m); [right; exact Hm | exact Hin].
  - subst. contradiction.
Qed.

(* {**objects, **constants}: a constant shadows an object of the same name *)
Lemma dget_dupdate {V} (kvs : pydict V) : forall d k, NoDup (dkeys kvs) ->
  dget (dupdate d kvs) k = match lookup k kvs with Some v => Some v | None => dget d k end.
Proof.
  unfold dupdate. induction kvs as [|[k' v'] r IH]; intros d k Hnd; simpl; [reflexivity|].
  simpl in Hnd. inversion Hnd as [|? ? Hk Hnd']; subst. rewrite IH by exact Hnd'.
  destruct (String.eqb k k') eqn:E.
  - apply String.eqb_eq in E. subst.
    assert (Hl : lookup k' r = None) by (rewrite <- dget_lookup; apply dget_None_notin; exact Hk).
    rewrite Hl. apply dget_dset_same.
  - destruct (lookup k r); [reflexivity|]. apply dget_dset_other. intros ->. rewrite String.eqb_refl in E. discriminate.
Qed.

(* ---------- the subtype walk of the model is the spec's ---------- *)
Lemma walk_ancestor fuel : forall d t target,
  match walk fuel d t target with Ok b => ancestor_walk fuel d t target = b | Err _ => ancestor_walk fuel d t target = false end.
Proof.
  induction fuel as [|f IH]; intros d t target; simpl.
  - destruct (String.eqb t target); reflexivity.
  - destruct (String.eqb t target); [reflexivity|].
    destruct (String.eqb t "object"); [reflexivity|].
    unfold name. rewrite <- (dget_lookup d t). destruct (dget d t); apply IH.
Qed.

Lemma is_sub_type_subtypeb d t target : is_sub_type d t target = subtypeb d t target.
Proof.
  unfold is_sub_type, subtypeb. pose proof (walk_ancestor (S (S (List.length d))) d t target) as H.
  destruct (walk (S (S (List.length d))) d t target); symmetry; exact H.
Qed.

(* ---------- results ---------- *)
(* [res_rel r o]: r returns exactly a when o = Some a, and raises when o = None *)
Definition res_rel {A} (r : result A) (o : option A) : Prop :=
  match o with Some a => r = Ok a | None => exists k, r = Err k end.

Lemma res_rel_ok {A} (r : result A) o a : res_rel r o -> r = Ok a -> o = Some a.
Proof. destruct o as [b|]; simpl; [intros -> H; injection H as ->; reflexivity | intros [k ->]; discriminate]. Qed.

Lemma res_rel_some {A} (r : result A) o a : res_rel r o -> o = Some a -> r = Ok a.
Proof. intros H ->. exact H. Qed.

Lemma res_rel_none {A} (r : result A) o : res_rel r o -> o = None -> forall a, r <> Ok a.
Proof. intros H -> a. destruct H as [k ->]. discriminate. Qed.

(* fold of a partial step function *)
Fixpoint fold_opt {A S} (f : S -> A -> option S) (l : list A) (s : S) : option S :=
  match l with
  | [] => Some s
  | x :: r => match f s x with Some s' => fold_opt f r s' | None => None end
  end.

Lemma foldM_res_rel {A B S} (P : S -> Prop) (f : S -> A -> result S) (g : S -> B -> option S)
      (items : list A) (its : list B) :
  (forall s x y, P s -> In (x, y) (combine items its) -> res_rel (f s x) (g s y)) ->
  (forall s y s', P s -> g s y = Some s' -> P s') ->
  List.length items = List.length its ->
  forall s, P s -> res_rel (foldM f items s) (fold_opt g its s).
Proof.
  intros Hstep Hinv. revert its Hstep. induction items as [|x xs IH]; intros [|y ys] Hstep Hlen s Hs; simpl in *; try discriminate.
  - reflexivity.
  - pose proof (Hstep s x y Hs (or_introl eq_refl)) as H1.
    destruct (g s y) as [s'|] eqn:E; simpl in H1.
    + rewrite H1. simpl. apply IH; [|lia|eapply Hinv; eassumption].
      intros s0 x0 y0 Hs0 Hin. apply Hstep; [exact Hs0 | right; exact Hin].
    + destruct H1 as [k ->]. exists k. reflexivity.
Qed.

Lemma all_some_length {A} (l : list (option A)) r : all_some l = Some r -> List.length l = List.length r.
Proof.
  revert r. induction l as [|[x|] xs IH]; intros r; simpl; [intros H; injection H as <-; reflexivity | | discriminate].
  destruct (all_some xs) eqn:E; [|discriminate]. intros H. injection H as <-. simpl. f_equal. apply IH. reflexivity.
Qed.

Lemma all_some_In {A B} (f : A -> option B) (l : list A) r x y :
  all_some (map f l) = Some r -> In (x, y) (combine l r) -> f x = Some y.
Proof.
  revert r. induction l as [|a l' IH]; intros r; simpl; [intros _ []|].
  destruct (f a) eqn:Ea; [|discriminate]. destruct (all_some (map f l')) eqn:E; [|discriminate].
  intros H. injection H as <-. simpl. intros [Hin|Hin].
  - injection Hin as <- <-. exact Ea.
  - eapply IH; [reflexivity | exact Hin].
Qed.

Lemma atom_names_map l names : atom_names l = Some names -> l = map Atom names.
Proof.
  unfold atom_names. revert names. induction l as [|x xs IH]; intros names; simpl.
  - intros H. injection H as <-. reflexivity.
  - destruct x as [s|]; simpl; [|discriminate].
    destruct (all_some (map atom_name xs)) eqn:E; [|discriminate].
    intros H. injection H as <-. simpl. f_equal. apply IH. reflexivity.
Qed.

Lemma atoms_of_map names : atoms_of (map Atom names) = Ok names.
Proof. induction names as [|x xs IH]; simpl; [reflexivity|]. rewrite IH. reflexivity. Qed.

Lemma all_atoms_map names : NumExpr.all_atoms (map Atom names) = Some names.
Proof. induction names as [|x xs IH]; simpl; [reflexivity|]. rewrite IH. reflexivity. Qed.

(* ---------- floats ---------- *)
Lemma sf_eqb_refl f : sf_eqb f f = true.
Proof.
  destruct f as [s|s| |s m e]; simpl; try reflexivity; try (destruct s; reflexivity).
  rewrite Pos.eqb_refl, Z.eqb_refl. destruct s; reflexivity.
Qed.
Lemma float_beq_refl x : float_beq x x = true.
Proof. apply sf_eqb_refl. Qed.
