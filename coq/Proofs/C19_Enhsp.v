(* C19, ENHSP half: reading a one-action-per-line file gives exactly the plan's steps. *)
From Coq Require Import List Ascii String Bool Arith Lia.
From Verif Require Import Base.Result Base.Str Model.PlannerLogs Spec.PlannerLogs Proofs.C19_FF.
Import ListNotations.
Open Scope list_scope.

Definition no_cr (t : text) : Prop := Forall (fun c => c <> CR) t.

Lemma univ_nl_app w r : no_cr w -> univ_nl (w ++ r) = w ++ univ_nl r.
Proof.
  induction 1 as [|c w Hc _ IH]; [reflexivity|]. cbn [app univ_nl].
  assert (E : Ascii.eqb c CR = false) by (apply Ascii.eqb_neq; exact Hc).
  rewrite E, IH. reflexivity.
Qed.

Definition canon_line (s : step) : text := LP :: join_sp s ++ [RP; LF].

Lemma step_body_no (x : ascii) s :
  (forall c, name_char c = true -> c <> x) -> SP <> x -> step_ok s -> Forall (fun c => c <> x) (join_sp s).
Proof.
  intros Hn Hsp Hs. apply join_sp_forall; [exact Hsp|]. apply step_words_forall; [exact Hn | exact Hs].
Qed.

Lemma univ_nl_render steps :
  Forall step_ok (map snd steps) ->
  univ_nl (render_enhsp steps) = flat_map (fun es => canon_line (snd es)) steps.
Proof.
  induction steps as [|[e s] steps IH]; intros H; [reflexivity|].
  cbn [map snd] in H. inversion H as [|? ? Hs Hrest]; subst. specialize (IH Hrest).
  unfold render_enhsp in *. cbn [flat_map]. unfold render_enhsp_step at 1, canon_line at 1. cbn [fst snd].
  assert (Hw : no_cr (LP :: join_sp s ++ [RP])).
  { constructor; [discriminate|]. apply Forall_app. split.
    - apply step_body_no; [intros c Hc; apply name_not_crlf; exact Hc | discriminate | exact Hs].
    - constructor; [discriminate|constructor]. }
  replace ((LP :: join_sp s ++ RP :: eol_of e) ++ flat_map render_enhsp_step steps)
    with ((LP :: join_sp s ++ [RP]) ++ eol_of e ++ flat_map render_enhsp_step steps)
    by (cbn [app]; rewrite <- !app_assoc; reflexivity).
  rewrite (univ_nl_app _ _ Hw).
  replace ((LP :: join_sp s ++ [RP; LF]) ++ flat_map (fun es => canon_line (snd es)) steps)
    with ((LP :: join_sp s ++ [RP]) ++ LF :: flat_map (fun es => canon_line (snd es)) steps)
    by (cbn [app]; rewrite <- !app_assoc; reflexivity).
  f_equal. rewrite <- IH.
  destruct e; cbn [eol_of app].
  - reflexivity.
  - reflexivity.
  - destruct steps as [|[e2 s2] steps]; reflexivity.
Qed.

Lemma readlines_line w rest cur :
  no_lf w -> readlines (w ++ LF :: rest) cur = (rev cur ++ w ++ [LF]) :: readlines rest [].
Proof.
  intros H. revert cur. induction H as [|c w Hc _ IH]; intros cur.
  - cbn [app readlines]. rewrite Ascii.eqb_refl. reflexivity.
  - cbn [app readlines]. rewrite (neq_lf_eqb' c Hc), IH. cbn [rev]. rewrite <- app_assoc. reflexivity.
Qed.

Lemma readlines_canon (ss : list step) :
  Forall step_ok ss -> readlines (flat_map canon_line ss) [] = map canon_line ss.
Proof.
  induction 1 as [|s ss Hs _ IH]; [reflexivity|].
  cbn [flat_map map]. unfold canon_line at 1.
  replace ((LP :: join_sp s ++ [RP; LF]) ++ flat_map canon_line ss)
    with ((LP :: join_sp s ++ [RP]) ++ LF :: flat_map canon_line ss)
    by (cbn [app]; rewrite <- !app_assoc; reflexivity).
  rewrite readlines_line.
  - rewrite IH. cbn [rev app]. unfold canon_line at 2. rewrite <- app_assoc. reflexivity.
  - constructor; [discriminate|]. apply Forall_app. split.
    + apply step_body_no; [intros c Hc; apply name_not_crlf; exact Hc | discriminate | exact Hs].
    + constructor; [discriminate|constructor].
Qed.

Lemma lower_canon s : lower_text (canon_line s) = expected_action s.
Proof.
  unfold canon_line, expected_action, lower_text. cbn [map]. rewrite map_app.
  fold (lower_text (join_sp s)). rewrite lower_join. reflexivity.
Qed.

Lemma flat_map_snd {A} (f : step -> list A) (steps : list (eolkind * step)) :
  flat_map (fun es => f (snd es)) steps = flat_map f (map snd steps).
Proof. induction steps as [|x l IH]; [reflexivity|]. cbn [flat_map map]. rewrite IH. reflexivity. Qed.

Theorem C19_enhsp_lemma : forall steps : list (eolkind * step),
  Forall step_ok (map snd steps) ->
  enhsp_parse_plan_content (render_enhsp steps) = map expected_action (map snd steps) /\
  enhsp_plan_file (render_enhsp steps) = List.concat (map expected_action (map snd steps)).
Proof.
  intros steps H.
  assert (E : enhsp_parse_plan_content (render_enhsp steps) = map expected_action (map snd steps)).
  { unfold enhsp_parse_plan_content. rewrite univ_nl_render by exact H.
    rewrite flat_map_snd, readlines_canon by exact H. rewrite map_map.
    apply map_ext. exact lower_canon. }
  split; [exact E|]. unfold enhsp_plan_file. rewrite E. reflexivity.
Qed.

Example C19_enhsp_hypotheses_satisfiable :
  Forall step_ok (map snd [(ECRLF, map s2t ["Move"; "a-1"; "B_2"]%string); (ECR, [s2t "noop"]); (ELF, map s2t ["x"; "7"]%string)]).
Proof. unfold step_ok, word_ok. cbn. repeat (split || constructor || discriminate). Qed.
