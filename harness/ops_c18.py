"""Implementation driver for C18: Action.change_signature on a generated domain, observed through the renamed
action's signature, its text (assembled from the library's own printing methods) and its behaviour (Operator)
next to the behaviour of the action as parsed."""
from pddl_plus_parser.lisp_parsers import DomainParser, ProblemParser
from pddl_plus_parser.models import Operator, State

from ops_core import exc, number_table, read_state_text, write_tmp


def cond_effect_text(ce):
    disc = " ".join(e.untyped_representation for e in ce.discrete_effects)
    nums = " ".join(e.to_pddl() for e in ce.numeric_effects)
    return "(when %s (and %s %s))" % (ce.antecedents.print(should_simplify=False), disc, nums)


def action_text(action):
    """one (:action ...) form; every piece is printed by the library (no simplification of numeric conditions)"""
    params = " ".join("%s - %s" % (n, t.name) for n, t in action.signature.items())
    pre = action.preconditions.print(should_simplify=False)
    disc = " ".join(e.untyped_representation for e in action.discrete_effects)
    nums = " ".join(e.to_pddl() for e in action.numeric_effects)
    conds = " ".join(cond_effect_text(ce) for ce in action.conditional_effects)
    univs = " ".join("(forall (%s - %s) %s)" % (ue.quantified_parameter, ue.quantified_type.name, cond_effect_text(ce))
                     for ue in action.universal_effects for ce in ue.conditional_effects)
    return "(:action %s :parameters (%s) :precondition %s :effect (and %s %s %s %s))" % (
        action.name, params, pre, disc, nums, conds, univs)


def rest_text(domain, skip):
    """everything of the domain that a renaming of the action `skip` must leave alone: the declared predicates and
    functions and the other actions, printed by the library (whitespace normalised)"""
    parts = ["(:predicates"] + [str(p) for p in domain.predicates.values()] + [")", "(:functions"] + \
        [str(f) for f in domain.functions.values()] + [")"] + \
        [action_text(a) for n, a in domain.actions.items() if n != skip]
    return " ".join(" ".join(parts).split())


def behaviour(domain, action, problem_text, args):
    ppath = write_tmp(problem_text, ".pddl")
    r = {}
    try:
        try:
            problem = ProblemParser(ppath, domain).parse_problem()
        except Exception as e:  # noqa
            return {"problem_raised": exc(e)}

        def fresh_state():
            return State({k: set(v) for k, v in problem.initial_state_predicates.items()},
                         {k: v.copy() for k, v in problem.initial_state_fluents.items()}, is_init=True)
        try:
            op = Operator(action, domain, list(args), problem.objects)
            r["app"] = {"value": bool(op.is_applicable(fresh_state()))}
        except Exception as e:  # noqa
            r["app"] = exc(e)
        try:
            op = Operator(action, domain, list(args), problem.objects)
            nxt = op.apply(fresh_state())
            r["succ"] = {"value": read_state_text(nxt.serialize())}
        except Exception as e:  # noqa
            r["succ"] = exc(e)
        return r
    finally:
        ppath.unlink()


def rename(job):
    """job: domain_text, action, mapping [[old, new]...] (dict insertion order), more [mapping...] (further calls on the
    same action, one after another), probes [{args, problem_text}]"""
    out = {}
    dpath = write_tmp(job["domain_text"], ".pddl")
    try:
        try:
            d0 = DomainParser(dpath).parse_domain()
            d1 = DomainParser(dpath).parse_domain()
        except Exception as e:  # noqa
            return {"parse_raised": exc(e), "nums": number_table(job["domain_text"])}
    finally:
        dpath.unlink()
    a0 = d0.actions[job["action"]]
    a1 = d1.actions[job["action"]]
    texts = [job["domain_text"]]
    out["print0"] = action_text(a1)
    texts.append(out["print0"])
    out["rest0"] = rest_text(d1, job["action"])
    mapping = {}
    for old, new in job["mapping"]:
        mapping[old] = new
    given = dict(mapping)
    try:
        a1.change_signature(mapping)
        for further in job.get("more", []):
            a1.change_signature({old: new for old, new in further})
        out["renamed"] = {"value": True}
    except Exception as e:  # noqa
        out["renamed"] = exc(e)
    out["mapping_untouched"] = (mapping == given and list(mapping) == list(given))
    out["sig"] = [[n, t.name] for n, t in a1.signature.items()]
    try:
        out["print1"] = {"value": action_text(a1)}
        texts.append(out["print1"]["value"])
    except Exception as e:  # noqa
        out["print1"] = exc(e)
    try:
        out["rest1"] = {"value": rest_text(d1, job["action"])}
    except Exception as e:  # noqa
        out["rest1"] = exc(e)
    out["nums"] = {}
    for t in texts:
        out["nums"].update(number_table(t))
    probes = []
    for pr in job["probes"]:
        b0 = behaviour(d0, a0, pr["problem_text"], pr["args"])
        b1 = behaviour(d1, a1, pr["problem_text"], pr["args"]) if "value" in out["renamed"] else {}
        probes.append({"orig": b0, "ren": b1})
    out["probes"] = probes
    # the renamed action must still be the one registered in its domain, and the other actions untouched
    out["same_object"] = d1.actions[job["action"]] is a1
    return out


# ---------------------------------------------------------------- the repository's own domains
def _bound_names(pre):
    out = []
    for op in getattr(pre, "operands", []):
        if hasattr(op, "quantified_parameter"):
            out.append(op.quantified_parameter)
        if hasattr(op, "operands"):
            out += _bound_names(op)
    return out


def _candidates(domain, objects, facts, rnd, action, n):
    """argument tuples likely to be applicable: unify positive precondition literals with facts (an input generator only)"""
    from pddl_plus_parser.models import Predicate
    universe = list(objects.items()) + list(domain.constants.items())
    params = list(action.signature.items())
    pools = {p: [name for name, o in universe if o.type.is_sub_type(t)] for p, t in params}
    if params and not all(pools.values()):
        return []
    lits = [c for c in action.preconditions.root.operands if isinstance(c, Predicate) and c.is_positive]
    out = []
    for _ in range(4 * n):
        binding = {}
        order = list(lits)
        rnd.shuffle(order)
        for lit in order:
            rows = [r for r in facts.get(lit.name, []) if len(r) == len(lit.signature) and
                    all(binding.get(p, v) == v for p, v in zip(lit.signature, r) if p in pools)]
            if rows and rnd.random() < 0.85:
                row = rnd.choice(rows)
                for p, v in zip(lit.signature, row):
                    if p in pools:
                        binding[p] = v
        args = [binding.get(p) or rnd.choice(pools[p]) for p, _ in params]
        if args not in out:
            out.append(args)
        if len(out) >= n:
            break
    return out


def fixture_info(job):
    """job: domain (path), problem (path or None), seed, calls -> what the harness needs to build renaming cases"""
    import random
    from pathlib import Path
    rnd = random.Random(job["seed"])
    domain = DomainParser(Path(job["domain"])).parse_domain()
    out = {"domain_text": open(job["domain"]).read(), "domain_name": domain.name,
           "consts": list(domain.constants), "actions": {}, "objects": [], "states": [], "calls": {}}
    for name, a in domain.actions.items():
        bound = _bound_names(a.preconditions.root)
        for ce in a.conditional_effects:
            bound += _bound_names(ce.antecedents.root)
        for ue in a.universal_effects:
            bound.append(ue.quantified_parameter)
            for ce in ue.conditional_effects:
                bound += _bound_names(ce.antecedents.root)
        out["actions"][name] = {"params": [[p, t.name] for p, t in a.signature.items()], "bound": sorted(set(bound)),
                                "n_when": len(a.conditional_effects), "n_forall": len(a.universal_effects),
                                "text_len": len(action_text(a))}
    if job.get("problem"):
        problem = ProblemParser(Path(job["problem"]), domain).parse_problem()
        out["objects"] = [[n, o.type.name] for n, o in problem.objects.items()]
        state = State(problem.initial_state_predicates, problem.initial_state_fluents, is_init=True)
        for step in range(job.get("steps", 2)):
            st = read_state_text(state.serialize())
            facts = {}
            for p, args in st["facts"]:
                facts.setdefault(p, []).append(args)
            calls, applicable = {}, []
            for name, a in domain.actions.items():
                calls[name] = _candidates(domain, problem.objects, facts, rnd, a, job.get("calls", 3))
                for args in calls[name]:
                    try:
                        if Operator(a, domain, list(args), problem.objects).is_applicable(state):
                            applicable.append((name, args))
                    except Exception:  # noqa
                        pass
            out["states"].append({"state": st, "calls": calls})
            if not applicable:
                break
            name, args = rnd.choice(applicable)
            state = Operator(domain.actions[name], domain, list(args), problem.objects).apply(state)
    return out
