"""Implementation driver for C18: Action.change_signature on a generated domain, observed through the renamed
action's signature, its text (assembled from the library's own printing methods) and its behaviour (Operator)
next to the behaviour of the action as parsed."""
from pddl_plus_parser.lisp_parsers import DomainParser, ProblemParser
from pddl_plus_parser.models import Operator, State

from ops_core import exc, number_table, read_state_text, write_tmp


def cond_effect_text(ce):
    disc = " ".join(e.untyped_representation for e in ce.discrete_effects)
    nums = " ".join(e.to_pddl() for e in ce.numeric_effects)
    return "(when %s (and %s %s))" % (ce.antecedents.print(should_simplify=False), disc, nums)


def action_text(action):
    """one (:action ...) form; every piece is printed by the library (no simplification of numeric conditions)"""
    params = " ".join("%s - %s" % (n, t.name) for n, t in action.signature.items())
    pre = action.preconditions.print(should_simplify=False)
    disc = " ".join(e.untyped_representation for e in action.discrete_effects)
    nums = " ".join(e.to_pddl() for e in action.numeric_effects)
    conds = " ".join(cond_effect_text(ce) for ce in action.conditional_effects)
    univs = " ".join("(forall (%s - %s) %s)" % (ue.quantified_parameter, ue.quantified_type.name, cond_effect_text(ce))
                     for ue in action.universal_effects for ce in ue.conditional_effects)
    return "(:action %s :parameters (%s) :precondition %s :effect (and %s %s %s %s))" % (
        action.name, params, pre, disc, nums, conds, univs)


def behaviour(domain, action, problem_text, args):
    ppath = write_tmp(problem_text, ".pddl")
    r = {}
    try:
        try:
            problem = ProblemParser(ppath, domain).parse_problem()
        except Exception as e:  # noqa
            return {"problem_raised": exc(e)}

        def fresh_state():
            return State({k: set(v) for k, v in problem.initial_state_predicates.items()},
                         {k: v.copy() for k, v in problem.initial_state_fluents.items()}, is_init=True)
        try:
            op = Operator(action, domain, list(args), problem.objects)
            r["app"] = {"value": bool(op.is_applicable(fresh_state()))}
        except Exception as e:  # noqa
            r["app"] = exc(e)
        try:
            op = Operator(action, domain, list(args), problem.objects)
            nxt = op.apply(fresh_state())
            r["succ"] = {"value": read_state_text(nxt.serialize())}
        except Exception as e:  # noqa
            r["succ"] = exc(e)
        return r
    finally:
        ppath.unlink()


def rename(job):
    """job: domain_text, action, mapping [[old, new]...] (dict insertion order), probes [{args, problem_text}]"""
    out = {}
    dpath = write_tmp(job["domain_text"], ".pddl")
    try:
        try:
            d0 = DomainParser(dpath).parse_domain()
            d1 = DomainParser(dpath).parse_domain()
        except Exception as e:  # noqa
            return {"parse_raised": exc(e), "nums": number_table(job["domain_text"])}
    finally:
        dpath.unlink()
    a0 = d0.actions[job["action"]]
    a1 = d1.actions[job["action"]]
    texts = [job["domain_text"]]
    out["print0"] = action_text(a1)
    texts.append(out["print0"])
    mapping = {}
    for old, new in job["mapping"]:
        mapping[old] = new
    given = dict(mapping)
    try:
        a1.change_signature(mapping)
        out["renamed"] = {"value": True}
    except Exception as e:  # noqa
        out["renamed"] = exc(e)
    out["mapping_untouched"] = (mapping == given and list(mapping) == list(given))
    out["sig"] = [[n, t.name] for n, t in a1.signature.items()]
    try:
        out["print1"] = {"value": action_text(a1)}
        texts.append(out["print1"]["value"])
    except Exception as e:  # noqa
        out["print1"] = exc(e)
    out["nums"] = {}
    for t in texts:
        out["nums"].update(number_table(t))
    probes = []
    for pr in job["probes"]:
        b0 = behaviour(d0, a0, pr["problem_text"], pr["args"])
        b1 = behaviour(d1, a1, pr["problem_text"], pr["args"]) if "value" in out["renamed"] else {}
        probes.append({"orig": b0, "ren": b1})
    out["probes"] = probes
    # the renamed action must still be the one registered in its domain, and the other actions untouched
    out["same_object"] = d1.actions[job["action"]] is a1
    return out
