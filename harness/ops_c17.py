"""Implementation drivers for C17 (MultiAgentDomainsConverter / MultiAgentProblemsConverter).

One job = one directory of per-agent files + one discovery order (the real one of the file system, or
a forced one) + the dummy-actions flag.  The op writes the files, parses every per-agent file on its
own (the *vocabulary dumps* handed to the Coq model), calls the converters, dumps the combined objects,
exports them, re-parses the exported files, and watches `Domain().types`, `DEFAULT_TYPES` and unrelated
domains parsed before the call.

Dump format (all texts whitespace-normalised, printable ASCII):
  domain : name | None, reqs [..], types/consts/preds/funcs/acts [[key, entry text]...] in dict order
  problem: name, objs [[k, type]], facts [[lifted key, sorted untyped facts]], fluents [[k, text]],
           goals [typed literal text...], ngoals [pddl text...]
"""
import os
import shutil
from pathlib import Path
from unittest import mock

from pddl_plus_parser.exporters import DomainExporter, ProblemExporter  # noqa: F401
from pddl_plus_parser.lisp_parsers import DomainParser, ProblemParser
from pddl_plus_parser.models import Domain
from pddl_plus_parser.models import pddl_domain as pddl_domain_module
from pddl_plus_parser.multi_agent import MultiAgentDomainsConverter, MultiAgentProblemsConverter

from ops_core import number_table, vocab as core_vocab  # shared helpers of the semantic core (read-only use)
from ops_c05 import problem_dump as c05_problem_dump, vocab as c05_vocab  # C05/C09's dump format (read-only use)
from ops_c09 import values_of as c09_values_of

WORK = Path(os.environ.get("VERIF_WORK", "/verif/work")) / "C17"


def ws(s):
    return " ".join(str(s).split())


def chain(t):
    """names of the ancestors of a type, nearest first; consecutive repetitions collapsed (the parser
    turns `x - object` into x -> object' -> object, a bare `x` into x -> object)"""
    out, seen = [], 0
    p = t.parent
    while p is not None and seen < 64:
        if not out or out[-1] != p.name:
            out.append(p.name)
        p = p.parent
        seen += 1
    return " ".join(out)


def action_text(a):
    try:
        pre = a.preconditions.print(should_simplify=False)
    except Exception as e:  # noqa
        pre = "<pre %s>" % type(e).__name__
    eff = sorted(e.untyped_representation for e in a.discrete_effects)
    num = sorted(e.to_pddl() for e in a.numeric_effects)
    cond = sorted(" ".join(sorted(str(c).split())) for c in a.conditional_effects)
    univ = sorted(" ".join(sorted(str(u).split())) for u in a.universal_effects)
    txt = "%s :pre %s :eff %s" % (str(a), pre, " ".join(eff + num))
    if cond or univ:
        txt += " :cond %s :univ %s" % (" ".join(cond), " ".join(univ))
    return ws(txt)


def dump_domain(d):
    return {
        "name": getattr(d, "name", None),
        "reqs": [ws(r) for r in d.requirements],
        "types": [[k, chain(v)] for k, v in d.types.items()],
        "consts": [[k, ws(v.type.name)] for k, v in d.constants.items()],
        "preds": [[k, ws(str(v))] for k, v in d.predicates.items()],
        "funcs": [[k, ws(str(v))] for k, v in d.functions.items()],
        "acts": [[k, action_text(v)] for k, v in d.actions.items()],
        # the subtype relation as the library answers it: type -> the types of this domain it is a subtype of
        "sub": [[k, " ".join(b for b, w in d.types.items() if v.is_sub_type(w))] for k, v in d.types.items()],
    }


def ngoal_text(g):
    """PDDL text of a numeric goal (numbers rounded as the exporter prints them) followed by the exact
    constants, so that goals differing beyond the printed digits stay different"""
    consts = []
    for node in g:
        if node.is_leaf and not hasattr(node.value, "untyped_representation"):
            try:
                v = float(node.value)
                # an integral constant is the integer it denotes: -0.0, 0, 0.0 are one number (and one goal)
                consts.append(float(int(v)).hex() if v.is_integer() else v.hex())
            except (TypeError, ValueError, OverflowError):
                consts.append(str(node.value))
    return ws(g.to_pddl()) + (" #" + ",".join(consts) if consts else "")


def dump_problem(p):
    return {
        "name": p.name,
        "objs": [[k, ws(v.type.name)] for k, v in p.objects.items()],
        "facts": [[ws(k), sorted(ws(g.untyped_representation) for g in v)]
                  for k, v in p.initial_state_predicates.items()],
        "fluents": [[ws(k), "%s #%s" % (ws(v.state_representation), float(v.value).hex())]
                    for k, v in p.initial_state_fluents.items()],
        # goal literals and numeric goals are sets (iterated in hash order): listed in text order, repetitions kept
        "goals": sorted(ws(str(g)) for g in p.goal_state_predicates),
        "ngoals": sorted(ngoal_text(g) for g in p.goal_state_fluents),
    }


def subtype_table(d, library=True):
    """the subtype relation on every ordered pair of the domain's types: as PDDLType.is_sub_type answers, or
    (library=False) read off the parent pointers of this very domain by our own walk"""
    names = list(d.types)

    def walk(a, b):
        t, steps = d.types[a], 0
        while t is not None and steps < 64:
            if t.name == b:
                return True
            t, steps = t.parent, steps + 1
        return False
    return ["%s<=%s" % (a, b) for a in names for b in names
            if (d.types[a].is_sub_type(d.types[b]) if library else walk(a, b))]


def digest(d, library=True):
    """digest of everything dump_domain shows of a Domain object plus its subtype relation"""
    import hashlib
    import json
    return hashlib.sha1(json.dumps([dump_domain(d), subtype_table(d, library)], sort_keys=True).encode()).hexdigest()[:16]


def canon_domain(d):
    # the sections the property names (name and requirements are not among them)
    return {s: sorted(map(tuple, d[s])) for s in ("types", "consts", "preds", "funcs", "acts")}


def canon_problem(p):
    return {"objs": sorted(map(tuple, p["objs"])),
            "facts": sorted(f for _, fs in p["facts"] for f in fs),
            "fluents": sorted(map(tuple, p["fluents"])),
            "goals": sorted(p["goals"]), "ngoals": sorted(p["ngoals"])}


def attempt(fn):
    try:
        return {"ok": fn()}
    except Exception as e:  # noqa
        return {"raised": type(e).__name__, "msg": str(e)[:200]}


class forced_glob:
    """Makes Path.glob return the real matches in a prescribed order of file names (the order in which
    a directory is enumerated belongs to the file system, not to the library)."""

    def __init__(self, order):
        self.order = order
        self.real = Path.glob

    def __enter__(self):
        order, real = self.order, self.real
        if order is None:
            return self

        def fake(self_path, pattern, *a, **kw):
            found = list(real(self_path, pattern, *a, **kw))
            rank = {n: i for i, n in enumerate(order)}
            if all(f.name in rank for f in found):
                found.sort(key=lambda f: rank[f.name])
            return iter(found)
        self.patch = mock.patch.object(Path, "glob", fake)
        self.patch.start()
        return self

    def __exit__(self, *exc):
        if self.order is not None:
            self.patch.stop()
        return False


def default_state():
    return {"DEFAULT_TYPES": [[k, chain(v)] for k, v in pddl_domain_module.DEFAULT_TYPES.items()],
            "fresh": [[k, chain(v)] for k, v in Domain().types.items()]}


def combine(job):
    """job: case (directory name), dfiles {name: text}, pfiles {name: text}, dorder/porder (list of names
    or None = real discovery order), dummy (bool), others {name: text} unrelated domains,
    original_domain / original_problem (texts or None), domain_path (fixture path relative to the
    repository used for the problems, or None = the exported combination), prefix."""
    cdir = WORK / "dirs" / job["case"]
    if cdir.exists():
        shutil.rmtree(cdir)
    (cdir / "out").mkdir(parents=True)
    (cdir / "aux").mkdir()
    for name, text in list(job["dfiles"].items()) + list(job["pfiles"].items()):
        (cdir / name).write_text(text)
    res = {}
    # ---- history before the call: unrelated domains (typed, untyped, one sharing type names with the agents' files)
    others = {}
    for name, text in job.get("others", {}).items():
        f = cdir / "aux" / name
        f.write_text(text)
        others[name] = DomainParser(f, partial_parsing=False).parse_domain()
    onames = sorted(others)

    def parse_others_again():
        out = []
        for name in onames:
            r = attempt(lambda name=name: digest(DomainParser(cdir / "aux" / name, partial_parsing=False).parse_domain()))
            out.append([name, r.get("ok", "raised %s" % r.get("raised"))])
        return out
    # the reference: the digest with the subtype relation read off the domain's own parent pointers (what the
    # library must answer whatever else this process has parsed or combined before)
    res["others_expected"] = [[n, digest(others[n], library=False)] for n in onames]
    res["others_before"] = [[n, digest(others[n])] for n in onames]
    res["default_before"] = default_state()
    # ---- per-file vocabulary dumps (what the model is given)
    real_dorder = [p.name for p in cdir.glob("domain-*.pddl")]
    dorder = job.get("dorder") or real_dorder
    res["real_dorder"], res["dorder"] = real_dorder, dorder
    res["dfiles"] = [attempt(lambda n=n: dump_domain(DomainParser(
        domain_path=cdir / n, partial_parsing=False, enable_disjunctions=True).parse_domain())) for n in dorder]
    if job.get("original_domain"):
        f = cdir / "aux" / "original_domain.pddl"
        f.write_text(job["original_domain"])
        res["dexpect"] = attempt(lambda: dump_domain(DomainParser(
            domain_path=f, partial_parsing=False, enable_disjunctions=True).parse_domain()))
    # ---- the call
    conv = MultiAgentDomainsConverter(cdir)
    structured = {}

    def locate():
        d = conv.locate_domains(add_dummy_actions=job["dummy"])
        structured["vocab"] = core_vocab(d)
        return dump_domain(d)
    with forced_glob(job.get("dorder")):
        res["dobs"] = attempt(locate)
    res["default_after"] = default_state()
    # the domains parsed before are untouched, parsing them again now gives the same
    res["others_mid"] = [[n, digest(others[n])] for n in onames]
    res["others_again_mid"] = parse_others_again()
    # ---- export with the real DomainExporter, re-parse with the real parser
    exported = None

    def export_reparse(flag, folder, keep_vocab):
        """(exported path | None, {"ok": file name} | raised, re-parsed dump | raised | None)"""
        def export():
            with forced_glob(job.get("dorder")):
                return conv.export_combined_domain(add_dummy_actions=flag, output_folder=folder)
        r = attempt(export)
        if "ok" not in r:
            return None, r, None

        def reparse():
            d = DomainParser(domain_path=r["ok"], partial_parsing=False, enable_disjunctions=True).parse_domain()
            if keep_vocab:
                structured["rt_vocab"] = core_vocab(d)
            return dump_domain(d)
        return r["ok"], {"ok": r["ok"].name}, attempt(reparse)
    if "ok" in res["dobs"]:
        exported, res["dexport"], drt = export_reparse(job["dummy"], cdir / "out", True)
        if drt is not None:
            res["drt"] = drt
            if "ok" in drt:
                res["drt_same"] = canon_domain(drt["ok"]) == canon_domain(res["dobs"]["ok"])
    # ---- the same with the other setting of add_dummy_actions
    (cdir / "out2").mkdir()
    if job.get("alt"):
        with forced_glob(job.get("dorder")):
            res["dobs2"] = attempt(lambda: dump_domain(conv.locate_domains(add_dummy_actions=not job["dummy"])))
    if "ok" in res.get("dobs2", {}):
        _, res["dexport2"], drt2 = export_reparse(not job["dummy"], cdir / "out2", False)
        if drt2 is not None:
            res["drt2"] = drt2
    if job.get("structured"):
        # what the structured correspondence (Corr/C17s.v) needs: the texts, float() of their numerals and of the
        # exported text's, the printing precisions, the two vocabularies
        import pddl_plus_parser.models.numerical_expression as ne
        import pddl_plus_parser.models.pddl_precondition as pp
        nums = {}
        for n in dorder:
            nums.update(number_table(job["dfiles"][n]))
        if exported is not None:
            nums.update(number_table(exported.read_text()))
        structured.update({"nums": nums, "dpre": pp.DEFAULT_DECIMAL_DIGITS, "deff": ne.DEFAULT_DIGITS})
        res["structured"] = structured
    # ---- problems
    dpath = None
    if job.get("domain_path"):
        dpath = Path(os.environ.get("PYTHONPATH", "/repo").split(":")[0]) / job["domain_path"]
    elif exported is not None:
        dpath = exported
    if job["pfiles"] and dpath is not None:
        prefix = job.get("prefix", "problem")
        real_porder = [p.name for p in cdir.glob("%s-*.pddl" % prefix)]
        porder = job.get("porder") or real_porder
        res["real_porder"], res["porder"] = real_porder, porder

        def parse_problem(path):
            dom = DomainParser(domain_path=dpath, partial_parsing=False).parse_domain()
            return dump_problem(ProblemParser(problem_path=path, domain=dom).parse_problem())
        res["pfiles"] = [attempt(lambda n=n: parse_problem(cdir / n)) for n in porder]
        if job.get("original_problem"):
            f = cdir / "aux" / "original_problem.pddl"
            f.write_text(job["original_problem"])
            res["pexpect"] = attempt(lambda: parse_problem(f))
        pconv = MultiAgentProblemsConverter(cdir, problem_file_prefix=prefix)
        pstruct = {}

        def pcombine():
            pb = pconv.combine_problems(dpath)
            if job.get("structured"):
                pstruct["obs"] = c05_problem_dump(pb)
            return dump_problem(pb)
        with forced_glob(job.get("porder")):
            res["pobs"] = attempt(pcombine)
        if "ok" in res["pobs"]:
            def pexport():
                with forced_glob(job.get("porder")):
                    pconv.export_combined_problem(dpath)
                if job.get("structured"):
                    pstruct["export"] = (cdir / "combined_problem.pddl").read_text()
                dom = DomainParser(domain_path=dpath, partial_parsing=False).parse_domain()
                pb = ProblemParser(problem_path=cdir / "combined_problem.pddl", domain=dom).parse_problem()
                if job.get("structured"):
                    pstruct["rt"] = c05_problem_dump(pb)
                return dump_problem(pb)
            res["prt"] = attempt(pexport)
            if "ok" in res["prt"]:
                res["prt_same"] = canon_problem(res["prt"]["ok"]) == canon_problem(res["pobs"]["ok"])
        res["default_after_problems"] = default_state()
        if job.get("structured"):
            # what the structured problem correspondence (Corr/C17p.v) needs: the vocabulary of the domain the problems were
            # parsed against, the texts, float() of their numerals and of the exported text's, repr() of the values
            pstruct["vocab"] = c05_vocab(DomainParser(domain_path=dpath, partial_parsing=False).parse_domain())
            nums = {}
            for n in porder:
                nums.update(number_table(job["pfiles"][n]))
            nums.update(number_table(pstruct.get("export", "")))
            reprs = {}
            for key in ("obs", "rt"):
                if key in pstruct:
                    for x in c09_values_of(pstruct[key]):
                        reprs[x.hex()] = repr(x)
            pstruct.update({"nums": nums, "reprs": reprs})
            res["pstructured"] = pstruct
    # ---- history after the call: the domains parsed before are untouched, parsing them again gives the same
    res["others_after"] = [[n, digest(others[n])] for n in onames]
    res["others_again"] = parse_others_again()
    res["default_end"] = default_state()
    res["others_same"] = all(x == res["others_expected"] for x in (
        res["others_before"], res["others_mid"], res["others_again_mid"], res["others_after"], res["others_again"]))
    if not job.get("keep"):
        shutil.rmtree(cdir, ignore_errors=True)
    return res
