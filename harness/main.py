import copy
import hashlib
import importlib
import json
import os
import sys

from .common import parse_args, REPO, ROOT


def changed_sources():
    """Library source files whose content differs from source_fingerprint.json (the tree the models were fitted to)."""
    f = ROOT / "source_fingerprint.json"
    if not f.exists():
        return []
    rec = json.load(open(f))["files"]
    out = []
    for p in sorted((REPO / "pddl_plus_parser").rglob("*.py")):
        rel = str(p.relative_to(REPO))
        if rec.get(rel) != hashlib.sha256(p.read_bytes()).hexdigest():
            out.append(rel)
    out += [r for r in rec if not (REPO / r).exists()]
    return out


def main():
    args = parse_args(sys.argv[1:])
    mod = importlib.import_module("harness.props." + args.prop.lower())
    rc = mod.run(args)
    # The library's source differs from the tree the models were fitted to and the quick run found nothing: look again
    # with another seed (other generated inputs, another PYTHONHASHSEED) before answering.  Never on the unchanged tree.
    if rc == 0 and args.tier == "quick" and not getattr(args, "replay", None) and os.environ.get("VERIF_NO_ESCALATE") != "1":
        ch = changed_sources()
        if ch:
            sys.stderr.write("note: %d source file(s) differ from source_fingerprint.json (%s%s): second quick run with another seed\n"
                             % (len(ch), ", ".join(ch[:3]), " ..." if len(ch) > 3 else ""))
            args2 = copy.copy(args)
            args2.seed = args.seed + 7919
            os.environ["VERIF_ESCALATED"] = "1"
            rc = mod.run(args2)
    sys.exit(rc)


if __name__ == "__main__":
    main()
