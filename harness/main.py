import importlib
import sys

from .common import parse_args


def main():
    args = parse_args(sys.argv[1:])
    mod = importlib.import_module("harness.props." + args.prop.lower())
    sys.exit(mod.run(args))


if __name__ == "__main__":
    main()
