"""Precondition SHAPES for generated actions (used by the C03 and C04 drivers).

The library keeps the parts of a precondition in different places: literals / numeric comparisons / nested conditions /
quantified conditions are 'operands' of the root, object (in)equalities live in two separate sets.  A precondition that
consists of one kind only (only (in)equalities, only a forall, only a nested 'or', only comparisons, nothing at all)
exercises each place alone - e.g. "no operands" must not be read as "no precondition" (seeded change C04_C).

shape_preconditions(rng, w) rewrites the precondition of every action of a pddlgen.World; two parameters of type object
are appended to each action so that every shape can be violated by a type-correct call (the same object twice)."""
from . import pddlgen as G

SHAPES = ["neq-only", "eq-only", "eqs-only", "forall-only", "or-only", "cmp-only", "empty", "neq+forall", "neq+cmp",
          "or-of-eq-free-literals", "neq-bare"]


def _lit(rng, w, scope):
    a = G.gen_atom(rng, w, scope)
    if a is None:
        return None
    return a if rng.random() < 0.6 else ["not", a]


def _forall(rng, w, scope):
    ty = rng.choice(w.all_types())
    inner = scope + [("?q", ty)]
    items = [x for x in (_lit(rng, w, inner) for _ in range(rng.randint(1, 2))) if x]
    if not items:
        return None
    return ["forall", ["?q", "-", ty], [rng.choice(["and", "or"])] + items]


def shape_precondition(rng, w, a, shape):
    """returns the new precondition tree or None when the world's vocabulary cannot express the shape"""
    e0, e1 = a["params"][-2][0], a["params"][-1][0]
    scope = list(a["params"])
    neq = ["not", ["=", e0, e1]]
    eq = ["=", e0, e1]
    if shape == "neq-only":
        return ["and", neq]
    if shape == "neq-bare":
        return neq
    if shape == "eq-only":
        return ["and", eq]
    if shape == "eqs-only":
        others = [p for p, _ in a["params"][:-2]]
        third = rng.choice(others) if others else e0
        return ["and", neq, rng.choice([["=", third, e0], ["not", ["=", third, e1]]])]
    if shape == "forall-only":
        f = _forall(rng, w, scope)
        return None if f is None else ["and", f]
    if shape == "or-only":
        items = [x for x in (_lit(rng, w, scope) for _ in range(2)) if x]
        if not items:
            return None
        body = ["or"] + items
        return body if rng.random() < 0.3 else ["and", body]
    if shape == "or-of-eq-free-literals":
        items = [x for x in (_lit(rng, w, scope) for _ in range(2)) if x]
        if not items:
            return None
        return ["and", ["or"] + items, neq]
    if shape == "cmp-only":
        c = G.gen_cmp(rng, w, scope)
        return None if c is None else ["and", c]
    if shape == "empty":
        return ["and"] if rng.random() < 0.6 else []
    if shape == "neq+forall":
        f = _forall(rng, w, scope)
        return None if f is None else ["and", neq, f]
    if shape == "neq+cmp":
        c = G.gen_cmp(rng, w, scope)
        return None if c is None else ["and", c, neq]
    raise ValueError(shape)


def shape_preconditions(rng, w, shapes=None):
    """every action of w gets two more parameters (?e0 ?e1 - object) and a precondition of one shape"""
    used = []
    for a in w.actions:
        k = len(a["params"])
        a["params"] = list(a["params"]) + [("?e%d" % k, "object"), ("?e%d" % (k + 1), "object")]
        a["group"] = False
        for attempt in range(6):
            shape = rng.choice(shapes or SHAPES) if attempt < 3 else rng.choice(SHAPES)
            pre = shape_precondition(rng, w, a, shape)
            if pre is not None:
                a["pre"] = pre
                used.append(shape)
                w.features.add("guard:" + shape)
                break
        else:
            a["pre"] = ["and", ["not", ["=", a["params"][-2][0], a["params"][-1][0]]]]
            used.append("neq-only")
            w.features.add("guard:neq-only")
    return used
