"""Generators of small PDDL worlds (domain, objects, states, action calls) as token trees.

A tree is a nested list of strings.  Everything is derived from the random.Random instance passed in.
The vocabulary is deliberately tiny so that probes hit interesting truth values.
"""
import itertools
import random

DYADIC = [0.0, 0.5, 1.0, 2.0, 3.0, -1.0, 2.5, 4.0]
DOMAIN_NUMERALS = ["0", "1", "2", "3", "0.5", "2.5", "1.5", "4", "10", "0.25", "-1"]


def render(t, rng=None, noise=False):
    """token tree -> text (optionally with layout noise: case, newlines, comments)"""
    if isinstance(t, str):
        if noise and rng and rng.random() < 0.15 and not t.startswith("?"):
            return t.upper()
        return t
    parts = [render(x, rng, noise) for x in t]
    if noise and rng and rng.random() < 0.2:
        sep = rng.choice(["\n  ", "  ", "\t", " ; c\n "])
        return "(" + sep.join(parts) + ")"
    return "(" + " ".join(parts) + ")"


class World:
    """A generated domain with everything needed to build problems/states/calls."""

    def __init__(self):
        self.types = {}          # child -> parent (parents may be 'object')
        self.type_lines = []     # declaration groups [(children, parent)] in render order; parent None = trailing untyped
        self.consts = []         # [(name, type)]
        self.preds = []          # [(name, [(param, type)])]
        self.funcs = []          # [(name, [(param, type)])]
        self.actions = []        # [dict(name, params [(p,t)], pre tree, eff tree)]
        self.oof = False         # contains a construct outside the supported fragment
        self.oof_kind = None
        self.features = set()

    # ----- type helpers
    def ancestors(self, t):
        out = [t]
        while t != "object":
            t = self.types.get(t, "object")
            out.append(t)
        return out

    def is_sub(self, t, target):
        return target in self.ancestors(t)

    def all_types(self):
        return list(self.types) + ["object"]

    # ----- rendering
    def types_tokens(self):
        toks = []
        for children, parent in self.type_lines:
            toks += list(children)
            if parent is not None:
                toks += ["-", parent]
        return toks

    def domain_tree(self, name="dom"):
        d = ["define", ["domain", name], [":requirements", ":typing", ":negative-preconditions", ":equality",
                                           ":disjunctive-preconditions", ":universal-preconditions", ":fluents",
                                           ":conditional-effects"]]
        if self.type_lines:
            d.append([":types"] + self.types_tokens())
        if self.consts:
            c = [":constants"]
            for n, t in self.consts:
                c += [n, "-", t]
            d.append(c)
        d.append([":predicates"] + [[n] + typed(ps) for n, ps in self.preds])
        if self.funcs:
            d.append([":functions"] + [[n] + typed(ps) for n, ps in self.funcs])
        for a in self.actions:
            d.append([":action", a["name"], ":parameters", typed(a["params"], a.get("group", False)),
                      ":precondition", a["pre"], ":effect", a["eff"]])
        return d


def typed(params, group=False):
    out = []
    if group:
        # group consecutive parameters of the same type
        i = 0
        while i < len(params):
            j = i
            while j + 1 < len(params) and params[j + 1][1] == params[i][1]:
                j += 1
            out += [p for p, _ in params[i:j + 1]] + ["-", params[i][1]]
            i = j + 1
        return out
    for p, t in params:
        out += [p, "-", t]
    return out


# ------------------------------------------------------------------------------------------------
def gen_types(rng, w, max_types=4, shuffle=True):
    n = rng.randint(0, max_types)
    names = ["t%d" % i for i in range(n)]
    for i, t in enumerate(names):
        parent = rng.choice(["object"] + names[:i]) if i else "object"
        w.types[t] = parent
    # declaration lines: group children by parent, then permute / regroup
    by_parent = {}
    for c, p in w.types.items():
        by_parent.setdefault(p, []).append(c)
    lines = []
    for p, cs in by_parent.items():
        rng.shuffle(cs)
        if len(cs) > 1 and rng.random() < 0.4:
            k = rng.randint(1, len(cs) - 1)
            lines.append((cs[:k], p))
            lines.append((cs[k:], p))
        else:
            lines.append((cs, p))
    if shuffle:
        rng.shuffle(lines)
    # children of object may be written as trailing untyped names
    trailing = []
    if lines and rng.random() < 0.3:
        for i, (cs, p) in enumerate(lines):
            if p == "object":
                trailing = cs
                del lines[i]
                break
    w.type_lines = lines + ([(trailing, None)] if trailing else [])
    if any(p is not None and p != "object" and all(p not in cs for cs, _ in w.type_lines) for _, p in w.type_lines):
        w.features.add("parent-only-type")
    return w


def gen_vocab(rng, w):
    ts = w.all_types()
    for i in range(rng.randint(0, 2)):
        w.consts.append(("c%d" % i, rng.choice(ts)))
    npred = rng.randint(2, 4)
    for i in range(npred):
        ar = rng.choice([0, 1, 1, 2])
        w.preds.append(("p%d" % i, [("?a%d" % k, rng.choice(ts)) for k in range(ar)]))
    for i in range(rng.randint(0, 3)):
        ar = rng.choice([0, 1, 1])
        w.funcs.append(("f%d" % i, [("?a%d" % k, rng.choice(ts)) for k in range(ar)]))


def terms_for(rng, w, scope, ty, allow_consts=True):
    """names usable for a parameter of type ty: variables in scope / constants whose type conforms; fall back to any"""
    good = [v for v, t in scope if w.is_sub(t, ty)]
    if allow_consts:
        good += [c for c, t in w.consts if w.is_sub(t, ty)]
    return good


def gen_atom(rng, w, scope, distinct=True):
    cands = []
    for n, ps in w.preds:
        pools = [terms_for(rng, w, scope, t) for _, t in ps]
        if all(pools):
            cands.append((n, pools))
    if not cands:
        return None
    n, pools = rng.choice(cands)
    for _ in range(6):
        args = [rng.choice(p) for p in pools]
        if len(set(args)) == len(args):
            return [n] + args
    return None


def gen_fluent(rng, w, scope, must_include=None):
    cands = []
    for n, ps in w.funcs:
        pools = [terms_for(rng, w, scope, t) for _, t in ps]
        if all(pools):
            cands.append((n, pools))
    rng.shuffle(cands)
    for n, pools in cands:
        for _ in range(4):
            args = [rng.choice(p) for p in pools]
            if must_include and must_include not in args:
                continue
            return [n] + args
    return None


def gen_nexp(rng, w, scope, depth):
    if depth == 0 or rng.random() < 0.4:
        if rng.random() < 0.5:
            fl = gen_fluent(rng, w, scope)
            if fl:
                return fl
        return rng.choice(DOMAIN_NUMERALS)
    op = rng.choice(["+", "-", "*", "+", "-", "/"])
    a = gen_nexp(rng, w, scope, depth - 1)
    b = gen_nexp(rng, w, scope, depth - 1)
    if op == "/":
        b = rng.choice(["2", "4", "0.5"])     # never divide by something that can be zero
    return [op, a, b]


def gen_cmp(rng, w, scope):
    fl = gen_fluent(rng, w, scope)
    if fl is None:
        return None
    op = rng.choice(["<=", ">=", "<", ">", "="])
    rhs = gen_nexp(rng, w, scope, rng.randint(0, 2))
    w.features.add("cmp" + op)
    if op == "=":
        return ["=", fl, rhs]               # numeric equality needs the fluent first for the library
    if rng.random() < 0.3:
        return [op, gen_nexp(rng, w, scope, 1), fl] if not isinstance(rhs, list) else [op, fl, rhs]
    return [op, fl, rhs]


def gen_form(rng, w, scope, depth, params_only_vars, in_forall=False):
    """a condition node (conjunct)"""
    r = rng.random()
    if depth > 0 and r < 0.25:
        op = rng.choice(["and", "or", "or"])
        w.features.add("nested-" + op)
        return [op] + [x for x in (gen_form(rng, w, scope, depth - 1, params_only_vars, in_forall)
                                   for _ in range(rng.randint(1, 3))) if x]
    if depth > 0 and r < 0.35 and not in_forall and w.types:
        ty = rng.choice(w.all_types())
        v = "?q%d" % depth
        body_op = rng.choice(["and", "or"])
        body = [x for x in (gen_form(rng, w, scope + [(v, ty)], depth - 1, params_only_vars, True)
                            for _ in range(rng.randint(1, 2))) if x]
        w.features.add("forall-pre")
        return ["forall", [v, "-", ty], [body_op] + body]
    if r < 0.5:
        vs = [v for v, _ in scope]
        if len(vs) >= 2:
            a, b = rng.sample(vs, 2)
            if rng.random() < 0.5:
                w.features.add("eq")
                return ["=", a, b]
            w.features.add("neq")
            return ["not", ["=", a, b]]
    if r < 0.7:
        c = gen_cmp(rng, w, scope)
        if c:
            return c
    a = gen_atom(rng, w, scope)
    if a is None:
        return None
    if rng.random() < 0.35:
        w.features.add("neg-lit")
        return ["not", a]
    return a


def gen_precondition(rng, w, params, depth=2):
    n = rng.choice([0, 1, 2, 2, 3])
    items = [x for x in (gen_form(rng, w, list(params), depth, True) for _ in range(n)) if x]
    if not items and rng.random() < 0.3:
        return []                    # ':precondition ()'
    if len(items) == 1 and rng.random() < 0.3:
        it = items[0]
        # a body that is not a conjunction: single literal / not / or with one argument
        if it[0] == "not" or (it[0] not in ("and", "or", "forall", "=", "<=", ">=", "<", ">") and len(it) <= 2) \
                or (it[0] in ("or",) and len(it) == 2):
            w.features.add("non-and-body")
            return it
    return ["and"] + items


class EffectBudget:
    """keeps simultaneously firing effect groups consistent: a fluent name is written by one group only, and a
    predicate name is never added by one group and deleted by another."""

    def __init__(self):
        self.fn_owner = {}
        self.pred_pol = {}

    def can_write(self, fn, gid):
        return self.fn_owner.setdefault(fn, gid) == gid

    def can_touch(self, pred, positive, gid):
        pol = self.pred_pol.get(pred)
        if pol is None:
            self.pred_pol[pred] = (positive, {gid})
            return True
        if pol[0] == positive:
            pol[1].add(gid)
            return True
        return pol[1] == {gid} and gid == 0 and False


def gen_prims(rng, w, scope, budget, gid, quantified=None, n=None):
    out = []
    written = set()
    for _ in range(n if n is not None else rng.randint(1, 3)):
        if w.funcs and rng.random() < 0.4:
            fl = gen_fluent(rng, w, scope, must_include=quantified)
            if fl and budget.can_write(fl[0], gid) and tuple(fl) not in written:
                written.add(tuple(fl))
                k = rng.choice(["assign", "increase", "decrease"])
                w.features.add(k)
                out.append([k, fl, gen_nexp(rng, w, scope, rng.randint(0, 2))])
                continue
        a = gen_atom(rng, w, scope)
        if a is None:
            continue
        pos = rng.random() < 0.6
        if budget.can_touch(a[0], pos, gid):
            out.append(a if pos else ["not", a])
    return out


def gen_effect(rng, w, params):
    budget = EffectBudget()
    items = gen_prims(rng, w, list(params), budget, 0)
    gid = 1
    for _ in range(rng.choice([0, 0, 1, 1, 2])):
        cond_items = [x for x in (gen_form(rng, w, list(params), 1, True, in_forall=True) for _ in range(rng.randint(1, 2))) if x]
        if not cond_items:
            continue
        cond = cond_items[0] if len(cond_items) == 1 and rng.random() < 0.5 else ["and"] + cond_items
        prims = gen_prims(rng, w, list(params), budget, gid)
        gid += 1
        if not prims:
            continue
        res = prims[0] if len(prims) == 1 and rng.random() < 0.4 else ["and"] + prims
        w.features.add("when")
        items.append(["when", cond, res])
    if w.types or True:
        for _ in range(rng.choice([0, 0, 1])):
            ty = rng.choice(w.all_types())
            v = "?u"
            scope = list(params) + [(v, ty)]
            cond_items = [x for x in (gen_form(rng, w, scope, 1, True, in_forall=True) for _ in range(rng.randint(1, 2))) if x]
            if not cond_items:
                continue
            cond = cond_items[0] if len(cond_items) == 1 and rng.random() < 0.5 else ["and"] + cond_items
            prims = gen_prims(rng, w, scope, budget, gid, quantified=v)
            gid += 1
            if not prims:
                continue
            res = prims[0] if len(prims) == 1 and rng.random() < 0.4 else ["and"] + prims
            w.features.add("forall-when")
            items.append(["forall", [v, "-", ty], ["when", cond, res]])
    rng.shuffle(items)
    return ["and"] + items


def gen_action(rng, w, idx):
    ts = w.all_types()
    nparams = rng.choice([0, 1, 2, 2, 3])
    params = [("?x%d" % k, rng.choice(ts)) for k in range(nparams)]
    return {"name": "act%d" % idx, "params": params, "group": rng.random() < 0.3,
            "pre": gen_precondition(rng, w, params), "eff": gen_effect(rng, w, params)}


def gen_world(rng, max_actions=2, max_types=4):
    w = World()
    gen_types(rng, w, max_types=max_types)
    gen_vocab(rng, w)
    for i in range(rng.randint(1, max_actions)):
        w.actions.append(gen_action(rng, w, i))
    return w


# ------------------------------------------------------------------------------------------------
# outside the supported fragment: exactly one foreign construct is planted in one action
OOF_KINDS = ["imply", "exists", "scale-up", "undeclared-pred-pre", "undeclared-pred-eff", "nested-and-effect",
             "nary-plus", "eq-const", "not-compound", "num-eq-swapped", "unconditional-forall-effect",
             "either-type", "repeated-arg"]


def plant_oof(rng, w):
    a = rng.choice(w.actions)
    kind = rng.choice(OOF_KINDS)
    scope = list(a["params"])
    atom = gen_atom(rng, w, scope) or [w.preds[0][0]] if not w.preds[0][1] else gen_atom(rng, w, scope)
    pre = a["pre"]
    if not (isinstance(pre, list) and pre and pre[0] == "and"):
        pre = ["and"] + ([pre] if pre else [])
    eff = a["eff"]
    fl = gen_fluent(rng, w, scope)
    ok = True
    if kind == "imply" and atom:
        pre = pre + [["imply", atom, atom]]
    elif kind == "exists" and atom:
        pre = pre + [["exists", ["?e", "-", "object"], ["and", atom]]]
    elif kind == "scale-up" and fl:
        eff = eff + [["scale-up", fl, "2"]]
    elif kind == "undeclared-pred-pre":
        pre = pre + [["zz-undeclared"] + [v for v, _ in scope[:1]]]
    elif kind == "undeclared-pred-eff":
        eff = eff + [["zz-undeclared"] + [v for v, _ in scope[:1]]]
    elif kind == "nested-and-effect" and atom:
        eff = eff + [["and", atom]]
    elif kind == "nary-plus" and fl:
        pre = pre + [[">=", fl, ["+", "1", "2", "3"]]]
    elif kind == "eq-const" and w.consts and scope:
        pre = pre + [["=", scope[0][0], w.consts[0][0]]]
    elif kind == "not-compound" and atom:
        pre = pre + [["not", ["and", atom, atom]]]
    elif kind == "num-eq-swapped" and fl:
        pre = pre + [["=", "2", fl]]
    elif kind == "unconditional-forall-effect" and w.preds:
        un = [p for p in w.preds if len(p[1]) == 1]
        if un:
            eff = eff + [["forall", ["?u9", "-", "object"], ["and", [un[0][0], "?u9"], [un[0][0], "?u9"]]]]
        else:
            ok = False
    elif kind == "either-type" and w.types:
        a["params"] = a["params"] + [("?e9", ["either"] + list(w.types)[:2])] if False else a["params"]
        ok = False
    elif kind == "repeated-arg":
        bins = [p for p in w.preds if len(p[1]) == 2]
        vs = [v for v, _ in scope]
        if bins and vs:
            pre = pre + [[bins[0][0], vs[0], vs[0]]]
        else:
            ok = False
    else:
        ok = False
    if not ok:
        return False
    a["pre"], a["eff"] = pre, eff
    w.oof, w.oof_kind, w.oof_action = True, kind, a["name"]
    return True


# ------------------------------------------------------------------------------------------------
def gen_objects(rng, w, n=None):
    ts = w.all_types()
    n = n or rng.randint(2, 3)
    return [("o%d" % i, rng.choice(ts)) for i in range(n)]


def ground_atoms(w, objs, decls):
    """all type-correct ground atoms over objects + constants"""
    universe = list(objs) + list(w.consts)
    out = []
    for n, ps in decls:
        pools = [[o for o, t in universe if w.is_sub(t, pt)] for _, pt in ps]
        for combo in itertools.product(*pools):
            out.append((n, list(combo)))
    return out


def gen_state(rng, w, objs, density=None):
    density = rng.choice([0.2, 0.5, 0.8]) if density is None else density
    facts = [a for a in ground_atoms(w, objs, w.preds) if rng.random() < density]
    fluents = [(f, args, rng.choice(DYADIC)) for f, args in ground_atoms(w, objs, w.funcs)]
    return {"facts": facts, "fluents": fluents}


def calls_for(rng, w, objs, action, limit=6):
    universe = list(objs) + list(w.consts)
    pools = [[o for o, t in universe if w.is_sub(t, pt)] for _, pt in action["params"]]
    if not all(pools):
        return []
    combos = list(itertools.product(*pools))
    rng.shuffle(combos)
    return [list(c) for c in combos[:limit]]


def problem_text(w, objs, state, name="prob", domain="dom"):
    o = []
    for n, t in objs:
        o += [n, "-", t]
    init = [["=", [f] + args, repr(float(v))] for f, args, v in state["fluents"]] + [[p] + args for p, args in state["facts"]]
    tree = ["define", ["problem", name], [":domain", domain], [":objects"] + o, [":init"] + init, [":goal", ["and"]]]
    return render(tree)
