"""Runs jobs on the implementation under test.  Executed with /venv/bin/python, PYTHONPATH=/repo.
stdin: JSON list of jobs {"op": "<module>.<function>", ...}; stdout: JSON list of results.
Each op lives in harness/ops_<module>.py and returns a JSON-serialisable value; an exception raised
by the implementation is returned as {"raised": "<ExceptionClass>", "msg": ...} by the op itself
where the property cares, otherwise caught here."""
import importlib
import io
import json
import logging
import os
import sys

sys.path.insert(0, os.path.dirname(os.path.abspath(__file__)))
logging.disable(logging.CRITICAL)
sys.setrecursionlimit(3000)


def main():
    jobs = json.load(sys.stdin)
    real_stdout = sys.stdout
    sys.stdout = io.StringIO()  # the library prints in places
    out = []
    mods = {}
    for job in jobs:
        modname, fn = job["op"].split(".")
        if modname not in mods:
            mods[modname] = importlib.import_module("ops_" + modname)
        try:
            out.append(getattr(mods[modname], fn)(job))
        except RecursionError:
            out.append({"raised": "RecursionError", "msg": ""})
        except Exception as e:  # noqa
            out.append({"raised": type(e).__name__, "msg": str(e)[:300]})
    sys.stdout = real_stdout
    json.dump(out, sys.stdout)


if __name__ == "__main__":
    main()
