"""Implementation driver for C07 (purity of queries and transitions).

Runs inside harness/impl_worker.py (/venv/bin/python, PYTHONPATH=$VERIF_REPO or /repo).  A job is a whole
*history* of API calls; after every call the driver
  (a) compares canonical digests (structural walk of __dict__/dict/set/list/anytree nodes with object
      identities abstracted to first-visit indices) of the module-level DEFAULT_TYPES, every live domain and
      EVERY live state (inputs and every earlier result) before vs after the call  -> the C07 oracle;
  (b) computes the sharing graph: which pairs of roots (domains D, states S, operators O, module M) reach a
      common *mutable* object (see IMMUTABLE below for what is treated as a value);
  (c) at the end repeats every earlier query/transition and compares the results.
`threads` runs several histories in real threads on ONE shared domain object and compares every thread's
results with its sequential run.
"""
import hashlib
import json
import logging
import os
import shutil
import sys
import threading
from pathlib import Path

from pddl_plus_parser.exporters import DomainExporter, TrajectoryExporter
from pddl_plus_parser.lisp_parsers import DomainParser, ProblemParser
from pddl_plus_parser.models import (Domain, Operator, PDDLConstant, PDDLFunction, PDDLObject, PDDLType,
                                     Predicate, State)
from pddl_plus_parser.models import pddl_domain as _pddl_domain
from pddl_plus_parser.multi_agent import MultiAgentDomainsConverter

TMP = Path(os.environ.get("VERIF_WORK", "/verif/work")) / "C07" / "tmp"

# Objects treated as immutable *values* by the sharing graph (no API operation of the property's scope writes
# them after construction; the digest oracle still walks them, so a write to one of them IS reported):
# types, lifted/grounded predicates, problem objects and constants -- together with the signature /
# object_mapping / repeating_variables dicts hanging off predicates and functions.
IMMUTABLE = (PDDLType, Predicate, PDDLObject, PDDLConstant)
ATOMIC = (str, int, float, bool, type(None), bytes, complex)


# ------------------------------------------------------------------------------------------ canonical walk
def _atom(x):
    if isinstance(x, float):
        return "f:" + x.hex()
    return type(x).__name__[0] + ":" + repr(x)


def canon(obj, memo, cut=()):
    """Canonical JSON-able form; shared/cyclic references become ["ref", first-visit index]."""
    if isinstance(obj, ATOMIC):
        return _atom(obj)
    if isinstance(obj, logging.Logger):
        return "logger"
    if isinstance(obj, type) or callable(obj) and not hasattr(obj, "__dict__"):
        return "callable:" + getattr(obj, "__qualname__", type(obj).__name__)
    oid = id(obj)
    if oid in memo:
        return ["ref", memo[oid]]
    memo[oid] = len(memo)
    if isinstance(obj, dict):
        return [type(obj).__name__, [[canon(k, memo, cut), canon(v, memo, cut)] for k, v in list(obj.items())]]
    if isinstance(obj, (list, tuple)):
        return [type(obj).__name__, [canon(v, memo, cut) for v in list(obj)]]
    if isinstance(obj, (set, frozenset)):
        elems = list(obj)
        keyed = sorted(((json.dumps(canon(e, {}, cut), sort_keys=True), i) for i, e in enumerate(elems)))
        return [type(obj).__name__, [canon(elems[i], memo, cut) for _, i in keyed]]
    d = getattr(obj, "__dict__", None)
    if d is not None:
        items = []
        anynode = type(obj).__name__ == "AnyNode"
        for k in sorted(d):
            if (type(obj).__name__, k) in cut:
                items.append([k, "cut"])
            elif anynode and k == "_NodeMixin__children":
                # the children list is private to its node: walk it without giving it a memo index, so that
                # its lazy creation (below) does not shift the indices of later objects
                items.append([k, ["list", [canon(v, memo, cut) for v in list(d[k])]]])
            else:
                items.append([k, canon(d[k], memo, cut)])
        if anynode:
            # anytree creates these two attributes lazily on the first read of .children / .parent: a read
            # of a leaf adds `_NodeMixin__children = []` to its __dict__.  Not a change of value.
            if "_NodeMixin__children" not in d:
                items.append(["_NodeMixin__children", ["list", []]])
            if "_NodeMixin__parent" not in d:
                items.append(["_NodeMixin__parent", _atom(None)])
            items.sort(key=lambda kv: kv[0])
        return ["obj:" + type(obj).__name__, items]
    return "other:" + type(obj).__name__


CUT = (("Problem", "domain"),)


def digest(objs):
    memo = {}
    c = [canon(o, memo, CUT) for o in objs]
    return hashlib.sha1(json.dumps(c, sort_keys=True).encode()).hexdigest()[:16]


def reach(objs):
    """ids (-> kind) of the mutable objects reachable from objs, not descending into IMMUTABLE values."""
    seen, out, todo = set(), {}, list(objs)
    while todo:
        o = todo.pop()
        if isinstance(o, ATOMIC) or isinstance(o, logging.Logger) or isinstance(o, type):
            continue
        if isinstance(o, IMMUTABLE):
            continue
        oid = id(o)
        if oid in seen:
            continue
        seen.add(oid)
        if isinstance(o, dict):
            out[oid] = "dict"
            todo.extend(o.keys())
            todo.extend(o.values())
        elif isinstance(o, (list, set)):
            out[oid] = type(o).__name__
            todo.extend(list(o))
        elif isinstance(o, (tuple, frozenset)):
            todo.extend(list(o))
        elif isinstance(o, PDDLFunction):
            out[oid] = "PDDLFunction"      # the value cell; its signature dicts are values
        else:
            d = getattr(o, "__dict__", None)
            if d is None:
                continue
            out[oid] = type(o).__name__
            for k, v in d.items():
                if (type(o).__name__, k) in CUT:
                    continue
                todo.append(v)
    return out


# ------------------------------------------------------------------------------------------ the executor
class Ctx:
    def __init__(self, job, wdir, shared_domains=None):
        self.job, self.wdir = job, wdir
        self.doms = list(shared_domains or [])     # Domain objects
        self.sts = []                              # (State, Problem-or-None)
        self.ops = []                              # Operator objects
        self.files = {}

    def path(self, kind, i, text):
        key = (kind, i)
        if key not in self.files:
            p = self.wdir / ("%s_%d.pddl" % (kind, i))
            p.write_text(text)
            self.files[key] = p
        return self.files[key]

    # roots ---------------------------------------------------------------------------------
    def roots(self):
        r = [("M", [_pddl_domain.DEFAULT_TYPES])]
        r += [("D%d" % i, [d]) for i, d in enumerate(self.doms)]
        r += [("S%d" % i, [s] + ([p] if p is not None else [])) for i, (s, p) in enumerate(self.sts)]
        r += [("O%d" % i, [o]) for i, o in enumerate(self.ops)]
        return r

    def protected_digests(self):
        return {name: digest(objs) for name, objs in self.roots() if name[0] != "O"}

    def sharing(self):
        rs = [(name, reach(objs)) for name, objs in self.roots()]
        pairs = []
        for i in range(len(rs)):
            for j in range(i + 1, len(rs)):
                common = set(rs[i][1]) & set(rs[j][1])
                if common:
                    kinds = sorted({rs[i][1][c] for c in common})
                    pairs.append([rs[i][0], rs[j][0], kinds])
        return pairs


def state_res(st):
    # `canon` is the state as a VALUE (fact set + fluent map): the insertion order of a successor's dict keys
    # depends on the order in which the operator's effect groups (a set of address-hashed objects) were applied,
    # so two operators for the same call may produce equal states with different key orders.
    facts = sorted(p.untyped_representation for ps in st.state_predicates.values() for p in ps)
    fluents = sorted((k, float(f.value).hex()) for k, f in st.state_fluents.items())
    return {"state": digest([st]), "text": hashlib.sha1(st.serialize().encode()).hexdigest()[:12],
            "canon": hashlib.sha1(json.dumps([facts, fluents, bool(st.is_init)]).encode()).hexdigest()[:12]}


def text_res(t):
    return {"text": hashlib.sha1(t.encode()).hexdigest()[:12], "len": len(t)}


def resolve(op, ctx):
    """Relative references (any non-negative integer) are resolved modulo the number of live handles."""
    r = dict(op)
    for key, pool in (("dom", ctx.doms), ("st", ctx.sts), ("op", ctx.ops), ("objs", ctx.sts)):
        if key in r and r[key] is not None:
            if not pool:
                return None
            r[key] = r[key] % len(pool)
    return r


def problem_of(ctx, i):
    """the problem whose objects an operator receives: that of state i or of the nearest initial state"""
    for j in range(i, -1, -1):
        if ctx.sts[j][1] is not None:
            return j, ctx.sts[j][1]
    return None, None


def execute(op, ctx, register=True):
    """Runs one resolved op.  Returns (result, new handles)."""
    k = op["k"]
    job = ctx.job
    if k == "parse_domain":
        d = DomainParser(ctx.path("dom", op["src"], job["doms"][op["src"]])).parse_domain()
        if register:
            ctx.doms.append(d)
        return {"new": "D"}
    if k == "new_domain":
        d = Domain()
        if register:
            ctx.doms.append(d)
        return {"new": "D"}
    if k == "combine":
        mdir = ctx.wdir / ("ma_%d" % op["src"])
        if not mdir.exists():
            mdir.mkdir()
            for n, t in enumerate(job["ma"][op["src"]]):
                (mdir / ("domain-ag%d.pddl" % n)).write_text(t)
        d = MultiAgentDomainsConverter(mdir).locate_domains(add_dummy_actions=bool(op.get("dummy")))
        if register:
            ctx.doms.append(d)
        return {"new": "D"}
    if k == "parse_problem":
        dom = ctx.doms[op["dom"]]
        p = ProblemParser(ctx.path("prob", op["src"], job["probs"][op["src"]]), dom).parse_problem()
        s = State(p.initial_state_predicates, p.initial_state_fluents, is_init=True)
        if register:
            ctx.sts.append((s, p))
        return {"new": "S"}
    if k == "mk_op":
        dom = ctx.doms[op["dom"]]
        objs = ctx.sts[op["objs"]][1].objects if op.get("objs") is not None else None
        o = Operator(dom.actions[op["act"]], dom, list(op["args"]), objs)
        if register:
            ctx.ops.append(o)
        return {"new": "O"}
    if k == "ground":
        ctx.ops[op["op"]].ground()
        return {}
    if k == "applicable":
        return {"bool": bool(ctx.ops[op["op"]].is_applicable(ctx.sts[op["st"]][0]))}
    if k == "apply":
        try:
            s = ctx.ops[op["op"]].apply(ctx.sts[op["st"]][0], allow_inapplicable_actions=bool(op.get("allow")),
                                        skip_validation=bool(op.get("skip")))
        except ValueError:
            return {"raised": "ValueError"}
        if register:
            ctx.sts.append((s, None))
        r = state_res(s)
        r["new"] = "S"
        return r
    if k == "copy":
        s = ctx.sts[op["st"]][0].copy()
        if register:
            ctx.sts.append((s, None))
        r = state_res(s)
        r["new"] = "S"
        return r
    if k == "serialize":
        return text_res(ctx.sts[op["st"]][0].serialize())
    if k == "typed_serialize":
        return text_res(ctx.sts[op["st"]][0].typed_serialize())
    if k == "state_objects":
        return text_res(json.dumps(sorted((n, str(o.type)) for n, o in ctx.sts[op["st"]][0].get_state_objects().items())))
    if k == "str_op":
        o = ctx.ops[op["op"]]
        return text_res(str(o) + "|" + o.typed_action_call)
    if k == "str_action":
        dom = ctx.doms[op["dom"]]
        a = dom.actions[op["act"]]
        return text_res(str(a) + "|" + ",".join(a.parameter_names))
    if k == "export":
        t = DomainExporter().extract_domain(ctx.doms[op["dom"]])
        r = text_res(t)
        # the exporter iterates sets of address-hashed objects: two parses of one file print their members in
        # different orders.  `bag` (the multiset of tokens) is what is compared across different parses.
        r["bag"] = hashlib.sha1(" ".join(sorted(t.replace("(", " ( ").replace(")", " ) ").split())).encode()).hexdigest()[:12]
        return r
    if k == "triplet":
        dom = ctx.doms[op["dom"]]
        st = ctx.sts[op["st"]][0]
        pj = op["objs"]
        objs = ctx.sts[pj][1].objects
        te = TrajectoryExporter(dom, allow_invalid_actions=bool(op.get("allow")))
        t = te.create_single_triplet(st, op["call"], objs)
        # value-level fact the footprint model takes as an input: was the step refused?
        refused = (not op.get("allow")) and (not t.operator.is_applicable(st))
        if register:
            ctx.ops.append(t.operator)
            ctx.sts.append((t.next_state, None))
        r = state_res(t.next_state)
        r.update({"new": "OS", "refused": bool(refused), "same_as_prev": t.next_state == st})
        return r
    raise ValueError("unknown op " + k)


QUERY = {"applicable", "apply", "copy", "serialize", "typed_serialize", "state_objects", "str_op", "str_action",
         "export", "triplet"}


def strip(res):
    return {k: v for k, v in res.items() if k not in ("new",)}


def strip_x(res):
    """comparison across different parses of the same domain file"""
    r = strip(res)
    if "bag" in r:
        r.pop("text", None)
    if "canon" in r:
        r.pop("text", None)
        r.pop("state", None)
    return r


def run_history(job, wdir, shared_domains=None, oracle=True, watch=None):
    """Executes job['ops']; returns the trace."""
    ctx = Ctx(job, wdir, shared_domains)
    steps = []
    before = ctx.protected_digests() if oracle else {}
    for raw in job["ops"]:
        op = resolve(raw, ctx)
        if op is None:
            steps.append({"op": raw, "skipped": True})
            continue
        if op["k"] == "mk_op" and op.get("objs") is not None:
            pj, _ = problem_of(ctx, op["objs"])
            op["objs"] = pj
            if pj is None:
                op["objs"] = None
        if op["k"] == "triplet":
            pj, _ = problem_of(ctx, op["objs"])
            if pj is None:
                steps.append({"op": raw, "skipped": True})
                continue
            op["objs"] = pj
        try:
            res = execute(op, ctx)
        except Exception as e:  # an API call raising anything but the documented refusal
            res = {"raised": type(e).__name__, "msg": str(e)[:200]}
        step = {"op": op, "res": res}
        if oracle:
            after = ctx.protected_digests()
            step["changed"] = sorted(n for n in before if before[n] != after.get(n))
            step["sharing"] = ctx.sharing()
            before = after
        if watch is not None:
            w = watch()
            if w:
                step["foreign"] = w
        steps.append(step)
    out = {"steps": steps, "handles": {"D": len(ctx.doms), "S": len(ctx.sts), "O": len(ctx.ops)}}
    if oracle:
        # (c) repeat every earlier query/transition; nothing is registered, nothing may change
        mism = []
        for i, st in enumerate(steps):
            if st.get("skipped") or st["op"]["k"] not in QUERY or "msg" in st["res"]:
                continue
            try:
                again = execute(st["op"], ctx, register=False)
            except Exception as e:  # noqa
                again = {"raised": type(e).__name__, "msg": str(e)[:200]}
            if strip_x(again) != strip_x(st["res"]):
                mism.append({"step": i, "first": strip_x(st["res"]), "again": strip_x(again)})
        after = ctx.protected_digests()
        out["repeat_mismatch"] = mism
        out["repeat_changed"] = sorted(n for n in before if before[n] != after.get(n))
    return out, ctx


def _reset_module():
    """histories are independent: undo a leak into the module-level dict before the next one"""
    dt = _pddl_domain.DEFAULT_TYPES
    leaked = [k for k in dt if k != "object"]
    for k in leaked:
        del dt[k]
    return leaked


def history(job):
    wdir = TMP / ("h_%d_%s" % (os.getpid(), job.get("id", 0)))
    if wdir.exists():
        shutil.rmtree(wdir)
    wdir.mkdir(parents=True)
    try:
        _reset_module()
        out, _ = run_history(job, wdir)
        out["module_leak"] = _reset_module()
        return out
    finally:
        shutil.rmtree(wdir, ignore_errors=True)


# ------------------------------------------------------------------------------------------ threads
def _sig_snapshot(dom):
    return tuple((n, tuple(a.signature.keys())) for n, a in list(dom.actions.items()))


def threads(job):
    """job: {'doms': [...], 'probs': [...], 'threads': [ops, ...], 'rounds': n}.  Every thread history starts
    with the shared domain as D0 (ops must not contain parse_domain of src 0 again necessarily)."""
    wdir = TMP / ("t_%d_%s" % (os.getpid(), job.get("id", 0)))
    if wdir.exists():
        shutil.rmtree(wdir)
    wdir.mkdir(parents=True)
    old = sys.getswitchinterval()
    try:
        _reset_module()
        dpath = wdir / "shared_dom.pddl"
        dpath.write_text(job["doms"][0])
        # sequential reference: each history alone on a fresh parse of the domain
        ref = []
        for t, ops in enumerate(job["threads"]):
            d = DomainParser(dpath).parse_domain()
            sub = wdir / ("seq_%d" % t)
            sub.mkdir()
            out, _ = run_history(dict(job, ops=ops), sub, shared_domains=[d], oracle=False)
            ref.append([strip_x(s.get("res", {})) for s in out["steps"]])
        fresh_digest = digest([DomainParser(dpath).parse_domain()])
        diffs, foreign, dom_changed = [], [], 0
        for rnd in range(job.get("rounds", 1)):
            shared = DomainParser(dpath).parse_domain()
            base_sig = _sig_snapshot(shared)
            results = [None] * len(job["threads"])
            barrier = threading.Barrier(len(job["threads"]))

            def watch():
                try:
                    s = _sig_snapshot(shared)
                except RuntimeError as e:
                    return "RuntimeError:" + str(e)[:60]
                return None if s == base_sig else "signature seen as %r" % (s,)

            def body(t, ops):
                sub = wdir / ("r%d_%d" % (rnd, t))
                sub.mkdir()
                barrier.wait()
                try:
                    out, _ = run_history(dict(job, ops=ops), sub, shared_domains=[shared], oracle=False, watch=watch)
                    results[t] = out
                except Exception as e:  # noqa
                    results[t] = {"steps": [], "crash": type(e).__name__ + ":" + str(e)[:100]}

            sys.setswitchinterval(1e-6)
            ths = [threading.Thread(target=body, args=(t, ops)) for t, ops in enumerate(job["threads"])]
            for th in ths:
                th.start()
            for th in ths:
                th.join()
            sys.setswitchinterval(old)
            for t, out in enumerate(results):
                got = [strip_x(s.get("res", {})) for s in out["steps"]]
                if got != ref[t] or "crash" in out:
                    first = next((i for i, (a, b) in enumerate(zip(got, ref[t])) if a != b), None)
                    diffs.append({"round": rnd, "thread": t, "first_diff_step": first,
                                  "got": got[first] if first is not None and first < len(got) else out.get("crash"),
                                  "expected": ref[t][first] if first is not None else None})
                for i, s in enumerate(out["steps"]):
                    if s.get("foreign"):
                        foreign.append({"round": rnd, "thread": t, "step": i, "saw": s["foreign"]})
            if digest([shared]) != fresh_digest:
                dom_changed += 1
        leak = _reset_module()
        return {"diffs": diffs[:5], "n_diffs": len(diffs), "foreign": foreign[:5], "n_foreign": len(foreign),
                "domain_changed_rounds": dom_changed, "module_leak": leak,
                "steps": [len(r) for r in ref], "raised": [sum(1 for x in r if "raised" in x) for r in ref]}
    finally:
        sys.setswitchinterval(old)
        shutil.rmtree(wdir, ignore_errors=True)
