"""Implementation driver for C07 (purity of queries and transitions).

Runs inside harness/impl_worker.py (/venv/bin/python, PYTHONPATH=$VERIF_REPO or /repo).  A job is a whole
*history* of API calls; after every call the driver
  (a) compares canonical digests (structural walk of __dict__/dict/set/list/anytree nodes with object
      identities abstracted to first-visit indices) of the module-level DEFAULT_TYPES, every live domain and
      EVERY live state (inputs and every earlier result) before vs after the call  -> the C07 oracle;
  (b) computes the sharing graph: which pairs of roots (domains D, states S, operators O, module M) reach a
      common *mutable* object (see IMMUTABLE below for what is treated as a value);
  (c) at the end repeats every earlier query/transition and compares the results.
`threads` runs several histories in real threads on ONE shared domain object and compares every thread's
results with its sequential run.
`sched` does the same under a DETERMINISTIC scheduler: the containers of the shared domain (Domain.types, the other
Domain dicts/lists, every Action.signature and the effect sets of every Action) are replaced by logging proxies
(dict / list / set subclasses); every access of a proxy by a scheduled thread is a yield point at which the
scheduler may hand control to another thread.  All schedules with at most one preemption are enumerated (every
yield point x every other thread), plus seeded random schedules; every access is logged as (thread, step, R/W, cell).
"""
import hashlib
import json
import logging
import os
import shutil
import sys
import threading
from pathlib import Path

from pddl_plus_parser.exporters import DomainExporter, ProblemExporter, TrajectoryExporter
from pddl_plus_parser.lisp_parsers import DomainParser, ProblemParser, TrajectoryParser
from pddl_plus_parser.models import (Domain, Operator, PDDLConstant, PDDLFunction, PDDLObject, PDDLType,
                                     Predicate, State)
from pddl_plus_parser.models import pddl_domain as _pddl_domain
from pddl_plus_parser.multi_agent import MultiAgentDomainsConverter, PlanConverter
from pddl_plus_parser.models import ActionCall
from pddl_plus_parser.multi_agent import MultiAgentTrajectoryExporter
from pddl_plus_parser.multi_agent import common as _ma_common
from pddl_plus_parser.multi_agent import multi_agent_trajectory_exporter as _ma_traj

TMP = Path(os.environ.get("VERIF_WORK", "/verif/work")) / "C07" / "tmp"

# Objects treated as immutable *values* by the sharing graph (no API operation of the property's scope writes
# them after construction; the digest oracle still walks them, so a write to one of them IS reported):
# types, lifted/grounded predicates, problem objects and constants -- together with the signature /
# object_mapping / repeating_variables dicts hanging off predicates and functions.
IMMUTABLE = (PDDLType, Predicate, PDDLObject, PDDLConstant)
ATOMIC = (str, int, float, bool, type(None), bytes, complex)


# ------------------------------------------------------------------------------------------ canonical walk
def _atom(x):
    if isinstance(x, float):
        return "f:" + x.hex()
    return type(x).__name__[0] + ":" + repr(x)


def _cheap_key(e):
    if isinstance(e, ATOMIC):
        return "0" + _atom(e)
    try:
        u = e.untyped_representation            # Predicate / GroundedPredicate / PDDLFunction
        if isinstance(u, str):
            return "1" + type(e).__name__ + ":" + u
    except Exception:
        pass
    return "2" + type(e).__name__


def canon(obj, memo, cut=()):
    """Canonical JSON-able form; shared/cyclic references become ["ref", first-visit index]."""
    if isinstance(obj, ATOMIC):
        return _atom(obj)
    if isinstance(obj, logging.Logger):
        return "logger"
    if isinstance(obj, type) or callable(obj) and not hasattr(obj, "__dict__"):
        return "callable:" + getattr(obj, "__qualname__", type(obj).__name__)
    oid = id(obj)
    if oid in memo:
        return ["ref", memo[oid]]
    memo[oid] = len(memo)
    tname = getattr(type(obj), "_base_name", type(obj).__name__)
    if isinstance(obj, dict):
        return [tname, [[canon(k, memo, cut), canon(v, memo, cut)] for k, v in list(dict.items(obj))]]
    if isinstance(obj, (list, tuple)):
        return [tname, [canon(v, memo, cut) for v in (list.__iter__(obj) if isinstance(obj, list) else obj)]]
    if isinstance(obj, (set, frozenset)):
        elems = list(set.__iter__(obj)) if isinstance(obj, set) else list(obj)
        # canonical order of the members: by a cheap text first (atoms: their value; facts: their untyped text), by the
        # full canonical form only among members the cheap text does not separate
        cheap = [_cheap_key(e) for e in elems]
        dup = {k for k in cheap if cheap.count(k) > 1} if len(set(cheap)) < len(cheap) else ()
        keyed = sorted(((k, json.dumps(canon(e, {}, cut), sort_keys=True) if k in dup else "", i)
                        for i, (k, e) in enumerate(zip(cheap, elems))))
        return [tname, [canon(elems[i], memo, cut) for _, _, i in keyed]]
    d = getattr(obj, "__dict__", None)
    if d is not None:
        items = []
        anynode = type(obj).__name__ == "AnyNode"
        for k in sorted(d):
            if (type(obj).__name__, k) in cut:
                items.append([k, "cut"])
            elif anynode and k == "_NodeMixin__children":
                # the children list is private to its node: walk it without giving it a memo index, so that
                # its lazy creation (below) does not shift the indices of later objects
                items.append([k, ["list", [canon(v, memo, cut) for v in list(d[k])]]])
            else:
                items.append([k, canon(d[k], memo, cut)])
        if anynode:
            # anytree creates these two attributes lazily on the first read of .children / .parent: a read
            # of a leaf adds `_NodeMixin__children = []` to its __dict__.  Not a change of value.
            if "_NodeMixin__children" not in d:
                items.append(["_NodeMixin__children", ["list", []]])
            if "_NodeMixin__parent" not in d:
                items.append(["_NodeMixin__parent", _atom(None)])
            items.sort(key=lambda kv: kv[0])
        return ["obj:" + type(obj).__name__, items]
    return "other:" + type(obj).__name__


CUT = (("Problem", "domain"),)


def digest(objs):
    memo = {}
    c = [canon(o, memo, CUT) for o in objs]
    return hashlib.sha1(json.dumps(c, sort_keys=True).encode()).hexdigest()[:16]


def reach(objs, skip=()):
    """ids (-> kind) of the mutable objects reachable from objs, not descending into IMMUTABLE values nor into the
    objects whose ids are in `skip`."""
    seen, out, todo = set(), {}, list(objs)
    while todo:
        o = todo.pop()
        if isinstance(o, ATOMIC) or isinstance(o, logging.Logger) or isinstance(o, type):
            continue
        if isinstance(o, IMMUTABLE):
            continue
        oid = id(o)
        if oid in seen or oid in skip:
            continue
        seen.add(oid)
        if isinstance(o, dict):
            out[oid] = "dict"
            todo.extend(o.keys())
            todo.extend(o.values())
        elif isinstance(o, (list, set)):
            out[oid] = type(o).__name__
            todo.extend(list(o))
        elif isinstance(o, (tuple, frozenset)):
            todo.extend(list(o))
        elif isinstance(o, PDDLFunction):
            out[oid] = "PDDLFunction"      # the value cell; its signature dicts are values
        else:
            d = getattr(o, "__dict__", None)
            if d is None:
                continue
            out[oid] = type(o).__name__
            for k, v in d.items():
                if (type(o).__name__, k) in CUT:
                    continue
                todo.append(v)
    return out


# ------------------------------------------------------------------------------------------ process-wide statics
# Mutable objects that belong to no domain, problem or state but to the PROCESS: module globals of pddl_plus_parser.*,
# class attributes of the library's classes and the default-argument objects of its functions and methods
# (`__defaults__` / `__kwdefaults__`, e.g. the `{}` of PDDLFunction.__init__(repeating_variables={}): ONE dict that
# every PDDLFunction built without explicit repeating variables carries).  They are part of the module root "M" of the
# digest oracle: a call that writes one of them changes what every other domain of the process sees.
_STATIC_KINDS = (dict, list, set, bytearray)
_SKIP_TYPES = (type, type(sys), type(lambda: 0), type(len), logging.Logger, staticmethod, classmethod, property)


def _lib(modname):
    return isinstance(modname, str) and (modname == "pddl_plus_parser" or modname.startswith("pddl_plus_parser."))


def _is_static_candidate(v):
    if isinstance(v, ATOMIC) or isinstance(v, _SKIP_TYPES):
        return False
    if isinstance(v, _STATIC_KINDS) or isinstance(v, (tuple, frozenset)):
        return True
    cls = type(v)
    import enum
    if isinstance(v, enum.Enum):
        return False
    return _lib(getattr(cls, "__module__", None)) and hasattr(v, "__dict__")


def _functions_of(v):
    if isinstance(v, (staticmethod, classmethod)):
        v = v.__func__
    if isinstance(v, property):
        return [f for f in (v.fget, v.fset, v.fdel) if f is not None]
    if isinstance(v, type(lambda: 0)):
        return [v]
    return []


def _default_objects(f, where):
    out = []
    for i, d in enumerate(f.__defaults__ or ()):
        if _is_static_candidate(d):
            out.append(("%s.__defaults__[%d]" % (where, i), d))
    for k, d in sorted((f.__kwdefaults__ or {}).items()):
        if _is_static_candidate(d):
            out.append(("%s.__kwdefaults__[%s]" % (where, k), d))
    return out


_LIB_MODULES = [0, []]


def _lib_modules():
    """names of the library's loaded modules (recomputed when sys.modules grows: sympy alone loads > 1000 modules)"""
    if _LIB_MODULES[0] != len(sys.modules):
        _LIB_MODULES[0], _LIB_MODULES[1] = len(sys.modules), sorted(n for n in list(sys.modules) if _lib(n))
    return _LIB_MODULES[1]


def statics():
    """(name, object) for every process-wide object of the library's loaded modules, each object once, in a fixed
    order (module name, attribute name)."""
    import enum
    out, seen = [], set()

    def add(name, obj):
        if id(obj) not in seen:
            seen.add(id(obj))
            out.append((name, obj))

    for mname in _lib_modules():
        mod = sys.modules.get(mname)
        if mod is None:
            continue
        for k in sorted(vars(mod)):
            if k.startswith("__"):
                continue
            v = vars(mod)[k]
            if isinstance(v, type):
                if v.__module__ != mname or not _lib(v.__module__) or issubclass(v, enum.Enum):
                    continue
                for ck in sorted(vars(v)):
                    cv = vars(v)[ck]
                    fs = _functions_of(cv)
                    for f in fs:
                        for nm, d in _default_objects(f, "%s.%s.%s" % (mname, v.__name__, ck)):
                            add(nm, d)
                    if not fs and not ck.startswith("__") and _is_static_candidate(cv):
                        add("%s.%s.%s" % (mname, v.__name__, ck), cv)
            elif isinstance(v, type(lambda: 0)):
                if v.__module__ == mname:
                    for nm, d in _default_objects(v, "%s.%s" % (mname, k)):
                        add(nm, d)
            elif _is_static_candidate(v) and not type(v).__module__.startswith("typing"):
                add("%s.%s" % (mname, k), v)
    return out


def memo_caches():
    """(name, wrapper) of every functools cache (lru_cache / cache) among the module globals and class attributes of the
    library's loaded modules: process-wide state the digest walk cannot see (the table lives in C)"""
    out = []
    for mname in _lib_modules():
        mod = sys.modules.get(mname)
        if mod is None:
            continue
        for k, v in list(vars(mod).items()):
            if hasattr(v, "cache_clear") and hasattr(v, "cache_info"):
                out.append(("%s.%s" % (mname, k), v))
            elif isinstance(v, type) and v.__module__ == mname:
                for ck, cv in list(vars(v).items()):
                    f = getattr(cv, "__func__", cv)
                    if isinstance(cv, property):
                        f = cv.fget
                    if hasattr(f, "cache_clear") and hasattr(f, "cache_info"):
                        out.append(("%s.%s.%s" % (mname, v.__name__, ck), f))
    return out


_STATIC_BASE = None


def _snapshot(obj):
    if isinstance(obj, dict):
        return ("dict", list(dict.items(obj)))
    if isinstance(obj, list):
        return ("list", list(obj))
    if isinstance(obj, set):
        return ("set", set(obj))
    if isinstance(obj, bytearray):
        return ("bytes", bytes(obj))
    d = getattr(obj, "__dict__", None)
    if isinstance(d, dict):
        return ("obj", dict(d))
    return ("other", None)


def _restore(obj, snap):
    kind, val = snap
    if kind == "dict":
        dict.clear(obj)
        dict.update(obj, val)
    elif kind == "list":
        obj[:] = val
    elif kind == "set":
        set.clear(obj)
        set.update(obj, val)
    elif kind == "bytes":
        obj[:] = val
    elif kind == "obj":
        obj.__dict__.clear()
        obj.__dict__.update(val)


def _static_state():
    """{name: (object, digest, shallow snapshot)}"""
    return {n: (o, digest([o]), _snapshot(o)) for n, o in statics()}


# ------------------------------------------------------------------------------------------ an independent world
class Indep:
    """A second, INDEPENDENT domain + problem with a few states, built BEFORE the history runs on the first domain.
    Nothing the history does may change what these values are (digests) nor what they answer (observations)."""

    def __init__(self, spec, wdir):
        dp, pp = wdir / "indep_dom.pddl", wdir / "indep_prob.pddl"
        dp.write_text(spec["dom"])
        pp.write_text(spec["prob"])
        self.dom = DomainParser(dp).parse_domain()
        self.prob = ProblemParser(pp, self.dom).parse_problem()
        s = State(self.prob.initial_state_predicates, self.prob.initial_state_fluents, is_init=True)
        self.states, self.ops, self.skipped, self.build_log = [s], [], 0, []
        for c in spec.get("calls", []):
            s0 = {n: digest([o]) for n, o in statics()}
            try:
                o = Operator(self.dom.actions[c["act"]], self.dom, list(c["args"]), self.prob.objects)
                s2 = o.apply(s)
            except Exception:  # an inapplicable call of the independent plan is simply left out
                self.skipped += 1
                continue
            finally:
                wrote = sorted(n for n, ob in statics() if s0.get(n) != digest([ob]))
                if wrote:      # this very call wrote a process-wide object
                    self.build_log.append({"call": "(%s %s)" % (c["act"], " ".join(c["args"])), "statics_changed": wrote})
            self.ops.append(o)
            self.states.append(s2)
            s = s2
        self.ref = self.observe()

    def roots(self):
        return [("ID", [self.dom]), ("IS0", [self.states[0], self.prob])] + \
               [("IS%d" % i, [s]) for i, s in enumerate(self.states) if i > 0]

    def digest_all(self):
        """one digest of the whole world (one walk; which root changed is worked out only when it differs)"""
        return digest([o for _, objs in self.roots() for o in objs])

    def observe(self):
        def safe(f):
            try:
                return f()
            except Exception as e:  # the failure itself is the observation
                return "raised %s: %s" % (type(e).__name__, str(e)[:80])
        obs = {"domain export": safe(lambda: DomainExporter().extract_domain(self.dom)),
               "problem export": safe(lambda: ProblemExporter().extract_problem(self.prob)),
               "domain functions": safe(lambda: [f.state_representation for f in self.dom.functions.values()]),
               "str(domain)": safe(lambda: str(self.dom))}
        for i, s in enumerate(self.states):
            obs["state %d serialize()" % i] = safe(s.serialize)
            obs["state %d typed_serialize()" % i] = safe(s.typed_serialize)
        for j, o in enumerate(self.ops):
            obs["op %d str" % j] = safe(lambda: str(o) + "|" + o.typed_action_call)
            for i, s in enumerate(self.states):
                obs["op %d applicable in state %d" % (j, i)] = safe(lambda: bool(o.is_applicable(s)))
            obs["op %d apply(state %d) again" % (j, j)] = safe(lambda: state_res(o.apply(self.states[j]))["canon"])
        return obs

    def check(self):
        now = self.observe()
        return sorted(k for k in self.ref if now.get(k) != self.ref[k]), now


# ------------------------------------------------------------------------------------------ the executor
class Ctx:
    def __init__(self, job, wdir, shared_domains=None, indep=None):
        self.job, self.wdir = job, wdir
        self.doms = list(shared_domains or [])     # Domain objects
        self.sts = []                              # (State, Problem-or-None)
        self.ops = []                              # Operator objects
        self.plans = []                            # lists of TrajectoryTriplet (results of parse_plan)
        self.plan_info = []                        # (domain handle, problem-state handle) of each plan
        self.ma_plans = []                         # lists of MultiAgentTrajectoryTriplet (MultiAgentTrajectoryExporter.parse_plan)
        self.files = {}
        self.indep = indep                         # Indep or None

    def path(self, kind, i, text):
        key = (kind, i)
        if key not in self.files:
            p = self.wdir / ("%s_%d.pddl" % (kind, i))
            p.write_text(text)
            self.files[key] = p
        return self.files[key]

    # roots ---------------------------------------------------------------------------------
    def roots(self):
        r = [("M", [_pddl_domain.DEFAULT_TYPES])]
        r += [("D%d" % i, [d]) for i, d in enumerate(self.doms)]
        r += [("S%d" % i, [s] + ([p] if p is not None else [])) for i, (s, p) in enumerate(self.sts)]
        r += [("O%d" % i, [o]) for i, o in enumerate(self.ops)]
        if self.indep is not None:
            r += self.indep.roots()
        return r

    def protected_digests(self):
        """digests of every protected root; the module root "M" is DEFAULT_TYPES together with every process-wide
        static object of the library (statics()); "@<name>" entries are the single statics (they say WHICH one changed)"""
        out = {name: digest(objs) for name, objs in self.roots() if name[0] not in "OI" and name != "M"}
        if self.indep is not None:
            d = self.indep.digest_all()
            if getattr(self, "_indep_all", d) != d or not hasattr(self, "_indep_per"):
                self._indep_per = {name: digest(objs) for name, objs in self.indep.roots()}
            self._indep_all = d
            out.update(self._indep_per)
        if not hasattr(self, "_statics"):
            self._statics = statics()      # enumerated once per history (the objects themselves are digested at every call)
        per = {"@" + n: digest([o]) for n, o in self._statics}
        out.update(per)
        out["M"] = hashlib.sha1(json.dumps([digest([_pddl_domain.DEFAULT_TYPES]), sorted(per.items())]).encode()).hexdigest()[:16]
        return out

    def sharing(self):
        # A Problem refers to its own Domain: through Problem.domain (CUT) and through the leaves of its numeric goal
        # trees, which for a zero-arity fluent are the domain's own lifted PDDLFunction objects
        # (numerical_expression.construct_expression_tree returns domain_functions[name] itself).  Like Problem.domain
        # these references into the schema are not "state shared between values": no operation evaluates a goal tree.
        # (The digest oracle still walks them: a write to such an object is reported as a change of the domain.)
        schema = {id(f) for d in self.doms for f in dict.values(d.functions)}
        if self.indep is not None:
            schema |= {id(f) for f in dict.values(self.indep.dom.functions)}
        rs = [(name, reach(objs, skip=() if name[0] == "D" or name == "ID" else schema)) for name, objs in self.roots()]
        pairs, foreign = [], []
        for i in range(len(rs)):
            for j in range(i + 1, len(rs)):
                ia, ib = rs[i][0][0] == "I", rs[j][0][0] == "I"
                if ia and ib:
                    continue                   # inside the independent world: its own business
                common = set(rs[i][1]) & set(rs[j][1])
                if common:
                    kinds = sorted({rs[i][1][c] for c in common})
                    (foreign if ia or ib else pairs).append([rs[i][0], rs[j][0], kinds])
        self.foreign_pairs = foreign           # a root of the history shares a mutable object with the independent world
        return pairs


# ------------------------------------------------------------------------------------------ joint actions
class Recorder:
    """Keeps what a composite call (apply_actions, create_multi_agent_triplet, MultiAgentTrajectoryExporter.parse_plan)
    creates and drops: every Operator the two multi-agent modules construct and every State that State.copy returns, in
    creation order, and the initial State parse_plan builds (with its digest at creation).  The temporaries become live
    handles of the history: nothing may change them later and they may share nothing with another value.  Patches module
    attributes / State.copy for the duration of the call (histories run single-threaded)."""

    def __enter__(self):
        self.ops, self.copies, self.inits = [], [], []
        rec = self
        self._copy = State.copy
        orig_copy = self._copy

        def copy(self_state):
            c = orig_copy(self_state)
            rec.copies.append(c)
            return c

        def mk(*a, **kw):
            o = Operator(*a, **kw)
            rec.ops.append(o)
            return o
        orig_init = _ma_traj.create_initial_state

        def init_state(problem):
            st = orig_init(problem)
            rec.inits.append((st, digest([st])))
            return st
        self._saved = [(_ma_common, "Operator", _ma_common.Operator), (_ma_traj, "Operator", _ma_traj.Operator),
                       (_ma_traj, "create_initial_state", orig_init)]
        State.copy = copy
        _ma_common.Operator = mk
        _ma_traj.Operator = mk
        _ma_traj.create_initial_state = init_state
        return self

    def __exit__(self, *exc):
        State.copy = self._copy
        for mod, name, val in self._saved:
            setattr(mod, name, val)
        return False


def _members(ctx, op):
    """the ActionCall list of a joint action; members: [{"nop": true} | {"ai", "act", "args"}]"""
    return [ActionCall("nop", []) if m.get("nop") else ActionCall(m["act"], list(m["args"])) for m in op["members"]]


def _joint_text(members):
    return "[%s]" % ",".join("(nop )" if m.get("nop") else "(%s %s)" % (m["act"], " ".join(m["args"])) for m in members)


def _applicable_facts(dom, st, members, objs):
    """value-level facts the footprint model takes as inputs: is each acting member applicable in the state the joint
    action is applied to?  (asked of operators of the driver's own, before the call)"""
    out = []
    for m in members:
        if m.get("nop"):
            continue
        try:
            out.append(bool(Operator(dom.actions[m["act"]], dom, list(m["args"]), objs).is_applicable(st)))
        except Exception as e:  # noqa
            out.append("raised %s" % type(e).__name__)
    return out


def _register_joint(ctx, rec, kept, register):
    """the operators and states a composite call created become live handles, in creation order; `kept`: the states the
    caller keeps (registered too when they are not among the recorded copies, i.e. when no copy was made)"""
    base_s, base_o = len(ctx.sts), len(ctx.ops)
    n_s = 0
    if register:
        ctx.ops.extend(rec.ops)
    seen = set()
    for st in list(rec.copies) + list(kept):
        if id(st) not in seen:
            seen.add(id(st))
            n_s += 1
            if register:
                ctx.sts.append((st, None))
    return {"base_s": base_s, "base_o": base_o, "n_ops": len(rec.ops), "n_states": n_s}


def state_res(st):
    # `canon` is the state as a VALUE (fact set + fluent map): the insertion order of a successor's dict keys
    # depends on the order in which the operator's effect groups (a set of address-hashed objects) were applied,
    # so two operators for the same call may produce equal states with different key orders.
    facts = sorted(p.untyped_representation for ps in st.state_predicates.values() for p in ps)
    fluents = sorted((k, float(f.value).hex()) for k, f in st.state_fluents.items())
    return {"state": digest([st]), "text": hashlib.sha1(st.serialize().encode()).hexdigest()[:12],
            "canon": hashlib.sha1(json.dumps([facts, fluents, bool(st.is_init)]).encode()).hexdigest()[:12]}


def _bag(t):
    return hashlib.sha1(" ".join(sorted(t.replace("(", " ( ").replace(")", " ) ").split())).encode()).hexdigest()[:12]


def text_res(t, exact=None):
    """`text` is compared only between calls on the same objects in one run; `bag` (the multiset of tokens) and `exact`
    (a part whose ORDER is part of the value: parameter names, an action call) are what is compared across runs: the
    order in which facts, fluents and set members are printed depends on address-hashed sets (effect groups) and so
    differs from run to run"""
    r = {"text": hashlib.sha1(t.encode()).hexdigest()[:12], "len": len(t), "bag": _bag(t)}
    if exact is not None:
        r["exact"] = hashlib.sha1(exact.encode()).hexdigest()[:12]
    return r


def resolve(op, ctx):
    """Relative references (any non-negative integer) are resolved modulo the number of live handles."""
    r = dict(op)
    for key, pool in (("dom", ctx.doms), ("st", ctx.sts), ("st2", ctx.sts), ("op", ctx.ops), ("objs", ctx.sts),
                      ("plan", ctx.plans), ("maplan", ctx.ma_plans)):
        if key in r and r[key] is not None:
            if not pool:
                return None
            r[key] = r[key] % len(pool)
    return r


def problem_of(ctx, i):
    """the problem whose objects an operator receives: that of state i or of the nearest initial state"""
    for j in range(i, -1, -1):
        if ctx.sts[j][1] is not None:
            return j, ctx.sts[j][1]
    return None, None


def execute(op, ctx, register=True):
    """Runs one resolved op.  Returns (result, new handles)."""
    k = op["k"]
    job = ctx.job
    if k == "parse_domain":
        d = DomainParser(ctx.path("dom", op["src"], job["doms"][op["src"]])).parse_domain()
        if register:
            ctx.doms.append(d)
        return {"new": "D"}
    if k == "new_domain":
        d = Domain()
        if register:
            ctx.doms.append(d)
        return {"new": "D"}
    if k == "combine":
        mdir = ctx.wdir / ("ma_%d" % op["src"])
        if not mdir.exists():
            mdir.mkdir()
            for n, t in enumerate(job["ma"][op["src"]]):
                (mdir / ("domain-ag%d.pddl" % n)).write_text(t)
        d = MultiAgentDomainsConverter(mdir).locate_domains(add_dummy_actions=bool(op.get("dummy")))
        if register:
            ctx.doms.append(d)
        return {"new": "D"}
    if k == "parse_problem":
        dom = ctx.doms[op["dom"]]
        p = ProblemParser(ctx.path("prob", op["src"], job["probs"][op["src"]]), dom).parse_problem()
        s = State(p.initial_state_predicates, p.initial_state_fluents, is_init=True)
        if register:
            ctx.sts.append((s, p))
        return {"new": "S"}
    if k == "mk_op":
        dom = ctx.doms[op["dom"]]
        objs = ctx.sts[op["objs"]][1].objects if op.get("objs") is not None else None
        o = Operator(dom.actions[op["act"]], dom, list(op["args"]), objs)
        if register:
            ctx.ops.append(o)
        return {"new": "O"}
    if k == "ground":
        ctx.ops[op["op"]].ground()
        return {}
    if k == "applicable":
        return {"bool": bool(ctx.ops[op["op"]].is_applicable(ctx.sts[op["st"]][0]))}
    if k == "apply":
        try:
            s = ctx.ops[op["op"]].apply(ctx.sts[op["st"]][0], allow_inapplicable_actions=bool(op.get("allow")),
                                        skip_validation=bool(op.get("skip")))
        except ValueError:
            return {"raised": "ValueError"}
        if register:
            ctx.sts.append((s, None))
        r = state_res(s)
        r["new"] = "S"
        return r
    if k == "copy":
        s = ctx.sts[op["st"]][0].copy()
        if register:
            ctx.sts.append((s, None))
        r = state_res(s)
        r["new"] = "S"
        return r
    if k == "serialize":
        return text_res(ctx.sts[op["st"]][0].serialize())
    if k == "typed_serialize":
        return text_res(ctx.sts[op["st"]][0].typed_serialize())
    if k == "state_objects":
        return text_res(json.dumps(sorted((n, str(o.type)) for n, o in ctx.sts[op["st"]][0].get_state_objects().items())))
    if k == "str_op":
        o = ctx.ops[op["op"]]
        return text_res(str(o) + "|" + o.typed_action_call, exact=str(o) + "|" + o.typed_action_call)
    if k == "str_action":
        dom = ctx.doms[op["dom"]]
        a = dom.actions[op["act"]]
        return text_res(str(a) + "|" + ",".join(a.parameter_names), exact=",".join(a.parameter_names))
    if k == "export":
        t = DomainExporter().extract_domain(ctx.doms[op["dom"]])
        r = text_res(t)
        # the exporter iterates sets of address-hashed objects: two parses of one file print their members in
        # different orders.  `bag` (the multiset of tokens) is what is compared across different parses.
        r["bag"] = hashlib.sha1(" ".join(sorted(t.replace("(", " ( ").replace(")", " ) ").split())).encode()).hexdigest()[:12]
        return r
    if k == "triplet":
        dom = ctx.doms[op["dom"]]
        st = ctx.sts[op["st"]][0]
        pj = op["objs"]
        objs = ctx.sts[pj][1].objects
        te = TrajectoryExporter(dom, allow_invalid_actions=bool(op.get("allow")))
        t = te.create_single_triplet(st, op["call"], objs)
        # value-level fact the footprint model takes as an input: was the step refused?
        refused = (not op.get("allow")) and (not t.operator.is_applicable(st))
        if register:
            ctx.ops.append(t.operator)
            ctx.sts.append((t.next_state, None))
        r = state_res(t.next_state)
        r.update({"new": "OS", "refused": bool(refused), "same_as_prev": t.next_state == st})
        return r
    if k == "plan":
        # TrajectoryExporter.parse_plan on the problem of state `objs` (starts from ITS initial state): every
        # triplet's operator and next state become live handles
        dom = ctx.doms[op["dom"]]
        prob = ctx.sts[op["objs"]][1]
        te = TrajectoryExporter(dom, allow_invalid_actions=bool(op.get("allow")))
        base_s, base_o = len(ctx.sts), len(ctx.ops)
        trips = te.parse_plan(prob, action_sequence=[c["call"] for c in op["calls"]])
        refused = []
        for t in trips:
            refused.append(bool((not op.get("allow")) and (not t.operator.is_applicable(t.previous_state))))
        if register:
            # trips[0].previous_state is a State over the problem's own initial dicts: the same value as the
            # state registered for that problem (handle op["objs"]), so it is not registered again
            for t in trips:
                ctx.ops.append(t.operator)
                ctx.sts.append((t.next_state, None))
            ctx.plans.append(trips)
            ctx.plan_info.append((op["dom"], op["objs"]))
        r = state_res(trips[-1].next_state)
        r.update({"new": "P", "refused": refused, "n": len(trips), "base_s": base_s, "base_o": base_o,
                  "traj": hashlib.sha1(json.dumps([state_res(t.next_state)["canon"] for t in trips]).encode()).hexdigest()[:12]})
        r.pop("state", None)
        r.pop("text", None)
        return r
    if k == "joint":
        # multi_agent.common.apply_actions on a live state: the temporaries it creates become handles
        dom, st = ctx.doms[op["dom"]], ctx.sts[op["st"]][0]
        objs = ctx.sts[op["objs"]][1].objects if op.get("objs") is not None else None
        apps = _applicable_facts(dom, st, op["members"], objs)
        raised, out = None, None
        with Recorder() as rec:
            try:
                out = _ma_common.apply_actions(dom, st, _members(ctx, op), allow_inapplicable_actions=bool(op.get("allow")),
                                               problem_objects=objs)
            except ValueError:
                raised = "ValueError"
        r = _register_joint(ctx, rec, [out] if out is not None else [], register)
        r.update({"new": "J", "apps": apps})
        if raised:
            r["raised"] = raised
            return r
        r.update(state_res(out))
        r.update({"result_is_input": out is st, "result_is_init": bool(out.is_init)})
        return r
    if k == "ma_triplet":
        # MultiAgentTrajectoryExporter.create_multi_agent_triplet on a live state
        dom, st = ctx.doms[op["dom"]], ctx.sts[op["st"]][0]
        objs = ctx.sts[op["objs"]][1].objects
        apps = _applicable_facts(dom, st, op["members"], objs)
        raised, t = None, None
        with Recorder() as rec:
            try:
                t = MultiAgentTrajectoryExporter(dom, allow_invalid_actions=bool(op.get("allow_exporter"))) \
                    .create_multi_agent_triplet(st, _joint_text(op["members"]), objs,
                                                allow_inapplicable_actions=bool(op.get("allow")))
            except ValueError:
                raised = "ValueError"
        r = _register_joint(ctx, rec, [t.next_state] if t is not None else [], register)
        r.update({"new": "J", "apps": apps})
        if raised:
            r["raised"] = raised
            return r
        r.update(state_res(t.next_state))
        r.update({"previous_is_input": t.previous_state is st, "result_is_input": t.next_state is st,
                  "result_is_init": bool(t.next_state.is_init),
                  "ops": hashlib.sha1(" ".join(str(o) for o in t.joint_action).encode()).hexdigest()[:12]})
        return r
    if k == "ma_plan":
        # MultiAgentTrajectoryExporter.parse_plan on the problem of state `objs` (starts from a State over the problem's
        # own initial dicts, the value registered as that handle)
        dom, prob = ctx.doms[op["dom"]], ctx.sts[op["objs"]][1]
        # facts for the model: applicability of each acting member in the state its step starts from (driver's own run)
        apps, cur = [], State(prob.initial_state_predicates, prob.initial_state_fluents, is_init=True)
        for step in op["steps"]:
            a = _applicable_facts(dom, cur, step, prob.objects)
            apps.append(a)
            try:
                cur = _ma_common.apply_actions(dom, cur, [ActionCall("nop", []) if m.get("nop") else ActionCall(m["act"], list(m["args"])) for m in step],
                                               allow_inapplicable_actions=bool(op.get("allow") or op.get("allow_exporter")),
                                               problem_objects=prob.objects)
            except Exception:  # noqa
                break
        raised, trips = None, None
        with Recorder() as rec:
            try:
                trips = MultiAgentTrajectoryExporter(dom, allow_invalid_actions=bool(op.get("allow_exporter"))) \
                    .parse_plan(prob, action_sequence=[_joint_text(step) for step in op["steps"]],
                                allow_inapplicable_actions=bool(op.get("allow")))
            except ValueError:
                raised = "ValueError"
        r = _register_joint(ctx, rec, [t.next_state for t in trips] if trips else [], register)
        r.update({"new": "J", "apps": apps})
        # the initial State parse_plan built is the INPUT of its first step: it must still be what it was when created
        r["input_changed"] = [pos for pos, (st0, d0) in enumerate(rec.inits) if digest([st0]) != d0]
        if raised:
            r["raised"] = raised
            return r
        if register:
            ctx.ma_plans.append(trips)
            where = {id(st_): i for i, (st_, _) in enumerate(ctx.sts)}
            r["plan_states"] = [where.get(id(t.next_state), -1) for t in trips]     # the handles of the triplets' next states
        r.update(state_res(trips[-1].next_state))
        r.pop("state", None)
        r.pop("text", None)
        r.update({"n": len(trips), "first_is_init": bool(trips[0].previous_state.is_init),
                  "chained": all(trips[i + 1].previous_state is trips[i].next_state for i in range(len(trips) - 1)),
                  "aliased": [i for i, t in enumerate(trips) if t.next_state is t.previous_state],
                  "traj": hashlib.sha1(json.dumps([state_res(t.next_state)["canon"] for t in trips]).encode()).hexdigest()[:12]})
        return r
    if k == "ma_export_traj":
        trips = ctx.ma_plans[op["maplan"]]
        lines = MultiAgentTrajectoryExporter.export(trips)
        return {"len": len(lines), "ops": hashlib.sha1("".join(l for l in lines if l.startswith("(operators")).encode()).hexdigest()[:12],
                "first": lines[0][:8],
                "canon": hashlib.sha1(json.dumps([state_res(t.next_state)["canon"] for t in trips]).encode()).hexdigest()[:12]}
    if k == "export_traj":
        trips = ctx.plans[op["plan"]]
        lines = TrajectoryExporter.export(trips)
        return {"len": len(lines), "ops": hashlib.sha1("".join(l for l in lines if l.startswith("(operator")).encode()).hexdigest()[:12],
                "canon": hashlib.sha1(json.dumps([state_res(t.next_state)["canon"] for t in trips]).encode()).hexdigest()[:12]}
    if k == "convert_plan":
        # PlanConverter.convert_plan: a sequential plan regrouped into joint actions; simulates the plan on temporaries
        # (operators, successor states) starting from a State over the PROBLEM'S OWN initial dicts; returns action calls
        dom = ctx.doms[op["dom"]]
        prob = ctx.sts[op["objs"]][1]
        calls = list(op["calls"])
        if op.get("filter"):
            # keep the calls that are applicable one after the other (the converter refuses any other plan)
            cur, kept = State(prob.initial_state_predicates, prob.initial_state_fluents, is_init=True), []
            for c in calls:
                try:
                    o = Operator(dom.actions[c["call"].strip("()").split()[0]], dom, list(c["args"]))
                    if o.is_applicable(cur):
                        cur = o.apply(cur)
                        kept.append(c)
                except Exception:
                    pass
            calls = kept
        path = ctx.wdir / ("seqplan_%d.solution" % abs(hash(json.dumps(op, sort_keys=True))))
        path.write_text("".join("%s\n" % c["call"] for c in calls))
        joint = PlanConverter(dom).convert_plan(prob, path, agent_names=list(op["agents"]),
                                                should_validate_concurrency_constraint=bool(op.get("validate", True)))
        r = text_res("\n".join(str(j) for j in joint), exact="\n".join(str(j) for j in joint))
        r.update({"steps": len(calls), "joint": len(joint)})
        return r
    if k == "parse_traj":
        # the trajectory of an earlier plan written to a file and read back by TrajectoryParser (with the plan's problem,
        # or without one: objects deduced from the first state).  Every State of the observation becomes a live value:
        # component 0's previous state, then per component its next state and (from the second component on) its
        # previous state, which is a copy of the preceding next state.
        trips = ctx.plans[op["plan"]]
        di, pj = ctx.plan_info[op["plan"]]
        path = ctx.wdir / ("traj_%d.trajectory" % op["plan"])
        with open(path, "wt") as f:
            f.writelines(TrajectoryExporter.export(trips))
        prob = None if op.get("noprob") else ctx.sts[pj][1]
        obs = TrajectoryParser(ctx.doms[di], prob).parse_trajectory(path)
        sts, parsed = [], []
        for i, c in enumerate(obs.components):
            sts += [c.previous_state, c.next_state]
            parsed += ([c.previous_state] if i == 0 else []) + [c.next_state]
        base_s = len(ctx.sts)
        if register:
            for st in sts:
                ctx.sts.append((st, None))
        return {"new": "T", "n": len(obs.components), "base_s": base_s, "dom": di, "pj": pj,
                # sorted: the insertion order of a successor's fluent keys (hence of the text read back) depends on the order
                # in which the operator's address-hashed effect groups were applied, which differs from run to run
                "fluents": [sorted(st.state_fluents.keys()) for st in parsed],
                "canon": hashlib.sha1(json.dumps([state_res(st)["canon"] for st in sts]).encode()).hexdigest()[:12],
                "objects": sorted(obs.grounded_objects)}
    if k == "export_problem":
        prob = ctx.sts[op["st"]][1]
        t = ProblemExporter().extract_problem(prob)
        r = text_res(t + "|" + str(prob))
        r["bag"] = hashlib.sha1(" ".join(sorted((t + str(prob)).replace("(", " ( ").replace(")", " ) ").split())).encode()).hexdigest()[:12]
        return r
    if k == "str_domain":
        return text_res(str(ctx.doms[op["dom"]]))
    if k == "shallow_copy":
        d = ctx.doms[op["dom"]].shallow_copy()
        if register:
            ctx.doms.append(d)
        return {"new": "D"}
    if k == "state_eq":
        a, b = ctx.sts[op["st"]][0], ctx.sts[op["st2"]][0]
        return {"bool": bool(a == b), "n": len(a.convert_fluents_to_numeric_conditions())}
    raise ValueError("unknown op " + k)


QUERY = {"applicable", "apply", "copy", "serialize", "typed_serialize", "state_objects", "str_op", "str_action",
         "export", "triplet", "plan", "export_traj", "export_problem", "str_domain", "state_eq", "parse_traj",
         "convert_plan", "joint", "ma_triplet", "ma_plan", "ma_export_traj"}


def strip(res):
    return {k: v for k, v in res.items() if k not in ("new", "base_s", "base_o", "n_ops", "n_states", "plan_states")}


def strip_x(res):
    """comparison across different parses of the same domain file"""
    r = strip(res)
    if "bag" in r:
        r.pop("text", None)
    if "canon" in r:
        r.pop("text", None)
        r.pop("state", None)
    return r


def _split_changed(before, after):
    """names of roots whose digest changed: (roots of the history, roots of the independent world, single statics)"""
    names = sorted(n for n in before if before[n] != after.get(n))
    return ([n for n in names if n[0] not in "I@"], [n for n in names if n[0] == "I"], [n[1:] for n in names if n[0] == "@"])


def run_history(job, wdir, shared_domains=None, oracle=True, watch=None, mark_steps=False, indep=None):
    """Executes job['ops']; returns the trace."""
    ctx = Ctx(job, wdir, shared_domains, indep=indep if oracle else None)
    steps = []
    before = ctx.protected_digests() if oracle else {}
    for step_index, raw in enumerate(job["ops"]):
        if mark_steps:
            _tls.step = step_index
        op = resolve(raw, ctx)
        if op is None:
            steps.append({"op": raw, "skipped": True})
            continue
        if op["k"] == "mk_op" and op.get("objs") is not None:
            pj, _ = problem_of(ctx, op["objs"])
            op["objs"] = pj
            if pj is None:
                op["objs"] = None
        if op["k"] == "joint" and op.get("objs") is not None:
            pj, _ = problem_of(ctx, op["objs"])
            op["objs"] = pj
        if op["k"] in ("triplet", "plan", "convert_plan", "ma_triplet", "ma_plan"):
            pj, _ = problem_of(ctx, op["objs"])
            if pj is None:
                steps.append({"op": raw, "skipped": True})
                continue
            op["objs"] = pj
        if op["k"] == "export_problem":
            pj, _ = problem_of(ctx, op["st"])
            if pj is None:
                steps.append({"op": raw, "skipped": True})
                continue
            op["st"] = pj
        try:
            res = execute(op, ctx)
        except Exception as e:  # an API call raising anything but the documented refusal
            res = {"raised": type(e).__name__, "msg": str(e)[:200]}
        step = {"op": op, "res": res}
        if oracle:
            # the independent world first (its queries run on its own operators): same answers as before the history?
            okeys, now = ctx.indep.check() if ctx.indep is not None else ([], None)
            after = ctx.protected_digests()
            step["changed"], ichanged, schanged = _split_changed(before, after)
            if res.get("input_changed"):
                # the initial State object MultiAgentTrajectoryExporter.parse_plan built over the problem's own dicts - the
                # state its first step was given - is not what it was when it was created: the problem's initial state changed
                name = "S%d" % op["objs"]
                if name not in step["changed"]:
                    step["changed"] = sorted(step["changed"] + [name])
                step["input_state_changed"] = "the initial State built by parse_plan (is_init / facts / fluents)"
            step["sharing"] = ctx.sharing()
            if schanged:
                step["statics_changed"] = schanged
            if ctx.indep is not None and (ichanged or okeys or ctx.foreign_pairs):
                # ... same values (digests), no mutable object in common with a root of the history
                step["indep"] = {"changed": ichanged, "sharing": ctx.foreign_pairs,
                                 "answers": [{"what": k, "before": _short(ctx.indep.ref[k]), "after": _short(now.get(k))} for k in okeys[:6]]}
                ctx.indep.ref = now            # report each change once, at the call that made it
            before = after
        if watch is not None:
            w = watch()
            if w:
                step["foreign"] = w
        steps.append(step)
    out = {"steps": steps, "handles": {"D": len(ctx.doms), "S": len(ctx.sts), "O": len(ctx.ops)}}
    if oracle:
        # (c) repeat every earlier query/transition; nothing is registered, nothing may change
        mism = []
        for i, st in enumerate(steps):
            if st.get("skipped") or st["op"]["k"] not in QUERY or "msg" in st["res"]:
                continue
            try:
                again = execute(st["op"], ctx, register=False)
            except Exception as e:  # noqa
                again = {"raised": type(e).__name__, "msg": str(e)[:200]}
            if strip_x(again) != strip_x(st["res"]):
                mism.append({"step": i, "first": strip_x(st["res"]), "again": strip_x(again)})
        after = ctx.protected_digests()
        out["repeat_mismatch"] = mism
        out["repeat_changed"] = sorted(n.lstrip("@") for n in before if before[n] != after.get(n))
        if ctx.indep is not None:
            okeys, now = ctx.indep.check()
            if okeys:
                out["repeat_changed"] += ["independent world: " + k for k in okeys[:6]]
        out["indep"] = [dict(s["indep"], step=i) for i, s in enumerate(steps) if s.get("indep")]
        out["statics_changed"] = sorted({n for s in steps for n in s.get("statics_changed", [])})
    return out, ctx


def _state_value(st):
    return ([p.untyped_representation for ps in st.state_predicates.values() for p in ps]
            + ["(= %s %s)" % (k, float(f.value).hex()) for k, f in st.state_fluents.items()])


def _nomsg(r):
    return {k: v for k, v in r.items() if k != "msg"} if isinstance(r, dict) else r


def _short(x):
    t = x if isinstance(x, str) else json.dumps(x)
    return t if len(t) <= 300 else t[:300] + "..."


def _reset_module():
    """histories are independent: undo a leak into DEFAULT_TYPES or into any other process-wide static object before
    the next one; returns what had leaked"""
    global _STATIC_BASE
    dt = _pddl_domain.DEFAULT_TYPES
    leaked = [k for k in dt if k != "object"]
    for k in leaked:
        del dt[k]
    for _, c in memo_caches():         # a memo table is emptied, not judged: what it may do is change ANSWERS (twin run)
        c.cache_clear()
    if _STATIC_BASE is None:
        _STATIC_BASE = _static_state()
        return leaked
    for name, obj in statics():
        base = _STATIC_BASE.get(name)
        if base is None or base[0] is not obj:
            _STATIC_BASE[name] = (obj, digest([obj]), _snapshot(obj))      # a module imported later
            continue
        if digest([obj]) != base[1]:
            leaked.append(name)
            _restore(obj, base[2])
    return leaked


def history(job):
    wdir = TMP / ("h_%d_%s" % (os.getpid(), job.get("id", 0)))
    if wdir.exists():
        shutil.rmtree(wdir)
    wdir.mkdir(parents=True)
    try:
        _reset_module()
        twin, twin_leak = None, []
        if job.get("indep") and job.get("twin", True):
            # the TWIN run: the same calls in a process state in which the independent world has NOT been parsed and used
            # before (statics restored, memo tables emptied); no oracle, only the answers
            tdir = wdir / "twin"
            tdir.mkdir()
            tout, tctx = run_history(dict(job, indep=None), tdir, oracle=False)
            twin_states = [_state_value(st) for st, _ in tctx.sts]
            twin = [None if s.get("skipped") else strip_x(s["res"]) for s in tout["steps"]]
            twin_leak = _reset_module()
        s0 = {n: digest([o]) for n, o in statics()}
        indep = Indep(job["indep"], wdir) if job.get("indep") else None
        s1 = {n: digest([o]) for n, o in statics()}
        out, ctx = run_history(job, wdir, indep=indep)
        out["module_leak"] = sorted(set(_reset_module()) | set(twin_leak))
        if twin is not None:
            # the history's answers must not depend on whether another domain and problem were parsed and used before it
            got = [None if s.get("skipped") else strip_x(s["res"]) for s in out["steps"]]
            out["twin_mismatch"] = [{"step": i, "op": out["steps"][i].get("op"), "alone": _short(a), "after_the_independent_world": _short(b)}
                                    for i, (a, b) in enumerate(zip(twin, got)) if _nomsg(a) != _nomsg(b)][:4]
            out["memo_caches"] = [n for n, _ in memo_caches()]
            if out["twin_mismatch"]:
                # the first live state whose VALUE differs between the two runs, as sets of atoms
                for i, (a, (st, _)) in enumerate(zip(twin_states, ctx.sts)):
                    b = _state_value(st)
                    if a != b:
                        out["twin_mismatch"][0]["first_differing_state"] = {
                            "state": "S%d" % i, "only_when_run_alone": sorted(set(a) - set(b))[:8],
                            "only_after_the_independent_world": sorted(set(b) - set(a))[:8]}
                        break
        built = sorted(n for n in s0 if s1.get(n) != s0[n])
        if built:      # building / simulating the independent world itself wrote a process-wide object
            out["statics_changed"] = sorted(set(out.get("statics_changed", [])) | set(built))
            out["statics_changed_while_building_independent_world"] = indep.build_log or built
        if indep is not None:
            out["indep_world"] = {"states": len(indep.states), "calls_skipped": indep.skipped}
        out["n_statics"] = len(s0)
        return out
    finally:
        shutil.rmtree(wdir, ignore_errors=True)


# ------------------------------------------------------------------------------------------ threads
def _sig_snapshot(dom):
    return tuple((n, tuple(a.signature.keys())) for n, a in list(dom.actions.items()))


def threads(job):
    """job: {'doms': [...], 'probs': [...], 'threads': [ops, ...], 'rounds': n}.  Every thread history starts
    with the shared domain as D0 (ops must not contain parse_domain of src 0 again necessarily)."""
    wdir = TMP / ("t_%d_%s" % (os.getpid(), job.get("id", 0)))
    if wdir.exists():
        shutil.rmtree(wdir)
    wdir.mkdir(parents=True)
    old = sys.getswitchinterval()
    try:
        _reset_module()
        dpath = wdir / "shared_dom.pddl"
        dpath.write_text(job["doms"][0])
        # sequential reference: each history alone on a fresh parse of the domain
        ref = []
        for t, ops in enumerate(job["threads"]):
            d = DomainParser(dpath).parse_domain()
            sub = wdir / ("seq_%d" % t)
            sub.mkdir()
            out, _ = run_history(dict(job, ops=ops), sub, shared_domains=[d], oracle=False)
            ref.append([strip_x(s.get("res", {})) for s in out["steps"]])
        fresh_digest = digest([DomainParser(dpath).parse_domain()])
        diffs, foreign, dom_changed = [], [], 0
        for rnd in range(job.get("rounds", 1)):
            shared = DomainParser(dpath).parse_domain()
            base_sig = _sig_snapshot(shared)
            results = [None] * len(job["threads"])
            barrier = threading.Barrier(len(job["threads"]))

            def watch():
                try:
                    s = _sig_snapshot(shared)
                except RuntimeError as e:
                    return "RuntimeError:" + str(e)[:60]
                return None if s == base_sig else "signature seen as %r" % (s,)

            def body(t, ops):
                sub = wdir / ("r%d_%d" % (rnd, t))
                sub.mkdir()
                barrier.wait()
                try:
                    out, _ = run_history(dict(job, ops=ops), sub, shared_domains=[shared], oracle=False, watch=watch)
                    results[t] = out
                except Exception as e:  # noqa
                    results[t] = {"steps": [], "crash": type(e).__name__ + ":" + str(e)[:100]}

            sys.setswitchinterval(1e-6)
            ths = [threading.Thread(target=body, args=(t, ops)) for t, ops in enumerate(job["threads"])]
            for th in ths:
                th.start()
            for th in ths:
                th.join()
            sys.setswitchinterval(old)
            for t, out in enumerate(results):
                got = [strip_x(s.get("res", {})) for s in out["steps"]]
                if got != ref[t] or "crash" in out:
                    first = next((i for i, (a, b) in enumerate(zip(got, ref[t])) if a != b), None)
                    diffs.append({"round": rnd, "thread": t, "first_diff_step": first,
                                  "got": got[first] if first is not None and first < len(got) else out.get("crash"),
                                  "expected": ref[t][first] if first is not None else None})
                for i, s in enumerate(out["steps"]):
                    if s.get("foreign"):
                        foreign.append({"round": rnd, "thread": t, "step": i, "saw": s["foreign"]})
            if digest([shared]) != fresh_digest:
                dom_changed += 1
        leak = _reset_module()
        return {"diffs": diffs[:5], "n_diffs": len(diffs), "foreign": foreign[:5], "n_foreign": len(foreign),
                "domain_changed_rounds": dom_changed, "module_leak": leak,
                "steps": [len(r) for r in ref], "raised": [sum(1 for x in r if "raised" in x) for r in ref]}
    finally:
        sys.setswitchinterval(old)
        shutil.rmtree(wdir, ignore_errors=True)


# ------------------------------------------------------------------------------------------ deterministic scheduler
_tls = threading.local()
_ACTIVE = [None]          # the scheduler of the run in progress


def _hit(cell, kind):
    sch = _ACTIVE[0]
    if sch is None:
        return
    tid = getattr(_tls, "tid", None)
    if tid is None:
        return
    sch.hit(tid, getattr(_tls, "step", -1), cell, kind)


def _mk_proxy(base, name, reads, writes, extra_reads=()):
    """a subclass of dict / list / set whose methods announce the access (a yield point) before performing it"""
    ns = {"__slots__": ("_cell",), "_base_name": base.__name__}

    def wrap(meth, kind):
        f = getattr(base, meth)

        def g(self, *a, **kw):
            _hit(self._cell, kind)
            return f(self, *a, **kw)
        g.__name__ = meth
        return g
    for m in reads:
        if hasattr(base, m):
            ns[m] = wrap(m, "R")
    for m in writes:
        if hasattr(base, m):
            ns[m] = wrap(m, "W")
    return type(name, (base,), ns)


PDict = _mk_proxy(dict, "PDict",
                  ["__getitem__", "get", "__contains__", "__iter__", "__len__", "keys", "values", "items", "copy",
                   "__eq__", "__ne__", "__or__", "__ror__", "__reversed__"],
                  ["__setitem__", "__delitem__", "pop", "popitem", "update", "setdefault", "clear", "__ior__"])
PList = _mk_proxy(list, "PList",
                  ["__getitem__", "__contains__", "__iter__", "__len__", "copy", "count", "index", "__eq__", "__ne__",
                   "__add__", "__mul__", "__reversed__"],
                  ["__setitem__", "__delitem__", "append", "extend", "insert", "remove", "pop", "clear", "sort",
                   "reverse", "__iadd__", "__imul__"])
PSet = _mk_proxy(set, "PSet",
                 ["__contains__", "__iter__", "__len__", "copy", "__eq__", "__ne__", "__or__", "__and__", "__sub__",
                  "__xor__", "__ror__", "__rand__", "__rsub__", "__rxor__", "union", "intersection", "difference",
                  "symmetric_difference", "issubset", "issuperset", "isdisjoint", "__le__", "__lt__", "__ge__", "__gt__"],
                 ["add", "discard", "remove", "pop", "clear", "update", "intersection_update", "difference_update",
                  "symmetric_difference_update", "__ior__", "__iand__", "__isub__", "__ixor__"])


def _px(cls, obj, cell):
    o = cls(obj)
    o._cell = cell
    return o


def proxify(dom):
    """replaces the containers of a (shared) domain by logging proxies.  Cells: "T" = Domain.types,
    "A<i>" = signature of the i-th action, "X" = every other container of the Domain and of its Actions."""
    dom.types = _px(PDict, dom.types, "T")
    for name in ("actions", "predicates", "functions", "constants"):
        setattr(dom, name, _px(PDict, getattr(dom, name), "X"))
    dom.requirements = _px(PList, dom.requirements, "X")
    for i, a in enumerate(dict.values(dom.actions)):
        a.signature = _px(PDict, a.signature, "A%d" % i)
        for attr in ("discrete_effects", "numeric_effects", "conditional_effects", "universal_effects"):
            setattr(a, attr, _px(PSet, getattr(a, attr), "X"))
    return dom


class Sched:
    """One run of n threads under a deterministic policy.  Exactly one thread runs at a time; control changes
    hands only at yield points (accesses of proxies) and when a thread ends."""

    def __init__(self, n, order, preempt=None, rng=None, p_switch=0.0):
        self.n, self.order = n, list(order)
        self.preempt = dict(preempt or {})          # global hit index -> thread to switch to
        self.rng, self.p_switch = rng, p_switch
        self.sems = [threading.Semaphore(0) for _ in range(n)]
        self.done = [False] * n
        self.count = 0
        self.log = []                                # (tid, step, kind, cell) in execution order
        self.switches = 0
        self.error = None

    def _wait(self, t):
        if not self.sems[t].acquire(timeout=60):
            self.error = "scheduler timeout in thread %d" % t
            raise RuntimeError(self.error)

    def begin(self, t):
        self._wait(t)

    def start(self):
        self.sems[self.order[0]].release()

    def hit(self, t, step, cell, kind):
        i = self.count
        self.count += 1
        nxt = t
        if i in self.preempt:
            nxt = self.preempt[i]
        elif self.rng is not None and self.rng.random() < self.p_switch:
            cands = [u for u in range(self.n) if not self.done[u] and u != t]
            if cands:
                nxt = self.rng.choice(cands)
        if nxt != t and not self.done[nxt]:
            self.switches += 1
            self.sems[nxt].release()
            self._wait(t)
        self.log.append((t, step, kind, cell))

    def end(self, t):
        self.done[t] = True
        for u in self.order:
            if not self.done[u]:
                self.sems[u].release()
                return


def _sched_run(job, wdir, tag, dpath, order, preempt=None, rng=None, p_switch=0.0):
    """one scheduled run on a fresh, proxified parse of the shared domain"""
    shared = proxify(DomainParser(dpath).parse_domain())
    n = len(job["threads"])
    sch = Sched(n, order, preempt, rng, p_switch)
    results = [None] * n

    def body(t, ops):
        sub = wdir / ("%s_%d" % (tag, t))
        sub.mkdir()
        _tls.tid = None
        try:
            sch.begin(t)
            _tls.tid = t
            out, _ = run_history(dict(job, ops=ops), sub, shared_domains=[shared], oracle=False, mark_steps=True)
            results[t] = out
        except Exception as e:  # noqa
            results[t] = {"steps": [], "crash": type(e).__name__ + ":" + str(e)[:100]}
        finally:
            _tls.tid = None
            sch.end(t)

    _ACTIVE[0] = sch
    try:
        ths = [threading.Thread(target=body, args=(t, ops)) for t, ops in enumerate(job["threads"])]
        for th in ths:
            th.start()
        sch.start()
        for th in ths:
            th.join(120)
    finally:
        _ACTIVE[0] = None
    for t in range(n):
        shutil.rmtree(wdir / ("%s_%d" % (tag, t)), ignore_errors=True)
    return shared, sch, results


def sched(job):
    """job: {'doms': [text], 'probs': [...], 'threads': [ops, ...], 'random': k, 'seed': n, 'max_points': m}."""
    import itertools
    import random as _random
    wdir = TMP / ("s_%d_%s" % (os.getpid(), job.get("id", 0)))
    if wdir.exists():
        shutil.rmtree(wdir)
    wdir.mkdir(parents=True)
    try:
        _reset_module()
        dpath = wdir / "shared_dom.pddl"
        dpath.write_text(job["doms"][0])
        n = len(job["threads"])
        # sequential reference: each history alone, on its own (proxified, unscheduled) parse of the domain
        ref, ref_raw = [], []
        for t, ops in enumerate(job["threads"]):
            d = proxify(DomainParser(dpath).parse_domain())
            sub = wdir / ("seq_%d" % t)
            sub.mkdir()
            out, _ = run_history(dict(job, ops=ops), sub, shared_domains=[d], oracle=False)
            ref.append([strip_x(s.get("res", {})) for s in out["steps"]])
            ref_raw.append(out["steps"])
        fresh_digest = digest([proxify(DomainParser(dpath).parse_domain())])
        diffs, shared_writes, dom_changed, n_runs, total_hits, total_switches = [], [], 0, 0, 0, 0
        foot = [[{"r": set(), "w": set()} for _ in ops] for ops in job["threads"]]
        sample = None
        errors = []

        def account(tag, shared, sch, results, descr):
            nonlocal dom_changed, n_runs, total_hits, total_switches, sample
            n_runs += 1
            total_hits += sch.count
            total_switches += sch.switches
            if sch.error:
                errors.append(sch.error)
            for (t, step, kind, cell) in sch.log:
                if 0 <= step < len(foot[t]):
                    foot[t][step]["w" if kind == "W" else "r"].add(cell)
                if kind == "W":
                    shared_writes.append({"schedule": descr, "thread": t, "step": step, "cell": cell})
            for t, out in enumerate(results):
                got = [strip_x(s.get("res", {})) for s in (out or {}).get("steps", [])]
                if got != ref[t] or out is None or "crash" in out:
                    first = next((i for i, (a, b) in enumerate(zip(got, ref[t])) if a != b), None)
                    diffs.append({"schedule": descr, "thread": t, "first_diff_step": first,
                                  "got": got[first] if first is not None and first < len(got) else (out or {}).get("crash"),
                                  "expected": ref[t][first] if first is not None else None})
            if digest([shared]) != fresh_digest:
                dom_changed += 1
            if sch.switches and (sample is None or (sample[1] < 2 <= sch.switches)):
                sample = ([[t, k, c] for (t, _, k, c) in sch.log], sch.switches)

        # (1) the non-preemptive schedules, one per rotation of the thread order
        # (2) every schedule with exactly ONE preemption relative to such a baseline: at every yield point j (thread t
        #     running), hand control to each thread u that has not started yet; u runs to its end, t resumes
        base_counts = {}
        max_points = job.get("max_points", 10 ** 9)
        exhaustive = True
        for r in range(n):
            order = list(range(r, n)) + list(range(r))
            shared, sch, results = _sched_run(job, wdir, "b%d" % r, dpath, order)
            account("b", shared, sch, results, {"order": order, "preempt": []})
            base_counts[str(r)] = sch.count
            base_log = list(sch.log)
            idxs = [j for j in range(len(base_log)) if order.index(base_log[j][0]) < n - 1]
            if len(idxs) > max_points:
                exhaustive = False
                rr0 = _random.Random(job.get("seed", 0) * 7919 + r)
                idxs = sorted(rr0.sample(idxs, max_points))
            for j in idxs:
                t = base_log[j][0]
                for u in order[order.index(t) + 1:]:
                    shared, sch, results = _sched_run(job, wdir, "p", dpath, order, preempt={j: u})
                    account("p", shared, sch, results, {"order": order, "preempt": [[j, u]]})
        # (3) seeded random schedules (any number of preemptions)
        rr = _random.Random(job.get("seed", 0))
        for k in range(job.get("random", 0)):
            order = list(range(n))
            rr.shuffle(order)
            seed_k = rr.randrange(10 ** 9)
            shared, sch, results = _sched_run(job, wdir, "r", dpath, order, rng=_random.Random(seed_k),
                                             p_switch=rr.choice([0.02, 0.1, 0.3]))
            account("r", shared, sch, results, {"order": order, "random_seed": seed_k})
        leak = _reset_module()
        return {"n_runs": n_runs, "hits": total_hits, "switches": total_switches, "one_preemption_exhaustive": exhaustive,
                "yield_points": base_counts, "diffs": diffs[:5], "n_diffs": len(diffs),
                "shared_writes": shared_writes[:5], "n_shared_writes": len(shared_writes),
                "domain_changed_runs": dom_changed, "module_leak": leak, "errors": errors[:3],
                "foot": [[{"r": sorted(f["r"]), "w": sorted(f["w"])} for f in th] for th in foot],
                "ref": [[{"op": s.get("op"), "res": s.get("res"), "skipped": s.get("skipped", False)} for s in steps] for steps in ref_raw],
                "sample": (sample[0][:400] if sample else [])}
    finally:
        _ACTIVE[0] = None
        shutil.rmtree(wdir, ignore_errors=True)
