"""Implementation driver for C11 (PDDLTokenizer)."""
import os
import shutil
import tempfile
from pathlib import Path

from pddl_plus_parser.lisp_parsers import PDDLTokenizer

from c11_util import digest, expand_segs, expand_toks, flatten_iter

TMP = Path(os.environ.get("VERIF_WORK", "/verif/work")) / "C11" / "tmp"


def show(e):
    if isinstance(e, str):
        return e
    return " ".join(["("] + [show(x) for x in e] + [")"])


def parse(job):
    text = job["text"]
    if job["file"]:
        TMP.mkdir(parents=True, exist_ok=True)
        fd, name = tempfile.mkstemp(dir=str(TMP), suffix=".pddl")
        try:
            with os.fdopen(fd, "wb") as fh:
                fh.write(text.encode("latin-1"))
            tok = PDDLTokenizer(file_path=Path(name))
            return {"ok": show(tok.parse())}
        finally:
            os.unlink(name)
    return {"ok": show(PDDLTokenizer(pddl_str=text).parse())}


def facts(job):
    """CPython facts the model encodes (appendix A of DESIGN.md), re-checked on every run."""
    ws = [i for i in range(128) if chr(i).isspace()]
    split_ws = [i for i in range(128) if ("a" + chr(i) + "b").split() == ["a", "b"]]
    lower = [i for i in range(128) if chr(i).lower() != chr(i)]
    lower_ok = all(chr(i).lower() == chr(i + 32) for i in range(65, 91))
    return {"isspace": ws, "split": split_ws, "lower_changes": lower, "lower_ok": lower_ok}


def _write(path, data, how="overwrite"):
    """puts `data` (bytes) at `path`: 'overwrite' truncates and rewrites the existing file (same inode),
    'replace' writes a sibling and renames it over the path, 'recreate' unlinks first."""
    if how == "replace":
        tmp = path.with_suffix(".new")
        tmp.write_bytes(data)
        os.replace(tmp, path)
        return
    if how == "recreate" and path.exists():
        path.unlink()
    with open(path, "wb") as fh:
        fh.write(data)


def parse_big(job):
    """LARGE input given as segments [(block, repetitions)]; the observable is the digest of the returned
    tree's token stream (c11_util.digest, the same fold as Corr.C11.digest).  When the generator's expected
    token stream is supplied (same segment form) the first difference is located for the replay file."""
    text = expand_segs(job["segs"])
    if job["file"]:
        TMP.mkdir(parents=True, exist_ok=True)
        fd, name = tempfile.mkstemp(dir=str(TMP), suffix=".pddl")
        try:
            with os.fdopen(fd, "wb") as fh:
                fh.write(text.encode("latin-1"))
            tree = PDDLTokenizer(file_path=Path(name)).parse()
        finally:
            os.unlink(name)
    else:
        tree = PDDLTokenizer(pddl_str=text).parse()
    toks = flatten_iter(tree)
    out = {"ok": digest(toks), "chars": len(text)}
    if job.get("expect_toks") is not None:
        exp = expand_toks(job["expect_toks"])
        n = min(len(exp), len(toks))
        k = next((i for i in range(n) if exp[i] != toks[i]), None)
        if k is None and len(exp) != len(toks):
            k = n
        if k is not None:
            out["first_difference"] = {"token_index": k, "expected": exp[max(0, k - 2):k + 3], "got": toks[max(0, k - 2):k + 3],
                                       "expected_tokens": len(exp), "got_tokens": len(toks)}
    return out


def sequence(job):
    """A call SEQUENCE in one process: each step puts a text at a path (or leaves the file as it is) and reads it
    with a fresh PDDLTokenizer, or reads a string.  One result per step: what parse() returned / raised for the
    text that is at the path AT THAT MOMENT."""
    TMP.mkdir(parents=True, exist_ok=True)
    base = tempfile.mkdtemp(dir=str(TMP), prefix="seq_")
    out = []
    paths = set()
    try:
        for st in job["steps"]:
            try:
                if st["file"]:
                    path = Path(base) / st["path"]
                    paths.add(path)
                    if st.get("write", True):
                        _write(path, st["text"].encode(st.get("encoding", "latin-1")), st.get("how", "overwrite"))
                    out.append({"ok": show(PDDLTokenizer(file_path=path).parse())})
                else:
                    out.append({"ok": show(PDDLTokenizer(pddl_str=st["text"]).parse())})
            except RecursionError:
                out.append({"raised": "RecursionError", "msg": ""})
            except Exception as e:  # noqa
                out.append({"raised": type(e).__name__, "msg": str(e)[:200]})
    finally:
        shutil.rmtree(base, ignore_errors=True)
    return {"steps": out}


def parse_utf8(job):
    """non-ASCII text (outside the Coq model): the same text from a UTF-8 file and as a string"""
    text = job["text"]
    out = {}
    TMP.mkdir(parents=True, exist_ok=True)
    fd, name = tempfile.mkstemp(dir=str(TMP), suffix=".pddl")
    try:
        with os.fdopen(fd, "wb") as fh:
            fh.write(text.encode("utf-8"))
        try:
            out["file"] = {"ok": show(PDDLTokenizer(file_path=Path(name)).parse())}
        except Exception as e:  # noqa
            out["file"] = {"raised": type(e).__name__}
    finally:
        os.unlink(name)
    try:
        out["str"] = {"ok": show(PDDLTokenizer(pddl_str=text).parse())}
    except Exception as e:  # noqa
        out["str"] = {"raised": type(e).__name__}
    return out
