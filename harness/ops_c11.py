"""Implementation driver for C11 (PDDLTokenizer)."""
import os
import tempfile
from pathlib import Path

from pddl_plus_parser.lisp_parsers import PDDLTokenizer

TMP = Path(os.environ.get("VERIF_WORK", "/verif/work")) / "C11" / "tmp"


def show(e):
    if isinstance(e, str):
        return e
    return " ".join(["("] + [show(x) for x in e] + [")"])


def parse(job):
    text = job["text"]
    if job["file"]:
        TMP.mkdir(parents=True, exist_ok=True)
        fd, name = tempfile.mkstemp(dir=str(TMP), suffix=".pddl")
        try:
            with os.fdopen(fd, "wb") as fh:
                fh.write(text.encode("latin-1"))
            tok = PDDLTokenizer(file_path=Path(name))
            return {"ok": show(tok.parse())}
        finally:
            os.unlink(name)
    return {"ok": show(PDDLTokenizer(pddl_str=text).parse())}


def facts(job):
    """CPython facts the model encodes (appendix A of DESIGN.md), re-checked on every run."""
    ws = [i for i in range(128) if chr(i).isspace()]
    split_ws = [i for i in range(128) if ("a" + chr(i) + "b").split() == ["a", "b"]]
    lower = [i for i in range(128) if chr(i).lower() != chr(i)]
    lower_ok = all(chr(i).lower() == chr(i + 32) for i in range(65, 91))
    return {"isspace": ws, "split": split_ws, "lower_changes": lower, "lower_ok": lower_ok}
