"""Implementation driver for C09: parse a problem, export it with ProblemExporter.export_problem, parse the
exported file with ProblemParser against the same domain, and once more."""
import math
from pathlib import Path

from pddl_plus_parser.exporters import ProblemExporter
from pddl_plus_parser.lisp_parsers import ProblemParser

from ops_c05 import (TMP, exc, load_domain, number_table, parse_problem_text, problem_dump, vocab, write_tmp)


def values_of(dump):
    out = [float.fromhex(v) for _, _, v in dump["fluents"]]

    def walk(t):
        if t[0] == "num":
            out.append(float.fromhex(t[1]))
        elif t[0] == "op":
            walk(t[2])
            walk(t[3])
    for t in dump["goal_num"]:
        walk(t)
    return out


def export_to_text(problem):
    path = write_tmp("", suffix=".exported.pddl")
    try:
        ProblemExporter().export_problem(problem, path)
        return path.read_text()
    finally:
        path.unlink()


def one(domain, text):
    r = {"nums": number_table(text), "reprs": {}}
    try:
        p1 = parse_problem_text(domain, text)
        r["dump1"] = problem_dump(p1)
    except Exception as e:  # noqa
        r["raised1"] = exc(e)
        return r
    cur = p1
    for k in ("2", "3"):
        try:
            t = export_to_text(cur)
            r["export" + k] = t
            r["nums"].update(number_table(t))
        except Exception as e:  # noqa
            r["export_raised" + k] = exc(e)
            break
        try:
            cur = parse_problem_text(domain, t)
            r["dump" + k] = problem_dump(cur)
        except Exception as e:  # noqa
            r["raised" + k] = exc(e)
            break
    bad = []
    for key in ("dump1", "dump2", "dump3"):
        if key in r:
            for x in values_of(r[key]):
                r["reprs"][x.hex()] = repr(x)
                back = float(repr(x))
                if not (back.hex() == x.hex() or (math.isnan(x) and math.isnan(back))):
                    bad.append(x.hex())
    r["repr_roundtrip_failures"] = bad
    return r


def world(job):
    try:
        domain = load_domain(job)
    except Exception as e:  # noqa
        return {"domain_raised": exc(e)}
    out = {"vocab": vocab(domain), "results": []}
    for pr in job["problems"]:
        text = Path(pr["path"]).read_text() if isinstance(pr, dict) else pr
        r = one(domain, text)
        if isinstance(pr, dict):
            r["text"] = text
        out["results"].append(r)
    return out
