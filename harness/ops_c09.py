"""Implementation driver for C09: parse a problem, export it with ProblemExporter.export_problem, parse the
exported file with ProblemParser against the same domain, and once more."""
import math
from pathlib import Path

from pddl_plus_parser.exporters import ProblemExporter
from pddl_plus_parser.lisp_parsers import ProblemParser

from ops_c05 import (TMP, exc, load_domain, number_table, parse_problem_text, problem_dump, vocab, write_tmp)


def values_of(dump):
    out = [float.fromhex(v) for _, _, v in dump["fluents"]]

    def walk(t):
        if t[0] == "num":
            out.append(float.fromhex(t[1]))
        elif t[0] == "op":
            walk(t[2])
            walk(t[3])
    for t in dump["goal_num"]:
        walk(t)
    return out


def export_to_text(problem, exporter=None, out=None):
    """exporter / out given: the SAME ProblemExporter object writes to the SAME path as for the problems before"""
    if exporter is not None:
        exporter.export_problem(problem, out)
        return out.read_text()
    path = write_tmp("", suffix=".exported.pddl")
    try:
        ProblemExporter().export_problem(problem, path)
        return path.read_text()
    finally:
        path.unlink()


def parse_text(domain, text, src=None):
    """src given: the text is written over whatever the file at that path held before"""
    if src is None:
        return parse_problem_text(domain, text)
    with open(src, "w", newline="") as fh:
        fh.write(text)
    return ProblemParser(src, domain).parse_problem()


def one(domain, text, exporter=None, src=None, out=None):
    r = {"nums": number_table(text), "reprs": {}}
    try:
        p1 = parse_text(domain, text, src)
        r["dump1"] = problem_dump(p1)
    except Exception as e:  # noqa
        r["raised1"] = exc(e)
        return r
    cur = p1
    for k in ("2", "3"):
        try:
            t = export_to_text(cur, exporter, out)
            r["export" + k] = t
            r["nums"].update(number_table(t))
        except Exception as e:  # noqa
            r["export_raised" + k] = exc(e)
            break
        try:
            # the reused path is parsed as the exporter left it
            cur = ProblemParser(out, domain).parse_problem() if out is not None else parse_problem_text(domain, t)
            r["dump" + k] = problem_dump(cur)
        except Exception as e:  # noqa
            r["raised" + k] = exc(e)
            break
    bad = []
    for key in ("dump1", "dump2", "dump3"):
        if key in r:
            for x in values_of(r[key]):
                r["reprs"][x.hex()] = repr(x)
                back = float(repr(x))
                if not (back.hex() == x.hex() or (math.isnan(x) and math.isnan(back))):
                    bad.append(x.hex())
    r["repr_roundtrip_failures"] = bad
    return r


def world(job):
    try:
        domain = load_domain(job)
    except Exception as e:  # noqa
        return {"domain_raised": exc(e)}
    out = {"vocab": vocab(domain), "results": []}
    exporter = src = dst = None
    if job.get("reuse"):
        # one ProblemExporter object, one source path and one export path for all problems of the job
        exporter, src, dst = ProblemExporter(), write_tmp("", suffix=".src.pddl"), write_tmp("", suffix=".out.pddl")
    for pr in job["problems"]:
        text = Path(pr["path"]).read_text() if isinstance(pr, dict) else pr
        r = one(domain, text, exporter, src, dst)
        if isinstance(pr, dict):
            r["text"] = text
        out["results"].append(r)
    for f in (src, dst):
        if f is not None:
            f.unlink()
    return out
