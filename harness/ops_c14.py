"""Implementation driver for C14 (State.__eq__, copy, serialize) and state dumps shared with C10.

A job is a *group*: state descriptions built in one process (so that they can be compared with each other),
the ordered pairs to compare, and what to observe on each state.  States are built through the public API only:
constructors (route 'ctor'), ProblemParser ('problem'), TrajectoryParser.parse_state ('trajectory'), State.copy
('copy') and Operator.apply ('succ').  A state is dumped field by field through its public attributes, sets in
their actual iteration order.
"""
import json
import math
import os
import tempfile
from pathlib import Path

from pddl_plus_parser.lisp_parsers import DomainParser, ProblemParser, TrajectoryParser, PDDLTokenizer
from pddl_plus_parser.models import State, PDDLFunction, GroundedPredicate, PDDLType, Operator

TMP = Path(os.environ.get("VERIF_WORK", "/verif/work")) / "C14" / "tmp"


_FIXED_DIR = None     # set by sequence(same_paths): every file of the job is written to the SAME path again and again


def write_tmp(text, suffix=".pddl"):
    TMP.mkdir(parents=True, exist_ok=True)
    if _FIXED_DIR is not None:
        p = Path(_FIXED_DIR) / ("file" + suffix)
        p.write_text(text)
        return p
    fd, name = tempfile.mkstemp(dir=str(TMP), suffix=suffix)
    with os.fdopen(fd, "w") as fh:
        fh.write(text)
    return Path(name)


def exc(e):
    return {"raised": type(e).__name__, "msg": str(e)[:200]}


# ---------------------------------------------------------------- dumps
def fhex(v):
    return float(v).hex() if not (isinstance(v, float) and math.isnan(v)) else "nan"


def dump_gp(g):
    return {"name": g.name, "sig": [[p, str(t)] for p, t in g.signature.items()],
            "map": [[p, o] for p, o in g.object_mapping.items()], "pos": bool(g.is_positive)}


def dump_pf(f):
    return {"name": f.name, "sig": [[p, str(t)] for p, t in f.signature.items()], "val": fhex(f.value),
            "is_float": isinstance(f.value, float), "repr": str(f.value),
            "rep": [[n, k] for n, k in f.repeating_variables.items()]}


def dump_state(s):
    return {"init": bool(s.is_init),
            "preds": [[k, [dump_gp(g) for g in grp]] for k, grp in s.state_predicates.items()],
            "fluents": [[k, dump_pf(f)] for k, f in s.state_fluents.items()]}


def snapshot(s):
    """order-insensitive picture of everything reachable from the state (for the mutation test)"""
    d = dump_state(s)
    for kv in d["preds"]:
        kv[1] = sorted(json.dumps(g, sort_keys=True) for g in kv[1])
    return json.dumps(d, sort_keys=True)


# ---------------------------------------------------------------- construction
_types = {}


def ty(name):
    if name not in _types:
        _types[name] = PDDLType(name)
    return _types[name]


def make_literal(g):
    """a GroundedPredicate object of the described polarity; 'via' says how the object comes about (wave 4: the ways a
    NEGATIVE ground literal can be made through the public API)"""
    pos, via = g.get("pos", True), g.get("via", "ctor")
    sig, mapping = {p: ty(t) for p, t in g["sig"]}, {p: o for p, o in g["map"]}
    if via == "ctor":
        return GroundedPredicate(g["name"], sig, mapping, is_positive=pos)
    if via == "negated-copy":        # the opposite literal, then GroundedPredicate.copy(is_negated=True)
        return GroundedPredicate(g["name"], sig, mapping, is_positive=not pos).copy(is_negated=True)
    if via == "flip":                # the attribute assigned after construction (before the object enters a set)
        lit = GroundedPredicate(g["name"], sig, mapping, is_positive=not pos)
        lit.is_positive = pos
        return lit
    if via == "plain-copy":          # copy() of a literal of the same polarity
        return GroundedPredicate(g["name"], sig, mapping, is_positive=pos).copy()
    if via == "effect":              # the literal the library itself grounds among the effects of an action call
        e = g["effect"]
        dom = get_domain(e["domain"])
        op = Operator(dom.actions[e["action"]], dom, list(e["args"]), get_problem(dom, e["problem"]).objects)
        op.ground()
        for eff in op.grounded_effects:
            for lit in eff.grounded_discrete_effects:
                if lit.name == g["name"] and list(lit.object_mapping.values()) == [o for _, o in g["map"]] \
                        and bool(lit.is_positive) == pos:
                    return lit
        raise ValueError("no such effect literal")
    raise ValueError("unknown via " + via)


def build_ctor(d):
    preds = {}
    for key, grp in d["preds"]:
        st = set()
        for g in grp:
            st.add(make_literal(g))
        preds[key] = st
    fluents = {}
    for key, f in d["fluents"]:
        pf = PDDLFunction(f["name"], {p: ty(t) for p, t in f["sig"]}, {n: k for n, k in f.get("rep", [])})
        if f.get("unset"):
            pass                                    # never given a value: PDDLFunction's default
        elif "ival" in f:
            pf.set_value(int(f["ival"]))            # a Python int through the public setter
        else:
            pf.set_value(float("nan") if f["val"] == "nan" else float.fromhex(f["val"]))
        fluents[key] = pf
    state = State(preds, fluents, is_init=d.get("init", False))
    for key, g in d.get("late", []):     # literals put into the finished state through its public attribute
        state.state_predicates.setdefault(key, set()).add(make_literal(g))
    return state


_dom_cache = {}


def get_domain(text):
    if text not in _dom_cache:
        p = write_tmp(text)
        try:
            _dom_cache[text] = DomainParser(p).parse_domain()
        finally:
            p.unlink()
    return _dom_cache[text]


def get_problem(domain, text):
    p = write_tmp(text)
    try:
        return ProblemParser(p, domain).parse_problem()
    finally:
        p.unlink()


def build(d, built):
    route = d["route"]
    if route == "ctor":
        return build_ctor(d)
    if route == "copy":
        return built[d["of"]].copy()
    dom = get_domain(d["domain"])
    if route == "problem":
        pr = get_problem(dom, d["problem"])
        return State(pr.initial_state_predicates, pr.initial_state_fluents, is_init=True)
    if route == "trajectory":
        pr = get_problem(dom, d["problem"]) if d.get("problem") else None
        tree = PDDLTokenizer(pddl_str=d["text"]).parse()
        s = TrajectoryParser(dom, pr).parse_state(tree[1:])
        s.is_init = tree[0] == ":init"
        return s
    if route == "succ":
        pr = get_problem(dom, d["problem"])
        op = Operator(dom.actions[d["action"]], dom, list(d["args"]), pr.objects)
        return op.apply(built[d["of"]], allow_inapplicable_actions=True)
    raise ValueError("unknown route " + route)


# ---------------------------------------------------------------- observations
def mutate(c):
    """API-level mutations of everything State.copy() is supposed to have copied"""
    for k, grp in list(c.state_predicates.items()):
        for g in list(grp):
            g.is_positive = not g.is_positive
            g.name = g.name + "_x"
        grp.clear()
        grp.add(GroundedPredicate("zz", {}, {}))
    c.state_predicates["(new )"] = set()
    for k, f in list(c.state_fluents.items()):
        f.set_value(42.5)
        f.name = f.name + "_x"
    c.state_fluents["(newf )"] = PDDLFunction("newf", {})
    if c.state_fluents:
        del c.state_fluents[next(iter(c.state_fluents))]
    c.is_init = not c.is_init


def deep_dicts(c):
    """the dictionaries hanging off the facts and fluents (State.copy does not copy them: they are shared with
    the original, with the parsed domain's lifted signatures and, for repeating_variables, with a default argument)"""
    out = {}
    for grp in c.state_predicates.values():
        for g in grp:
            out[id(g.object_mapping)] = g.object_mapping
            out[id(g.signature)] = g.signature
    for f in c.state_fluents.values():
        out[id(f.signature)] = f.signature
        out[id(f.repeating_variables)] = f.repeating_variables
    return list(out.values())


def mutate_deep(c):
    """in-place changes of those dictionaries; returns the undo list"""
    saved = [(d, dict(d)) for d in deep_dicts(c)]
    for grp in c.state_predicates.values():
        for g in grp:
            g.object_mapping["?zz"] = "zz"
            for p in list(g.object_mapping):
                g.object_mapping[p] = "zz"
            g.signature["?zz"] = ty("zz")
    for f in c.state_fluents.values():
        f.signature["zz"] = ty("zz")
        f.repeating_variables["zz"] = 2
    return saved


def undo(saved):
    for d, old in saved:
        d.clear()
        d.update(old)


def observe(s):
    out = {}

    def attempt(name, fn):
        try:
            out[name] = {"value": fn()}
        except Exception as e:  # noqa
            out[name] = exc(e)
    attempt("ser", lambda: s.serialize())
    attempt("self_eq", lambda: bool(s == s))
    attempt("copy_eq", lambda: bool(s.copy() == s) and bool(s == s.copy()))
    attempt("copy_ser", lambda: s.copy().serialize())
    attempt("tser", lambda: s.typed_serialize())
    attempt("copy_tser", lambda: s.copy().typed_serialize())
    attempt("hash", lambda: str(hash(s)))
    return out


def independence(s):
    """runs last: the state is consumed"""
    out = {}
    try:
        before = snapshot(s)
        c = s.copy()
        mutate(c)
        ok1 = snapshot(s) == before
        c2 = s.copy()
        saved = mutate_deep(c2)
        try:
            deep = snapshot(s) == before
        finally:
            undo(saved)
        # rebuild a clean copy to test the other direction
        c3 = s.copy()
        snap3 = snapshot(c3)
        mutate(s)
        ok2 = snapshot(c3) == snap3
        out["indep"] = {"value": bool(ok1 and ok2)}
        out["indep_deep"] = {"value": bool(deep)}
    except Exception as e:  # noqa
        out["indep"] = exc(e)
        out["indep_deep"] = exc(e)
    return out


def vocabulary(domain):
    return {"types": [[n, t.parent.name if t.parent is not None else "object"] for n, t in domain.types.items() if n != "object"],
            "consts": [[n, c.type.name] for n, c in domain.constants.items()],
            "preds": [[n, [[p, t.name] for p, t in pr.signature.items()]] for n, pr in domain.predicates.items()],
            "funcs": [[n, [[p, t.name] for p, t in f.signature.items()]] for n, f in domain.functions.items()]}


def readback(s, dom, pr):
    """the state's own text through the library's reader: (s' == s and s == s', s'.serialize())"""
    try:
        tree = PDDLTokenizer(pddl_str=s.serialize()).parse()
        s2 = TrajectoryParser(dom, pr).parse_state(tree[1:])
        return {"value": [bool(s2 == s) and bool(s == s2), s2.serialize()]}
    except Exception as e:  # noqa
        return exc(e)


class Context:
    """the domain and the object table the library's reader is run with (one per group)"""

    def __init__(self, ctx):
        self.dom = get_domain(ctx["domain"])
        self.pr = get_problem(self.dom, ctx["problem"])

    def dump(self):
        return {"vocab": vocabulary(self.dom), "objects": [[n, o.type.name] for n, o in self.pr.objects.items()]}

    def observe(self, s):
        return {"rb_with": readback(s, self.dom, self.pr), "rb_ded": readback(s, self.dom, None)}


def build_all(descrs, built, ctx):
    """builds and observes descrs one after the other, appending to built; returns their infos"""
    infos = []
    for d in descrs:
        try:
            s = build(d, built)
        except Exception as e:  # noqa
            built.append(None)
            infos.append({"build_raised": exc(e)})
            continue
        built.append(s)
        infos.append(look(s, ctx))
    return infos


def look(s, ctx):
    info = {"dump": dump_state(s)}
    info.update(observe(s))
    if ctx is not None:
        info.update(ctx.observe(s))
    return info


def compare(built, pairs):
    out = []
    for i, j in pairs:
        if built[i] is None or built[j] is None:
            out.append({"raised": "BuildFailed", "msg": ""})
            continue
        try:
            out.append({"value": bool(built[i] == built[j])})
        except Exception as e:  # noqa
            out.append(exc(e))
    return out


def group(job):
    """job: states [descr], pairs [[i, j]], optional ctx {domain, problem} -> per-state dumps/observations, per-pair =="""
    ctx = Context(job["ctx"]) if job.get("ctx") else None
    built = []
    infos = build_all(job["states"], built, ctx)
    pairs = compare(built, job["pairs"])
    for s, info in zip(built, infos):
        if s is not None:
            info.update(independence(s))
    out = {"states": infos, "pairs": pairs}
    if ctx is not None:
        out["ctx"] = ctx.dump()
    return out


# ---------------------------------------------------------------- process-level sequences
def noise_step(n):
    """a library call that has nothing to do with the states under observation (its own texts, its own objects);
    what it returns is recorded, not judged"""
    kind = n["kind"]
    dom = get_domain(n["domain"])
    pr = get_problem(dom, n["problem"]) if n.get("problem") else None
    if kind == "trajectory":
        path = write_tmp(n["text"], ".trajectory")
        try:
            obs = TrajectoryParser(dom, pr).parse_trajectory(path)
        finally:
            path.unlink()
        texts = []
        for comp in obs.components:
            texts.append(comp.previous_state.serialize())
            texts.append(comp.next_state.copy().serialize())
            comp.previous_state == comp.next_state  # noqa
        return {"components": len(obs.components), "texts": texts[:4]}
    if kind == "state-text":
        tree = PDDLTokenizer(pddl_str=n["text"]).parse()
        s = TrajectoryParser(dom, pr).parse_state(tree[1:])
        return {"texts": [s.serialize(), s.copy().serialize()], "eq": bool(s == s.copy())}
    if kind == "problem":
        s = State(pr.initial_state_predicates, pr.initial_state_fluents, is_init=True)
        return {"texts": [s.serialize(), s.copy().serialize()], "eq": bool(s == s.copy())}
    if kind == "succ":
        s = State(pr.initial_state_predicates, pr.initial_state_fluents, is_init=True)
        texts = []
        for name, args in n["calls"]:
            op = Operator(dom.actions[name], dom, list(args), pr.objects)
            s = op.apply(s, allow_inapplicable_actions=True)
            texts.append(s.serialize())
        return {"texts": texts[:4]}
    if kind == "export":
        from pddl_plus_parser.exporters.numeric_trajectory_exporter import TrajectoryExporter
        exporter = TrajectoryExporter(dom, allow_invalid_actions=True)
        triplets = exporter.parse_plan(pr, action_sequence=["(%s %s)" % (c[0], " ".join(c[1])) for c in n["calls"]])
        text = "".join(exporter.export(triplets))
        path = write_tmp(text, ".trajectory")
        try:
            obs = TrajectoryParser(dom, pr).parse_trajectory(path)
        finally:
            path.unlink()
        return {"components": len(obs.components), "texts": [text[:400]]}
    raise ValueError("unknown noise " + kind)


def sequence(job):
    """One job = one controlled order inside the worker process:
       1. build and observe the 'before' states, compare all their pairs;
       2. run the 'noise' steps (unrelated library calls);
       3. observe the SAME objects again, build and observe the 'after' states (their 'of' indices may point at the
          old ones: copies / successors of old states made now), compare all pairs over old + new;
       4. the mutation test on everything (it consumes the states).
    The mutation test of phase 1 is run on a copy of each state, so that the state itself survives.
    With same_paths every problem / domain / trajectory text of the job is written to the same file path again and
    again (file.pddl, file.trajectory in a directory of the job), as a user does who re-writes one scratch file."""
    global _FIXED_DIR
    if job.get("same_paths"):
        TMP.mkdir(parents=True, exist_ok=True)
        _FIXED_DIR = tempfile.mkdtemp(dir=str(TMP))
    try:
        return _sequence(job)
    finally:
        if _FIXED_DIR is not None:
            import shutil
            shutil.rmtree(_FIXED_DIR, ignore_errors=True)
            _FIXED_DIR = None


def _sequence(job):
    ctx = Context(job["ctx"]) if job.get("ctx") else None
    built = []
    infos_b = build_all(job["before"], built, ctx)
    n = len(built)
    pairs_b = compare(built, [[i, j] for i in range(n) for j in range(n)])
    for s, info in zip(built, infos_b):
        if s is not None:
            try:
                info.update(independence(s.copy()))
            except Exception as e:  # noqa
                info["indep"] = exc(e)
    noise = []
    for st in job["noise"]:
        try:
            noise.append({"value": noise_step(st)})
        except Exception as e:  # noqa
            noise.append(exc(e))
    infos_a = [look(s, ctx) if s is not None else {"build_raised": {"raised": "BuildFailed", "msg": ""}} for s in built]
    infos_a += build_all(job["after"], built, ctx)
    m = len(built)
    pairs_a = compare(built, [[i, j] for i in range(m) for j in range(m)])
    for s, info in zip(built, infos_a):
        if s is not None:
            info.update(independence(s))
    out = {"before": {"states": infos_b, "pairs": pairs_b}, "noise": noise,
           "after": {"states": infos_a, "pairs": pairs_a}}
    if ctx is not None:
        out["before"]["ctx"] = out["after"]["ctx"] = ctx.dump()
    return out


# ---------------------------------------------------------------- observe - mutate - observe on ONE object
def fluent_vars(f):
    """the argument list the fluent prints (public fields only)"""
    out = []
    for n, k in f.repeating_variables.items():
        out += [n] * k
    out += [p for p in f.signature if p not in f.repeating_variables]
    return out


def make_fact(g):
    return GroundedPredicate(g["name"], {p: ty(t) for p, t in g["sig"]}, {p: o for p, o in g["map"]},
                             is_positive=g.get("pos", True))


def make_fluent(f):
    pf = PDDLFunction(f["name"], {p: ty(t) for p, t in f["sig"]}, {n: k for n, k in f.get("rep", [])})
    if "ival" in f:
        pf.set_value(int(f["ival"]))
    else:
        pf.set_value(float("nan") if f["val"] == "nan" else float.fromhex(f["val"]))
    return pf


def group_key(s, name, hint):
    """the key of the set the facts called `name` live in: the first key whose set holds such a fact, else the hint"""
    for k, grp in s.state_predicates.items():
        if any(g.name == name for g in grp):
            return k
    return hint


def free_key(d, hint):
    """a key of the dict that is not in use (after an in-place rename the old key may hold something else)"""
    key = hint
    while key in d:
        key += "'"
    return key


def find_facts(s, name, args):
    text = "(%s %s)" % (name, " ".join(args))
    return [(k, g) for k, grp in s.state_predicates.items() for g in grp if g.untyped_representation == text]


def find_fluents(s, name, args):
    return [k for k, f in s.state_fluents.items() if f.name == name and fluent_vars(f) == list(args)]


def apply_mutation(m, built):
    """changes built[m['target']] IN PLACE through its public attributes; returns what was done"""
    s = built[m["target"]]
    kind = m["kind"]
    if kind == "add-fact":
        key = group_key(s, m["fact"]["name"], m["key"])
        g = make_fact(m["fact"])
        if key in s.state_predicates:
            s.state_predicates[key].add(g)
            return {"key": key, "new_key": False}
        s.state_predicates[key] = {g}
        return {"key": key, "new_key": True}
    if kind == "discard-fact":
        found = find_facts(s, m["name"], m["args"])
        for n, (k, g) in enumerate(found):
            how = m.get("how", "discard")
            if g not in s.state_predicates[k]:
                how = "new-set"     # the fact object was edited in place: the set cannot find it by hash any more
            if how == "discard":
                s.state_predicates[k].discard(g)
            elif how == "remove":
                s.state_predicates[k].remove(g)
            elif how == "difference_update":
                s.state_predicates[k].difference_update([g])
            else:                                   # a new set without it, stored under the same key
                s.state_predicates[k] = {x for x in s.state_predicates[k] if x is not g}
        return {"found": len(found)}
    if kind == "set-group":
        # the facts called `name` are replaced; facts of another name living in the same set (renamed in place) stay
        keys = [k for k, grp in s.state_predicates.items() if any(g.name == m["name"] for g in grp)]
        for k in keys[1:]:
            s.state_predicates[k] = {g for g in s.state_predicates[k] if g.name != m["name"]}
        if keys:
            key = keys[0]
            others = [g for g in s.state_predicates[key] if g.name != m["name"]]
        else:
            key, others = m["key"], []
            if s.state_predicates.get(key):
                key = free_key(s.state_predicates, key)
        s.state_predicates[key] = {make_fact(g) for g in m["facts"]} | set(others)
        return {"key": key, "kept": len(others)}
    if kind == "del-group":
        keys = [k for k, grp in s.state_predicates.items() if any(g.name == m["name"] for g in grp)]
        for k in keys:
            others = [g for g in s.state_predicates[k] if g.name != m["name"]]
            if others:
                s.state_predicates[k] = set(others)
            elif m.get("how") == "clear":
                s.state_predicates[k].clear()
            else:
                del s.state_predicates[k]
        return {"keys": keys}
    if kind == "rename-fact":
        found = find_facts(s, m["name"], m["args"])
        for _, g in found:
            g.name = m["new"]
        return {"found": len(found)}
    if kind == "remap-fact":        # the fact object gets a new object_mapping dict (same parameters, other objects)
        found = find_facts(s, m["name"], m["args"])
        for _, g in found:
            g.object_mapping = {p: o for p, o in zip(list(g.object_mapping), m["new_args"])}
        return {"found": len(found)}
    if kind == "remap-fluent":      # the fluent object gets a new signature dict (other objects, the same types)
        keys = find_fluents(s, m["name"], m["args"])
        for k in keys:
            f = s.state_fluents[k]
            f.signature = {o: t for o, t in zip(m["new_args"], list(f.signature.values()))}
        return {"keys": keys}
    if kind == "set-value":
        keys = find_fluents(s, m["name"], m["args"])
        for k in keys:
            if "ival" in m:
                s.state_fluents[k].set_value(int(m["ival"]))
            else:
                s.state_fluents[k].set_value(float("nan") if m["val"] == "nan" else float.fromhex(m["val"]))
        return {"keys": keys}
    if kind == "put-fluent":
        keys = find_fluents(s, m["fluent"]["name"], m["args"])
        key = keys[0] if keys else free_key(s.state_fluents, m["key"])
        s.state_fluents[key] = make_fluent(m["fluent"])
        return {"key": key, "new_key": not keys}
    if kind == "del-fluent":
        keys = find_fluents(s, m["name"], m["args"])
        for k in keys:
            if m.get("how") == "pop":
                s.state_fluents.pop(k)
            else:
                del s.state_fluents[k]
        return {"keys": keys}
    if kind == "rename-fluent":
        keys = find_fluents(s, m["name"], m["args"])
        for k in keys:
            s.state_fluents[k].name = m["new"]
        return {"keys": keys}
    if kind == "rebuild-dicts":
        items = list(s.state_predicates.items())
        fl = list(s.state_fluents.items())
        if m.get("reverse"):
            items.reverse()
            fl.reverse()
        s.state_predicates = {k: set(reversed(list(grp))) for k, grp in items}
        s.state_fluents = dict(fl)
        return {}
    if kind == "flip-init":
        s.is_init = not s.is_init
        return {}
    if kind == "effects":
        dom = get_domain(m["domain"])
        pr = get_problem(dom, m["problem"])
        op = Operator(dom.actions[m["action"]], dom, list(m["args"]), pr.objects)
        op.ground()
        prev = built[m["prev"]] if m.get("prev") is not None else None
        for e in op.grounded_effects:
            e.apply(s, previous_state=prev)
        return {"effects": len(op.grounded_effects)}
    raise ValueError("unknown mutation " + kind)


def omo(job):
    """observe - mutate - observe: the start states are built, dumped, observed and compared (all ordered pairs); then,
    step by step, ONE of the existing Python objects is changed in place through its public attributes, further states
    are built (fresh ones holding the new contents, copies made now, ...), and EVERY state -- the changed one, the
    untouched old ones, the new ones -- is dumped, observed and compared again.  One 'moment' per step."""
    ctx = Context(job["ctx"]) if job.get("ctx") else None
    built = []

    def moment(infos, last):
        n = len(built)
        pairs = compare(built, [[i, j] for i in range(n) for j in range(n)])
        # the copy test: on a copy of the state (the state itself lives on), at the last moment on the state itself
        for s, info in zip(built, infos):
            if s is not None and "dump" in info:
                try:
                    info.update(independence(s if last else s.copy()))
                except Exception as e:  # noqa
                    info["indep"] = exc(e)
        return {"states": infos, "pairs": pairs}
    steps = job["steps"]
    moments = [moment(build_all(job["start"], built, ctx), not steps)]
    applied = []
    for k, step in enumerate(steps):
        try:
            applied.append({"value": apply_mutation(step["mut"], built)})
        except Exception as e:  # noqa
            applied.append(exc(e))
        old = [look(s, ctx) if s is not None else {"build_raised": {"raised": "BuildFailed", "msg": ""}} for s in built]
        moments.append(moment(old + build_all(step.get("build", []), built, ctx), k == len(steps) - 1))
    out = {"moments": moments, "applied": applied}
    if ctx is not None:
        out["ctx"] = ctx.dump()
    return out


def float_facts(job):
    """repr(x) and float(repr(x)) for the given values (hex), float(t) for the given texts"""
    reprs = {}
    for h in job["values"]:
        x = float("nan") if h == "nan" else float.fromhex(h)
        r = repr(x)
        reprs[h] = [r, fhex(float(r))]
    nums = {}
    for t in job.get("texts", []):
        try:
            nums[t] = fhex(float(t))
        except ValueError:
            pass
    return {"reprs": reprs, "nums": nums,
            "str_is_repr": all(str(float.fromhex(h)) == repr(float.fromhex(h)) for h in job["values"] if h != "nan")}


def value_facts(job):
    """how State.__eq__ treats values: text, not number (the hypotheses of theorem C14_eq, replayed here)"""
    def st(v):
        f = PDDLFunction("h", {})
        f.set_value(v)
        return State({}, {"(h )": f})
    nan = float("nan")
    return {"pos_neg_zero_equal": bool(st(0.0) == st(-0.0)),          # IEEE: equal numbers; code: different texts
            "nan_equal_to_itself": bool(st(nan) == st(nan)),          # IEEE: nan != nan; code: same text
            "int_vs_float": bool(st(3) == st(3.0)),                   # 3 == 3.0 in Python; texts "3" / "3.0"
            "unset_text": PDDLFunction("h", {}).state_representation}
