"""Implementation driver for C14 (State.__eq__, copy, serialize) and state dumps shared with C10.

A job is a *group*: state descriptions built in one process (so that they can be compared with each other),
the ordered pairs to compare, and what to observe on each state.  States are built through the public API only:
constructors (route 'ctor'), ProblemParser ('problem'), TrajectoryParser.parse_state ('trajectory'), State.copy
('copy') and Operator.apply ('succ').  A state is dumped field by field through its public attributes, sets in
their actual iteration order.
"""
import json
import math
import os
import tempfile
from pathlib import Path

from pddl_plus_parser.lisp_parsers import DomainParser, ProblemParser, TrajectoryParser, PDDLTokenizer
from pddl_plus_parser.models import State, PDDLFunction, GroundedPredicate, PDDLType, Operator

TMP = Path(os.environ.get("VERIF_WORK", "/verif/work")) / "C14" / "tmp"


def write_tmp(text, suffix=".pddl"):
    TMP.mkdir(parents=True, exist_ok=True)
    fd, name = tempfile.mkstemp(dir=str(TMP), suffix=suffix)
    with os.fdopen(fd, "w") as fh:
        fh.write(text)
    return Path(name)


def exc(e):
    return {"raised": type(e).__name__, "msg": str(e)[:200]}


# ---------------------------------------------------------------- dumps
def fhex(v):
    return float(v).hex() if not (isinstance(v, float) and math.isnan(v)) else "nan"


def dump_gp(g):
    return {"name": g.name, "sig": [[p, str(t)] for p, t in g.signature.items()],
            "map": [[p, o] for p, o in g.object_mapping.items()], "pos": bool(g.is_positive)}


def dump_pf(f):
    return {"name": f.name, "sig": [[p, str(t)] for p, t in f.signature.items()], "val": fhex(f.value),
            "is_float": isinstance(f.value, float), "repr": str(f.value),
            "rep": [[n, k] for n, k in f.repeating_variables.items()]}


def dump_state(s):
    return {"init": bool(s.is_init),
            "preds": [[k, [dump_gp(g) for g in grp]] for k, grp in s.state_predicates.items()],
            "fluents": [[k, dump_pf(f)] for k, f in s.state_fluents.items()]}


def snapshot(s):
    """order-insensitive picture of everything reachable from the state (for the mutation test)"""
    d = dump_state(s)
    for kv in d["preds"]:
        kv[1] = sorted(json.dumps(g, sort_keys=True) for g in kv[1])
    return json.dumps(d, sort_keys=True)


# ---------------------------------------------------------------- construction
_types = {}


def ty(name):
    if name not in _types:
        _types[name] = PDDLType(name)
    return _types[name]


def build_ctor(d):
    preds = {}
    for key, grp in d["preds"]:
        st = set()
        for g in grp:
            st.add(GroundedPredicate(g["name"], {p: ty(t) for p, t in g["sig"]}, {p: o for p, o in g["map"]},
                                     is_positive=g.get("pos", True)))
        preds[key] = st
    fluents = {}
    for key, f in d["fluents"]:
        pf = PDDLFunction(f["name"], {p: ty(t) for p, t in f["sig"]}, {n: k for n, k in f.get("rep", [])})
        pf.set_value(float("nan") if f["val"] == "nan" else float.fromhex(f["val"]))
        fluents[key] = pf
    return State(preds, fluents, is_init=d.get("init", False))


_dom_cache = {}


def get_domain(text):
    if text not in _dom_cache:
        p = write_tmp(text)
        try:
            _dom_cache[text] = DomainParser(p).parse_domain()
        finally:
            p.unlink()
    return _dom_cache[text]


def get_problem(domain, text):
    p = write_tmp(text)
    try:
        return ProblemParser(p, domain).parse_problem()
    finally:
        p.unlink()


def build(d, built):
    route = d["route"]
    if route == "ctor":
        return build_ctor(d)
    if route == "copy":
        return built[d["of"]].copy()
    dom = get_domain(d["domain"])
    if route == "problem":
        pr = get_problem(dom, d["problem"])
        return State(pr.initial_state_predicates, pr.initial_state_fluents, is_init=True)
    if route == "trajectory":
        pr = get_problem(dom, d["problem"]) if d.get("problem") else None
        tree = PDDLTokenizer(pddl_str=d["text"]).parse()
        s = TrajectoryParser(dom, pr).parse_state(tree[1:])
        s.is_init = tree[0] == ":init"
        return s
    if route == "succ":
        pr = get_problem(dom, d["problem"])
        op = Operator(dom.actions[d["action"]], dom, list(d["args"]), pr.objects)
        return op.apply(built[d["of"]], allow_inapplicable_actions=True)
    raise ValueError("unknown route " + route)


# ---------------------------------------------------------------- observations
def mutate(c):
    """API-level mutations of everything State.copy() is supposed to have copied"""
    for k, grp in list(c.state_predicates.items()):
        for g in list(grp):
            g.is_positive = not g.is_positive
            g.name = g.name + "_x"
        grp.clear()
        grp.add(GroundedPredicate("zz", {}, {}))
    c.state_predicates["(new )"] = set()
    for k, f in list(c.state_fluents.items()):
        f.set_value(42.5)
        f.name = f.name + "_x"
    c.state_fluents["(newf )"] = PDDLFunction("newf", {})
    if c.state_fluents:
        del c.state_fluents[next(iter(c.state_fluents))]
    c.is_init = not c.is_init


def deep_dicts(c):
    """the dictionaries hanging off the facts and fluents (State.copy does not copy them: they are shared with
    the original, with the parsed domain's lifted signatures and, for repeating_variables, with a default argument)"""
    out = {}
    for grp in c.state_predicates.values():
        for g in grp:
            out[id(g.object_mapping)] = g.object_mapping
            out[id(g.signature)] = g.signature
    for f in c.state_fluents.values():
        out[id(f.signature)] = f.signature
        out[id(f.repeating_variables)] = f.repeating_variables
    return list(out.values())


def mutate_deep(c):
    """in-place changes of those dictionaries; returns the undo list"""
    saved = [(d, dict(d)) for d in deep_dicts(c)]
    for grp in c.state_predicates.values():
        for g in grp:
            g.object_mapping["?zz"] = "zz"
            for p in list(g.object_mapping):
                g.object_mapping[p] = "zz"
            g.signature["?zz"] = ty("zz")
    for f in c.state_fluents.values():
        f.signature["zz"] = ty("zz")
        f.repeating_variables["zz"] = 2
    return saved


def undo(saved):
    for d, old in saved:
        d.clear()
        d.update(old)


def observe(s):
    out = {}

    def attempt(name, fn):
        try:
            out[name] = {"value": fn()}
        except Exception as e:  # noqa
            out[name] = exc(e)
    attempt("ser", lambda: s.serialize())
    attempt("self_eq", lambda: bool(s == s))
    attempt("copy_eq", lambda: bool(s.copy() == s) and bool(s == s.copy()))
    attempt("copy_ser", lambda: s.copy().serialize())
    return out


def independence(s):
    """runs last: the state is consumed"""
    out = {}
    try:
        before = snapshot(s)
        c = s.copy()
        mutate(c)
        ok1 = snapshot(s) == before
        c2 = s.copy()
        saved = mutate_deep(c2)
        try:
            deep = snapshot(s) == before
        finally:
            undo(saved)
        # rebuild a clean copy to test the other direction
        c3 = s.copy()
        snap3 = snapshot(c3)
        mutate(s)
        ok2 = snapshot(c3) == snap3
        out["indep"] = {"value": bool(ok1 and ok2)}
        out["indep_deep"] = {"value": bool(deep)}
    except Exception as e:  # noqa
        out["indep"] = exc(e)
        out["indep_deep"] = exc(e)
    return out


def group(job):
    """job: states [descr], pairs [[i, j]] -> per-state dumps/observations, per-pair ==, values met"""
    built, infos = [], []
    for d in job["states"]:
        try:
            s = build(d, built)
        except Exception as e:  # noqa
            built.append(None)
            infos.append({"build_raised": exc(e)})
            continue
        built.append(s)
        info = {"dump": dump_state(s)}
        info.update(observe(s))
        infos.append(info)
    pairs = []
    for i, j in job["pairs"]:
        if built[i] is None or built[j] is None:
            pairs.append({"raised": "BuildFailed", "msg": ""})
            continue
        try:
            pairs.append({"value": bool(built[i] == built[j])})
        except Exception as e:  # noqa
            pairs.append(exc(e))
    for s, info in zip(built, infos):
        if s is not None:
            info.update(independence(s))
    return {"states": infos, "pairs": pairs}


def float_facts(job):
    """repr(x) and float(repr(x)) for the given values (hex), float(t) for the given texts"""
    reprs = {}
    for h in job["values"]:
        x = float("nan") if h == "nan" else float.fromhex(h)
        r = repr(x)
        reprs[h] = [r, fhex(float(r))]
    nums = {}
    for t in job.get("texts", []):
        try:
            nums[t] = fhex(float(t))
        except ValueError:
            pass
    return {"reprs": reprs, "nums": nums,
            "str_is_repr": all(str(float.fromhex(h)) == repr(float.fromhex(h)) for h in job["values"] if h != "nan")}


def value_facts(job):
    """how State.__eq__ treats values: text, not number (the hypotheses of theorem C14_eq, replayed here)"""
    def st(v):
        f = PDDLFunction("h", {})
        f.set_value(v)
        return State({}, {"(h )": f})
    nan = float("nan")
    return {"pos_neg_zero_equal": bool(st(0.0) == st(-0.0)),          # IEEE: equal numbers; code: different texts
            "nan_equal_to_itself": bool(st(nan) == st(nan)),          # IEEE: nan != nan; code: same text
            "int_vs_float": bool(st(3) == st(3.0)),                   # 3 == 3.0 in Python; texts "3" / "3.0"
            "unset_text": PDDLFunction("h", {}).state_representation}
