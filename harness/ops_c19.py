"""Implementation drivers for C19 (MetricFFParser, ENHSPParser)."""
import os
import re
import shutil
import tempfile
from pathlib import Path

from pddl_plus_parser.exporters import ENHSPParser, MetricFFParser
from pddl_plus_parser.exporters import ff_output_parser as ffmod

TMP = Path(os.environ.get("VERIF_WORK", "/verif/work")) / "C19" / "tmp"


def consts(job):
    """The pattern texts of the imported module, as they are on this run."""
    return {"plan": ffmod.PLAN_COMPONENT_REGEX, "valid": ffmod.VALID_PLAN_FOUND_PATTERN,
            "nosol": list(ffmod.NO_SOLUTION_OPTIONS)}


def _tmpfile(data: bytes, suffix: str) -> Path:
    TMP.mkdir(parents=True, exist_ok=True)
    fd, name = tempfile.mkstemp(dir=str(TMP), suffix=suffix)
    with os.fdopen(fd, "wb") as fh:
        fh.write(data)
    return Path(name)


def ff(job):
    """status + action list of get_solving_status, and the plan file written by parse_plan."""
    src = _tmpfile(job["text"].encode("latin-1"), ".log")
    out = Path(str(src) + ".plan")
    try:
        status, actions = MetricFFParser().get_solving_status(src)
        MetricFFParser().parse_plan(src, out)
        written = out.read_bytes().decode("latin-1") if out.exists() else None
        return {"status": status, "actions": list(actions), "file": written}
    finally:
        src.unlink()
        if out.exists():
            out.unlink()


def enhsp(job):
    """returned lines of parse_plan_content and the bytes of the file after parse_plan."""
    src = _tmpfile(job["text"].encode("latin-1"), ".plan")
    try:
        actions = ENHSPParser.parse_plan_content(src)
        ENHSPParser().parse_plan(src)
        return {"status": "", "actions": list(actions), "file": src.read_bytes().decode("latin-1")}
    finally:
        src.unlink()


def facts(job):
    """CPython facts the model encodes, re-checked on every run (code points < 128)."""
    cls = lambda pat: [i for i in range(128) if re.fullmatch(pat, chr(i)) is not None]
    return {"digit": cls(r"\d"), "word": cls(r"\w"), "strip": [i for i in range(128) if ("a" + chr(i)).strip() == "a"
                                                               and (chr(i) + "a").strip() == "a"],
            "dot": [i for i in range(128) if re.fullmatch(".", chr(i), re.MULTILINE) is None],
            "lower_changes": [i for i in range(128) if chr(i).lower() != chr(i)],
            "lower_ok": all(chr(i).lower() == chr(i + 32) for i in range(65, 91)),
            "linesep": os.linesep}


# ---------------------------------------------------------------- round 3: LARGE files and call sequences
from c11_util import digest, expand_segs  # noqa: E402


def _digests(status, actions, written):
    """the observables of a LARGE case as digests (c11_util.digest = Corr.BigText.digest_texts)"""
    return {"status": status, "n_actions": len(actions), "actions": digest(actions), "joined": digest(["".join(actions)]),
            "file": None if written is None else digest([written]), "file_bytes": None if written is None else len(written),
            "first": actions[:2], "last": actions[-2:]}


def ff_big(job):
    text = expand_segs(job["segs"])
    src = _tmpfile(text.encode("latin-1"), ".log")
    out = Path(str(src) + ".plan")
    try:
        status, actions = MetricFFParser().get_solving_status(src)
        MetricFFParser().parse_plan(src, out)
        written = out.read_bytes().decode("latin-1") if out.exists() else None
        return dict(_digests(status, list(actions), written), chars=len(text))
    finally:
        src.unlink()
        if out.exists():
            out.unlink()


def enhsp_big(job):
    text = expand_segs(job["segs"])
    src = _tmpfile(text.encode("latin-1"), ".plan")
    try:
        actions = ENHSPParser.parse_plan_content(src)
        ENHSPParser().parse_plan(src)
        return dict(_digests("", list(actions), src.read_bytes().decode("latin-1")), chars=len(text))
    finally:
        src.unlink()


def sequence(job):
    """A call SEQUENCE in one process on the SAME paths: each step puts a text at the log path (or leaves the file as the
    previous step left it: ENHSPParser.parse_plan rewrites its input) and runs the parser on it.  One result per step, in
    the form of ff()/enhsp(), plus the bytes that were at the path when the step began."""
    TMP.mkdir(parents=True, exist_ok=True)
    base = Path(tempfile.mkdtemp(dir=str(TMP), prefix="seq_"))
    src, out = base / "planner.log", base / "plan.solution"
    res = []
    try:
        for st in job["steps"]:
            try:
                if st.get("write", True):
                    if st.get("how") == "replace":
                        tmp = base / "planner.new"
                        tmp.write_bytes(st["text"].encode("latin-1"))
                        os.replace(tmp, src)
                    else:
                        if st.get("how") == "recreate" and src.exists():
                            src.unlink()
                        src.write_bytes(st["text"].encode("latin-1"))
                before = src.read_bytes().decode("latin-1")
                if st["enhsp"]:
                    actions = ENHSPParser.parse_plan_content(src)
                    ENHSPParser().parse_plan(src)
                    res.append({"status": "", "actions": list(actions), "file": src.read_bytes().decode("latin-1"), "text_at_path": before})
                else:
                    if out.exists():
                        out.unlink()          # only what THIS call writes is observed
                    status, actions = MetricFFParser().get_solving_status(src)
                    MetricFFParser().parse_plan(src, out)
                    written = out.read_bytes().decode("latin-1") if out.exists() else None
                    res.append({"status": status, "actions": list(actions), "file": written, "text_at_path": before})
            except Exception as e:  # noqa
                res.append({"raised": type(e).__name__, "msg": str(e)[:200]})
    finally:
        shutil.rmtree(base, ignore_errors=True)
    return {"steps": res}
