"""Generators and renderers for C13 (pure Python, no library import): numeric condition trees.

tree := ("num", text) | ("fl", text) | (op, tree, tree)   op in + - * /
cond := (cmp, tree, tree)                                  cmp in <= >= < > =
"""
from fractions import Fraction

ARITH = ("+", "-", "*", "/")
CMPS = ("<=", ">=", "<", ">", "=")

# fluent vocabularies: lifted and grounded, names with dashes, underscores, digits (all lower case:
# the library's tokenizer lower-cases)
VOCABS = [
    ["(fuel ?a)", "(capacity ?a)", "(distance ?c1 ?c2)", "(total-fuel-used )"],
    ["(load_limit ?x)", "(current-load ?x)", "(fuel-cost )", "(f2 ?x ?y)"],
    ["(x ?a)", "(y ?a)", "(z ?b)", "(w )"],
    ["(battery-level rover1)", "(dist wp1 wp2)", "(energy_2 rover1)", "(total-cost )"],
    ["(f-1 a b)", "(f_1 ?a ?b)", "(g2-h_3 obj-1)", "(h )"],
    ["(zoom-limit ?a)", "(distance ?c2 ?c1)", "(slow-burn ?a)", "(onboard ?a)"],
]
# pairs whose stripped symbol names coincide (D21, repaired: the symbols now get distinct names); same arity per name
COLLIDING = [
    ["(f-x ?a)", "(fx ?a)"], ["(fa b)", "(f ab)"], ["(f a b)", "(f ?a ?b)"], ["(g_1 ?x)", "(g_1 x)"],
    ["(load-1 ?t)", "(load1 ?t)"],
]


def num(text):
    return ("num", text)


def show(t):
    if t[0] in ("num", "fl"):
        return t[1]
    return "(%s %s %s)" % (t[0], show(t[1]), show(t[2]))


def fluents_of(t, acc=None):
    acc = [] if acc is None else acc
    if t[0] == "fl":
        if t[1] not in acc:
            acc.append(t[1])
    elif t[0] != "num":
        fluents_of(t[1], acc)
        fluents_of(t[2], acc)
    return acc


def degree(t):
    """(numerator degree bound, has non-constant divisor)"""
    if t[0] == "num":
        return 0
    if t[0] == "fl":
        return 1
    a, b = degree(t[1]), degree(t[2])
    if t[0] in "+-":
        return max(a, b)
    return a + b


def has_nonconst_div(t):
    if t[0] in ("num", "fl"):
        return False
    if t[0] == "/" and fluents_of(t[2]):
        return True
    return has_nonconst_div(t[1]) or has_nonconst_div(t[2])


def ev(t, rho):
    """exact rational evaluation; ZeroDivisionError if undefined"""
    if t[0] == "num":
        return Fraction(t[1])
    if t[0] == "fl":
        return rho[t[1]]
    a, b = ev(t[1], rho), ev(t[2], rho)
    if t[0] == "+":
        return a + b
    if t[0] == "-":
        return a - b
    if t[0] == "*":
        return a * b
    return a / b


def holds(c, rho):
    a, b = ev(c[1], rho), ev(c[2], rho)
    return {"<=": a <= b, ">=": a >= b, "<": a < b, ">": a > b, "=": a == b}[c[0]]


# ------------------------------------------------------------------ coefficients
def coef(rng, kind=None):
    kind = kind or rng.choice(["int", "int", "dec", "dec", "near", "small"])
    if kind == "int":
        v = rng.choice([1, 2, 3, 4, 5, 7, 10, 12, 25, 100, 8823, 1, 2, 3, 5, 0])
        s = str(v)
    elif kind == "dec":
        s = rng.choice(["0.5", "1.5", "2.5", "0.25", "0.1", "0.01", "0.19", "1.25", "3.75", "0.125", "2.675",
                        "0.6", "12.34", "0.05", "44.1", "0.375", "3657.14", "0.004", "0.0005", "0.3"])
    elif kind == "near":
        k = rng.choice([0, 1, 2, 3, 4, 10])
        s = "%.5f" % (k + rng.choice([1, -1]) * 0.00001)
        if s.startswith("-"):
            s = s[1:]
    else:
        s = rng.choice(["0.004", "0.0049", "0.005", "0.00001", "0.99999", "3.999", "2.99999", "0.0051", "0.05",
                        "0.45", "0.55", "1.005", "0.995", "0.0449", "0.000049", "0.0000051"])
    if rng.random() < 0.35:
        s = "-" + s
    if kind == "int" and rng.random() < 0.25:
        s += ".0"
    return s


def monomial(rng, vocab, deg):
    t = None
    for _ in range(deg):
        f = ("fl", rng.choice(vocab))
        t = f if t is None else ("*", t, f)
    return t


def term(rng, vocab, maxdeg, ckind=None):
    """coefficient * monomial in one of several shapes"""
    deg = rng.randint(0, maxdeg)
    if deg == 0:
        return num(coef(rng, ckind))
    m = monomial(rng, vocab, deg)
    r = rng.random()
    if r < 0.25:
        return m
    c = num(coef(rng, ckind))
    if r < 0.6:
        return ("*", m, c)
    if r < 0.85:
        return ("*", c, m)
    # (m - c0) * c   (the shape of the pinned tests)
    return ("*", ("-", m, num(coef(rng, ckind))), c)


def poly(rng, vocab, maxdeg, nterms=None, ckind=None):
    n = nterms or rng.randint(1, 4)
    t = term(rng, vocab, maxdeg, ckind)
    for _ in range(n - 1):
        op = rng.choice("++-")
        u = term(rng, vocab, maxdeg, ckind)
        t = (op, t, u) if rng.random() < 0.7 else (op, u, t)
    return t


def factored(rng, vocab, maxdeg):
    """products of small sums, total degree <= maxdeg"""
    t = poly(rng, vocab, 1, rng.randint(1, 2))
    d = 1
    while d < maxdeg and rng.random() < 0.7:
        t = ("*", t, poly(rng, vocab, 1, rng.randint(1, 2)))
        d += 1
    return t


def const_expr(rng):
    a, b = rng.choice(["1", "2", "3", "4", "10", "2.5", "0.5"]), rng.choice(["1", "2", "3", "4", "5", "2.0"])
    return (rng.choice("+-*"), num(a), num(b))


def rational(rng, vocab, maxdeg, ckind="int"):
    """expressions with division: by constants and by fluent expressions (exactly printable coefficients by default)"""
    r = rng.random()
    if r < 0.3:
        return ("/", poly(rng, vocab, maxdeg, rng.randint(1, 2), ckind), num(rng.choice(["2", "4", "5", "3", "2.0", "0.5", "8", "10"])))
    den_deg = rng.randint(1, max(1, maxdeg - 1))
    if r < 0.55:
        den = monomial(rng, vocab, den_deg)
    else:
        den = poly(rng, vocab, 1, rng.randint(1, 2), ckind)
    numr = poly(rng, vocab, max(0, maxdeg - den_deg), rng.randint(1, 2), ckind)
    t = ("/", numr, den)
    if rng.random() < 0.4:
        t = (rng.choice("+-"), t, term(rng, vocab, 1, ckind))
    if rng.random() < 0.2:
        t = ("*", t, num(coef(rng, ckind)))
    return t


def expression(rng, vocab, maxdeg=3, allow_div=True):
    r = rng.random()
    if allow_div and r < 0.22:
        return rational(rng, vocab, maxdeg), "rational"
    if r < 0.42:
        return factored(rng, vocab, maxdeg), "factored"
    if r < 0.47:
        t = poly(rng, vocab, maxdeg)
        return ("+", t, const_expr(rng)), "const-subexpr"
    return poly(rng, vocab, maxdeg), "poly"


def rhs(rng, vocab, ckind=None):
    if ckind:
        r = rng.random()
        return num(coef(rng, ckind)) if r < 0.6 else term(rng, vocab, 1, ckind)
    r = rng.random()
    if r < 0.45:
        return num(coef(rng))
    if r < 0.55:
        return num("0")
    if r < 0.8:
        return term(rng, vocab, 1)
    return poly(rng, vocab, 2, 2)


def linear_equality(rng, vocab):
    """(= (+ A B) R): the shape extract_eliminated_expressions uses (A is eliminated)"""
    a = ("fl", rng.choice(vocab))
    r = rng.random()
    if r < 0.3:
        a = ("*", a, num(coef(rng, rng.choice(["int", "dec"]))))
    b = term(rng, [v for v in vocab if v != a[1]] or vocab, 1, rng.choice(["int", "dec"]))
    if b[0] == "num":
        b = ("fl", rng.choice(vocab))
    if rng.random() < 0.3:
        b = ("+", b, term(rng, vocab, 1, "int"))
    rr = rng.random()
    right = num("0") if rr < 0.3 else (num(coef(rng, "int")) if rr < 0.7 else term(rng, vocab, 1, "int"))
    return ("=", ("+", a, b), right)


# ------------------------------------------------------------------ equality shapes around the elimination decision
# Which equalities of a conjunction become assumptions (and what is substituted for what) is decided by
# NumericalExpressionTree.extract_eliminated_expressions from the SHAPE of the equality: the operator of the left side, what
# its first operand is, whether the right side is the number zero.  The grid below varies exactly these, next to
# inequalities in which the eliminated operand occurs alone / inside the very sum or difference of the equality / not at all.
EQ_SHAPES = ("add", "sub", "rev-add", "rev-sub", "plain", "scaled", "num-first-add", "num-first-sub", "mul-left", "nested-sub")
EQ_RIGHTS = ("zero", "zero-float", "neg-zero", "small", "large", "fluent")
EQ_COMPANIONS = ("alone", "same-pattern", "other-pattern", "swapped", "absent", "second-alone")
RIGHT_TEXTS = {"zero": ["0"], "zero-float": ["0.0", "0.00"], "neg-zero": ["-0.0", "-0"],
               "small": ["1", "2", "-3", "0.5", "2.5", "-1.25", "0.004", "0.00001", "4.99999"],
               "large": ["100000", "8823", "-250000", "123456.789", "3657.14", "99999.99999"]}


def shaped_equality(rng, vocab, shape=None, right=None):
    """(equality, A, B, shape, right, op): A is the first operand of the equality's sum / difference (what the library would
    eliminate), B the second.  vocab needs >= 2 fluents."""
    shape = shape or rng.choice(EQ_SHAPES)
    right = right or rng.choice(EQ_RIGHTS)
    fa, fb = rng.sample(vocab, 2)
    a, b = ("fl", fa), ("fl", fb)
    r = rng.random()
    if r < 0.25:
        a = ("*", a, num(coef(rng, "int"))) if rng.random() < 0.5 else ("*", num(rng.choice(["2", "3", "-1", "0.5", "-2.5"])), a)
    r = rng.random()
    if r < 0.3:
        k = num(rng.choice(["2", "3", "-1", "-2", "0.5", "1.5", "10", "-0.25"]))
        b = ("*", b, k) if rng.random() < 0.5 else ("*", k, b)
    elif r < 0.4 and len(vocab) >= 3:
        b = (rng.choice("+-"), b, ("fl", rng.choice([v for v in vocab if v not in (fa, fb)])))
    elif r < 0.5:
        b = num(rng.choice(["2", "-3", "0.5", "1", "0"]))            # (= (+ a 2) c): B is a number
    if right == "fluent":
        others = [v for v in vocab if v not in (fa, fb)] or [fb]
        c = ("fl", rng.choice(others))
        if rng.random() < 0.4:
            c = ("*", c, num(rng.choice(["2", "-1", "3", "0.5"])))
    else:
        c = num(rng.choice(RIGHT_TEXTS[right]))
    k = num(rng.choice(["2", "3", "-1", "5", "0.5", "-4"]))
    op = {"add": "+", "sub": "-", "rev-add": "+", "rev-sub": "-"}.get(shape, "+")      # what joins A and B in the equality
    if shape == "add":
        eq = ("=", ("+", a, b), c)
    elif shape == "sub":
        eq = ("=", ("-", a, b), c)
    elif shape == "rev-add":
        eq = ("=", c, ("+", a, b))
    elif shape == "rev-sub":
        eq = ("=", c, ("-", a, b))
    elif shape == "plain":                      # (= a b) / (= a 0) / (= a 5)
        eq = ("=", a, b if right == "fluent" else c)
    elif shape == "scaled":                     # (= (* 2 a) b)
        eq = ("=", ("*", k, a) if rng.random() < 0.5 else ("*", a, k), b if right in ("fluent", "zero") else c)
    elif shape == "num-first-add":              # (= (+ 2 a) c): the first operand of the sum is a NUMBER
        eq = ("=", ("+", k, a), c if rng.random() < 0.6 else b)
    elif shape == "num-first-sub":
        eq = ("=", ("-", k, a), c if rng.random() < 0.6 else b)
    elif shape == "mul-left":                   # (= (* (+ a b) 2) c): the sum is not at the top of the left side
        op = rng.choice("+-")
        eq = ("=", ("*", (op, a, b), k), c)
    else:                                       # (= (- (- a b) b') c), (= (+ (- a b) b') c), (= (- (+ a b) b') c)
        o1, op = rng.choice(["--", "+-", "-+"])
        eq = ("=", (o1, (op, a, b), ("fl", rng.choice(vocab))), c)
    return eq, a, b, shape, right, op


def companion(rng, vocab, a, b, how=None, cmps=CMPS[:4], eq_op="+"):
    """an inequality next to a shaped equality with first operand a and second operand b (joined there by eq_op)"""
    how = how or rng.choice(EQ_COMPANIONS)
    k = num(rng.choice(["2", "3", "-1", "5", "0.5", "-2", "1.5", "10"]))
    fa = fluents_of(a)
    rest = [v for v in vocab if v not in fa]
    if how == "alone":
        r = rng.random()
        left = a if r < 0.25 else ("*", k, a) if r < 0.5 else ("*", a, k) if r < 0.7 else \
            ("+", ("*", a, a), k) if r < 0.85 else ("*", a, ("fl", rng.choice(vocab)))
    elif how in ("same-pattern", "other-pattern", "swapped"):
        op = eq_op if how != "other-pattern" else ("-" if eq_op == "+" else "+")
        core = (op, b, a) if how == "swapped" else (op, a, b)
        r = rng.random()
        left = core if r < 0.4 else ("*", core, k) if r < 0.6 else ("*", k, core) if r < 0.75 else \
            ("+", core, ("fl", rng.choice(vocab))) if r < 0.9 else ("*", core, core)
    elif how == "second-alone":
        fb = fluents_of(b)
        f = ("fl", rng.choice(fb)) if fb else a
        left = f if rng.random() < 0.4 else ("*", f, k) if rng.random() < 0.6 else ("+", ("*", k, f), num("1"))
    else:
        if not rest:
            return None
        left = term(rng, rest, 2, "int")
        if left[0] == "num":
            left = ("fl", rng.choice(rest))
    r = rng.random()
    right = num(rng.choice(["0", "4", "1", "-2", "2.5", "10", "100", "0.5"])) if r < 0.75 else term(rng, vocab, 1, "int")
    return (rng.choice(cmps), left, right), how


# the style of the numeric preconditions of the shipped domains: resource bounds, comparisons of two fluents, sums of weighted
# fluents against a capacity
def domain_style(rng, vocab):
    f = lambda: ("fl", rng.choice(vocab))
    r = rng.random()
    n = lambda: num(rng.choice(["0", "1", "2", "5", "10", "100", "0.5", "8", "20", "50"]))
    if r < 0.2:
        return (rng.choice([">=", ">", "<=", "<"]), f(), n())
    if r < 0.4:
        return (rng.choice([">=", "<="]), f(), f())
    if r < 0.55:
        return (">=", ("-", f(), f()), n())
    if r < 0.7:
        return ("<=", ("+", f(), f()), f() if rng.random() < 0.6 else n())
    if r < 0.85:
        return (rng.choice([">=", "<="]), f(), ("*", f(), n()) if rng.random() < 0.5 else ("*", n(), f()))
    return (">=", ("-", f(), ("*", f(), f())), n())


def shape_case(rng, vocab, shape=None, right=None, how=None):
    """one conjunction: a shaped equality + 1-2 companions (+ sometimes a domain-style condition); None when the vocabulary
    is too small for the companion asked for"""
    eq, a, b, shape, right, op = shaped_equality(rng, vocab, shape, right)
    comp = companion(rng, vocab, a, b, how, eq_op=op)
    if comp is None:
        return None
    conds = [eq, comp[0]]
    hows = [comp[1]]
    if rng.random() < 0.35:
        c2 = companion(rng, vocab, a, b, eq_op=op)
        if c2 is not None:
            conds.append(c2[0])
            hows.append(c2[1])
    if rng.random() < 0.25:
        conds.append(domain_style(rng, vocab))
    return conds, shape, right, hows


def rand_point(rng, fluents):
    return {f: Fraction(rng.randint(-40, 40), rng.choice([1, 1, 2, 3, 4, 7])) for f in fluents}


def decimal_identity(rng, vocab):
    """an equality that holds for every valuation in exact arithmetic but not in binary floating point:
    c1*m + c2*m = (c1+c2)*m, or (A + B) = (B + A) with decimal coefficients inside"""
    if rng.random() < 0.6:
        m = monomial(rng, vocab, rng.randint(1, 2))
        c1, c2 = rng.choice(["0.1", "0.19", "0.7", "2.675", "0.3", "1.1"]), rng.choice(["0.2", "0.5", "0.6", "0.01", "2.2"])
        tot = str(Fraction(c1) + Fraction(c2))
        tot = "%s" % (float(Fraction(tot)) if "/" in tot else tot)
        from decimal import Decimal
        tot = str(Decimal(c1) + Decimal(c2))
        left = ("+", ("*", m, num(c1)), ("*", m, num(c2)))
        right = ("*", m, num(tot))
        if rng.random() < 0.5:
            extra = term(rng, vocab, 1, "dec")
            left, right = ("+", left, extra), ("+", extra, right)
        return ("=", left, right)
    a = term(rng, vocab, 1, "dec")
    b = poly(rng, vocab, 1, 2, "dec")
    return ("=", ("+", a, b), ("+", b, a)) if rng.random() < 0.5 else ("=", ("+", a, b), ("-", ("+", ("+", a, b), b), b))


# ------------------------------------------------------------------ points on the solution set of the linear equalities
def linear_form(t):
    """(coefficients by fluent, constant) of a tree that is linear in the fluents, else None"""
    if t[0] == "num":
        return {}, Fraction(t[1])
    if t[0] == "fl":
        return {t[1]: Fraction(1)}, Fraction(0)
    a, b = linear_form(t[1]), linear_form(t[2])
    if a is None or b is None:
        return None
    (ca, ka), (cb, kb) = a, b
    if t[0] in "+-":
        s = 1 if t[0] == "+" else -1
        out = dict(ca)
        for f, v in cb.items():
            out[f] = out.get(f, Fraction(0)) + s * v
        return out, ka + s * kb
    if t[0] == "*":
        if not ca:
            return {f: ka * v for f, v in cb.items()}, ka * kb
        if not cb:
            return {f: kb * v for f, v in ca.items()}, ka * kb
        return None
    if cb or kb == 0:
        return None
    return {f: v / kb for f, v in ca.items()}, ka / kb


def solve_point(rng, fluents, equalities):
    """a random point of the solution set of the equalities that are linear (exact Gaussian elimination over Q; the free
    fluents get small random values); None when the linear system has no solution.  Non-linear equalities (the
    generator only makes identities of that kind) are ignored."""
    rows = []
    for c in equalities:
        lf = linear_form(("-", c[1], c[2]))
        if lf is None:
            continue
        coefs, k = lf
        rows.append(([coefs.get(f, Fraction(0)) for f in fluents], -k))
    pivots = {}
    for coefs, rhs in rows:
        coefs = list(coefs)
        for col, (pc, pr) in pivots.items():
            if coefs[col] != 0:
                m = coefs[col]
                coefs = [x - m * y for x, y in zip(coefs, pc)]
                rhs = rhs - m * pr
        col = next((i for i, x in enumerate(coefs) if x != 0), None)
        if col is None:
            if rhs != 0:
                return None
            continue
        piv = coefs[col]
        coefs = [x / piv for x in coefs]
        rhs = rhs / piv
        for c2 in list(pivots):
            pc, pr = pivots[c2]
            if pc[col] != 0:
                m = pc[col]
                pivots[c2] = ([x - m * y for x, y in zip(pc, coefs)], pr - m * rhs)
        pivots[col] = (coefs, rhs)
    rho = {}
    for i, f in enumerate(fluents):
        if i not in pivots:
            rho[f] = Fraction(rng.randint(-6, 6), rng.choice([1, 1, 2, 2, 3]))
    for col, (pc, pr) in pivots.items():
        rho[fluents[col]] = pr - sum(pc[i] * rho[f] for i, f in enumerate(fluents) if i != col and i not in pivots)
    return rho
