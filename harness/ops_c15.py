"""Implementation drivers for C15 (PlanConverter): constants, CPython facts, random walks of applicable actions
made with the real Operator, and the conversion of one plan with the two executions of the result."""
import itertools
import os
import random
import re
import tempfile
from pathlib import Path

from pddl_plus_parser.lisp_parsers import DomainParser, ProblemParser
from pddl_plus_parser.models import NOP_ACTION, Operator
from pddl_plus_parser.multi_agent import PlanConverter
from pddl_plus_parser.multi_agent import single_agent_plan_converter as pcmod
from pddl_plus_parser.multi_agent.common import apply_actions, create_initial_state

from ops_core import number_table, read_state_text

TMP = Path(os.environ.get("VERIF_WORK", "/verif/work")) / "C15" / "tmp"


def _tmp(text, suffix):
    TMP.mkdir(parents=True, exist_ok=True)
    fd, name = tempfile.mkstemp(dir=str(TMP), suffix=suffix)
    with os.fdopen(fd, "w") as fh:
        fh.write(text)
    return Path(name)


def exc(e):
    return {"raised": type(e).__name__, "msg": str(e)[:200]}


def consts(job):
    return {"regex": pcmod.PLAN_COMPONENT_REGEX, "nop": NOP_ACTION}


def facts(job):
    """CPython facts the scanner encodes (code points < 128)."""
    cls = lambda pat: [i for i in range(128) if re.fullmatch(pat, chr(i)) is not None]
    return {"digit": cls(r"\d"), "word": cls(r"\w"), "space": cls(r"\s"),
            "prefix": cls(r"[\d+ : ]"), "body": cls(r"[\w+\s?-]"),
            "split": [i for i in range(128) if ("a" + chr(i) + "b").split() == ["a", "b"]],
            "lower_changes": [i for i in range(128) if chr(i).lower() != chr(i)],
            "lower_ok": all(chr(i).lower() == chr(i + 32) for i in range(65, 91))}


def _load(job):
    dpath = _tmp(job["domain_text"], ".pddl")
    ppath = _tmp(job["problem_text"], ".pddl")
    try:
        domain = DomainParser(dpath).parse_domain()
        problem = ProblemParser(ppath, domain).parse_problem()
        return domain, problem
    finally:
        dpath.unlink()
        ppath.unlink()


def _ground_calls(domain, problem):
    universe = list(problem.objects.values()) + list(domain.constants.values())
    calls = []
    for name, action in domain.actions.items():
        pools = [[o.name for o in universe if o.type.is_sub_type(t)] for t in action.signature.values()]
        for combo in itertools.product(*pools):
            if len(set(combo)) == len(combo):
                calls.append((name, list(combo)))
    return calls


def walk(job):
    """a random walk of applicable actions: domain_text, problem_text, agents, steps, seed, switch (probability of
    preferring an action of another agent than the previous one)"""
    domain, problem = _load(job)
    rng = random.Random(job["seed"])
    agents = job["agents"]
    calls = _ground_calls(domain, problem)
    ops = {}
    state = create_initial_state(problem)
    plan, last = [], None
    for _ in range(job["steps"]):
        app = []
        for name, args in calls:
            key = (name, tuple(args))
            if key not in ops:
                ops[key] = Operator(domain.actions[name], domain, list(args))
            try:
                if ops[key].is_applicable(state):
                    app.append((name, args))
            except Exception:  # noqa
                pass
        if not app:
            break

        def executor(c):
            return next((p for p in c[1] if p in agents), None)
        others = [c for c in app if executor(c) != last]
        pool = others if others and rng.random() < job.get("switch", 0.7) else app
        name, args = rng.choice(pool)
        state = Operator(domain.actions[name], domain, list(args)).apply(state)
        plan.append([name] + list(args))
        last = executor((name, args))
    return {"plan": plan}


def pairs(job):
    """every valid two-action plan from the initial state whose actions are executed by different agents
    (domain_text, problem_text, agents, cap)"""
    domain, problem = _load(job)
    agents = job["agents"]
    calls = _ground_calls(domain, problem)
    init = create_initial_state(problem)

    def executor(c):
        return next((p for p in c[1] if p in agents), None)

    def applicable(state):
        out = []
        for name, args in calls:
            try:
                if Operator(domain.actions[name], domain, list(args)).is_applicable(state):
                    out.append((name, args))
            except Exception:  # noqa
                pass
        return out
    plans = []
    for a in applicable(init):
        if executor(a) is None:
            continue
        s1 = Operator(domain.actions[a[0]], domain, list(a[1])).apply(init)
        for b in applicable(s1):
            if executor(b) is None or executor(b) == executor(a):
                continue
            plans.append([[a[0]] + list(a[1]), [b[0]] + list(b[1])])
    total = len(plans)
    cap = job.get("cap")
    if cap and total > cap:
        random.Random(job.get("seed", 0)).shuffle(plans)
        plans = plans[:cap]
    return {"plans": plans, "total": total}


def _state(s):
    return read_state_text(s.serialize())


def _convert_with(domain, problem, pc, plan_text, agents, flag, ppath, out):
    """the observations of one conversion: the sequential run of the extracted actions, the conversion, the joint run.
    'intact': the agent list OBJECT, the plan file and the problem's initial state are as before the call"""
    agents_before = list(agents)
    init_before = _state(create_initial_state(problem))
    intact = True
    try:
        # the sequential run of the extracted actions
        try:
            extracted = pc._extract_plan_actions(plan_text, agents)
            out["extracted"] = [[a.name] + list(a.parameters) for a, _ in extracted]
            s = create_initial_state(problem)
            for a, _ in extracted:
                s = apply_actions(domain, s, [a])
            out["seq_final"] = {"value": _state(s)}
        except Exception as e:  # noqa
            out["seq_final"] = exc(e)
        # the conversion, then the joint run of its result
        try:
            joint = pc.convert_plan(problem, ppath, agents, flag)
            out["joint"] = {"value": [[[a.name] + list(a.parameters) for a in j.actions] for j in joint],
                            "text": [str(j) for j in joint]}
        except Exception as e:  # noqa
            out["joint"] = exc(e)
            out["joint_final"] = exc(e)
            return out
        try:
            s = create_initial_state(problem)
            for j in joint:
                s = apply_actions(domain, s, j.operational_actions)
            out["joint_final"] = {"value": _state(s)}
        except Exception as e:  # noqa
            out["joint_final"] = exc(e)
        return out
    finally:
        try:
            intact = (list(agents) == agents_before and _state(create_initial_state(problem)) == init_before
                      and Path(ppath).read_text() == plan_text)
        except Exception:  # noqa
            intact = False
        out["intact"] = intact


def convert(job):
    """job: domain_text, problem_text, plan_text, agents, flag"""
    out = {"nums": number_table(job["domain_text"])}
    try:
        domain, problem = _load(job)
    except Exception as e:  # noqa
        out["load_raised"] = exc(e)
        return out
    out["objects"] = [[n, o.type.name] for n, o in problem.objects.items()]
    out["init"] = _state(create_initial_state(problem))
    ppath = _tmp(job["plan_text"], ".txt")
    try:
        return _convert_with(domain, problem, PlanConverter(domain), job["plan_text"], job["agents"], job["flag"], ppath, out)
    finally:
        ppath.unlink()


def sequence(job):
    """ONE process, objects reused: the domain is parsed once, every problem once with that Domain object, ONE
    PlanConverter converts every plan, one plan-file path is rewritten, equal agent lists are the same list object.
    job: domain_text, problems [text], steps [{problem, plan_text, agents, flag}]"""
    nums = number_table(job["domain_text"])
    dpath = _tmp(job["domain_text"], ".pddl")
    try:
        domain = DomainParser(dpath).parse_domain()
    finally:
        dpath.unlink()
    problems = []
    for text in job["problems"]:
        ppath = _tmp(text, ".pddl")
        try:
            problems.append(ProblemParser(ppath, domain).parse_problem())
        finally:
            ppath.unlink()
    pc = PlanConverter(domain)
    plan_path = _tmp("", ".txt")
    agent_lists = {}
    outs = []
    try:
        for st in job["steps"]:
            problem = problems[st["problem"]]
            out = {"nums": dict(nums)}
            out["objects"] = [[n, o.type.name] for n, o in problem.objects.items()]
            out["init"] = _state(create_initial_state(problem))
            agents = agent_lists.setdefault(tuple(st["agents"]), list(st["agents"]))
            if agents != list(st["agents"]):               # an earlier call changed the shared list: recorded there
                agents = agent_lists[tuple(st["agents"])] = list(st["agents"])
            plan_path.write_text(st["plan_text"])
            outs.append(_convert_with(domain, problem, pc, st["plan_text"], agents, st["flag"], plan_path, out))
    finally:
        plan_path.unlink()
    return {"steps_out": outs}
