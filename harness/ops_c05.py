"""Implementation drivers for C05 (and, through import, C09): parse a domain, dump its vocabulary, parse problem
texts against it and dump the parsed Problem's observables (or what was raised)."""
import os
import re
import tempfile
from pathlib import Path

from pddl_plus_parser.lisp_parsers import DomainParser, ProblemParser, PDDLTokenizer
from pddl_plus_parser.models import PDDLFunction

TMP = Path(os.environ.get("VERIF_WORK", "/verif/work")) / "C05" / "tmp"
TESTS = None


def write_tmp(text, suffix=".pddl"):
    TMP.mkdir(parents=True, exist_ok=True)
    fd, name = tempfile.mkstemp(dir=str(TMP), suffix=suffix)
    with os.fdopen(fd, "w", newline="") as fh:
        fh.write(text)
    return Path(name)


def exc(e):
    return {"raised": type(e).__name__, "msg": str(e)[:200]}


def sig_rows(signature):
    return [[p, t.name] for p, t in signature.items()]


def vocab(domain):
    return {
        "name": domain.name,
        "types": [[n, (t.parent.name if t.parent is not None else "object")] for n, t in domain.types.items() if n != "object"],
        "consts": [[n, c.type.name] for n, c in domain.constants.items()],
        "preds": [[n, sig_rows(p.signature)] for n, p in domain.predicates.items()],
        "funcs": [[n, sig_rows(f.signature)] for n, f in domain.functions.items()],
    }


def number_table(text):
    toks = set(re.sub(r";.*", "", text.lower()).replace("(", " ").replace(")", " ").split())
    out = {}
    for t in toks:
        try:
            out[t] = float(t).hex()
        except ValueError:
            pass
    return out


def fluent_atom(fl):
    """the atom PDDLFunction.state_representation prints: '(= (f a b) v)' -> [f, [a, b]]"""
    toks = fl.state_representation.replace("(", " ").replace(")", " ").split()
    assert toks[0] == "=" and toks[1] == fl.name, toks
    return [fl.name, toks[2:-1]]


def tree_dump(node):
    """a numeric goal, node by node; a fluent leaf as the library itself presents it (state_representation, which reads
    signature AND repeating_variables: on a leaf the latter is empty, so these are the signature's keys)"""
    if len(node.children) == 0:
        if isinstance(node.value, PDDLFunction):
            return ["fl"] + fluent_atom(node.value)
        return ["num", float(node.value).hex()]
    return ["op", node.value, tree_dump(node.children[0]), tree_dump(node.children[1])]


def functions_presentation(domain):
    """how the Domain object presents its functions (parsing a problem must not change it)"""
    out = []
    for n, f in domain.functions.items():
        try:
            out.append([n, str(f), f.state_representation, f.state_typed_representation,
                        sorted(f.repeating_variables.items())])
        except Exception as e:  # noqa
            out.append([n, "raised " + type(e).__name__])
    return out


def problem_dump(problem):
    facts = []
    for bucket in problem.initial_state_predicates.values():
        for gp in bucket:
            facts.append([gp.name, list(gp.grounded_objects)])
    fluents = []
    for fl in problem.initial_state_fluents.values():
        a = fluent_atom(fl)
        fluents.append([a[0], a[1], float(fl.value).hex()])
    goal_num = sorted((tree_dump(t.root) for t in problem.goal_state_fluents), key=lambda x: repr(x))
    return {
        "name": problem.name,
        "objects": [[n, o.type.name] for n, o in problem.objects.items()],
        "facts": sorted(facts),
        "fluents": fluents,
        "goal": [[gp.name, list(gp.grounded_objects)] for gp in problem.goal_state_predicates],
        "goal_num": goal_num,
    }


def parse_problem_text(domain, text, path=None):
    """path given: the text is written over whatever that file held before, and the file is kept"""
    if path is not None:
        with open(path, "w", newline="") as fh:
            fh.write(text)
        return ProblemParser(path, domain).parse_problem()
    ppath = write_tmp(text)
    try:
        return ProblemParser(ppath, domain).parse_problem()
    finally:
        ppath.unlink()


def load_domain(job):
    if "domain_path" in job:
        return DomainParser(Path(job["domain_path"])).parse_domain()
    dpath = write_tmp(job["domain_text"])
    try:
        return DomainParser(dpath).parse_domain()
    finally:
        dpath.unlink()


def world(job):
    """job: domain_text | domain_path, problems: [text | {"path": ...}]"""
    out = {}
    try:
        domain = load_domain(job)
    except RecursionError as e:
        return {"domain_raised": exc(e)}
    except Exception as e:  # noqa
        return {"domain_raised": exc(e)}
    out["vocab"] = vocab(domain)
    presented = functions_presentation(domain)
    if any(len(row) == 5 and row[4] for row in presented):
        # a freshly parsed domain whose functions already carry repeated arguments: left behind by an earlier parse
        out["domain_changed"] = {"after_problem_index": -1, "before": "a freshly parsed Domain", "after": presented}
    res = []
    same = write_tmp("", suffix=".same.pddl") if job.get("same_path") else None      # one path for all problems of the job
    for pr in job["problems"]:
        text = Path(pr["path"]).read_text() if isinstance(pr, dict) else pr
        r = {"nums": number_table(text)}
        if isinstance(pr, dict):
            r["text"] = text
        try:
            r["dump"] = problem_dump(parse_problem_text(domain, text, same))
        except RecursionError as e:
            r.update(exc(e))
        except Exception as e:  # noqa
            r.update(exc(e))
        now = functions_presentation(domain)
        if now != presented and "domain_changed" not in out:
            out["domain_changed"] = {"after_problem_index": len(res), "before": presented, "after": now}
        res.append(r)
    out["results"] = res
    if same is not None:
        same.unlink()
    return out


def fixtures(job):
    """the problem files shipped under <repo>/tests with the domain file each one is parsed against: the first
    domain file with the problem's domain name (same directory first) against which the problem parses."""
    import logging
    logging.disable(logging.CRITICAL)
    import pddl_plus_parser
    root = Path(pddl_plus_parser.__file__).resolve().parent.parent / "tests"
    doms, probs = {}, []
    for f in sorted(root.rglob("*.pddl")):
        try:
            t = PDDLTokenizer(f).parse()
        except Exception:  # noqa
            continue
        if not isinstance(t, list) or len(t) < 2 or not isinstance(t[1], list) or not t[1]:
            continue
        if t[1][0] == "domain" and len(t[1]) > 1:
            doms.setdefault(t[1][1], []).append(f)
        elif t[1][0] == "problem":
            dn = [x[1] for x in t if isinstance(x, list) and len(x) > 1 and x[0] == ":domain"]
            probs.append((f, dn[0] if dn else None))
    parsed = {}
    out = []
    for f, dn in probs:
        cands = sorted(doms.get(dn, []), key=lambda d: (d.parent != f.parent, str(d)))
        chosen = None
        for d in cands:
            if d not in parsed:
                try:
                    parsed[d] = DomainParser(d).parse_domain()
                except Exception:  # noqa
                    parsed[d] = None
            if parsed[d] is None:
                continue
            if chosen is None:
                chosen = d
            try:
                ProblemParser(f, parsed[d]).parse_problem()
                chosen = d
                break
            except Exception:  # noqa
                continue
        out.append({"problem": str(f), "domain": str(chosen) if chosen else None, "size": f.stat().st_size,
                    "rel": str(f.relative_to(root))})
    return {"root": str(root), "pairs": out}


def float_facts(job):
    """CPython facts the model relies on: float(repr(x)) == x bit for bit on the given values"""
    bad = []
    for h in job["values"]:
        x = float.fromhex(h)
        if float(repr(x)).hex() != x.hex() and x == x:
            bad.append(h)
    return {"bad": bad}
