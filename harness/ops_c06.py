"""Implementation driver for C06: the subtype relation of a parsed domain and every place that checks or
ranges over types (ProblemParser facts / fluents / goals / constants, TrajectoryParser, forall conditions and
forall-when effects of an Operator)."""
import os
import tempfile
from pathlib import Path

from pddl_plus_parser.lisp_parsers import DomainParser, ProblemParser, TrajectoryParser
from pddl_plus_parser.models import Operator, State

TMP = Path(os.environ.get("VERIF_WORK", "/verif/work")) / "C06" / "tmp"


def write_tmp(text, suffix=".pddl"):
    TMP.mkdir(parents=True, exist_ok=True)
    fd, name = tempfile.mkstemp(dir=str(TMP), suffix=suffix)
    with os.fdopen(fd, "w") as fh:
        fh.write(text)
    return Path(name)


def exc(e):
    return {"raised": type(e).__name__, "msg": str(e)[:200]}


def parse_domain_text(text):
    p = write_tmp(text)
    try:
        return DomainParser(p).parse_domain()
    finally:
        p.unlink()


def type_table(domain, names):
    """all-pairs PDDLType.is_sub_type over the given names ('?' when a name is not a key of domain.types)"""
    out = []
    for x in names:
        for y in names:
            if x in domain.types and y in domain.types:
                out.append("1" if domain.types[x].is_sub_type(domain.types[y]) else "0")
            else:
                out.append("?")
    return "".join(out)


def hierarchy_edges(domain):
    """create_type_hierarchy_graph: edges parent -> child, as sorted 'child<parent' strings"""
    from pddl_plus_parser.models.pddl_type import create_type_hierarchy_graph
    g = create_type_hierarchy_graph(domain.types)
    return sorted("%s<%s" % (c, p) for p, c in g.edges())


def table(job):
    """job: domain_text, names -> {types: sorted keys, table: matrix, edges} or {raised}"""
    try:
        domain = parse_domain_text(job["domain_text"])
    except RecursionError as e:
        return exc(e)
    except Exception as e:  # noqa
        return exc(e)
    return {"types": sorted(domain.types), "table": type_table(domain, job["names"]),
            "edges": hierarchy_edges(domain)}


def table_file(job):
    """a domain file shipped with the repository, parsed as it is: {types, table, edges} or {raised}"""
    try:
        domain = DomainParser(Path(job["path"])).parse_domain()
    except RecursionError as e:
        return exc(e)
    except Exception as e:  # noqa
        return exc(e)
    return {"types": sorted(domain.types), "table": type_table(domain, job["names"]),
            "edges": hierarchy_edges(domain)}


# ------------------------------------------------------------------------------------------- sites
def problem_text(objects, init="", goal=""):
    objs = " ".join("%s - %s" % (n, t) for n, t in objects)
    return "(define (problem p) (:domain c06) (:objects %s) (:init %s) (:goal (and %s)))" % (objs, init, goal)


def parses(domain, text):
    p = write_tmp(text)
    try:
        ProblemParser(p, domain).parse_problem()
        return "1"
    except Exception:  # noqa  (AssertionError for an ill-typed argument)
        return "0"
    finally:
        p.unlink()


def fresh_state(problem):
    return State({k: set(v) for k, v in problem.initial_state_predicates.items()},
                 {k: v.copy() for k, v in problem.initial_state_fluents.items()}, is_init=True)


def sites(job):
    """job: domain_text, names (type names incl. object), objects [[name, type]], kinds.
    Conventions: object of type T is 'o'+T, constant 'k'+T, 'zz' is an extra object of type object;
    predicates q<R>(?x - R), w<R>(?x - object ?y - R), m(?x), hit(?x); functions f<R>(?x - R), g<R>(?x - object ?y - R);
    actions chk<R> (precondition: forall ?v - R (m ?v)), eff<R> (effect: forall ?v - R when (m ?v) (hit ?v))."""
    try:
        domain = parse_domain_text(job["domain_text"])
    except Exception as e:  # noqa
        return exc(e)
    names, objects = job["names"], job["objects"]
    out = {"types": sorted(domain.types), "table": type_table(domain, names), "edges": hierarchy_edges(domain),
           "sites": {}}
    base_problem = None
    pp = write_tmp(problem_text(objects))
    try:
        base_problem = ProblemParser(pp, domain).parse_problem()
    except Exception as e:  # noqa
        out["problem_raised"] = exc(e)
    finally:
        pp.unlink()
    obj_names = [n for n, _ in objects]

    def matrix(fn):
        return "".join(fn(t, r) for t in names for r in names)

    for kind in job["kinds"]:
        if kind == "fact":
            m = matrix(lambda t, r: parses(domain, problem_text(objects, init="(q%s o%s)" % (r, t))))
        elif kind == "goal":
            m = matrix(lambda t, r: parses(domain, problem_text(objects, goal="(q%s o%s)" % (r, t))))
        elif kind == "fact2":
            m = matrix(lambda t, r: parses(domain, problem_text(objects, init="(w%s zz o%s)" % (r, t))))
        elif kind == "fluent":
            m = matrix(lambda t, r: parses(domain, problem_text(objects, init="(= (f%s o%s) 1)" % (r, t))))
        elif kind == "fluent2":
            m = matrix(lambda t, r: parses(domain, problem_text(objects, init="(= (g%s zz o%s) 1)" % (r, t))))
        elif kind == "cfact":
            m = matrix(lambda t, r: parses(domain, problem_text(objects, init="(q%s k%s)" % (r, t))))
        elif kind == "cfluent":
            m = matrix(lambda t, r: parses(domain, problem_text(objects, init="(= (f%s k%s) 1)" % (r, t))))
        elif kind in ("tfluent", "tfact"):
            def traj(t, r, kind=kind):
                body = "(= (f%s o%s) 1)" % (r, t) if kind == "tfluent" else "(q%s o%s)" % (r, t)
                p = write_tmp("((:init %s))" % body, ".trajectory")
                try:
                    TrajectoryParser(domain, base_problem).parse_trajectory(p)
                    return "1"
                except Exception:  # noqa
                    return "0"
                finally:
                    p.unlink()
            m = matrix(traj)
        elif kind == "forall_pre":
            def pre(t, r):
                try:
                    # every (m x), for objects and constants, except for the object of type t
                    init = " ".join("(m %s)" % o for o in obj_names + ["k" + x for x in names] if o != "o" + t)
                    p = write_tmp(problem_text(objects, init=init))
                    try:
                        prob = ProblemParser(p, domain).parse_problem()
                    finally:
                        p.unlink()
                    op = Operator(domain.actions["chk" + r], domain, [], prob.objects)
                    return "0" if op.is_applicable(fresh_state(prob)) else "1"
                except Exception:  # noqa
                    return "E"
            m = matrix(pre)
        elif kind == "forall_eff":
            rows = {}
            for r in names:
                try:
                    init = " ".join("(m %s)" % o for o in obj_names)
                    p = write_tmp(problem_text(objects, init=init))
                    try:
                        prob = ProblemParser(p, domain).parse_problem()
                    finally:
                        p.unlink()
                    op = Operator(domain.actions["eff" + r], domain, [], prob.objects)
                    nxt = op.apply(fresh_state(prob))
                    text = nxt.serialize()
                    rows[r] = {t: ("1" if ("(hit o%s)" % t) in text else "0") for t in names}
                except Exception:  # noqa
                    rows[r] = {t: "E" for t in names}
            m = matrix(lambda t, r: rows[r][t])
        elif kind.startswith("rep"):
            # the SAME object (or constant) at two or three positions of a fact / goal / fluent whose parameters have
            # the required types R1 R2 [R3]; row-major over (T, R1, R2[, R3]).  Predicates b_R1_R2, c_R1_R2_R3,
            # functions fb_R1_R2, fc_R1_R2_R3 (see harness/props/c06.py:repeat_domain_text).
            import itertools as _it
            arity = 3 if kind.startswith("rep3") else 2
            what = kind.split("_", 1)[1]

            def rep(t, rs, kind=kind, arity=arity, what=what):
                who = ("k" if what in ("cfact", "cfluent") else "o") + t
                args = [who] * arity
                if kind.startswith("rep3m"):
                    args = [who, "zz", who]
                if kind.startswith("rep3e"):
                    args = [who, who, "zz"]
                sym = ("b_" if arity == 2 else "c_") + "_".join(rs)
                if what in ("fact", "cfact"):
                    return parses(domain, problem_text(objects, init="(%s %s)" % (sym, " ".join(args))))
                if what == "goal":
                    return parses(domain, problem_text(objects, goal="(%s %s)" % (sym, " ".join(args))))
                if what in ("fluent", "cfluent"):
                    return parses(domain, problem_text(objects, init="(= (f%s %s) 1)" % (sym, " ".join(args))))
                if what == "tfluent":
                    p = write_tmp("((:init (= (f%s %s) 1)))" % (sym, " ".join(args)), ".trajectory")
                    try:
                        TrajectoryParser(domain, base_problem).parse_trajectory(p)
                        return "1"
                    except Exception:  # noqa
                        return "0"
                    finally:
                        p.unlink()
                raise ValueError("unknown repeat kind " + kind)
            m = "".join(rep(t, rs) for t in names for rs in _it.product(names, repeat=arity))
        elif kind == "joint_eff":
            # joint execution (multi_agent/common.apply_actions) of eff<R> together with chkobject: two executed
            # members, so the accumulating path is taken; the members' operators get the problem's objects
            from pddl_plus_parser.models import ActionCall
            from pddl_plus_parser.multi_agent.common import apply_actions
            rows = {}
            for r in names:
                try:
                    init = " ".join("(m %s)" % o for o in obj_names + ["k" + x for x in names])
                    p = write_tmp(problem_text(objects, init=init))
                    try:
                        prob = ProblemParser(p, domain).parse_problem()
                    finally:
                        p.unlink()
                    nxt = apply_actions(domain, fresh_state(prob),
                                        [ActionCall("eff" + r, []), ActionCall("chkobject", [])],
                                        problem_objects=prob.objects)
                    text = nxt.serialize()
                    rows[r] = {t: ("1" if ("(hit o%s)" % t) in text else "0") for t in names}
                except Exception:  # noqa
                    rows[r] = {t: "E" for t in names}
            m = matrix(lambda t, r: rows[r][t])
        elif kind in ("cforall_pre", "cforall_eff"):
            # through the library's own pipeline (TrajectoryExporter.parse_plan hands problem.objects to Operator);
            # the quantified objects of interest are the domain's CONSTANTS 'k'+T
            from pddl_plus_parser.exporters import TrajectoryExporter
            everything = obj_names + ["k" + t for t in names]

            def pipeline(init, call):
                p = write_tmp(problem_text(objects, init=init))
                try:
                    prob = ProblemParser(p, domain).parse_problem()
                finally:
                    p.unlink()
                triplets = TrajectoryExporter(domain).parse_plan(prob, action_sequence=[call])
                return triplets[0].next_state.serialize()

            if kind == "cforall_pre":
                def cpre(t, r):
                    try:
                        init = " ".join("(m %s)" % o for o in everything if o != "k" + t)
                        text = pipeline(init, "(chk%s)" % r)
                        return "0" if "(hit kobject)" in text else "1"     # effect happened = applicable = not in range
                    except Exception:  # noqa
                        return "E"
                m = matrix(cpre)
            else:
                rows = {}
                for r in names:
                    try:
                        text = pipeline(" ".join("(m %s)" % o for o in everything), "(eff%s)" % r)
                        rows[r] = {t: ("1" if ("(hit k%s)" % t) in text else "0") for t in names}
                    except Exception:  # noqa
                        rows[r] = {t: "E" for t in names}
                m = matrix(lambda t, r: rows[r][t])
        else:
            raise ValueError("unknown site kind " + kind)
        out["sites"][kind] = m
    return out


# ------------------------------------------------------------------------------------------- several quantifiers in ONE action
def quant(job):
    """One action with SEVERAL quantified effects / conditions (harness/props/c06.py:quant_domain_text).
    job: domain_text, names, objects [[name, type]], ents [[name, type]] (objects then constants: everything a quantifier
    can range over), acts [{name, shape, types, vars}].  The Operator is built with problem.objects, as the library's
    pipeline does.  Observable per action: one row of bits over ents per quantifier j -
      eff        row j: (hit<j> e) is in the successor of the state where every (m<k> e') holds
      pre, npre  row j: the action is NOT applicable in the state where every (m<k> e') holds except (m<j> e)
      when       row j: (fin kobject) is NOT in the successor of that state
      neff       row 1: (hit1 e) in the successor of the all-true state; row 2: NO (hit1 .) in the successor of the
                 state without (m2 e)
    rows are joined by '|'; the whole answer is 'E' when the library raised."""
    try:
        domain = parse_domain_text(job["domain_text"])
    except Exception as e:  # noqa
        return exc(e)
    names, objects, ents = job["names"], job["objects"], job["ents"]
    out = {"types": sorted(domain.types), "table": type_table(domain, names), "edges": hierarchy_edges(domain),
           "quant": {}}
    ent_names = [n for n, _ in ents]
    nrows = max(len(a["types"]) for a in job["acts"])
    problems = {}

    def problem_without(j, e):
        """the problem whose initial state has every (m<k> e') except (m<j> e); (None, None) = nothing left out"""
        if (j, e) not in problems:
            init = " ".join("(m%d %s)" % (k, x) for k in range(1, nrows + 1) for x in ent_names if (k, x) != (j, e))
            p = write_tmp(problem_text(objects, init=init))
            try:
                problems[(j, e)] = ProblemParser(p, domain).parse_problem()
            finally:
                p.unlink()
        return problems[(j, e)]

    def facts(state):
        return state.serialize()

    for act in job["acts"]:
        name, shape, n = act["name"], act["shape"], len(act["types"])
        rows = []
        try:
            full = problem_without(None, None)
            op = Operator(domain.actions[name], domain, [], full.objects)
            if shape == "eff":
                text = facts(op.apply(fresh_state(full)))
                for j in range(1, n + 1):
                    rows.append("".join("1" if ("(hit%d %s)" % (j, e)) in text else "0" for e in ent_names))
            elif shape in ("pre", "npre"):
                for j in range(1, n + 1):
                    row = ""
                    for e in ent_names:
                        prob = problem_without(j, e)
                        op_j = Operator(domain.actions[name], domain, [], prob.objects)
                        row += "0" if op_j.is_applicable(fresh_state(prob)) else "1"
                    rows.append(row)
            elif shape == "when":
                for j in range(1, n + 1):
                    row = ""
                    for e in ent_names:
                        prob = problem_without(j, e)
                        op_j = Operator(domain.actions[name], domain, [], prob.objects)
                        row += "0" if "(fin kobject)" in facts(op_j.apply(fresh_state(prob))) else "1"
                    rows.append(row)
            elif shape == "neff":
                text = facts(op.apply(fresh_state(full)))
                rows.append("".join("1" if ("(hit1 %s)" % e) in text else "0" for e in ent_names))
                row = ""
                for e in ent_names:
                    prob = problem_without(2, e)
                    op_j = Operator(domain.actions[name], domain, [], prob.objects)
                    row += "0" if "(hit1 " in facts(op_j.apply(fresh_state(prob))) else "1"
                rows.append(row)
            else:
                raise ValueError("unknown shape " + shape)
            out["quant"][name] = "|".join(rows)
        except Exception as e:  # noqa
            out["quant"][name] = "E"
    return out
