"""Implementation-side helpers of the C01 check (executed by harness/impl_worker.py with the library under test on the path)."""


def config(job):
    """the numeric configuration the generator of near-duplicate texts depends on: the tolerance of comparisons and the
    numbers of decimals with which the library prints constants (conditions: pddl_precondition, expressions:
    numerical_expression)"""
    import pddl_plus_parser.models.numerical_expression as ne
    import pddl_plus_parser.models.pddl_precondition as pp
    return {"epsilon": float(ne.EPSILON).hex(), "digits": int(ne.DEFAULT_DIGITS),
            "condition_digits": int(getattr(pp, "DEFAULT_DECIMAL_DIGITS", ne.DEFAULT_DIGITS))}
