"""C01: constructs outside the supported fragment, planted one per domain (every form the property names, plus the
neighbouring ones), the shipped domain files, and the per-production census of a generated domain.

Every choice comes from the random.Random instance passed in.  A planter returns True when it changed the world;
the world is then marked `oof` and the Coq judge (Corr.Core.world_verdict) accepts exactly: an exception when the
domain is parsed; or a vocabulary and a behaviour equal to the independent reading; or - when the independent
reading cannot read the text - an exception at every use of every probe."""
import glob
import os

from . import pddlgen as G


def _and_body(pre):
    if isinstance(pre, list) and pre and pre[0] == "and":
        return list(pre)
    return ["and"] + ([pre] if pre else [])


def _atom(rng, w, scope):
    a = G.gen_atom(rng, w, scope)
    if a is None:
        zero = [p for p in w.preds if not p[1]]
        if zero:
            return [zero[0][0]]
    return a


def _unary(w):
    return [p for p in w.preds if len(p[1]) == 1]


def _binary(w):
    return [p for p in w.preds if len(p[1]) == 2]


def _vars(a):
    return [v for v, _ in a["params"]]


# ---------------------------------------------------------------------------------------------------------------
# planters: (rng, w, a) -> bool
def k_single_literal_body(rng, w, a):
    at = _atom(rng, w, list(a["params"]))
    if not at:
        return False
    a["pre"] = at
    return True


def k_top_not_body(rng, w, a):
    at = _atom(rng, w, list(a["params"]))
    if not at:
        return False
    a["pre"] = ["not", at]
    return True


def k_single_literal_effect(rng, w, a):
    at = _atom(rng, w, list(a["params"]))
    if not at:
        return False
    a["eff"] = at
    return True


def k_imply(rng, w, a):
    at = _atom(rng, w, list(a["params"]))
    if not at:
        return False
    a["pre"] = _and_body(a["pre"]) + [["imply", at, at]]
    return True


def k_imply_nested(rng, w, a):
    at = _atom(rng, w, list(a["params"]))
    if not at:
        return False
    a["pre"] = _and_body(a["pre"]) + [["or", at, ["imply", at, at]]]
    return True


def k_exists(rng, w, a):
    at = _atom(rng, w, list(a["params"]))
    if not at:
        return False
    a["pre"] = _and_body(a["pre"]) + [["exists", ["?e", "-", "object"], ["and", at]]]
    return True


def k_exists_in_when(rng, w, a):
    at = _atom(rng, w, list(a["params"]))
    if not at:
        return False
    a["eff"] = a["eff"] + [["when", ["exists", ["?e", "-", "object"], at], at]]
    return True


def k_either_param(rng, w, a):
    ts = list(w.types)[:2] or ["object"]
    a["params"] = list(a["params"]) + [("?e9", ["either"] + ts)]
    a["group"] = False
    return True


def k_either_pred(rng, w, a):
    ts = list(w.types)[:2] or ["object"]
    w.preds.append(("pe", [("?a0", ["either"] + ts)]))
    return True


def k_nary_plus(rng, w, a):
    fl = G.gen_fluent(rng, w, list(a["params"]))
    if not fl:
        return False
    a["pre"] = _and_body(a["pre"]) + [[">=", fl, ["+", "1", "2", "3"]]]
    return True


def k_nary_times_nested(rng, w, a):
    fl = G.gen_fluent(rng, w, list(a["params"]))
    if not fl:
        return False
    a["eff"] = a["eff"] + [["increase", fl, ["*", fl, "2", fl]]]
    return True


def k_unary_minus(rng, w, a):
    fl = G.gen_fluent(rng, w, list(a["params"]))
    if not fl:
        return False
    a["pre"] = _and_body(a["pre"]) + [[">=", ["-", fl], "0"]]
    return True


def k_scale_up(rng, w, a):
    fl = G.gen_fluent(rng, w, list(a["params"]))
    if not fl:
        return False
    a["eff"] = a["eff"] + [["scale-up", fl, "2"]]
    return True


def k_scale_down(rng, w, a):
    fl = G.gen_fluent(rng, w, list(a["params"]))
    if not fl:
        return False
    a["eff"] = a["eff"] + [["scale-down", fl, "2"]]
    return True


def k_scale_up_in_when(rng, w, a):
    fl = G.gen_fluent(rng, w, list(a["params"]))
    at = _atom(rng, w, list(a["params"]))
    if not fl or not at:
        return False
    a["eff"] = a["eff"] + [["when", at, ["scale-up", fl, "2"]]]
    return True


def k_undeclared_pre(rng, w, a):
    a["pre"] = _and_body(a["pre"]) + [["zz-undeclared"] + _vars(a)[:1]]
    return True


def k_undeclared_neg_pre(rng, w, a):
    a["pre"] = _and_body(a["pre"]) + [["not", ["zz-undeclared"] + _vars(a)[:1]]]
    return True


def k_undeclared_eff(rng, w, a):
    a["eff"] = a["eff"] + [["zz-undeclared"] + _vars(a)[:1]]
    return True


def k_undeclared_del_eff(rng, w, a):
    a["eff"] = a["eff"] + [["not", ["zz-undeclared"] + _vars(a)[:1]]]
    return True


def k_undeclared_when_result(rng, w, a):
    at = _atom(rng, w, list(a["params"]))
    if not at:
        return False
    a["eff"] = a["eff"] + [["when", at, ["zz-undeclared"] + _vars(a)[:1]]]
    return True


def k_undeclared_function(rng, w, a):
    a["pre"] = _and_body(a["pre"]) + [[">=", ["zz-fn"] + _vars(a)[:1], "0"]]
    return True


def k_repeated_arg_pre(rng, w, a):
    b, vs = _binary(w), _vars(a)
    if not b or not vs:
        return False
    a["pre"] = _and_body(a["pre"]) + [[b[0][0], vs[0], vs[0]]]
    return True


def k_repeated_arg_neg(rng, w, a):
    b, vs = _binary(w), _vars(a)
    if not b or not vs:
        return False
    a["pre"] = _and_body(a["pre"]) + [["not", [b[0][0], vs[0], vs[0]]]]
    return True


def k_repeated_arg_eff(rng, w, a):
    b, vs = _binary(w), _vars(a)
    if not b or not vs:
        return False
    a["eff"] = a["eff"] + [[b[0][0], vs[0], vs[0]]]
    return True


def k_arity_more(rng, w, a):
    u, vs = _unary(w), _vars(a)
    if not u or not vs:
        return False
    where = rng.choice(["pre", "eff", "neg"])
    lit = [u[0][0], vs[0], vs[-1] if len(vs) > 1 else "zz"]
    if len(vs) < 2:
        return False
    if where == "pre":
        a["pre"] = _and_body(a["pre"]) + [lit]
    elif where == "neg":
        a["pre"] = _and_body(a["pre"]) + [["not", lit]]
    else:
        a["eff"] = a["eff"] + [lit]
    return True


def k_arity_fewer(rng, w, a):
    b, vs = _binary(w), _vars(a)
    if not b or not vs:
        return False
    lit = [b[0][0], vs[0]]
    if rng.random() < 0.5:
        a["pre"] = _and_body(a["pre"]) + [lit]
    else:
        a["eff"] = a["eff"] + [lit]
    return True


def k_fn_arity_more(rng, w, a):
    f1 = [f for f in w.funcs if len(f[1]) == 1]
    vs = _vars(a)
    if not f1 or len(vs) < 2:
        return False
    a["pre"] = _and_body(a["pre"]) + [[">=", [f1[0][0], vs[0], vs[1]], "0"]]
    return True


def k_fn_zero_args(rng, w, a):
    f1 = [f for f in w.funcs if len(f[1]) == 1]
    if not f1:
        return False
    # the action gets a parameter with the declaration's own parameter name, the case that used to be silent
    pname, pty = f1[0][1][0]
    if pname not in _vars(a):
        a["params"] = list(a["params"]) + [(pname, pty)]
        a["group"] = False
    if rng.random() < 0.5:
        a["pre"] = _and_body(a["pre"]) + [[">=", [f1[0][0]], "0"]]
    else:
        a["eff"] = a["eff"] + [["increase", [f1[0][0]], "1"]]
    return True


def k_eq_const(rng, w, a):
    if not w.consts or not a["params"]:
        return False
    a["pre"] = _and_body(a["pre"]) + [["=", a["params"][0][0], w.consts[0][0]]]
    return True


def k_numeral_pair(rng, w, a):
    a["pre"] = _and_body(a["pre"]) + [rng.choice([["=", "1", "1.0"], ["=", "1", "2"], ["not", ["=", "2", "2"]]])]
    return True


def k_num_eq_swapped(rng, w, a):
    fl = G.gen_fluent(rng, w, list(a["params"]))
    if not fl:
        return False
    a["pre"] = _and_body(a["pre"]) + [["=", "2", fl]]
    return True


def k_not_compound(rng, w, a):
    at = _atom(rng, w, list(a["params"]))
    if not at:
        return False
    a["pre"] = _and_body(a["pre"]) + [["not", rng.choice([["and", at, at], ["or", at], ["not", at]])]]
    return True


def k_nested_and_effect(rng, w, a):
    at = _atom(rng, w, list(a["params"]))
    if not at:
        return False
    a["eff"] = a["eff"] + [["and", at]]
    return True


def k_unconditional_forall_effect(rng, w, a):
    u = _unary(w)
    if not u:
        return False
    a["eff"] = a["eff"] + [["forall", ["?u9", "-", "object"], rng.choice([["and", [u[0][0], "?u9"]], [u[0][0], "?u9"]])]]
    return True


def k_when_in_when(rng, w, a):
    at = _atom(rng, w, list(a["params"]))
    if not at:
        return False
    a["eff"] = a["eff"] + [["when", at, ["when", at, at]]]
    return True


def k_forall_in_when_result(rng, w, a):
    at = _atom(rng, w, list(a["params"]))
    u = _unary(w)
    if not at or not u:
        return False
    a["eff"] = a["eff"] + [["when", at, ["forall", ["?u9", "-", "object"], [u[0][0], "?u9"]]]]
    return True


def k_assign_to_arith(rng, w, a):
    a["eff"] = a["eff"] + [["increase", ["+", "1", "2"], "3"]]
    return True


def k_cmp_as_effect(rng, w, a):
    fl = G.gen_fluent(rng, w, list(a["params"]))
    if not fl:
        return False
    a["eff"] = a["eff"] + [[">=", fl, "1"]]
    return True


def k_assign_as_condition(rng, w, a):
    fl = G.gen_fluent(rng, w, list(a["params"]))
    if not fl:
        return False
    a["pre"] = _and_body(a["pre"]) + [["increase", fl, "1"]]
    return True


def k_forall_pre_single_body(rng, w, a):
    u = _unary(w)
    if not u:
        return False
    a["pre"] = _and_body(a["pre"]) + [["forall", ["?q9", "-", "object"], [u[0][0], "?q9"]]]
    return True


def k_unknown_type_param(rng, w, a):
    a["params"] = list(a["params"]) + [("?e9", "zz-type")]
    a["group"] = False
    return True


def k_unknown_type_forall(rng, w, a):
    u = _unary(w)
    if not u:
        return False
    a["pre"] = _and_body(a["pre"]) + [["forall", ["?q9", "-", "zz-type"], ["and", [u[0][0], "?q9"]]]]
    return True


def k_unbound_variable(rng, w, a):
    u = _unary(w)
    if not u:
        return False
    lit = [u[0][0], "?zz"]
    where = rng.choice(["pre", "eff", "neg"])
    if where == "pre":
        a["pre"] = _and_body(a["pre"]) + [lit]
    elif where == "neg":
        a["pre"] = _and_body(a["pre"]) + [["not", lit]]
    else:
        a["eff"] = a["eff"] + [lit]
    return True


def k_unbound_variable_fn(rng, w, a):
    f1 = [f for f in w.funcs if len(f[1]) == 1]
    if not f1:
        return False
    a["pre"] = _and_body(a["pre"]) + [[">=", [f1[0][0], "?zz"], "0"]]
    return True


def k_trailing_untyped_constants(rng, w, a):
    # inside the fragment since the D45 repair: must be faithful (typed2 writes a tail of type object untyped)
    w.consts = list(w.consts) + [("cu%d" % i, "object") for i in range(rng.randint(1, 2))]
    return True


def k_grouped_function_params(rng, w, a):
    # legal PDDL that the library refuses (it wants '?x - t' triples in (:functions ...)): an exception, not a silent change
    w.funcs = list(w.funcs) + [("fg", [("?a0", "object"), ("?a1", "object")])]
    w.grouped_function = True
    return True


def k_forall_multi_var(rng, w, a):
    """PDDL allows a typed LIST of variables after forall; the library represents one variable"""
    u = _unary(w)
    if not u:
        return False
    vars_ = rng.choice([["?q8", "?q9", "-", "object"], ["?q8", "-", "object", "?q9", "-", "object"]])
    a["pre"] = _and_body(a["pre"]) + [["forall", vars_, ["and", [u[0][0], "?q8"], [u[0][0], "?q9"]]]]
    return True


def k_forall_untyped_var(rng, w, a):
    u = _unary(w)
    if not u:
        return False
    a["pre"] = _and_body(a["pre"]) + [["forall", ["?q9"], ["and", [u[0][0], "?q9"]]]]
    return True


def k_forall_effect_multi_var(rng, w, a):
    u = _unary(w)
    if not u:
        return False
    vars_ = rng.choice([["?u8", "?u9", "-", "object"], ["?u9"], ["?u8", "-", "object", "?u9", "-", "object"]])
    a["eff"] = a["eff"] + [["forall", vars_, ["when", [u[0][0], "?u9"], [u[0][0], vars_[0]]]]]
    return True


def k_no_precondition_section(rng, w, a):
    """':precondition' is optional in the grammar; the library wants the three sections"""
    a["layout"] = [":parameters", ":effect"]
    return True


def k_no_effect_section(rng, w, a):
    a["layout"] = [":parameters", ":precondition"]
    return True


def k_sections_reordered(rng, w, a):
    # ':parameters' stays first: a body before it is garbage no grammar derives (model and library differ there when the
    # body mentions no variable - the library raises AttributeError, the model reads it; see requests/C01.md)
    a["layout"] = [":parameters", ":effect", ":precondition"]
    return True


def k_when_empty_result(rng, w, a):
    at = _atom(rng, w, list(a["params"]))
    if not at:
        return False
    a["eff"] = a["eff"] + [["when", at, ["and"]]]
    return True


def k_numeral_forms(rng, w, a):
    """numerals the grammar does not derive but float() reads: '1.', '.5', '1e1', '+2', '1_0'"""
    fl = G.gen_fluent(rng, w, list(a["params"]))
    if not fl:
        return False
    c = rng.choice(["1.", ".5", "1e1", "+2", "1_0", "0x10"])
    if rng.random() < 0.5:
        a["pre"] = _and_body(a["pre"]) + [[">=", fl, c]]
    else:
        a["eff"] = a["eff"] + [["increase", fl, c]]
    return True


PLANTERS = {
    "single-literal-body": k_single_literal_body, "top-level-not-body": k_top_not_body,
    "single-literal-effect": k_single_literal_effect,
    "imply": k_imply, "imply-nested": k_imply_nested, "exists": k_exists, "exists-in-when": k_exists_in_when,
    "either-param": k_either_param, "either-pred": k_either_pred,
    "nary-plus": k_nary_plus, "nary-times-nested": k_nary_times_nested, "unary-minus": k_unary_minus,
    "scale-up": k_scale_up, "scale-down": k_scale_down, "scale-up-in-when": k_scale_up_in_when,
    "undeclared-pred-pre": k_undeclared_pre, "undeclared-pred-neg": k_undeclared_neg_pre,
    "undeclared-pred-eff": k_undeclared_eff, "undeclared-pred-del": k_undeclared_del_eff,
    "undeclared-pred-when-result": k_undeclared_when_result, "undeclared-function": k_undeclared_function,
    "repeated-arg-pre": k_repeated_arg_pre, "repeated-arg-neg": k_repeated_arg_neg, "repeated-arg-eff": k_repeated_arg_eff,
    "arity-more": k_arity_more, "arity-fewer": k_arity_fewer, "fn-arity-more": k_fn_arity_more,
    "fn-zero-args": k_fn_zero_args,
    "eq-const": k_eq_const, "numeral-pair": k_numeral_pair, "num-eq-swapped": k_num_eq_swapped,
    "not-compound": k_not_compound, "nested-and-effect": k_nested_and_effect,
    "unconditional-forall-effect": k_unconditional_forall_effect, "when-in-when": k_when_in_when,
    "forall-in-when-result": k_forall_in_when_result, "assign-to-arith": k_assign_to_arith,
    "cmp-as-effect": k_cmp_as_effect, "assign-as-condition": k_assign_as_condition,
    "forall-pre-single-body": k_forall_pre_single_body,
    "unknown-type-param": k_unknown_type_param, "unknown-type-forall": k_unknown_type_forall,
    "unbound-variable": k_unbound_variable, "unbound-variable-fn": k_unbound_variable_fn,
    "trailing-untyped-constants": k_trailing_untyped_constants,
    "grouped-function-params": k_grouped_function_params,
    "forall-multi-var": k_forall_multi_var, "forall-untyped-var": k_forall_untyped_var,
    "forall-effect-multi-var": k_forall_effect_multi_var,
    "no-precondition-section": k_no_precondition_section, "no-effect-section": k_no_effect_section,
    "sections-reordered": k_sections_reordered, "when-empty-result": k_when_empty_result,
    "numeral-forms": k_numeral_forms,
}
# the forms the property's quantifier names, by the planters that produce them
NAMED_BY_PROPERTY = {
    "single-literal or top-level-not bodies": ["single-literal-body", "top-level-not-body"],
    "imply": ["imply", "imply-nested"], "exists": ["exists", "exists-in-when"],
    "either": ["either-param", "either-pred"], "n-ary arithmetic": ["nary-plus", "nary-times-nested"],
    "scale-up/scale-down": ["scale-up", "scale-down", "scale-up-in-when"],
    "literals over undeclared predicates": ["undeclared-pred-pre", "undeclared-pred-neg", "undeclared-pred-eff",
                                            "undeclared-pred-del", "undeclared-pred-when-result"],
    "atoms with a repeated argument": ["repeated-arg-pre", "repeated-arg-neg", "repeated-arg-eff"],
}


def plant(rng, w, kind):
    """plants `kind` in one action of w; returns True when done"""
    a = rng.choice(w.actions)
    if not PLANTERS[kind](rng, w, a):
        return False
    w.oof, w.oof_kind, w.oof_action = True, kind, a["name"]
    return True


# ---------------------------------------------------------------------------------------------------------------
# SHAPES: classes of texts INSIDE the supported fragment that the random grammar walk of pddlgen.py does not reach
# (or reaches too rarely to rely on).  A shaper (rng, w, a, variant) -> hints | None changes action `a` of world `w`;
# the world stays in-fragment, so the judge demands: accepted, vocabulary and behaviour equal to the independent
# reading.  `hints` tell the driver how to choose probe states that SEPARATE what the shape is about:
#   {"fluents": {function name: [values]}, "facts": [predicate names], "focus": action name, "tag": str}
# State 0 of a hinted world has no fact of the named predicates and the first listed value for every fluent of the
# named functions, state 1 has every such fact (same fluent values), further states draw both at random.
AUX_PREDS = [("pz", []), ("pu", [("?a0", "object")]), ("pw", []), ("pv", [("?a0", "object")])]
AUX_FUNCS = [("fz", []), ("fu", [("?a0", "object")])]
# numerals that agree when printed with D decimals and differ otherwise; D = the library's printing precisions, read
# from the library on every run (conditions print with 2 decimals, expressions with 4; the comparison tolerance is 1e-4)
EPS = 1e-4
DIGITS = {"far": 2, "far4": 4}


def configure(eps, condition_digits, expression_digits):
    global EPS
    EPS = eps
    DIGITS["far"], DIGITS["far4"] = condition_digits, expression_digits


def far_pairs(d):
    u = 10.0 ** -(d + 1)
    out = []
    for b in (0.0, 0.5, 1.0, 2.33, -0.25, 10.0, 3.0):
        out.append((b + u, b + 4 * u))
        out.append((b + 4 * u, b + u))
        if b:
            out.append((b - 4 * u, b + 4 * u))
    out.append((-4 * u, -u))
    return [("%.*f" % (d + 1, x), "%.*f" % (d + 1, y)) for x, y in out] + \
           [("%.*f" % (d + 1, x), "%.*f" % (d + 2, y + u / 2)) for x, y in out[:4]]


def pairs_for(mode):
    """mode: '...far...' -> agree to the precision of printed conditions, '...far4...' -> of printed expressions"""
    if "near" in mode:
        return NEAR_PAIRS
    return far_pairs(DIGITS["far4" if "far4" in mode else "far"])


# control: numerals that already differ in the first two decimals
NEAR_PAIRS = [("0.01", "0.04"), ("0.5", "0.25"), ("1", "1.01"), ("2", "3")]
LONG_NUMERALS = ["0.001", "0.0004", "0.3333", "1.0625", "123.456", "0.125", "2.71828", "-0.0015", "1000.001", "0.00001",
                 "0.123456", "5.00004", "-2.000002"]


def ensure_aux(w):
    have_p, have_f = {n for n, _ in w.preds}, {n for n, _ in w.funcs}
    w.preds = list(w.preds) + [p for p in AUX_PREDS if p[0] not in have_p]
    w.funcs = list(w.funcs) + [f for f in AUX_FUNCS if f[0] not in have_f]


def separating_values(c1, c2, cop=None):
    """fluent values that tell a comparison with c1 from the same comparison with c2; the first two are the telling ones.
    '<=' holds up to c + EPS, '>=' from c - EPS, '=' within EPS of c, '<' and '>' are strict."""
    lo, hi = sorted([float(c1), float(c2)])
    d = max(hi - lo, 2 * EPS, 0.002)
    mid = (lo + hi) / 2 if hi > lo else lo
    if cop == "=":
        if hi - lo > 2 * EPS:
            return [float(c1), float(c2), mid, lo - d, hi + d]          # exactly one of the two equalities holds
        return [mid + EPS, mid - EPS, lo - d, hi + d]                   # within EPS of the larger / the smaller one only
    shift = {"<=": EPS, ">=": -EPS}.get(cop, 0.0)
    both = hi + d if cop in (">=", ">") else lo - d                       # both comparisons hold there
    return [mid + shift, both, lo - d, hi + d, float(c1), float(c2), mid - shift]


def _terms(w, scope):
    return [v for v, _ in scope] + [c for c, _ in w.consts]


def _zfl(rng, w, scope, must=None):
    ts = [must] if must else _terms(w, scope)
    if ts and (must or rng.random() < 0.7):
        return ["fu", rng.choice(ts)]
    return ["fz"]


def _zlit(rng, w, scope, must=None, negate=0.4):
    ts = _terms(w, scope)
    if must and rng.random() < 0.7:
        ts = [must]
    at = ["pu", rng.choice(ts)] if ts and rng.random() < 0.7 else ["pz"]
    return ["not", at] if rng.random() < negate else at


def _sibling(rng, w, scope, sop, const, min_lits=0, plain=None):
    """a compound condition over the auxiliary vocabulary: (sop literal* comparison-with-const), or the same under a
    quantifier of its own when sop is 'forall'.  plain = 'eq': literals and one object equality, no comparison;
    plain = 'vacuous': literals that do not mention the sibling's own quantified variable, no comparison (the library
    compares numeric operands by identity, so only comparison-free siblings can ever be taken for one another)"""
    must = None
    head = [sop]
    outer = list(scope)
    if sop == "forall":
        ty = rng.choice(w.all_types())
        must = "?qz"
        scope = list(scope) + [(must, ty)]
        head = [rng.choice(["and", "or"])]
    cop = rng.choice(["<=", ">=", "<", ">", "="])
    items = [] if plain else [[cop, _zfl(rng, w, scope, must), const]]
    if plain == "eq":
        vs = [v for v, _ in scope]
        x, y = rng.sample(vs, 2)
        items.append(["=", x, y])
    negate = rng.random() < 0.4          # one polarity per sibling, so that one fact regime makes its literals neutral
    for _ in range(max(min_lits, rng.choice([0, 1, 1, 1, 1, 2]))):
        lit = _zlit(rng, w, outer if plain == "vacuous" else scope, None if plain == "vacuous" else must,
                    negate=1.0 if negate else 0.0)
        if lit not in items:
            items.append(lit)
    rng.shuffle(items)
    if sop == "forall":
        return ["forall", [must, "-", ty], head + items]
    return head + items


def _twin_of(rng, w, node, mode, c1, c2):
    """the second sibling: the first one with the constant replaced by one that agrees to 2 decimals ('far'), by one
    that does not ('near'), written again ('exact'), with its operands in the opposite order ('swapped'), with one
    literal's polarity flipped ('flip'), or - for a quantified sibling - over another type ('qtype')"""
    def repl(n):
        if isinstance(n, str):
            return c2 if n == c1 else n
        return [repl(x) for x in n]

    def body_map(n, f):
        if n[0] == "forall":
            return [n[0], n[1], f(n[2])]
        return f(n)

    def flip(body):
        out, done = [body[0]], False
        for x in body[1:]:
            if not done and x[0] == "not" and x[1][0] in ("pu", "pz"):
                out.append(x[1])
                done = True
            elif not done and x[0] in ("pu", "pz"):
                out.append(["not", x])
                done = True
            else:
                out.append(x)
        return out
    t = node
    if mode in ("far", "far4", "far-swapped", "near"):
        t = repl(t)
    if mode in ("swapped", "far-swapped"):
        t = body_map(t, lambda b: [b[0]] + list(reversed(b[1:])))
    if mode == "flip":
        t = body_map(t, flip)
    if mode == "eqflip":
        t = body_map(t, lambda b: [b[0]] + [["not", x] if x[0] == "=" and not isinstance(x[1], list) else x for x in b[1:]])
    if mode in ("qtype", "qtype-vacuous"):
        others = [x for x in w.all_types() if x != t[1][2]]
        if t[0] != "forall" or not others:
            return None
        t = [t[0], [t[1][0], "-", rng.choice(others)], t[2]]
    return t


# text order of a planted pair: None = at random, 0 = as built, 1 = reversed (the driver plants the 'far' shapes both ways:
# a library that keeps the first of two look-alikes and one that keeps the last are then both visible)
ORDER = None


def _swap(rng, cop=None, c1=None, c2=None):
    """whether the pair (condition with c1, condition with c2) is written in the opposite order.  With ORDER set the order
    is semantic: 0 = the stricter comparison first, 1 = the weaker first ('=' has neither: as built / reversed)"""
    if ORDER is None:
        return rng.random() < 0.3
    if cop in ("<=", "<", ">=", ">") and c1 is not None and float(c1) != float(c2):
        first_stricter = (float(c1) < float(c2)) == (cop in ("<=", "<"))
        return first_stricter != (ORDER == 0)
    return bool(ORDER)


def _neutral_regime(node):
    """the fact regime ('none' / 'all' of the hinted predicates) under which the literals of the sibling do not decide it"""
    body = node[2] if node[0] == "forall" else node
    lits = [x for x in body[1:] if x[0] in ("pu", "pz") or (x[0] == "not" and x[1][0] in ("pu", "pz"))]
    if not lits:
        return None
    negative = lits[0][0] == "not"
    want_true = body[0] == "and"             # literals of a conjunction must hold, of a disjunction must fail
    return "all" if want_true != negative else "none"


TWIN_SIBLINGS = ["or", "and", "forall"]
TWIN_CONTEXTS = ["pre-root", "pre-nested-or", "pre-nested-and", "forall-body", "when-ante", "forall-when-ante"]
TWIN_MODES = ["far", "far-swapped", "far4", "exact", "swapped", "near", "flip", "eqflip", "qtype", "qtype-vacuous"]


def _insert_two(rng, items, s1, s2):
    items = list(items)
    i = rng.randint(0, len(items))
    items.insert(i, s1)
    items.insert(rng.randint(i + 1, len(items)), s2)
    return items


def _cop_of(node):
    if isinstance(node, list):
        if node and node[0] in ("<=", ">=", "<", ">", "=") and len(node) == 3 and isinstance(node[1], list) and node[1][0] in ("fz", "fu"):
            return node[0]
        for x in node:
            c = _cop_of(x)
            if c:
                return c
    return None


def _hints(a, c1, c2, tag, node=None, types=()):
    vals = separating_values(c1, c2, _cop_of(node))
    return {"fluents": {"fz": vals, "fu": vals}, "facts": ["pz", "pu"],
            "focus": a["name"], "tag": tag, "need_types": [t for t in types if t]}


def s_twins(rng, w, a, variant):
    """two sibling compound conditions under one parent that are the same text up to `mode`"""
    sop, ctx, mode = variant
    if mode.startswith("qtype") and (sop != "forall" or not w.types):
        return None
    ensure_aux(w)
    if mode == "eqflip":
        while len(a["params"]) < 2:
            a["params"] = list(a["params"]) + [("?y%d" % len(a["params"]), rng.choice(w.all_types()))]
    c1, c2 = rng.choice(pairs_for(mode))
    scope = list(a["params"])
    qv = qty = None
    if ctx in ("forall-body", "forall-when-ante"):
        qv, qty = ("?qy" if ctx == "forall-body" else "?uy"), rng.choice(w.all_types())
        scope = scope + [(qv, qty)]
    plain = {"eqflip": "eq", "qtype-vacuous": "vacuous"}.get(mode)
    s1 = _sibling(rng, w, scope, sop, c1, min_lits=1 if mode == "flip" or plain else 0, plain=plain)
    s2 = _twin_of(rng, w, s1, mode, c1, c2)
    if s2 is None:
        return None
    empty = []
    if mode == "qtype-vacuous":
        # one of the two quantified types has no object and no constant: there the condition holds vacuously
        cand = [t for t in (s1[1][2], s2[1][2]) if t != "object" and not w.is_sub([x for x in (s1[1][2], s2[1][2]) if x != t][0], t)
                and not any(w.is_sub(ct, t) for _, ct in w.consts)
                and not any(w.is_sub(pt, t) for _, pt in a["params"])]
        if not cand:
            return None
        empty = [rng.choice(cand)]
    regime = _neutral_regime(s1) if mode not in ("flip",) else None
    cmp_cop = _cop_of(s1)
    if mode == "qtype-vacuous":
        # the body must FAIL for the non-empty type to differ from the empty one: its literals (one polarity) are false
        body = s1[2]
        lits = [x for x in body[1:] if x[0] in ("pu", "pz", "not")]
        regime = ("all" if lits[0][0] == "not" else "none") if lits else None
        if ORDER is not None and (s1[1][2] in empty) != (ORDER == 1):
            s1, s2 = s2, s1               # order 0: the quantifier over the non-empty type first, 1: the vacuous one first
        elif ORDER is None and rng.random() < 0.5:
            s1, s2 = s2, s1
    elif _swap(rng, cmp_cop, c1, c2 if "far" in mode or mode == "near" else c1):
        s1, s2 = s2, s1
    # look-alikes that differ in meaning stand alone, so that they decide; the controls keep the generated precondition sometimes
    harmless = mode in ("exact", "swapped", "near")
    base = _and_body(a["pre"]) if harmless and rng.random() < 0.5 else ["and"]
    if ctx == "pre-root":
        a["pre"] = ["and"] + _insert_two(rng, base[1:], s1, s2)
    elif ctx in ("pre-nested-or", "pre-nested-and"):
        extra = [_zlit(rng, w, scope)] if harmless and rng.random() < 0.4 else []
        a["pre"] = base + [[ctx[11:]] + _insert_two(rng, extra, s1, s2)]
    elif ctx == "forall-body":
        a["pre"] = base + [["forall", [qv, "-", qty], [rng.choice(["and", "or"]), s1, s2]]]
    elif ctx == "when-ante":
        a["pre"] = ["and"]
        res = rng.choice([["pw"], ["and", ["pw"]]])
        a["eff"] = a["eff"] + [["when", [rng.choice(["and", "and", "or"]), s1, s2], res]]
    else:
        a["pre"] = ["and"]
        res = rng.choice([["pv", qv], ["and", ["pv", qv]]])
        a["eff"] = a["eff"] + [["forall", [qv, "-", qty], ["when", [rng.choice(["and", "and", "or"]), s1, s2], res]]]
    h = _hints(a, c1, c2, "twins:%s:%s:%s" % variant, s1, [qty] + [x[1][2] for x in (s1, s2) if x[0] == "forall" and x[1][2] not in empty])
    h["empty_types"] = empty
    h["regime"] = regime
    return h


LEAF_KINDS = ["num-far", "num-far4", "num-exact", "num-near", "lit-dup", "lit-contra", "leaf-after-compound-lit",
              "leaf-after-compound-num", "compound-after-leaf"]
LEAF_CONTEXTS = ["pre-root", "pre-nested-or", "forall-body", "when-ante"]


def s_leaf_twins(rng, w, a, variant):
    """sibling LEAVES that are near-duplicates, duplicates or contradictory; a leaf repeated after / before a sibling
    compound condition that contains it (what a duplicate test that walks into nested conditions would drop)"""
    kind, ctx = variant
    ensure_aux(w)
    c1, c2 = rng.choice(pairs_for(kind))
    scope = list(a["params"])
    qv = qty = must = None
    if ctx == "forall-body":
        qv, qty = "?qy", rng.choice(w.all_types())
        scope, must = scope + [(qv, qty)], qv
    cop = rng.choice(["<=", ">=", "<", ">", "="])
    fl = _zfl(rng, w, scope, must)
    lit = _zlit(rng, w, scope, must, negate=0.3)
    neg = lit[1] if lit[0] == "not" else ["not", lit]
    if kind in ("num-far", "num-far4", "num-near"):
        pair = [[cop, fl, c1], [cop, fl, c2]]
    elif kind == "num-exact":
        pair = [[cop, fl, c1], [cop, fl, c1]]
    elif kind == "lit-dup":
        pair = [lit, lit]
    elif kind == "lit-contra":
        pair = [lit, neg]
    elif kind == "leaf-after-compound-lit":
        pair = [[rng.choice(["or", "and"]), lit, [cop, fl, c1]], lit]
    elif kind == "leaf-after-compound-num":
        pair = [[rng.choice(["or", "and"]), lit, [cop, fl, c1]], [cop, fl, c1]]
    else:
        pair = [rng.choice([lit, [cop, fl, c1]]), [rng.choice(["or", "and"]), lit, [cop, fl, c1]]]
    s1, s2 = pair
    if _swap(rng, cop, c1, c2 if kind in ("num-far", "num-far4", "num-near") else c1):
        s1, s2 = s2, s1
    base = _and_body(a["pre"]) if kind in ("num-exact", "num-near", "lit-dup") and rng.random() < 0.5 else ["and"]
    if ctx == "pre-root":
        a["pre"] = ["and"] + _insert_two(rng, base[1:], s1, s2)
    elif ctx == "pre-nested-or":
        a["pre"] = base + [["or", s1, s2]]
    elif ctx == "forall-body":
        a["pre"] = base + [["forall", [qv, "-", qty], [rng.choice(["and", "or"]), s1, s2]]]
    else:
        a["pre"] = ["and"]
        a["eff"] = a["eff"] + [["when", [rng.choice(["and", "or"]), s1, s2], ["pw"]]]
    return _hints(a, c1, c2, "leaf-twins:%s:%s" % variant, [cop, fl, c1], [qty])


WHEN_TWIN_KINDS = ["when", "forall-when"]
WHEN_TWIN_MODES = ["far", "far4", "exact", "swapped", "near", "result-far", "result-far4"]


def s_when_twins(rng, w, a, variant):
    """two conditional (or universal conditional) effects whose texts are the same up to `mode`: antecedents that differ
    in a far decimal, exact copies, operand order; or the same shape with results whose constants agree to 2 decimals"""
    kind, mode = variant
    ensure_aux(w)
    c1, c2 = rng.choice(pairs_for(mode))
    scope = list(a["params"])
    must = None
    if kind == "forall-when":
        must = "?uy"
        qty = rng.choice(w.all_types())
        scope = scope + [(must, qty)]
    cop = rng.choice(["<=", ">=", "<", ">"])
    fl = _zfl(rng, w, scope, must)
    lit = _zlit(rng, w, scope, must)
    a["pre"] = ["and"]
    if mode.startswith("result-far"):
        # antecedents that exclude one another, so that the two writes never meet
        neg = lit[1] if lit[0] == "not" else ["not", lit]
        k = rng.choice(["assign", "increase", "decrease"])
        tgt = ["fu", must] if must else ["fz"]
        e1, e2 = ["when", lit, [k, tgt, c1]], ["when", neg, [k, tgt, c2]]
    else:
        res = ["pv", must] if must else ["pw"]
        ante1 = ["and", lit, [cop, fl, c1]] if rng.random() < 0.6 or mode == "swapped" else [cop, fl, c1]
        ante2 = ante1
        if mode in ("far", "far4", "near"):
            ante2 = [cop, fl, c2] if ante1[0] != "and" else ["and", lit, [cop, fl, c2]]
        elif mode == "swapped":
            ante2 = ["and", [cop, fl, c1], lit]
        e1, e2 = ["when", ante1, res], ["when", ante2, rng.choice([res, ["and", res]])]
    if kind == "forall-when":
        e1, e2 = ["forall", [must, "-", qty], e1], ["forall", [must, "-", qty], e2]
    if _swap(rng, cop, c1, c2 if mode in ("far", "far4", "near") else c1):
        e1, e2 = e2, e1
    a["eff"] = ["and"] + _insert_two(rng, a["eff"][1:], e1, e2)
    h = _hints(a, c1, c2, "when-twins:%s:%s" % variant, [cop, fl, c1], [qty if must else None])
    if not mode.startswith("result-far"):
        h["regime"] = "none" if lit[0] == "not" else "all"
    return h


def _deep(rng, w, scope, depth, used):
    """a condition of exactly `depth` levels of and / or / forall over the auxiliary vocabulary"""
    if depth == 0:
        r = rng.random()
        if r < 0.5:
            return _zlit(rng, w, scope)
        return [rng.choice(["<=", ">=", "<", ">", "="]), _zfl(rng, w, scope), rng.choice(["0", "1", "0.5", "2"])]
    if rng.random() < 0.3 and len(used) < 3:
        v = "?d%d" % len(used)
        used.append(v)
        ty = rng.choice(w.all_types())
        sc = list(scope) + [(v, ty)]
        return ["forall", [v, "-", ty], [rng.choice(["and", "or"])] +
                [_deep(rng, w, sc, depth - 1, used)] + [_deep(rng, w, sc, rng.randint(0, depth - 1), used) for _ in range(rng.randint(0, 1))]]
    return [rng.choice(["and", "or"])] + [_deep(rng, w, scope, depth - 1, used)] + \
           [_deep(rng, w, scope, rng.randint(0, depth - 1), used) for _ in range(rng.randint(0, 2))]


def s_deep(rng, w, a, variant):
    """nesting deeper than the grammar walk goes: 3-5 levels of and / or / forall (forall inside forall included), in the
    precondition or in a when / forall-when antecedent"""
    depth, where = variant
    ensure_aux(w)
    scope = list(a["params"])
    if where == "pre":
        a["pre"] = _and_body(a["pre"]) + [_deep(rng, w, scope, depth, [])]
    elif where == "when":
        a["pre"] = ["and"]
        c = _deep(rng, w, scope, depth, [])
        a["eff"] = a["eff"] + [["when", c if rng.random() < 0.5 else ["and", c], ["pw"]]]
    else:
        a["pre"] = ["and"]
        ty = rng.choice(w.all_types())
        c = _deep(rng, w, scope + [("?uy", ty)], depth, [])
        a["eff"] = a["eff"] + [["forall", ["?uy", "-", ty], ["when", c if rng.random() < 0.5 else ["and", c], ["pv", "?uy"]]]]
    return {"fluents": {"fz": [0.5, 0.0, 1.0, 2.0], "fu": [0.5, 0.0, 1.0, 2.0]}, "facts": ["pz", "pu"], "focus": a["name"],
            "tag": "deep:%d:%s" % variant, "random_only": True}


def s_forall_in_when(rng, w, a, variant):
    """a quantified condition as (part of) the antecedent of a conditional effect"""
    where, = variant
    ensure_aux(w)
    ty = rng.choice(w.all_types())
    scope = list(a["params"])
    body = [rng.choice(["and", "or"])] + [_zlit(rng, w, scope + [("?qy", ty)], "?qy") for _ in range(rng.randint(1, 2))]
    if rng.random() < 0.4:
        body.append([rng.choice(["<=", ">"]), ["fu", "?qy"], rng.choice(["0.5", "1"])])
    fa = ["forall", ["?qy", "-", ty], body]
    a["pre"] = ["and"]
    if where == "bare":
        ante = fa
    elif where == "and":
        ante = ["and"] + _insert_two(rng, [], fa, _zlit(rng, w, scope))
    else:
        ante = ["or", fa, _zlit(rng, w, scope)]
    if where == "forall-when":
        uty = rng.choice(w.all_types())
        a["eff"] = a["eff"] + [["forall", ["?uy", "-", uty], ["when", ["and", fa, _zlit(rng, w, scope + [("?uy", uty)], "?uy")], ["pv", "?uy"]]]]
    else:
        a["eff"] = a["eff"] + [["when", ante, ["pw"]]]
    return {"fluents": {"fu": [0.5, 0.0, 1.0, 2.0]}, "facts": ["pz", "pu"], "focus": a["name"],
            "tag": "forall-in-when:%s" % where}


def s_const_in_range(rng, w, a, variant):
    """a constant whose type lies in the range of a quantifier (forall condition, quantified when antecedent, forall-when
    effect): since D30 the library's quantifiers range over the domain's constants as well as the problem's objects"""
    where, = variant
    ensure_aux(w)
    ty = rng.choice(w.all_types())
    sub = rng.choice([t for t in w.all_types() if w.is_sub(t, ty)])
    w.consts = list(w.consts) + [("k%d" % len(w.consts), sub)]
    scope = list(a["params"])
    lit = ["pu", "?qy"] if rng.random() < 0.7 else ["not", ["pu", "?qy"]]
    body = [rng.choice(["and", "or"]), lit] + ([[rng.choice(["<=", ">"]), ["fu", "?qy"], "0.5"]] if rng.random() < 0.4 else [])
    if where == "pre":
        a["pre"] = _and_body(a["pre"]) + [["forall", ["?qy", "-", ty], body]]
    elif where == "when":
        a["pre"] = ["and"]
        a["eff"] = a["eff"] + [["when", ["forall", ["?qy", "-", ty], body], ["pw"]]]
    else:
        a["pre"] = ["and"]
        a["eff"] = a["eff"] + [["forall", ["?qy", "-", ty], ["when", lit, ["pv", "?qy"]]]]
    return {"fluents": {"fu": [0.0, 1.0]}, "facts": ["pu"], "focus": a["name"], "tag": "const-in-range:%s" % where,
            "const_facts": "pu"}


def s_const_first(rng, w, a, variant):
    """a constant written BEFORE a variable in the argument list of a literal or of a function application (arity 2 and
    3), in every place a literal can stand; the mirrored literal stands next to it so that swapped arguments show"""
    where, = variant
    ty = rng.choice(w.all_types())
    if not any(c == "kc" for c, _ in w.consts):
        w.consts = list(w.consts) + [("kc", ty)]
    else:
        ty = dict(w.consts)["kc"]
    have = {n for n, _ in w.preds}
    w.preds = list(w.preds) + [p for p in [("pb", [("?a0", "object"), ("?a1", "object")]),
                                           ("pt", [("?a0", "object"), ("?a1", "object"), ("?a2", "object")]),
                                           ("pw", [])] if p[0] not in have]
    if "fb" not in {n for n, _ in w.funcs}:
        w.funcs = list(w.funcs) + [("fb", [("?a0", "object"), ("?a1", "object")])]
    if not a["params"]:
        a["params"] = [("?x0", rng.choice(w.all_types()))]
    vs = _vars(a)
    x = rng.choice(vs)
    y = rng.choice([v for v in vs if v != x] or [x])
    lits = [["pb", "kc", x], ["pb", x, "kc"]] + ([["pt", "kc", x, y], ["pt", y, "kc", x]] if y != x else [])
    if where == "pre":
        pick = rng.choice(lits)
        a["pre"] = _and_body(a["pre"]) + [pick if rng.random() < 0.6 else ["not", pick]]
    elif where == "pre-num":
        a["pre"] = _and_body(a["pre"]) + [[rng.choice(["<=", ">=", "<", ">", "="]), ["fb", "kc", x], ["fb", x, "kc"]]]
    elif where == "eff":
        a["pre"] = ["and"]
        pick = rng.choice(lits)
        a["eff"] = a["eff"] + [pick if rng.random() < 0.5 else ["not", pick]]
    elif where == "eff-num":
        a["pre"] = ["and"]
        a["eff"] = a["eff"] + [[rng.choice(["assign", "increase", "decrease"]), ["fb", "kc", x], ["fb", x, "kc"]]]
    elif where == "when-ante":
        a["pre"] = ["and"]
        a["eff"] = a["eff"] + [["when", rng.choice(lits), ["pw"]]]
    elif where == "forall-pre":
        qt = rng.choice(w.all_types())
        a["pre"] = _and_body(a["pre"]) + [["forall", ["?qy", "-", qt], [rng.choice(["and", "or"]),
                                           rng.choice([["pb", "kc", "?qy"], ["not", ["pb", "kc", "?qy"]], ["pt", "kc", "?qy", x], ["pt", x, "kc", "?qy"]])]]]
    elif where == "forall-when":
        a["pre"] = ["and"]
        qt = rng.choice(w.all_types())
        if "pv" not in {n for n, _ in w.preds}:
            w.preds = list(w.preds) + [("pv", [("?a0", "object")])]
        a["eff"] = a["eff"] + [["forall", ["?uy", "-", qt], ["when", rng.choice([["pb", "kc", "?uy"], ["pt", "kc", "?uy", x]]),
                                                             rng.choice([["pv", "?uy"], ["pb", "?uy", "kc"], ["not", ["pb", "kc", "?uy"]]])]]]
    else:
        a["pre"] = ["and"]
        a["eff"] = a["eff"] + [["when", _zlit_or_true(rng, w, a), rng.choice(lits)]]
    return {"fluents": {}, "facts": [], "focus": a["name"], "tag": "const-first:%s" % where, "random_only": True,
            "density": 0.5, "distinct_calls": True, "avoid_args": ["kc"]}


def _zlit_or_true(rng, w, a):
    ensure_aux(w)
    return _zlit(rng, w, list(a["params"]))


def s_wide_vocab(rng, w, a, variant):
    """binary functions and ternary predicates with arguments in an order that is not the declaration's parameter order
    (every permutation of the action's parameters)"""
    where, = variant
    have = {n for n, _ in w.preds}
    w.preds = list(w.preds) + [p for p in [("pt", [("?a0", "object"), ("?a1", "object"), ("?a2", "object")]), ("pw", [])]
                               if p[0] not in have]
    if "fb" not in {n for n, _ in w.funcs}:
        w.funcs = list(w.funcs) + [("fb", [("?a0", "object"), ("?a1", "object")])]
    while len(a["params"]) < 3:
        a["params"] = list(a["params"]) + [("?y%d" % len(a["params"]), rng.choice(w.all_types()))]
    vs = _vars(a)
    p3 = rng.sample(vs, 3)
    p2 = rng.sample(vs, 2)
    if where == "pre":
        a["pre"] = _and_body(a["pre"]) + [rng.choice([["pt"] + p3, ["not", ["pt"] + p3]]),
                                          [rng.choice(["<=", ">", "="]), ["fb"] + p2, ["fb"] + list(reversed(p2))]]
    else:
        a["pre"] = ["and"]
        a["eff"] = a["eff"] + [rng.choice([["pt"] + p3, ["not", ["pt"] + p3]]),
                               [rng.choice(["assign", "increase"]), ["fb"] + p2, ["-", ["fb"] + list(reversed(p2)), "1"]]]
    return {"fluents": {}, "facts": [], "focus": a["name"], "tag": "wide-vocab:%s" % where, "random_only": True, "density": 0.5,
            "calls": 4, "distinct_calls": True}


def s_equal_operands(rng, w, a, variant):
    """a comparison whose two operands are the same term, an arithmetic node over twice the same fluent"""
    cop, = variant
    ensure_aux(w)
    scope = list(a["params"])
    fl = _zfl(rng, w, scope)
    form = rng.choice([[cop, fl, fl], [cop, ["+", fl, "0"], fl], [cop, ["-", fl, fl], "0"], [cop, ["*", fl, "1"], ["/", fl, "1"]]])
    if form[0] == "=" and not isinstance(form[1], list):
        form = ["=", fl, fl]
    if rng.random() < 0.5:
        a["pre"] = _and_body(a["pre"]) + [form]
    else:
        a["pre"] = ["and"]
        a["eff"] = a["eff"] + [["when", form, ["pw"]]]
    return {"fluents": {"fz": [0.5, 0.0, -1.0], "fu": [0.5, 0.0, -1.0]}, "facts": [], "focus": a["name"],
            "tag": "equal-operands:%s" % cop}


def s_long_numerals(rng, w, a, variant):
    """numerals with more decimals than the library prints (DEFAULT_DIGITS = 2), in conditions and in effects: the parsed
    number must be the written one, not a rounded one"""
    where, = variant
    ensure_aux(w)
    scope = list(a["params"])
    c = rng.choice(LONG_NUMERALS)
    fl = _zfl(rng, w, scope)
    if where == "pre":
        a["pre"] = _and_body(a["pre"]) + [[rng.choice(["<=", ">=", "<", ">", "="]), fl, c]]
    elif where == "pre-arith":
        a["pre"] = _and_body(a["pre"]) + [[rng.choice(["<=", ">="]), fl, [rng.choice(["+", "-", "*"]), c, rng.choice(LONG_NUMERALS)]]]
    elif where == "eff":
        a["pre"] = ["and"]
        a["eff"] = a["eff"] + [[rng.choice(["assign", "increase", "decrease"]), fl, c]]
    else:
        a["pre"] = ["and"]
        a["eff"] = a["eff"] + [["when", [">=", fl, c], [rng.choice(["assign", "increase", "decrease"]), fl, rng.choice(LONG_NUMERALS)]]]
    v = float(c)
    return {"fluents": {"fz": [v, v - 0.003, v + 0.003, 0.0], "fu": [v, v - 0.003, v + 0.003, 0.0]}, "facts": [],
            "focus": a["name"], "tag": "long-numerals:%s" % where}


def s_shadow(rng, w, a, variant):
    """a quantified variable that has the name of an action parameter (the inner binding wins), an empty conjunction /
    disjunction / quantified body as a condition"""
    kind, = variant
    ensure_aux(w)
    if not a["params"]:
        a["params"] = [("?x0", rng.choice(w.all_types()))]
    x = _vars(a)[0]
    ty = rng.choice(w.all_types())
    scope = list(a["params"])
    if kind == "shadow-pre":
        a["pre"] = _and_body(a["pre"]) + [["forall", [x, "-", ty], [rng.choice(["and", "or"]), ["pu", x]]]]
    elif kind == "shadow-forall-when":
        a["pre"] = ["and"]
        a["eff"] = a["eff"] + [["forall", [x, "-", ty], ["when", ["pu", x], ["pv", x]]]]
    elif kind == "empty-and":
        a["pre"] = _and_body(a["pre"]) + [["and"]]
    elif kind == "empty-or":
        a["pre"] = _and_body(a["pre"]) + [rng.choice([["or"], ["or", ["or"], _zlit(rng, w, scope)]])]
    elif kind == "empty-forall":
        a["pre"] = _and_body(a["pre"]) + [["forall", ["?qy", "-", ty], [rng.choice(["and", "or"])]]]
    else:
        a["pre"] = ["and"]
        a["eff"] = a["eff"] + [["when", rng.choice([["and"], ["or"], ["and", ["and"]]]), ["pw"]]]
    return {"fluents": {}, "facts": ["pu", "pz"], "focus": a["name"], "tag": "scoping:%s" % kind}


def s_eq_same(rng, w, a, variant):
    """an (in)equality between a variable and itself; between two parameters bound to the same object"""
    kind, = variant
    ensure_aux(w)
    while len(a["params"]) < 2:
        a["params"] = list(a["params"]) + [("?y%d" % len(a["params"]), "object")]
    x, y = _vars(a)[0], _vars(a)[1]
    lit = {"eq-self": ["=", x, x], "neq-self": ["not", ["=", x, x]], "eq-pair": ["=", x, y], "neq-pair": ["not", ["=", y, x]]}[kind]
    r = rng.random()
    if r < 0.4:
        a["pre"] = _and_body(a["pre"]) + [lit]
    elif r < 0.7:
        a["pre"] = _and_body(a["pre"]) + [["or", lit, _zlit(rng, w, list(a["params"]))]]
    else:
        a["pre"] = ["and"]
        a["eff"] = a["eff"] + [["when", lit, ["pw"]]]
    return {"fluents": {}, "facts": ["pz", "pu"], "focus": a["name"], "tag": "eq-same:%s" % kind, "calls": 4}


def s_cmp_forms(rng, w, a, variant):
    """comparisons whose operands are both compound, whose first operand is a numeral, numeric '=' over an arithmetic
    first operand, arithmetic over two numerals"""
    kind, = variant
    ensure_aux(w)
    scope = list(a["params"])
    f1, f2 = _zfl(rng, w, scope), _zfl(rng, w, scope)
    cop = rng.choice(["<=", ">=", "<", ">"])
    n1, n2 = rng.choice(["1", "0.5", "2", "-1"]), rng.choice(["2", "0.25", "3"])
    form = {"both-compound": [cop, [rng.choice(["+", "-", "*"]), f1, n1], [rng.choice(["+", "-", "*", "/"]), f2, n2]],
            "numeral-first": [cop, n1, f1],
            "numeral-first-arith": [cop, n1, ["-", f1, f2]],
            "eq-arith-lhs": ["=", ["+", f1, n1], rng.choice([n2, f2])],
            "two-numerals-arith": [cop, f1, [rng.choice(["+", "-", "*", "/"]), n1, n2]],
            "nested-arith": [cop, ["*", ["+", f1, n1], ["-", f2, n2]], ["/", ["+", f1, f2], n2]]}[kind]
    if rng.random() < 0.6:
        a["pre"] = _and_body(a["pre"]) if rng.random() < 0.3 else ["and"]
        a["pre"] = a["pre"] + [form]
    else:
        a["pre"] = ["and"]
        a["eff"] = a["eff"] + [["when", form, ["pw"]]]
    vals = [0.5, 0.0, 1.0, 2.0, -1.0, 1.5, 3.0]
    return {"fluents": {"fz": vals, "fu": vals}, "facts": [], "focus": a["name"], "tag": "cmp-forms:%s" % kind, "random_only": True}


SHAPES = {}
for _k in ("eq-self", "neq-self", "eq-pair", "neq-pair"):
    SHAPES["eq-same:%s" % _k] = (s_eq_same, (_k,))
for _k in ("both-compound", "numeral-first", "numeral-first-arith", "eq-arith-lhs", "two-numerals-arith", "nested-arith"):
    SHAPES["cmp-forms:%s" % _k] = (s_cmp_forms, (_k,))
for _sop in TWIN_SIBLINGS:
    for _ctx in TWIN_CONTEXTS:
        for _mode in TWIN_MODES:
            if _mode.startswith("qtype") and _sop != "forall":
                continue
            SHAPES["twins:%s:%s:%s" % (_sop, _ctx, _mode)] = (s_twins, (_sop, _ctx, _mode))
for _k in LEAF_KINDS:
    for _ctx in LEAF_CONTEXTS:
        SHAPES["leaf-twins:%s:%s" % (_k, _ctx)] = (s_leaf_twins, (_k, _ctx))
for _k in WHEN_TWIN_KINDS:
    for _mode in WHEN_TWIN_MODES:
        SHAPES["when-twins:%s:%s" % (_k, _mode)] = (s_when_twins, (_k, _mode))
for _d in (3, 4, 5):
    for _where in ("pre", "when", "forall-when"):
        SHAPES["deep:%d:%s" % (_d, _where)] = (s_deep, (_d, _where))
for _where in ("bare", "and", "or", "forall-when"):
    SHAPES["forall-in-when:%s" % _where] = (s_forall_in_when, (_where,))
for _where in ("pre", "when", "forall-when"):
    SHAPES["const-in-range:%s" % _where] = (s_const_in_range, (_where,))
for _where in ("pre", "pre-num", "eff", "eff-num", "when-ante", "when-result", "forall-pre", "forall-when"):
    SHAPES["const-first:%s" % _where] = (s_const_first, (_where,))
for _where in ("pre", "eff"):
    SHAPES["wide-vocab:%s" % _where] = (s_wide_vocab, (_where,))
for _cop in ("<=", ">=", "<", ">", "="):
    SHAPES["equal-operands:%s" % _cop] = (s_equal_operands, (_cop,))
for _where in ("pre", "pre-arith", "eff", "when"):
    SHAPES["long-numerals:%s" % _where] = (s_long_numerals, (_where,))
for _k in ("shadow-pre", "shadow-forall-when", "empty-and", "empty-or", "empty-forall", "empty-when"):
    SHAPES["scoping:%s" % _k] = (s_shadow, (_k,))


def differs(key):
    """the shape plants two look-alike siblings whose MEANINGS differ (merging them would change the action)"""
    return any(t in key for t in ("far", ":flip", ":eqflip", ":qtype", "lit-contra", "leaf-after-compound", "compound-after-leaf"))


# ---------------------------------------------------------------------------------------------------------------
# negated numeric comparisons (not (<op> a b)): legal PDDL (:negative-preconditions + numeric fluents), outside the fragment
# the library represents (it refuses them while reading the inner node as a literal).  "faithful or exception": an answer
# must be the NEGATION of the comparison - not the mirrored comparison (<op> b a), which differs from the negation exactly
# where both sides are equal (within EPSILON), not the comparison itself, not 'true'.  One kind per operator x context; the
# probe states (hints 'fluent_states') put the two sides at: equal, less than EPSILON apart (both ways), clearly apart
# (both ways), about 2 EPSILON apart (both ways); sibling literals of a nested and / or are neutral in every state.
NEG_CMP_OPS = ["<=", ">=", "<", ">", "="]
NEG_CMP_CONTEXTS = ["pre-root", "pre-nested-and", "pre-nested-or", "forall-body", "when-ante", "when-ante-nested",
                    "forall-when-ante"]


def _num(c):
    return "%g" % c


def neg_cmp_planter(cop, ctx):
    def planter(rng, w, a):
        ensure_aux(w)
        scope = list(a["params"])
        qv = qty = None
        if ctx in ("forall-body", "forall-when-ante"):
            qv, qty = ("?qn" if ctx == "forall-body" else "?un"), rng.choice(w.all_types())
            scope = scope + [(qv, qty)]
        ts = _terms(w, scope)
        t = qv or (rng.choice(ts) if ts else None)
        c = rng.choice([2.0, 0.5, -1.0, 0.0, 10.25, 3.0])
        deltas = [0.0, EPS / 2, -EPS / 2, 1.0, -1.0, 2 * EPS, -2 * EPS]       # lhs - rhs
        kinds = ["fl-num", "num-fl"] + (["fu-fz", "fz-fu", "arith-fz", "fu-arith"] if t else [])
        kind = rng.choice(kinds)
        fl = ["fu", t] if t and (qv or rng.random() < 0.7) else ["fz"]
        if kind == "fl-num":
            lhs, rhs, vals = fl, _num(c), [{"fz": c + d, "fu": c + d} for d in deltas]
        elif kind == "num-fl":
            lhs, rhs, vals = _num(c), fl, [{"fz": c - d, "fu": c - d} for d in deltas]
        elif kind == "fu-fz":
            lhs, rhs, vals = ["fu", t], ["fz"], [{"fz": c, "fu": c + d} for d in deltas]
        elif kind == "fz-fu":
            lhs, rhs, vals = ["fz"], ["fu", t], [{"fz": c + d, "fu": c} for d in deltas]
        elif kind == "arith-fz":
            lhs, rhs, vals = ["+", ["fu", t], "1"], ["fz"], [{"fz": c + 1, "fu": c + d} for d in deltas]
        else:
            lhs, rhs, vals = ["fu", t], ["-", ["fz"], "0.5"], [{"fz": c + 0.5, "fu": c + d} for d in deltas]
        x = ["not", [cop, lhs, rhs]]
        regime = None
        keep = _and_body(a["pre"]) if rng.random() < 0.25 else ["and"]
        if ctx == "pre-root":
            a["pre"] = keep + [x]
        elif ctx in ("pre-nested-and", "pre-nested-or", "when-ante-nested"):
            sop = rng.choice(["and", "or"]) if ctx == "when-ante-nested" else ctx[11:]
            lit = _zlit(rng, w, scope, negate=0.0)
            regime = "all" if sop == "and" else "none"        # the sibling literal is neutral: the comparison decides
            node = [sop, x, lit] if rng.random() < 0.5 else [sop, lit, x]
            if ctx == "when-ante-nested":
                a["pre"] = ["and"]
                a["eff"] = a["eff"] + [["when", node, rng.choice([["pw"], ["and", ["pw"]]])]]
            else:
                a["pre"] = keep + [node]
        elif ctx == "forall-body":
            a["pre"] = keep + [["forall", [qv, "-", qty], [rng.choice(["and", "or"]), x]]]
        elif ctx == "when-ante":
            a["pre"] = ["and"]
            a["eff"] = a["eff"] + [["when", x, rng.choice([["pw"], ["and", ["pw"]]])]]
        else:
            a["pre"] = ["and"]
            a["eff"] = a["eff"] + [["forall", [qv, "-", qty], ["when", x, rng.choice([["pv", qv], ["and", ["pv", qv]]])]]]
        w.probe_hints = {"fluents": {}, "fluent_states": vals, "n_states": len(vals), "facts": ["pz", "pu"], "regime": regime,
                         "focus": a["name"], "tag": None, "need_types": [qty] if qty else []}
        return True
    return planter


for _cop in NEG_CMP_OPS:
    for _ctx in NEG_CMP_CONTEXTS:
        PLANTERS["neg-cmp:%s:%s" % (_cop, _ctx)] = neg_cmp_planter(_cop, _ctx)


def shape(rng, w, key, order=None):
    """applies the shape `key` to one action of w; returns the probe hints, or None when it does not fit this world"""
    global ORDER
    fn, variant = SHAPES[key]
    a = rng.choice(w.actions)
    ORDER = order
    try:
        h = fn(rng, w, a, variant)
    finally:
        ORDER = None
    if h is not None:
        w.features.add("shape:" + key.split(":")[0])
    return h


def hinted_state(rng, w, objs, hints, k):
    """probe state number k of a hinted world (see SHAPES)"""
    st = G.gen_state(rng, w, objs, density=hints.get("density"))
    # the predicates that shapes use as results of conditional effects start false, so that firing shows
    st["facts"] = [x for x in st["facts"] if x[0] not in ("pw", "pv")]
    if hints.get("distinct_calls"):
        st["fluents"] = [x for x in st["fluents"] if len(set(x[1])) == len(x[1])]
    if hints.get("random_only"):
        for i, (f, args, v) in enumerate(st["fluents"]):
            if f in hints["fluents"]:
                st["fluents"][i] = (f, args, rng.choice(hints["fluents"][f]))
        return st
    named = set(hints["facts"])
    # states 0 and 1: no / every fact of the hinted predicates and the first telling fluent value - or, when the shape knows
    # under which regime its literals are neutral, that regime with the first and the second telling value
    regime = hints.get("regime")
    none_all = [regime, regime] if regime else ["none", "all"]
    per_state = hints.get("fluent_states")
    if per_state and regime:
        none_all = [regime] * (k + 1)       # the regime holds in every state: the fluent values alone decide
    elif per_state:
        none_all = none_all + ["none", "all"] * k
    if k < len(none_all) and none_all[k] == "none":
        st["facts"] = [x for x in st["facts"] if x[0] not in named]
    elif k < len(none_all):
        keep = [x for x in st["facts"] if x[0] not in named]
        st["facts"] = keep + [x for x in G.ground_atoms(w, objs, [p for p in w.preds if p[0] in named])]
    fl = []
    for f, args, v in st["fluents"]:
        vals = hints["fluents"].get(f)
        if vals:
            v = (vals[k] if regime and len(vals) > 1 else vals[0]) if k < 2 else rng.choice(vals)
        if per_state and f in per_state[k % len(per_state)]:
            v = per_state[k % len(per_state)][f]
        fl.append((f, args, v))
    st["fluents"] = fl
    cf = hints.get("const_facts")
    if cf and k < 2:
        # the named predicate holds of every object and of no constant (k = 0), or the other way round (k = 1)
        consts = {c for c, _ in w.consts}
        st["facts"] = [x for x in st["facts"] if x[0] != cf] + \
                      [x for x in G.ground_atoms(w, objs, [p for p in w.preds if p[0] == cf])
                       if (x[1][0] in consts) == (k == 1)]
    return st


def render2(t, rng, depth=0):
    """token tree -> text with stronger layout noise than pddlgen.render: mixed letter case (keywords, names and variables),
    comments that contain parentheses and keywords, comments before the first and after the last parenthesis, blank
    lines, tabs, CR LF line ends, no blank where none is needed ('(and(p ?x)(q))')"""
    if isinstance(t, str):
        r = rng.random()
        if r < 0.2:
            return t.upper()
        if r < 0.3:
            return t.capitalize()
        if r < 0.36:
            return "".join(ch.upper() if rng.random() < 0.5 else ch for ch in t)
        return t
    parts = [render2(x, rng, depth + 1) for x in t]
    seps = [" ", " ", " ", " ", "\n", "\t", "  ", "\r\n", " ; (and (not\n", " ;; ) ( \n", "\n; whole line (:action x)\n", " ;\n", "\n\n"]
    out = "("
    for i, p in enumerate(parts):
        if i == 0:
            lead = rng.choice(["", "", "", " ", "\n "])
        elif (parts[i - 1].endswith(")") or p.startswith("(")) and rng.random() < 0.3:
            lead = ""
        else:
            lead = rng.choice(seps)
        out += lead + p
    out += rng.choice(["", "", "", " ", "\n", " ; )\n"]) + ")"
    if depth == 0:
        out = rng.choice(["", "; header (define\n", "\n\n", ";;; a ; b\n  "]) + out + rng.choice(["", "\n", "\n; trailer )\n", "  ; end"])
    return out


def typed2(rng, pairs, allow_untyped_tail=True):
    """a typed list written the way people write it: runs of one type grouped ('?x ?y - t'), a tail of type object
    left untyped ('?z')"""
    runs = []
    for n, t in pairs:
        if runs and runs[-1][1] == t and not isinstance(t, list):
            runs[-1][0].append(n)
        else:
            runs.append(([n], t))
    out = []
    for i, (names, t) in enumerate(runs):
        last = i == len(runs) - 1
        if last and t == "object" and allow_untyped_tail and rng.random() < 0.5:
            out += names
        elif len(names) > 1 and rng.random() < 0.6:
            out += names + ["-", t]
        else:
            for n in names:
                out += [n, "-", t]
    return out


def domain_tree(w, rng, name="dom"):
    """the domain as a token tree, with grouped and untyped typed lists (predicates, constants, action parameters;
    the library insists on '?x - t' triples for functions, so those stay)"""
    d = ["define", ["domain", name], [":requirements", ":typing", ":negative-preconditions", ":equality",
                                       ":disjunctive-preconditions", ":universal-preconditions", ":fluents",
                                       ":conditional-effects"]]
    if w.type_lines:
        d.append([":types"] + w.types_tokens())
    if w.consts:
        d.append([":constants"] + typed2(rng, w.consts))
    d.append([":predicates"] + [[n] + typed2(rng, ps) for n, ps in w.preds])
    if w.funcs:
        d.append([":functions"] + [[n] + (G.typed(ps, True) if n == "fg" and getattr(w, "grouped_function", False) else G.typed(ps))
                                   for n, ps in w.funcs])
    for a in w.actions:
        parts = {":parameters": typed2(rng, a["params"]), ":precondition": a["pre"], ":effect": a["eff"]}
        act = [":action", a["name"]]
        for key in a.get("layout", [":parameters", ":precondition", ":effect"]):
            act += [key, parts[key]]
        d.append(act)
    return d


# ---------------------------------------------------------------------------------------------------------------
# census: how often each grammar production occurs in a domain tree
def census(tree, out):
    def bump(k):
        out[k] = out.get(k, 0) + 1

    def typed_list(toks, what):
        pending = 0
        for i, t in enumerate(toks):
            if t == "-":
                bump("%s:%s" % (what, "grouped" if pending > 1 else "single"))
                pending = -1
            else:
                pending += 1
        if pending > 0:
            bump("%s:untyped-tail" % what)

    def cond(n):
        if not isinstance(n, list) or not n:
            return
        h = n[0]
        if isinstance(h, list):
            return
        if h in ("and", "or"):
            bump("cond:" + h)
            for x in n[1:]:
                cond(x)
        elif h == "not":
            bump("cond:not-eq" if isinstance(n[1], list) and n[1] and n[1][0] == "=" else "cond:not-atom")
        elif h == "forall":
            bump("cond:forall")
            if len(n) > 2:
                cond(n[2])
        elif h in ("imply", "exists"):
            bump("cond:" + h)
        elif h == "=":
            bump("cond:num-eq" if any(isinstance(x, list) for x in n[1:]) else "cond:obj-eq")
            for x in n[1:]:
                nexp(x)
        elif h in ("<=", ">=", "<", ">"):
            bump("cond:cmp" + h)
            for x in n[1:]:
                nexp(x)
        else:
            bump("cond:atom/%d" % (len(n) - 1))

    def nexp(n):
        if isinstance(n, str):
            bump("nexp:numeral")
        elif n and n[0] in ("+", "-", "*", "/"):
            bump("nexp:%s/%d" % (n[0], len(n) - 1))
            for x in n[1:]:
                nexp(x)
        else:
            bump("nexp:fluent/%d" % (len(n) - 1))

    def eff(n, top=True):
        if not isinstance(n, list) or not n:
            return
        h = n[0]
        if isinstance(h, list):
            return
        if h == "and" and top:
            bump("eff:and")
            for x in n[1:]:
                eff(x, False)
        elif h == "not":
            bump("eff:del")
        elif h == "when":
            bump("eff:when")
            if len(n) > 2:
                cond(n[1])
                res = n[2]
                if isinstance(res, list) and res and res[0] == "and":
                    bump("eff:when-and-result")
                    for x in res[1:]:
                        eff(x, False)
                else:
                    eff(res, False)
        elif h == "forall":
            bump("eff:forall-when")
            if len(n) > 2:
                eff(n[2], False)
        elif h in ("assign", "increase", "decrease", "scale-up", "scale-down"):
            bump("eff:" + h)
            if len(n) > 2:
                nexp(n[2])
        else:
            bump("eff:add/%d" % (len(n) - 1))

    for sec in tree[1:]:
        if not isinstance(sec, list) or not sec:
            continue
        if sec[0] == ":types":
            typed_list(sec[1:], "types")
            kids = [t for t in sec[1:] if t != "-"]
            # a parent named before it is declared as a child: child-before-parent order
            seen = set()
            i = 0
            toks = sec[1:]
            group = []
            while i < len(toks):
                if toks[i] == "-":
                    parent = toks[i + 1]
                    if parent != "object" and parent not in seen and parent in kids:
                        bump("types:parent-declared-later-or-never")
                    seen.update(group)
                    group = []
                    i += 2
                else:
                    group.append(toks[i])
                    i += 1
        elif sec[0] == ":constants":
            typed_list(sec[1:], "constants")
        elif sec[0] == ":predicates":
            for p in sec[1:]:
                bump("predicate/%d" % len([t for i, t in enumerate(p[1:]) if isinstance(t, str) and t.startswith("?")]))
                typed_list(p[1:], "params")
        elif sec[0] == ":functions":
            for p in sec[1:]:
                bump("function/%d" % len([t for t in p[1:] if isinstance(t, str) and t.startswith("?")]))
        elif sec[0] == ":action":
            bump("action")
            items = sec[2:]
            for k, v in zip(items[::2], items[1::2]):
                if k == ":parameters":
                    typed_list([t if isinstance(t, str) else "(either)" for t in v], "action-params")
                elif k == ":precondition":
                    if not v:
                        bump("pre:empty")
                    elif v[0] == "and":
                        bump("pre:and-body")
                        for x in v[1:]:
                            cond(x)
                    else:
                        bump("pre:non-and-body")
                        cond(v)
                elif k == ":effect":
                    eff(v)
    return out


# ---------------------------------------------------------------------------------------------------------------
def shipped_domain_files(repo):
    """the domain files the repository ships with its tests (and anywhere else)"""
    pats = ["tests/**/*domain*.pddl", "tests/**/*Domain*.pddl", "tests/**/domain*.pddl"]
    found = set()
    for p in pats:
        for f in glob.glob(os.path.join(repo, p), recursive=True):
            found.add(f)
    # any other .pddl whose text defines a domain
    for f in glob.glob(os.path.join(repo, "tests/**/*.pddl"), recursive=True):
        if f in found:
            continue
        try:
            head = open(f, "r", errors="replace").read(4000).lower()
        except OSError:
            continue
        if "(domain " in head.replace("\n", " ") and "(problem " not in head and "(:domain" not in head:
            found.add(f)
    return sorted(found)
