"""C01: constructs outside the supported fragment, planted one per domain (every form the property names, plus the
neighbouring ones), the shipped domain files, and the per-production census of a generated domain.

Every choice comes from the random.Random instance passed in.  A planter returns True when it changed the world;
the world is then marked `oof` and the Coq judge (Corr.Core.world_verdict) accepts exactly: an exception when the
domain is parsed; or a vocabulary and a behaviour equal to the independent reading; or - when the independent
reading cannot read the text - an exception at every use of every probe."""
import glob
import os

from . import pddlgen as G


def _and_body(pre):
    if isinstance(pre, list) and pre and pre[0] == "and":
        return list(pre)
    return ["and"] + ([pre] if pre else [])


def _atom(rng, w, scope):
    a = G.gen_atom(rng, w, scope)
    if a is None:
        zero = [p for p in w.preds if not p[1]]
        if zero:
            return [zero[0][0]]
    return a


def _unary(w):
    return [p for p in w.preds if len(p[1]) == 1]


def _binary(w):
    return [p for p in w.preds if len(p[1]) == 2]


def _vars(a):
    return [v for v, _ in a["params"]]


# ---------------------------------------------------------------------------------------------------------------
# planters: (rng, w, a) -> bool
def k_single_literal_body(rng, w, a):
    at = _atom(rng, w, list(a["params"]))
    if not at:
        return False
    a["pre"] = at
    return True


def k_top_not_body(rng, w, a):
    at = _atom(rng, w, list(a["params"]))
    if not at:
        return False
    a["pre"] = ["not", at]
    return True


def k_single_literal_effect(rng, w, a):
    at = _atom(rng, w, list(a["params"]))
    if not at:
        return False
    a["eff"] = at
    return True


def k_imply(rng, w, a):
    at = _atom(rng, w, list(a["params"]))
    if not at:
        return False
    a["pre"] = _and_body(a["pre"]) + [["imply", at, at]]
    return True


def k_imply_nested(rng, w, a):
    at = _atom(rng, w, list(a["params"]))
    if not at:
        return False
    a["pre"] = _and_body(a["pre"]) + [["or", at, ["imply", at, at]]]
    return True


def k_exists(rng, w, a):
    at = _atom(rng, w, list(a["params"]))
    if not at:
        return False
    a["pre"] = _and_body(a["pre"]) + [["exists", ["?e", "-", "object"], ["and", at]]]
    return True


def k_exists_in_when(rng, w, a):
    at = _atom(rng, w, list(a["params"]))
    if not at:
        return False
    a["eff"] = a["eff"] + [["when", ["exists", ["?e", "-", "object"], at], at]]
    return True


def k_either_param(rng, w, a):
    ts = list(w.types)[:2] or ["object"]
    a["params"] = list(a["params"]) + [("?e9", ["either"] + ts)]
    a["group"] = False
    return True


def k_either_pred(rng, w, a):
    ts = list(w.types)[:2] or ["object"]
    w.preds.append(("pe", [("?a0", ["either"] + ts)]))
    return True


def k_nary_plus(rng, w, a):
    fl = G.gen_fluent(rng, w, list(a["params"]))
    if not fl:
        return False
    a["pre"] = _and_body(a["pre"]) + [[">=", fl, ["+", "1", "2", "3"]]]
    return True


def k_nary_times_nested(rng, w, a):
    fl = G.gen_fluent(rng, w, list(a["params"]))
    if not fl:
        return False
    a["eff"] = a["eff"] + [["increase", fl, ["*", fl, "2", fl]]]
    return True


def k_unary_minus(rng, w, a):
    fl = G.gen_fluent(rng, w, list(a["params"]))
    if not fl:
        return False
    a["pre"] = _and_body(a["pre"]) + [[">=", ["-", fl], "0"]]
    return True


def k_scale_up(rng, w, a):
    fl = G.gen_fluent(rng, w, list(a["params"]))
    if not fl:
        return False
    a["eff"] = a["eff"] + [["scale-up", fl, "2"]]
    return True


def k_scale_down(rng, w, a):
    fl = G.gen_fluent(rng, w, list(a["params"]))
    if not fl:
        return False
    a["eff"] = a["eff"] + [["scale-down", fl, "2"]]
    return True


def k_scale_up_in_when(rng, w, a):
    fl = G.gen_fluent(rng, w, list(a["params"]))
    at = _atom(rng, w, list(a["params"]))
    if not fl or not at:
        return False
    a["eff"] = a["eff"] + [["when", at, ["scale-up", fl, "2"]]]
    return True


def k_undeclared_pre(rng, w, a):
    a["pre"] = _and_body(a["pre"]) + [["zz-undeclared"] + _vars(a)[:1]]
    return True


def k_undeclared_neg_pre(rng, w, a):
    a["pre"] = _and_body(a["pre"]) + [["not", ["zz-undeclared"] + _vars(a)[:1]]]
    return True


def k_undeclared_eff(rng, w, a):
    a["eff"] = a["eff"] + [["zz-undeclared"] + _vars(a)[:1]]
    return True


def k_undeclared_del_eff(rng, w, a):
    a["eff"] = a["eff"] + [["not", ["zz-undeclared"] + _vars(a)[:1]]]
    return True


def k_undeclared_when_result(rng, w, a):
    at = _atom(rng, w, list(a["params"]))
    if not at:
        return False
    a["eff"] = a["eff"] + [["when", at, ["zz-undeclared"] + _vars(a)[:1]]]
    return True


def k_undeclared_function(rng, w, a):
    a["pre"] = _and_body(a["pre"]) + [[">=", ["zz-fn"] + _vars(a)[:1], "0"]]
    return True


def k_repeated_arg_pre(rng, w, a):
    b, vs = _binary(w), _vars(a)
    if not b or not vs:
        return False
    a["pre"] = _and_body(a["pre"]) + [[b[0][0], vs[0], vs[0]]]
    return True


def k_repeated_arg_neg(rng, w, a):
    b, vs = _binary(w), _vars(a)
    if not b or not vs:
        return False
    a["pre"] = _and_body(a["pre"]) + [["not", [b[0][0], vs[0], vs[0]]]]
    return True


def k_repeated_arg_eff(rng, w, a):
    b, vs = _binary(w), _vars(a)
    if not b or not vs:
        return False
    a["eff"] = a["eff"] + [[b[0][0], vs[0], vs[0]]]
    return True


def k_arity_more(rng, w, a):
    u, vs = _unary(w), _vars(a)
    if not u or not vs:
        return False
    where = rng.choice(["pre", "eff", "neg"])
    lit = [u[0][0], vs[0], vs[-1] if len(vs) > 1 else "zz"]
    if len(vs) < 2:
        return False
    if where == "pre":
        a["pre"] = _and_body(a["pre"]) + [lit]
    elif where == "neg":
        a["pre"] = _and_body(a["pre"]) + [["not", lit]]
    else:
        a["eff"] = a["eff"] + [lit]
    return True


def k_arity_fewer(rng, w, a):
    b, vs = _binary(w), _vars(a)
    if not b or not vs:
        return False
    lit = [b[0][0], vs[0]]
    if rng.random() < 0.5:
        a["pre"] = _and_body(a["pre"]) + [lit]
    else:
        a["eff"] = a["eff"] + [lit]
    return True


def k_fn_arity_more(rng, w, a):
    f1 = [f for f in w.funcs if len(f[1]) == 1]
    vs = _vars(a)
    if not f1 or len(vs) < 2:
        return False
    a["pre"] = _and_body(a["pre"]) + [[">=", [f1[0][0], vs[0], vs[1]], "0"]]
    return True


def k_fn_zero_args(rng, w, a):
    f1 = [f for f in w.funcs if len(f[1]) == 1]
    if not f1:
        return False
    # the action gets a parameter with the declaration's own parameter name, the case that used to be silent
    pname, pty = f1[0][1][0]
    if pname not in _vars(a):
        a["params"] = list(a["params"]) + [(pname, pty)]
        a["group"] = False
    if rng.random() < 0.5:
        a["pre"] = _and_body(a["pre"]) + [[">=", [f1[0][0]], "0"]]
    else:
        a["eff"] = a["eff"] + [["increase", [f1[0][0]], "1"]]
    return True


def k_eq_const(rng, w, a):
    if not w.consts or not a["params"]:
        return False
    a["pre"] = _and_body(a["pre"]) + [["=", a["params"][0][0], w.consts[0][0]]]
    return True


def k_numeral_pair(rng, w, a):
    a["pre"] = _and_body(a["pre"]) + [rng.choice([["=", "1", "1.0"], ["=", "1", "2"], ["not", ["=", "2", "2"]]])]
    return True


def k_num_eq_swapped(rng, w, a):
    fl = G.gen_fluent(rng, w, list(a["params"]))
    if not fl:
        return False
    a["pre"] = _and_body(a["pre"]) + [["=", "2", fl]]
    return True


def k_not_compound(rng, w, a):
    at = _atom(rng, w, list(a["params"]))
    if not at:
        return False
    a["pre"] = _and_body(a["pre"]) + [["not", rng.choice([["and", at, at], ["or", at], ["not", at]])]]
    return True


def k_nested_and_effect(rng, w, a):
    at = _atom(rng, w, list(a["params"]))
    if not at:
        return False
    a["eff"] = a["eff"] + [["and", at]]
    return True


def k_unconditional_forall_effect(rng, w, a):
    u = _unary(w)
    if not u:
        return False
    a["eff"] = a["eff"] + [["forall", ["?u9", "-", "object"], rng.choice([["and", [u[0][0], "?u9"]], [u[0][0], "?u9"]])]]
    return True


def k_when_in_when(rng, w, a):
    at = _atom(rng, w, list(a["params"]))
    if not at:
        return False
    a["eff"] = a["eff"] + [["when", at, ["when", at, at]]]
    return True


def k_forall_in_when_result(rng, w, a):
    at = _atom(rng, w, list(a["params"]))
    u = _unary(w)
    if not at or not u:
        return False
    a["eff"] = a["eff"] + [["when", at, ["forall", ["?u9", "-", "object"], [u[0][0], "?u9"]]]]
    return True


def k_assign_to_arith(rng, w, a):
    a["eff"] = a["eff"] + [["increase", ["+", "1", "2"], "3"]]
    return True


def k_cmp_as_effect(rng, w, a):
    fl = G.gen_fluent(rng, w, list(a["params"]))
    if not fl:
        return False
    a["eff"] = a["eff"] + [[">=", fl, "1"]]
    return True


def k_assign_as_condition(rng, w, a):
    fl = G.gen_fluent(rng, w, list(a["params"]))
    if not fl:
        return False
    a["pre"] = _and_body(a["pre"]) + [["increase", fl, "1"]]
    return True


def k_forall_pre_single_body(rng, w, a):
    u = _unary(w)
    if not u:
        return False
    a["pre"] = _and_body(a["pre"]) + [["forall", ["?q9", "-", "object"], [u[0][0], "?q9"]]]
    return True


def k_unknown_type_param(rng, w, a):
    a["params"] = list(a["params"]) + [("?e9", "zz-type")]
    a["group"] = False
    return True


def k_unknown_type_forall(rng, w, a):
    u = _unary(w)
    if not u:
        return False
    a["pre"] = _and_body(a["pre"]) + [["forall", ["?q9", "-", "zz-type"], ["and", [u[0][0], "?q9"]]]]
    return True


def k_unbound_variable(rng, w, a):
    u = _unary(w)
    if not u:
        return False
    lit = [u[0][0], "?zz"]
    where = rng.choice(["pre", "eff", "neg"])
    if where == "pre":
        a["pre"] = _and_body(a["pre"]) + [lit]
    elif where == "neg":
        a["pre"] = _and_body(a["pre"]) + [["not", lit]]
    else:
        a["eff"] = a["eff"] + [lit]
    return True


def k_unbound_variable_fn(rng, w, a):
    f1 = [f for f in w.funcs if len(f[1]) == 1]
    if not f1:
        return False
    a["pre"] = _and_body(a["pre"]) + [[">=", [f1[0][0], "?zz"], "0"]]
    return True


def k_trailing_untyped_constants(rng, w, a):
    # inside the fragment since the D45 repair: must be faithful (typed2 writes a tail of type object untyped)
    w.consts = list(w.consts) + [("cu%d" % i, "object") for i in range(rng.randint(1, 2))]
    return True


def k_grouped_function_params(rng, w, a):
    # legal PDDL that the library refuses (it wants '?x - t' triples in (:functions ...)): an exception, not a silent change
    w.funcs = list(w.funcs) + [("fg", [("?a0", "object"), ("?a1", "object")])]
    w.grouped_function = True
    return True


PLANTERS = {
    "single-literal-body": k_single_literal_body, "top-level-not-body": k_top_not_body,
    "single-literal-effect": k_single_literal_effect,
    "imply": k_imply, "imply-nested": k_imply_nested, "exists": k_exists, "exists-in-when": k_exists_in_when,
    "either-param": k_either_param, "either-pred": k_either_pred,
    "nary-plus": k_nary_plus, "nary-times-nested": k_nary_times_nested, "unary-minus": k_unary_minus,
    "scale-up": k_scale_up, "scale-down": k_scale_down, "scale-up-in-when": k_scale_up_in_when,
    "undeclared-pred-pre": k_undeclared_pre, "undeclared-pred-neg": k_undeclared_neg_pre,
    "undeclared-pred-eff": k_undeclared_eff, "undeclared-pred-del": k_undeclared_del_eff,
    "undeclared-pred-when-result": k_undeclared_when_result, "undeclared-function": k_undeclared_function,
    "repeated-arg-pre": k_repeated_arg_pre, "repeated-arg-neg": k_repeated_arg_neg, "repeated-arg-eff": k_repeated_arg_eff,
    "arity-more": k_arity_more, "arity-fewer": k_arity_fewer, "fn-arity-more": k_fn_arity_more,
    "fn-zero-args": k_fn_zero_args,
    "eq-const": k_eq_const, "numeral-pair": k_numeral_pair, "num-eq-swapped": k_num_eq_swapped,
    "not-compound": k_not_compound, "nested-and-effect": k_nested_and_effect,
    "unconditional-forall-effect": k_unconditional_forall_effect, "when-in-when": k_when_in_when,
    "forall-in-when-result": k_forall_in_when_result, "assign-to-arith": k_assign_to_arith,
    "cmp-as-effect": k_cmp_as_effect, "assign-as-condition": k_assign_as_condition,
    "forall-pre-single-body": k_forall_pre_single_body,
    "unknown-type-param": k_unknown_type_param, "unknown-type-forall": k_unknown_type_forall,
    "unbound-variable": k_unbound_variable, "unbound-variable-fn": k_unbound_variable_fn,
    "trailing-untyped-constants": k_trailing_untyped_constants,
    "grouped-function-params": k_grouped_function_params,
}
# the forms the property's quantifier names, by the planters that produce them
NAMED_BY_PROPERTY = {
    "single-literal or top-level-not bodies": ["single-literal-body", "top-level-not-body"],
    "imply": ["imply", "imply-nested"], "exists": ["exists", "exists-in-when"],
    "either": ["either-param", "either-pred"], "n-ary arithmetic": ["nary-plus", "nary-times-nested"],
    "scale-up/scale-down": ["scale-up", "scale-down", "scale-up-in-when"],
    "literals over undeclared predicates": ["undeclared-pred-pre", "undeclared-pred-neg", "undeclared-pred-eff",
                                            "undeclared-pred-del", "undeclared-pred-when-result"],
    "atoms with a repeated argument": ["repeated-arg-pre", "repeated-arg-neg", "repeated-arg-eff"],
}


def plant(rng, w, kind):
    """plants `kind` in one action of w; returns True when done"""
    a = rng.choice(w.actions)
    if not PLANTERS[kind](rng, w, a):
        return False
    w.oof, w.oof_kind, w.oof_action = True, kind, a["name"]
    return True


def typed2(rng, pairs, allow_untyped_tail=True):
    """a typed list written the way people write it: runs of one type grouped ('?x ?y - t'), a tail of type object
    left untyped ('?z')"""
    runs = []
    for n, t in pairs:
        if runs and runs[-1][1] == t and not isinstance(t, list):
            runs[-1][0].append(n)
        else:
            runs.append(([n], t))
    out = []
    for i, (names, t) in enumerate(runs):
        last = i == len(runs) - 1
        if last and t == "object" and allow_untyped_tail and rng.random() < 0.5:
            out += names
        elif len(names) > 1 and rng.random() < 0.6:
            out += names + ["-", t]
        else:
            for n in names:
                out += [n, "-", t]
    return out


def domain_tree(w, rng, name="dom"):
    """the domain as a token tree, with grouped and untyped typed lists (predicates, constants, action parameters;
    the library insists on '?x - t' triples for functions, so those stay)"""
    d = ["define", ["domain", name], [":requirements", ":typing", ":negative-preconditions", ":equality",
                                       ":disjunctive-preconditions", ":universal-preconditions", ":fluents",
                                       ":conditional-effects"]]
    if w.type_lines:
        d.append([":types"] + w.types_tokens())
    if w.consts:
        d.append([":constants"] + typed2(rng, w.consts))
    d.append([":predicates"] + [[n] + typed2(rng, ps) for n, ps in w.preds])
    if w.funcs:
        d.append([":functions"] + [[n] + (G.typed(ps, True) if n == "fg" and getattr(w, "grouped_function", False) else G.typed(ps))
                                   for n, ps in w.funcs])
    for a in w.actions:
        d.append([":action", a["name"], ":parameters", typed2(rng, a["params"]),
                  ":precondition", a["pre"], ":effect", a["eff"]])
    return d


# ---------------------------------------------------------------------------------------------------------------
# census: how often each grammar production occurs in a domain tree
def census(tree, out):
    def bump(k):
        out[k] = out.get(k, 0) + 1

    def typed_list(toks, what):
        pending = 0
        for i, t in enumerate(toks):
            if t == "-":
                bump("%s:%s" % (what, "grouped" if pending > 1 else "single"))
                pending = -1
            else:
                pending += 1
        if pending > 0:
            bump("%s:untyped-tail" % what)

    def cond(n):
        if not isinstance(n, list) or not n:
            return
        h = n[0]
        if isinstance(h, list):
            return
        if h in ("and", "or"):
            bump("cond:" + h)
            for x in n[1:]:
                cond(x)
        elif h == "not":
            bump("cond:not-eq" if isinstance(n[1], list) and n[1] and n[1][0] == "=" else "cond:not-atom")
        elif h == "forall":
            bump("cond:forall")
            if len(n) > 2:
                cond(n[2])
        elif h in ("imply", "exists"):
            bump("cond:" + h)
        elif h == "=":
            bump("cond:num-eq" if any(isinstance(x, list) for x in n[1:]) else "cond:obj-eq")
            for x in n[1:]:
                nexp(x)
        elif h in ("<=", ">=", "<", ">"):
            bump("cond:cmp" + h)
            for x in n[1:]:
                nexp(x)
        else:
            bump("cond:atom/%d" % (len(n) - 1))

    def nexp(n):
        if isinstance(n, str):
            bump("nexp:numeral")
        elif n and n[0] in ("+", "-", "*", "/"):
            bump("nexp:%s/%d" % (n[0], len(n) - 1))
            for x in n[1:]:
                nexp(x)
        else:
            bump("nexp:fluent/%d" % (len(n) - 1))

    def eff(n, top=True):
        if not isinstance(n, list) or not n:
            return
        h = n[0]
        if isinstance(h, list):
            return
        if h == "and" and top:
            bump("eff:and")
            for x in n[1:]:
                eff(x, False)
        elif h == "not":
            bump("eff:del")
        elif h == "when":
            bump("eff:when")
            if len(n) > 2:
                cond(n[1])
                res = n[2]
                if isinstance(res, list) and res and res[0] == "and":
                    bump("eff:when-and-result")
                    for x in res[1:]:
                        eff(x, False)
                else:
                    eff(res, False)
        elif h == "forall":
            bump("eff:forall-when")
            if len(n) > 2:
                eff(n[2], False)
        elif h in ("assign", "increase", "decrease", "scale-up", "scale-down"):
            bump("eff:" + h)
            if len(n) > 2:
                nexp(n[2])
        else:
            bump("eff:add/%d" % (len(n) - 1))

    for sec in tree[1:]:
        if not isinstance(sec, list) or not sec:
            continue
        if sec[0] == ":types":
            typed_list(sec[1:], "types")
            kids = [t for t in sec[1:] if t != "-"]
            # a parent named before it is declared as a child: child-before-parent order
            seen = set()
            i = 0
            toks = sec[1:]
            group = []
            while i < len(toks):
                if toks[i] == "-":
                    parent = toks[i + 1]
                    if parent != "object" and parent not in seen and parent in kids:
                        bump("types:parent-declared-later-or-never")
                    seen.update(group)
                    group = []
                    i += 2
                else:
                    group.append(toks[i])
                    i += 1
        elif sec[0] == ":constants":
            typed_list(sec[1:], "constants")
        elif sec[0] == ":predicates":
            for p in sec[1:]:
                bump("predicate/%d" % len([t for i, t in enumerate(p[1:]) if isinstance(t, str) and t.startswith("?")]))
                typed_list(p[1:], "params")
        elif sec[0] == ":functions":
            for p in sec[1:]:
                bump("function/%d" % len([t for t in p[1:] if isinstance(t, str) and t.startswith("?")]))
        elif sec[0] == ":action":
            bump("action")
            items = sec[2:]
            for k, v in zip(items[::2], items[1::2]):
                if k == ":parameters":
                    typed_list([t if isinstance(t, str) else "(either)" for t in v], "action-params")
                elif k == ":precondition":
                    if not v:
                        bump("pre:empty")
                    elif v[0] == "and":
                        bump("pre:and-body")
                        for x in v[1:]:
                            cond(x)
                    else:
                        bump("pre:non-and-body")
                        cond(v)
                elif k == ":effect":
                    eff(v)
    return out


# ---------------------------------------------------------------------------------------------------------------
def shipped_domain_files(repo):
    """the domain files the repository ships with its tests (and anywhere else)"""
    pats = ["tests/**/*domain*.pddl", "tests/**/*Domain*.pddl", "tests/**/domain*.pddl"]
    found = set()
    for p in pats:
        for f in glob.glob(os.path.join(repo, p), recursive=True):
            found.add(f)
    # any other .pddl whose text defines a domain
    for f in glob.glob(os.path.join(repo, "tests/**/*.pddl"), recursive=True):
        if f in found:
            continue
        try:
            head = open(f, "r", errors="replace").read(4000).lower()
        except OSError:
            continue
        if "(domain " in head.replace("\n", " ") and "(problem " not in head and "(:domain" not in head:
            found.add(f)
    return sorted(found)
