"""C20 -- grounding is substitution of the call's arguments for the parameters.

For generated typed domains (pddlgen, plus a binary function so that fluent applications can repeat an object) and
type-correct calls (repeated objects, constants in any position, objects of subtypes of the declared types) the real
Operator(action, domain, args, objects).ground() is observed (harness/ops_c20.py) and compared inside Coq with
  (a) the model  Model.GroundTyped.report_action  (structure and both texts of every literal, expression trees,
      (in)equality pairs, effect groups, typed_action_call, str), and
  (b) the spec   Spec.Subst (form_lits / form_cmps / form_eqs / prim_* on the independently read domain text).
Three verdicts per call: precondition, effect groups, call texts."""
import json
import random

from ..common import (Report, cbool, chex, clist, cstr, decide, load_findings, run_case_shards, run_impl,
                      standard_proof_part)
from .. import pddlgen as G

HEADER = "From Coq Require Import PrimFloat.\nFrom Verif Require Import Spec.Pddl Model.Exec Model.GroundTyped Corr.Core Corr.C20.\n"
PROP = "C20"


# ------------------------------------------------------------------------------------------------ generation
def distinct_terms(rng, w, scope, types):
    pools = [G.terms_for(rng, w, scope, t) for t in types]
    if not all(pools):
        return None
    for _ in range(8):
        pick = [rng.choice(p) for p in pools]
        if len(set(pick)) == len(pick):
            return pick
    return None


def gen_world20(rng):
    w = G.World()
    G.gen_types(rng, w, max_types=4)
    G.gen_vocab(rng, w)
    ts = w.all_types()
    if rng.random() < 0.5:          # argument positions beyond the second
        w.preds.append(("p9", [("?a%d" % k, rng.choice(ts)) for k in range(3)]))
        w.features.add("ternary-predicate")
    g2 = ("g2", [("?a0", rng.choice(ts)), ("?a1", rng.choice(ts))]) if rng.random() < 0.7 else None
    for i in range(rng.randint(1, 2)):
        a = G.gen_action(rng, w, i)
        if g2:
            scope = list(a["params"])
            tt = distinct_terms(rng, w, scope, [t for _, t in g2[1]])
            if tt:
                pre = a["pre"]
                if not (isinstance(pre, list) and pre and pre[0] == "and"):
                    pre = ["and"] + ([pre] if pre else [])
                if rng.random() < 0.7:
                    pre = pre + [[rng.choice([">=", "<", "<="]), ["g2"] + tt, rng.choice(G.DOMAIN_NUMERALS)]]
                    w.features.add("binary-fn-pre")
                a["pre"] = pre
                if rng.random() < 0.7:
                    t2 = distinct_terms(rng, w, scope, [t for _, t in g2[1]]) or tt
                    a["eff"] = a["eff"] + [[rng.choice(["increase", "assign"]), ["g2"] + t2, rng.choice(["1", "2"])]]
                    w.features.add("binary-fn-eff")
        w.actions.append(a)
    if g2:
        w.funcs.append(g2)
    if rng.random() < 0.12:
        plant_arity(rng, w, rng.choice(w.actions))
    return w


def objects_problem(objs, name="dom"):
    o = " ".join("%s - %s" % (n, t) for n, t in objs)
    return "(define (problem prob) (:domain %s) (:objects %s) (:init ) (:goal (and)))" % (name, o)


def build(rng, w, calls_per_action, noise=True):
    objs = G.gen_objects(rng, w, n=rng.choice([2, 3, 3]))
    text = G.render(w.domain_tree("dom"), rng, noise)
    probes = []
    for a in w.actions:
        for args in G.calls_for(rng, w, objs, a, limit=calls_per_action):
            probes.append({"action": a["name"], "args": args})
    return {"domain_text": text, "objects": [list(o) for o in objs], "problem_text": objects_problem(objs),
            "probes": probes, "features": sorted(w.features), "world": w}



# ------------------------------------------------------------------------------------------------ round 3: coinciding literals
# The class seeded/C20_C needed: calls in which two DIFFERENT schema literals ground to the same atom --
#   the same object bound to two parameters of related (equal / sub / super) types, or to a parameter and written as a constant,
#   used at the same position of the same predicate -- so that the grounded literals have the same untyped text and (when the types
#   differ) different typed text; placed as siblings of one connective, at the top level and inside a nested group, in two sibling
#   groups, in one effect group, in a 'when' antecedent; the same for numeric conditions over a unary function.
def walk_atoms(t, preds, out):
    if isinstance(t, list) and t:
        if isinstance(t[0], str) and t[0] in preds and all(isinstance(x, str) for x in t[1:]):
            out.append(t)
        elif isinstance(t[0], str) and t[0] == "forall":
            return                                   # quantified bodies are reported lifted (D38): not the place for this class
        else:
            for x in t:
                walk_atoms(x, preds, out)


def related_types(w, t):
    """types comparable with t in the subtype order"""
    return [u for u in w.all_types() if w.is_sub(u, t) or w.is_sub(t, u)]


def rename(t, old, new):
    if isinstance(t, str):
        return new if t == old else t
    return [rename(x, old, new) for x in t]


def plant_alias(rng, w, a):
    """adds a twin (parameter or constant) of one parameter and literals that coincide when both denote the same object;
    returns {src, twin, low} or None"""
    if not a["params"]:
        a["params"] = [("?x0", rng.choice(w.all_types()))]
    src, T = rng.choice(a["params"])
    preds = dict(w.preds)
    rel = related_types(w, T)
    strict = [u for u in rel if u != T]
    T2 = rng.choice(strict) if strict and rng.random() < 0.75 else T
    low = T2 if w.is_sub(T2, T) else T
    # a literal that mentions src at positions which also admit the twin's type
    found = []
    walk_atoms(a["pre"], preds, found)
    walk_atoms(a["eff"], preds, found)
    cands = [l for l in found if src in l[1:] and
             all(w.is_sub(T2, pt) for x, (_, pt) in zip(l[1:], preds[l[0]]) if x == src)]
    if cands and rng.random() < 0.6:
        lit = list(rng.choice(cands))
    else:
        ok = []
        for n, ps in w.preds:
            pos = [i for i, (_, pt) in enumerate(ps) if w.is_sub(T, pt) and w.is_sub(T2, pt)]
            if pos:
                ok.append((n, ps, pos))
        if not ok:
            top = T if w.is_sub(T2, T) else T2
            n = "pa%d" % len(w.preds)
            ps = [("?a0", top)] + ([("?a1", rng.choice(w.all_types()))] if rng.random() < 0.4 else [])
            w.preds.append((n, ps))
            ok = [(n, ps, [0])]
        n, ps, pos = rng.choice(ok)
        i = rng.choice(pos)
        args = []
        for k, (_, pt) in enumerate(ps):
            if k == i:
                args.append(src)
                continue
            pool = [x for x in G.terms_for(rng, w, list(a["params"]), pt) if x != src]
            if not pool:
                a["params"] = a["params"] + [("?z%d" % k, pt)]
                pool = ["?z%d" % k]
            args.append(rng.choice(pool))
        lit = [n] + args
    # the twin: a new parameter, or a constant written into the schema
    use_const = rng.random() < 0.25
    if use_const:
        twin = "ca%d" % len(w.consts)
        w.consts.append((twin, T2 if w.is_sub(T2, T) else T))   # the call binds src to the constant: its type must conform to T
        ctype = dict(w.consts)[twin]
        if not all(w.is_sub(ctype, pt) for x, (_, pt) in zip(lit[1:], dict(w.preds)[lit[0]]) if x == src):
            w.consts.pop()
            use_const = False
    if not use_const:
        twin = "?y%d" % len(a["params"])
        a["params"] = a["params"] + [(twin, T2)]
    lit2 = rename(lit, src, twin)
    other = [x for x in found if x[0] != lit[0]] or [lit]
    m = list(rng.choice(other))
    pre = a["pre"]
    if not (isinstance(pre, list) and pre and pre[0] == "and"):
        pre = ["and"] + ([pre] if pre else [])
    eff = list(a["eff"])
    neg = (lambda x: ["not", x])
    pol = rng.choice(["pp", "pp", "nn", "pn"])
    l1 = lit if pol[0] == "p" else neg(lit)
    l2 = lit2 if pol[1] == "p" else neg(lit2)
    kinds = rng.sample(["sibling", "nested", "nested", "two-groups", "effect", "when-ante", "numeric", "deep"], rng.randint(1, 3))
    for kind in kinds:
        if kind == "sibling":
            pre = pre + [l1, l2]
        elif kind == "nested":
            op = rng.choice(["or", "or", "and"])
            members = [l2] + ([m] if rng.random() < 0.7 else [])
            rng.shuffle(members)
            pre = pre + rng.sample([l1, [op] + members], 2)
        elif kind == "two-groups":
            op = rng.choice(["or", "and"])
            pre = pre + [[op, l1, m], [op, rename(m, src, twin), l2]]
        elif kind == "deep":
            pre = pre + [["or", l1, ["and", l2, m]], l2]
        elif kind == "effect":
            e1, e2 = (lit, lit2) if rng.random() < 0.6 else (neg(lit), neg(lit2))
            if rng.random() < 0.5:
                eff = eff + [e1, e2]
            else:
                eff = eff + [["when", rng.choice([l1, ["and", l1, l2], ["or", l2, m]]), ["and", e1, e2]]]
        elif kind == "when-ante":
            eff = eff + [["when", ["and", l1, ["or", l2, m]], m if m[0] != lit[0] else lit]]
        elif kind == "numeric":
            fs = [(n, ps) for n, ps in w.funcs if len(ps) == 1 and w.is_sub(T, ps[0][1]) and w.is_sub(T2, ps[0][1])]
            if not fs:
                top = T if w.is_sub(T2, T) else T2
                fs = [("fa%d" % len(w.funcs), [("?a0", top)])]
                w.funcs.append(fs[0])
            f = rng.choice(fs)[0]
            c1 = [rng.choice([">=", "<=", ">"]), [f, src], rng.choice(["1", "2"])]
            c2 = rename(c1, src, twin)
            pre = pre + ([c1, c2] if rng.random() < 0.5 else [c1, ["or", c2, l2]])
            if rng.random() < 0.4:
                eff = eff + [["increase", [f, src], "1"], ["increase", [f, twin], "1"]]
        w.features.add("alias-" + kind)
    a["pre"], a["eff"] = pre, eff
    w.features.add("alias-twin-constant" if use_const else ("alias-twin-other-type" if T2 != T else "alias-twin-same-type"))
    return {"src": src, "twin": twin, "low": low, "const": use_const}


def gen_alias_world(rng):
    w = G.World()
    G.gen_types(rng, w, max_types=4)
    if len(w.types) < 2 and rng.random() < 0.8:          # make sure strict subtypes exist in most worlds
        w.types, w.type_lines = {}, []
        w.types["t0"] = "object"
        w.types["t1"] = "t0"
        if rng.random() < 0.5:
            w.types["t2"] = rng.choice(["t1", "t0", "object"])
        lines = [([c], p) for c, p in w.types.items()]
        rng.shuffle(lines)
        w.type_lines = lines
    G.gen_vocab(rng, w)
    plans = []
    for i in range(rng.randint(1, 2)):
        a = G.gen_action(rng, w, i)
        if rng.random() < 0.5:                          # a plain body around the planted literals
            a["pre"], a["eff"] = ["and"], ["and"]
        plans.append((a, plant_alias(rng, w, a)))
        w.actions.append(a)
    return w, plans


def build_alias(rng, w, plans, calls_per_action, noise=True):
    objs = G.gen_objects(rng, w, n=rng.choice([2, 3]))
    for _, pl in plans:
        if pl and not pl["const"]:
            lows = [t for t in w.all_types() if w.is_sub(t, pl["low"])]
            objs.append(("o%d" % len(objs), rng.choice(lows) if rng.random() < 0.3 else pl["low"]))
    text = G.render(w.domain_tree("dom"), rng, noise)
    probes = []
    for a, pl in plans:
        universe = list(objs) + list(w.consts)
        pools = [[o for o, t in universe if w.is_sub(t, pt)] for _, pt in a["params"]]
        if not all(pools):
            continue
        import itertools
        combos = [list(c) for c in itertools.product(*pools)]
        rng.shuffle(combos)
        names = [p for p, _ in a["params"]]
        if pl["const"]:
            same = [c for c in combos if c[names.index(pl["src"])] == pl["twin"]]
        else:
            same = [c for c in combos if c[names.index(pl["src"])] == c[names.index(pl["twin"])]]
        rest = [c for c in combos if c not in same]
        k = max(1, (calls_per_action * 2) // 3)
        chosen = same[:k] + rest[:max(1, calls_per_action - min(k, len(same)))]
        for args in chosen:
            probes.append({"action": a["name"], "args": args, "alias": args in same})
    return {"domain_text": text, "objects": [list(o) for o in objs], "problem_text": objects_problem(objs),
            "probes": probes, "features": sorted(w.features), "world": w}



# ------------------------------------------------------------------------------------------------ wave 3: process-level sequences
# The class seeded/C20_E needed: ONE parsed Domain whose Action objects are reused across many groundings and EDITED IN PLACE through the
# library's own API between them (a learner refines the schema between observations): ground call c, edit the schema (add / remove a
# precondition literal, a nested group, a numeric condition, an add / delete effect, a numeric effect, a literal of a 'when' branch, rename
# parameters with change_signature -- and back), ground c again (a fresh Operator, or the SAME Operator object grounded again), ground
# other calls in between (seen before / never seen).  Every report is judged against the schema AS IT IS AT THAT MOMENT: the op re-dumps
# the live Action objects after every edit (ops_c20.dump_action: the harness's own walk of their operands -- NOT the library's exporter,
# which prints the numeric conditions of a connective through a set and would hide multiplicities), and the model and the spec ground that text.
def has_empty_forall(t):
    if isinstance(t, list):
        if t and t[0] == "forall" and len(t) == 3 and isinstance(t[2], list) and len(t[2]) <= 1:
            return True           # a quantified condition with an empty body: left to the ordinary stream
        return any(has_empty_forall(x) for x in t)
    return False


def header_text(w, rng, noise=True):
    """the domain text up to (and without) its actions and its closing parenthesis"""
    head = [x for x in w.domain_tree("dom") if not (isinstance(x, list) and x and x[0] == ":action")]
    txt = G.render(head, rng, noise).rstrip()
    assert txt.endswith(")")
    return txt[:-1]


EDIT_KINDS = ["add_pre_lit", "add_pre_lit", "remove_pre_lit", "remove_pre_lit", "add_pre_group", "add_pre_num", "remove_pre_num",
              "add_eff_lit", "add_eff_lit", "discard_eff_lit", "discard_eff_lit", "add_eff_num", "discard_eff_num",
              "when_add_ante", "when_add_eff", "rename", "rename"]


PRE_EDIT_KINDS = ["add_pre_lit", "add_pre_lit", "remove_pre_lit", "remove_pre_lit", "add_pre_group", "add_pre_num", "remove_pre_num",
                  "rename", "add_eff_lit", "discard_eff_lit"]


def gen_edit(rng, w, a, cur, fresh, kinds=EDIT_KINDS):
    """one edit step for action a (generator's dict, original parameter names); cur: original -> current parameter name"""
    scope = [(cur.get(pn, pn), t) for pn, t in a["params"]]
    kind = rng.choice(kinds)
    seed = rng.randrange(1000)
    if kind in ("add_pre_lit", "add_eff_lit", "when_add_ante", "when_add_eff"):
        atom = G.gen_atom(rng, w, scope)
        if atom is None:
            return None
        return {"edit": kind, "name": atom[0], "args": atom[1:], "pos": rng.random() < 0.6, "seed": seed}
    if kind == "add_pre_group":
        atoms = [x for x in (G.gen_atom(rng, w, scope) for _ in range(2)) if x]
        if not atoms:
            return None
        return {"edit": kind, "op": rng.choice(["or", "or", "and"]), "lits": [[x[0], x[1:], rng.random() < 0.6] for x in atoms]}
    if kind in ("add_pre_num", "add_eff_num"):
        fl = G.gen_fluent(rng, w, scope)
        if fl is None or len(set(fl[1:])) < len(fl[1:]):
            return None
        if kind == "add_pre_num":
            return {"edit": kind, "tokens": [rng.choice([">=", "<=", "<", ">"]), fl, rng.choice(G.DOMAIN_NUMERALS)]}
        rhs = rng.choice(G.DOMAIN_NUMERALS)
        if rng.random() < 0.4:
            rhs = [rng.choice(["+", "*", "-"]), fl, rhs]
        return {"edit": kind, "tokens": [rng.choice(["assign", "increase", "decrease"]), fl, rhs]}
    if kind in ("remove_pre_lit", "remove_pre_num", "discard_eff_lit", "discard_eff_num"):
        return {"edit": kind, "seed": seed}
    if kind == "rename":
        if not a["params"]:
            return None
        k = rng.randint(1, min(2, len(a["params"])))
        olds = rng.sample([pn for pn, _ in a["params"]], k)
        m = {}
        for pn in olds:
            fresh[0] += 1
            m[cur.get(pn, pn)] = "?n%d" % fresh[0]
            cur[pn] = "?n%d" % fresh[0]
        return {"edit": "rename", "map": m}
    return None


def gen_sequence(rng, w, objs, nrounds, kind="ground", nstates=0):
    """steps for the sequence op; None when no action can be called"""
    calls = {a["name"]: G.calls_for(rng, w, objs, a, limit=3) for a in w.actions}
    acts = [a for a in w.actions if calls[a["name"]] and not a.get("oof")]
    if not acts:
        return None
    steps = []
    cur = {a["name"]: {} for a in acts}
    fresh = [0]

    def observe(a, c, mode="fresh"):
        st = {"kind": kind, "action": a["name"], "args": c, "mode": mode}
        if kind == "app":        # mostly the same state for the same call, so that the answers before and after an edit compare
            st["state"] = rng.randrange(nstates) if rng.random() < 0.3 else calls[a["name"]].index(c) % nstates
        steps.append(st)
    for a in acts:
        for c in calls[a["name"]][:2]:
            observe(a, c)
    for _ in range(nrounds):
        a = rng.choice(acts)
        cs = calls[a["name"]]
        before = dict(cur[a["name"]])
        ed = gen_edit(rng, w, a, cur[a["name"]], fresh, PRE_EDIT_KINDS if kind == "app" else EDIT_KINDS)
        if ed is None:
            continue
        steps.append(dict(ed, kind="edit", action=a["name"]))
        observe(a, cs[0])                                      # the call grounded before the edit, in a fresh Operator
        if rng.random() < 0.5:
            observe(a, cs[0], "reuse")                         # and in the Operator object that grounded it before
        if len(cs) > 1:
            observe(a, cs[1], rng.choice(["fresh", "reuse"]))
        if len(cs) > 2 and rng.random() < 0.5:
            observe(a, cs[2])                                  # a call that may not have been seen before
        others = [b for b in acts if b is not a]
        if others and rng.random() < 0.4:
            b = rng.choice(others)
            observe(b, rng.choice(calls[b["name"]]))
        if ed["edit"] == "rename" and rng.random() < 0.7:      # and back
            back = {new: old for old, new in ed["map"].items()}
            cur[a["name"]].clear()
            cur[a["name"]].update(before)
            steps.append({"kind": "edit", "action": a["name"], "edit": "rename", "map": back})
            observe(a, cs[0], rng.choice(["fresh", "reuse"]))
    return steps


def build_sequence(rng, nrounds):
    """a world of the ordinary or of the alias stream, with a sequence of groundings and in-place edits"""
    for _ in range(50):
        if rng.random() < 0.3:
            w, _plans = gen_alias_world(rng)
        else:
            w = gen_world20(rng)
        if any(has_empty_forall(a["pre"]) or has_empty_forall(a["eff"]) or a.get("oof") for a in w.actions):
            continue
        objs = G.gen_objects(rng, w, n=rng.choice([2, 3, 3]))
        steps = gen_sequence(rng, w, objs, nrounds)
        if steps is None:
            continue
        w.features.add("sequence")
        return {"domain_text": G.render(w.domain_tree("dom"), rng, True), "header_text": header_text(w, rng),
                "problem_text": objects_problem(objs), "objects": [list(o) for o in objs], "steps": steps,
                "features": sorted(w.features)}
    raise RuntimeError("no world with a callable action in 50 attempts")


def sequence_worlds(seq, res):
    """the judged form of a sequence: per epoch (the domain as exported after an edit) one pseudo world whose probes are the ground steps
    observed in that epoch"""
    if "epochs" not in res:
        raise RuntimeError("the implementation rejected a generated sequence world: %r\n%s" % (
            {k: res.get(k) for k in ("parse_raised", "problem_raised", "raised", "msg")}, seq["domain_text"]))
    per = {}
    edits = []
    for k, (st, r) in enumerate(zip(seq["steps"], res["steps"])):
        if st["kind"] == "edit":
            edits.append((st["edit"], "raised:" + r["edit_raised"]["raised"] if "edit_raised" in r else bool(r.get("done"))))
            continue
        per.setdefault(r["epoch"], []).append((k, st, r))
    worlds, results = [], []
    for e in sorted(per):
        ep = res["epochs"][e]
        probes = [{"action": st["action"], "args": st["args"], "mode": st.get("mode"), "step": k, "epoch": e, "reused": bool(r.get("reused"))}
                  for k, st, r in per[e]]
        worlds.append({"domain_text": ep["text"], "objects": seq["objects"], "problem_text": seq["problem_text"], "probes": probes,
                       "features": seq["features"], "world": None, "sequence": {k: v for k, v in seq.items() if k != "op"}})
        results.append({"nums": ep["nums"], "probes": [r["obs"] for _, _, r in per[e]]})
    return worlds, results, edits


# ------------------------------------------------------------------------------------------------ round 3: outside the fragment
# A literal with fewer / more arguments than its predicate declares passes the domain parser and must make every grounding of
# its action raise (ValueError; the code used to truncate or pad with the domain's constants -- requests/C02.md R2, D46).
def plant_arity(rng, w, a):
    scope = list(a["params"])
    names = [v for v, _ in scope] + [c for c, _ in w.consts]
    cands = [(n, ps) for n, ps in w.preds if ps or names]
    if not cands:
        return False
    n, ps = rng.choice(cands)
    pools = [G.terms_for(rng, w, scope, t) for _, t in ps]
    if not all(pools):
        return False
    args = [rng.choice(pl) for pl in pools]
    if len(set(args)) < len(args):
        return False
    if args and (not names or rng.random() < 0.5):
        args = args[:-1]
        w.features.add("arity-missing-argument")
    else:
        extra = [x for x in names if x not in args]
        if not extra:
            return False
        args = args + [rng.choice(extra)]
        w.features.add("arity-surplus-argument")
    lit = [n] + args
    lit = lit if rng.random() < 0.7 else ["not", lit]
    pre = a["pre"]
    if not (isinstance(pre, list) and pre and pre[0] == "and"):
        pre = ["and"] + ([pre] if pre else [])
    eff = list(a["eff"])
    found = []
    walk_atoms(a["pre"], dict(w.preds), found)
    where = rng.choice(["pre", "pre-nested", "effect", "when-ante", "when-effect"])
    good = found[0] if found else None
    if where == "pre":
        pre = pre + [lit]
    elif where == "pre-nested":
        pre = pre + [["or", lit] + ([good] if good else [])]
    elif where == "effect":
        eff = eff + [lit]
    elif where == "when-ante" and good:
        eff = eff + [["when", ["and", lit], good]]
    elif where == "when-effect" and good:
        eff = eff + [["when", good, lit]]
    else:
        pre = pre + [lit]
    a["pre"], a["eff"] = pre, eff
    a["oof"] = True
    return True


# domain / problem pairs shipped under <repo>/tests.  The model and the independent spec reader (Spec/Grammar.v) read all of these
# domains; fixtures with (:private ...) predicate blocks (multi-agent PDDL: blocks_ma_problem, domain-grinder0) are outside the spec reader.
FIXTURES = [
    ("exporters_tests/domain_spider.pddl", "exporters_tests/pfile01_spider.pddl"),
    ("lisp_parsers_tests/depot_numeric_domain.pddl", "lisp_parsers_tests/pfile1_depot.pddl"),
    ("lisp_parsers_tests/logistics_combined_domain.pddl", "lisp_parsers_tests/pfile_probLOGISTICS-14-0.pddl"),
    ("lisp_parsers_tests/woodworking_combined_domain.pddl", "lisp_parsers_tests/woodworking_combined_problem.pddl"),
    ("models_tests/advanced_minecraft_domain.pddl", "models_tests/advanced_map_instance_0.pddl"),
    ("models_tests/domain_miconic.pddl", "models_tests/miconic_pfile_1-0.pddl"),
    ("models_tests/miconic_learned_domain.pddl", "models_tests/miconic_pfile_1-0.pddl"),
    ("models_tests/nurikabe_domain.pddl", "models_tests/nurikabe_problem.pddl"),
    ("multi_agent_tests/blocks_socs_experiment/original_domain.pddl", "multi_agent_tests/blocks_socs_experiment/original_problem_3.pddl"),
    ("multi_agent_tests/combined_domain.pddl", "multi_agent_tests/combined_problem.pddl"),
    ("multi_agent_tests/depots_domain.pddl", "multi_agent_tests/depots_problem.pddl"),
    ("multi_agent_tests/logistics_combined_domain.pddl", "multi_agent_tests/logistics_combined_problem.pddl"),
    ("multi_agent_tests/multi_agent_problem/domain-glazer0.pddl", "multi_agent_tests/multi_agent_problem/problem-glazer0.pddl"),
    ("multi_agent_tests/multi_agent_problem/domain-planer0.pddl", "multi_agent_tests/multi_agent_problem/problem-planer0.pddl"),
    ("multi_agent_tests/multi_agent_problem/domain-saw0.pddl", "multi_agent_tests/multi_agent_problem/problem-saw0.pddl"),
    ("multi_agent_tests/sokoban_domain.pddl", "multi_agent_tests/sokoban_problem.pddl"),
    ("multi_agent_tests/woodworking_domain.pddl", "multi_agent_tests/prob_woodworking_01.pddl"),
]


def fixture_worlds(rng, tier, only=None):
    """runs the fixture op (it samples the calls itself) and returns (worlds, results) in the shape of the generated stream"""
    pairs = FIXTURES if tier == "thorough" else rng.sample(FIXTURES, 6)
    jobs = [{"op": "c20.fixture", "domain": d, "problem": p, "seed": rng.randrange(10 ** 6), "ncalls": 6 if tier == "thorough" else 3,
             "nstates": 1, "want": "ground"} for d, p in pairs]
    if only is not None:
        jobs = [{"op": "c20.fixture", "domain": only["fixture"][0], "problem": only["fixture"][1], "seed": 0,
                 "calls": only["probes"], "nstates": 1, "want": "ground"}]
        pairs = [tuple(only["fixture"])]
    worlds, results = [], []
    for (d, p), r in zip(pairs, run_impl(jobs, nproc=min(8, len(jobs)))):
        if "probes" not in r:
            raise RuntimeError("fixture %s / %s is no longer readable by the implementation: %r" % (d, p, r.get("parse_raised")))
        worlds.append({"domain_text": r["domain_text"], "objects": r["objects"], "problem_text": None, "fixture": [d, p],
                       "probes": [{"action": q["action"], "args": q["args"]} for q in r["probes"]],
                       "features": ["fixture:" + d], "world": None})
        results.append({"nums": r["nums"], "probes": [q["obs"] for q in r["probes"]]})
    return worlds, results


def corpus():
    out = []
    for f in load_findings(PROP):
        wt = f.get("witness")
        if not wt or "domain_text" not in wt:
            continue
        out.append({"domain_text": wt["domain_text"], "objects": wt["objects"], "problem_text": objects_problem(wt["objects"]),
                    "probes": wt["probes"], "features": ["corpus:" + f["id"]], "world": None,
                    "witness_of": f["id"] if f.get("status") == "open" else None,
                    "witness_units": wt.get("units")})
    return out


# ------------------------------------------------------------------------------------------------ literals
def ctree(t):
    if t[0] == "fn":
        return "(GTFn (%s, %s))" % (cstr(t[1]), clist([cstr(a) for a in t[2]]))
    if t[0] == "num":
        return "(GTNum %s)" % chex(float.fromhex(t[1]))
    return "(GTNode %s %s %s)" % (cstr(t[1]), ctree(t[2]), ctree(t[3]))


def colit(l):
    return ("{| ol_g := %s; ol_pos := %s; ol_name := %s; ol_args := %s; ol_types := %s; ol_u := %s; ol_t := %s |}" % (
        cbool(l["g"]), cbool(l["pos"]), cstr(l["name"]), clist([cstr(a) for a in l["args"]]),
        clist([cstr(a) for a in l["types"]]), cstr(l["u"]), cstr(l["t"])))


def cocond(c):
    return "{| oc_lits := %s; oc_nums := %s; oc_eqs := %s |}" % (
        clist([colit(l) for l in c["lits"]]), clist([ctree(t) for t in c["nums"]]),
        clist(["(%s, %s, %s)" % (cbool(e), cstr(a), cstr(b)) for e, a, b in c["eqs"]]))


def cobs_str(r):
    return "(Returned %s)" % cstr(r["value"]) if "value" in r else "Raised"


def cobservation(o):
    groups = clist(["{| og_ante := %s; og_disc := %s; og_num := %s |}" % (
        "None" if g["ante"] is None else "(Some %s)" % cocond(g["ante"]),
        clist([colit(l) for l in g["disc"]]), clist([ctree(t) for t in g["num"]])) for g in o["groups"]])
    return "{| ob_pre := %s; ob_groups := %s; ob_call := %s; ob_call_noobj := %s; ob_str := %s |}" % (
        cocond(o["pre"]), groups, cobs_str(o["call"]), cobs_str(o["call_noobj"]), cstr(o["str"]))


def case_literal(wd, res, eps_hex):
    nums = clist(["(%s, %s)" % (cstr(k), chex(float.fromhex(v))) for k, v in sorted(res["nums"].items())])
    objs = clist(["(%s, %s)" % (cstr(n), cstr(t)) for n, t in wd["objects"]])
    w = ("{| w_text := %s; w_nums := %s; w_eps := %s; w_objs := %s; w_oof := false; w_parsed := Raised; w_probes := [] |}"
         % (cstr(wd["domain_text"]), nums, chex(float.fromhex(eps_hex)), objs))
    probes = []
    for pr, r in zip(wd["probes"], res["probes"]):
        ob = "(Returned %s)" % cobservation(r["value"]) if "value" in r else "Raised"
        probes.append("{| g_action := %s; g_args := %s; g_obs := %s |}" % (
            cstr(pr["action"]), clist([cstr(a) for a in pr["args"]]), ob))
    return "{| gc_world := %s; gc_probes := %s |}" % (w, clist(probes))


# ------------------------------------------------------------------------------------------------ classification
def has_forall(t):
    if isinstance(t, str):
        return False
    return (t and t[0] == "forall") or any(has_forall(x) for x in t)


def klass_of(wd, pr, unit):
    """which open finding class a not-ok verdict of this unit would belong to (rough, for attribution only)"""
    w = wd.get("world")
    if w is None:
        if wd.get("witness_of") or not (wd.get("fixture") or wd.get("sequence")):
            return wd.get("witness_of")
        return "D38" if "forall" in wd["domain_text"].lower() else "D07"     # fixtures, sequences: Coq's classifier decided 'known'
    a = [x for x in w.actions if x["name"] == pr["action"]][0]
    if unit == 0:
        return "D38" if has_forall(a["pre"]) else "D07"
    conds = [e[1] for e in a["eff"][1:] if isinstance(e, list) and e and e[0] == "when"]
    return "D38" if any(has_forall(c) for c in conds) else "D07"


def call_stats(stats, wd, pr, r):
    w = wd.get("world")
    args = pr["args"]
    stats["calls"] += 1
    if len(set(args)) < len(args):
        stats["calls_with_repeated_object"] += 1
    if w is not None:
        cs = {c for c, _ in w.consts}
        if any(a in cs for a in args):
            stats["calls_with_constant_argument"] += 1
        a = [x for x in w.actions if x["name"] == pr["action"]][0]
        ty = dict(list(wd["objects"]) + [list(c) for c in w.consts])
        if any(ty.get(x) != pt for x, (_, pt) in zip(args, a["params"])):
            stats["calls_with_subtype_argument"] += 1
    if pr.get("alias"):
        stats["calls_binding_one_object_to_twin_terms"] += 1
    if "value" in r:
        o = r["value"]
        colls = [o["pre"]["lits"]] + [g["disc"] for g in o["groups"]] + [g["ante"]["lits"] for g in o["groups"] if g["ante"]]
        for c in colls:
            by_u = {}
            for l in c:
                by_u.setdefault(l["u"], []).append(l["t"])
            if any(len(set(ts)) > 1 for ts in by_u.values()):
                stats["collections_same_untyped_different_typed"] += 1
            if any(len(ts) > len(set(ts)) for ts in by_u.values()):
                stats["collections_same_typed_reported_twice"] += 1
        stats["pre_literals"] += len(o["pre"]["lits"])
        stats["pre_lifted_literals"] += sum(1 for l in o["pre"]["lits"] if not l["g"])
        stats["pre_numeric"] += len(o["pre"]["nums"])
        stats["eq_pairs"] += len(o["pre"]["eqs"])
        stats["effect_groups"] += len(o["groups"])
        stats["effect_literals"] += sum(len(g["disc"]) for g in o["groups"])
        stats["effect_numeric"] += sum(len(g["num"]) for g in o["groups"])
        stats["typed_call_raised"] += 0 if "value" in o["call"] else 1
    else:
        stats["ground_raised"] += 1
        if w is not None and any(x["name"] == pr["action"] and x.get("oof") for x in w.actions):
            stats["ground_raised_arity_mismatch"] += 1


def run(args):
    rep = Report(PROP, args.tier, args.seed)
    standard_proof_part(rep, PROP)
    rng = random.Random(args.seed * 104729 + 20)
    cfg = run_impl([{"op": "core.numeric_config"}], nproc=1)[0]
    fixture_only = None
    seqs = []
    if args.replay:
        data = json.load(open(args.replay))
        wd = data["input"]["world"]
        wd.setdefault("world", None)
        if wd.get("fixture"):
            fixture_only, worlds = wd, []
        elif wd.get("sequence"):
            seqs, worlds = [wd["sequence"]], []
        else:
            worlds = [wd]
    else:
        worlds = corpus()
        n, calls = {"quick": (80, 5), "thorough": (900, 8)}[args.tier]
        for _ in range(n):
            worlds.append(build(rng, gen_world20(rng), calls))
        for _ in range({"quick": 50, "thorough": 300}[args.tier]):
            aw, plans = gen_alias_world(rng)
            worlds.append(build_alias(rng, aw, plans, calls))
        seqs = [build_sequence(rng, rng.randint(3, 6)) for _ in range({"quick": 36, "thorough": 160}[args.tier])]
    hashseeds = [0] if args.tier == "quick" else [0, 1, 2]
    stats = {"worlds": 0, "calls": 0, "calls_with_repeated_object": 0, "calls_with_constant_argument": 0,
             "calls_with_subtype_argument": 0, "calls_binding_one_object_to_twin_terms": 0,
             "collections_same_untyped_different_typed": 0, "collections_same_typed_reported_twice": 0, "pre_literals": 0, "pre_lifted_literals": 0, "pre_numeric": 0, "eq_pairs": 0,
             "effect_groups": 0, "effect_literals": 0, "effect_numeric": 0, "typed_call_raised": 0, "ground_raised": 0, "ground_raised_arity_mismatch": 0,
             "features": {}, "sequence_worlds": 0, "sequence_ground_steps": 0, "sequence_ground_steps_same_operator_object": 0,
             "sequence_edits_done": {}, "sequence_edits_without_effect": {}, "sequence_edits_that_raised": {}, "sequence_regrounded_calls": 0,
             "sequence_regrounded_calls_whose_report_changed": 0}
    lits, units, cases = [], [], []
    streams = []
    for si, hs in enumerate(hashseeds):
        jobs = [{"op": "c20.world", "domain_text": wd["domain_text"], "problem_text": wd["problem_text"],
                 "probes": wd["probes"]} for wd in worlds]
        streams.append((hs, worlds, run_impl(jobs, hashseed=hs), si == 0))
        if seqs:
            sw, sr = [], []
            for seq, res in zip(seqs, run_impl([dict(q, op="c20.sequence") for q in seqs], hashseed=hs)):
                ws1, rs1, edits = sequence_worlds(seq, res)
                sw += ws1
                sr += rs1
                if si == 0:
                    stats["sequence_worlds"] += 1
                    for kind, done in edits:
                        row = stats["sequence_edits_that_raised" if isinstance(done, str) else
                                    "sequence_edits_done" if done else "sequence_edits_without_effect"]
                        row[kind] = row.get(kind, 0) + 1
                    last = {}
                    for wd1, r1 in zip(ws1, rs1):
                        for pr, ob in zip(wd1["probes"], r1["probes"]):
                            stats["sequence_ground_steps"] += 1
                            stats["sequence_ground_steps_same_operator_object"] += 1 if pr["reused"] else 0
                            key = (pr["action"], tuple(pr["args"]))
                            txt = json.dumps(ob.get("value", ob), sort_keys=True)
                            if key in last and last[key][0] != pr["epoch"]:
                                stats["sequence_regrounded_calls"] += 1
                                stats["sequence_regrounded_calls_whose_report_changed"] += 1 if last[key][1] != txt else 0
                            last[key] = (pr["epoch"], txt)
            streams.append((hs, sw, sr, si == 0))
    if fixture_only is not None or not args.replay:
        fw, fr = fixture_worlds(rng, args.tier, fixture_only)
        streams.append((hashseeds[0] if worlds else -1, fw, fr, True))
        stats["fixtures"] = len(fw)
    for hs, ws, results, count in streams:
        for wd, res in zip(ws, results):
            if "probes" not in res:
                raise RuntimeError("the implementation rejected a generated world: %r\n%s" % (
                    {k: res.get(k) for k in ("parse_raised", "problem_raised", "raised", "msg")}, wd["domain_text"]))
            lit = case_literal(wd, res, cfg["epsilon"])
            lits.append(lit)
            units.append(3 * len(wd["probes"]))
            if count:
                stats["worlds"] += 1
                for f in wd["features"]:
                    stats["features"][f] = stats["features"].get(f, 0) + 1
            for pi, (pr, r) in enumerate(zip(wd["probes"], res["probes"])):
                if count:
                    call_stats(stats, wd, pr, r)
                for unit, uname in enumerate(("precondition", "effects", "call")):
                    inp = {"world": {"domain_text": wd["domain_text"] if not wd.get("fixture") else None, "objects": wd["objects"],
                                     "problem_text": wd["problem_text"], "fixture": wd.get("fixture"),
                                     "sequence": wd.get("sequence"),
                                     "probes": [pr], "features": wd["features"]},
                           "unit": uname, "hashseed": hs, "implementation": r}
                    wit = wd.get("witness_of")
                    if wit and wd.get("witness_units") and uname not in wd["witness_units"]:
                        wit = None
                    nontrivial = bool(pr["args"]) and "value" in r and (
                        (unit == 0 and len(r["value"]["pre"]["lits"]) + len(r["value"]["pre"]["nums"]) > 0) or
                        (unit == 1 and sum(len(g["disc"]) + len(g["num"]) for g in r["value"]["groups"]) > 0) or unit == 2)
                    cases.append({"lit": lit, "input": inp, "nontrivial": nontrivial, "witness_of": wit,
                                  "klass": klass_of(wd, pr, unit) if unit < 2 else None})
    verdicts, info = run_case_shards(PROP, "Corr.C20", lits, shard_size=10, units=units, header_extra=HEADER, max_bytes=110_000)
    decide(rep, PROP, "Corr.C20", cases, verdicts, info, explain_expr="explain %s", header_extra=HEADER, max_replays=5)
    cov = rep.coverage
    cov["input_distribution"] = stats
    cov["hash_seeds"] = hashseeds
    cov["exhaustive"] = False
    cov["rule"] = ("generated typed domains (pddlgen: <=4 types in any order, constants, 2-4 predicates of arity <=2 and in half of the worlds a ternary one, <=3 functions of arity <=1, "
                   "plus a binary function g2 used with distinct lifted arguments in a precondition and/or an unconditional effect; and/or/not/=/"
                   "forall/comparison preconditions; add/del/assign/increase/decrease/when/forall-when effects), 2-3 objects, up to 5 (quick) / 8 "
                   "(thorough) type-correct calls per action drawn from all tuples over objects and constants conforming by SUBTYPE (so repeated "
                   "objects, constants in any position and subtype narrowing occur; counted below); plus shipped fixtures: domain/problem pairs under "
                   "<repo>/tests (6 of 17 in quick, all in thorough) with calls over the problem's objects, half of them applicable in the initial state (so repeated "
                   "objects, constants in any position and subtype narrowing occur; counted below).  Three verdicts per call: precondition "
                   "(iterated literals with both texts, numeric trees, (in)equality pairs), effect groups (antecedent, add/delete literals, numeric "
                   "effects), call texts (typed_action_call with / without objects, str).  Round 3: 50 (quick) / 300 (thorough) more worlds in which "
                   "two DIFFERENT schema literals ground to the same atom -- a twin of a parameter (a new parameter of an equal / sub / super type, or a constant "
                   "written into the schema) and a literal over the parameter plus its copy over the twin, placed as siblings of one connective, at the top level "
                   "and inside a nested or/and, in two sibling groups, deeply nested, in one effect group, in a 'when' antecedent, as numeric conditions / effects "
                   "over a unary function; 2/3 of their calls bind both terms to the same object (counted: calls_binding_one_object_to_twin_terms, "
                   "collections_same_untyped_different_typed, collections_same_typed_reported_twice); and in 12% of the ordinary worlds one literal with a missing or "
                   "surplus argument (every grounding of that action must raise; counted).  Collections are compared as MULTISETS: with the model exactly "
                   "(Model.GroundSets: the library's per-connective / per-effect-group sets applied to the report), with the spec between its lower bound "
                   "(Spec.SubstSet: members of one connective / effect group with the same TYPED form count once) and one item per schema occurrence; numeric "
                   "conditions and effects exactly; (in)equality pairs as sets; the iteration order of the sets is not compared.  "
                   "Wave 3: PROCESS-LEVEL SEQUENCES (36 quick / 160 thorough worlds of the ordinary and the alias stream): ONE parsed Domain whose Action objects are "
                   "reused and EDITED IN PLACE through the library's API between groundings -- add / remove a precondition literal, a nested or/and group, a numeric "
                   "condition, an add / delete effect, a numeric effect, a literal of a 'when' branch (antecedent / result), change_signature to fresh names and back; after "
                   "each edit the call grounded before is grounded again (a fresh Operator, and in half of the rounds the SAME Operator object grounded again), another seen call, "
                   "sometimes a call never seen, sometimes a call of another action; every report is judged against the schema AS IT IS AT THAT MOMENT: the op re-dumps the "
                   "live Action objects after every edit (its own walk of their operands, not the library's exporter) and the model and the spec ground that text (counted: sequence_*; "
                   "sequence_regrounded_calls_whose_report_changed = how often the edit mattered).  A verdict is non-trivial "
                   "when the call has arguments and the compared collection is non-empty; distinct by input hash.")
    cov["samples"] = [{"domain": (c["input"]["world"]["domain_text"] or str(c["input"]["world"]["fixture"]))[:400],
                       "probe": c["input"]["world"]["probes"][0]} for c in cases[:1] + cases[-2:]]
    rep.assumptions = ["ASCII text", "calls have as many arguments as the action has parameters"]
    return rep.finish()
