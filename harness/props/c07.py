"""C07 — queries and transitions are pure: inputs and earlier results are never modified.

Implementation side: histories of API calls run by harness/ops_c07.py with the digest oracle, the sharing
graph, the repeat check and real threads.  Model side: Model/Store.v (ownership / footprint model) evaluated in
Coq on the same resolved histories (Corr/C07.v)."""
import json
import random

from ..common import (Report, cbool, clist, cstr, decide, load_findings, run_case_shards, run_impl,
                      standard_proof_part, write_replay, case_hash)

PROP = "C07"
DEFECTS = ["D15", "D16", "D17", "D18"]

# ------------------------------------------------------------------------------------------ domain generator
PREDS = {"p": ["a"], "q": ["b"], "r": ["a", "b"], "z": []}
FUNCS = {"f": ["a"], "g": ["b"], "h": []}
OBJS = {"a": ["a1", "a2"], "b": ["b1", "b2"]}


def _var(ty):
    return "?x" if ty == "a" else "?y"


def _atom_text(name, args):
    return "(%s%s)" % (name, "".join(" " + a for a in args))


class GenAction:
    """an action schema together with the shape the footprint model needs.

    The base group and the `when` groups of one action never touch the same predicate or fluent (each
    predicate / fluent is written by at most one of them, and read only by its writer or when nobody writes
    it): `Operator.grounded_effects` is a set of objects hashed by address, so the order in which the groups
    are applied differs from run to run, and interfering groups (deviation D12, property C03) would make the
    *value* of the successor order-dependent.  C07 is about values that change afterwards, not about that."""

    def __init__(self, rng, idx, typed):
        self.name = "act%d" % idx
        kinds = rng.choice([["a"], ["a", "b"], ["b"], ["a", "b"]])
        self.params = [(_var(t), t) for t in kinds]
        ptypes = [t for _, t in self.params]
        avail_p = [n for n, sig in PREDS.items() if all(t in ptypes for t in sig)]
        avail_f = [n for n, sig in FUNCS.items() if all(t in ptypes for t in sig)] if typed else []
        self.typed = typed
        n_when = rng.choice([0, 0, 1, 2]) if typed else 0
        n_groups = 1 + n_when
        p_owner = {n: rng.randrange(n_groups) for n in avail_p}
        f_owner = {n: rng.choice([None] + list(range(n_groups))) for n in avail_f}

        def lit_text(n, neg):
            t = _atom_text(n, [_var(t) for t in PREDS[n]])
            return "(not %s)" % t if neg else t

        def lit(pool=None):
            return lit_text(rng.choice(pool or avail_p), rng.random() < 0.3)

        def fl_text(f):
            return _atom_text(f[0], f[1])

        def mkfl(n):
            return (n, [_var(t) for t in FUNCS[n]])

        def nexp(depth, pool):
            """returns (text, fluent leaves)"""
            r = rng.random()
            if depth == 0 or r < 0.35 or not pool:
                if rng.random() < 0.5 or not pool:
                    return str(rng.choice([0, 1, 2, 3, 5, 0.5])), []
                f = mkfl(rng.choice(pool))
                return fl_text(f), [f]
            a, la = nexp(depth - 1, pool)
            b, lb = nexp(depth - 1, pool)
            return "(%s %s %s)" % (rng.choice("+-*"), a, b), la + lb

        # precondition: 1-2 literals, 0-2 numeric comparisons; leaves in order of the text
        self.pre_leaves = []
        pre = [lit() for _ in range(rng.randint(1, 2))]
        for _ in range(rng.randint(0, 2) if avail_f else 0):
            a, la = nexp(1, avail_f)
            b, lb = nexp(0, avail_f)
            if not la and not lb:
                f = mkfl(rng.choice(avail_f))
                a, la = fl_text(f), [f]
            c = "(%s %s %s)" % (rng.choice([">=", "<=", ">", "<"]), a, b)
            if c not in pre:
                pre.append(c)
                self.pre_leaves += la + lb
        self.pre_text = "(and %s)" % " ".join(dict.fromkeys(pre))

        def group_effects(g, min_n):
            """literals and numeric effects of group g: every target at most once"""
            my_p = [n for n in avail_p if p_owner[n] == g]
            my_f = [n for n in avail_f if f_owner[n] == g]
            readable = [n for n in avail_f if f_owner[n] in (None, g)]
            texts, shapes = [], []
            for n in rng.sample(my_p, min(len(my_p), rng.randint(0, 2))):
                texts.append(lit_text(n, rng.random() < 0.4))
            for n in rng.sample(my_f, min(len(my_f), rng.randint(0, 2))):
                e, le = nexp(1, readable)
                tgt = mkfl(n)
                texts.append("(%s %s %s)" % (rng.choice(["increase", "decrease", "assign"]), fl_text(tgt), e))
                shapes.append((tgt, le))
            return texts, shapes

        effs, self.groups = [], []
        texts, shapes = group_effects(0, 0)
        effs += texts
        self.groups.append({"ante": [], "effs": shapes})
        for g in range(1, n_groups):
            ante, leaves = [lit()], []
            if rng.random() < 0.4 and avail_f:
                f = mkfl(rng.choice(avail_f))
                ante.append("(%s %s %s)" % (rng.choice([">=", "<="]), fl_text(f), rng.choice([0, 1, 3])))
                leaves.append(f)
            texts, shapes = group_effects(g, 1)
            if not texts:
                continue
            effs.append("(when (and %s) (and %s))" % (" ".join(dict.fromkeys(ante)), " ".join(texts)))
            self.groups.append({"ante": leaves, "effs": shapes})
        # forall effects (typed domains only), at most one per quantified type
        self.n_forall = 0
        if typed:
            for qt in rng.sample(["a", "b"], rng.choice([0, 0, 1, 1, 2])):
                qv = "?v%d" % self.n_forall
                qp = "p" if qt == "a" else "q"
                qf = "f" if qt == "a" else "g"
                body = [rng.choice(["(not (%s %s))" % (qp, qv), "(%s %s)" % (qp, qv)])]
                if rng.random() < 0.6:
                    body.append("(%s (h) (%s %s))" % (rng.choice(["increase", "decrease"]), qf, qv))
                elif rng.random() < 0.5:
                    body.append("(assign (%s %s) %s)" % (qf, qv, rng.choice([0, 1, 7])))
                cond = rng.choice(["(%s %s)" % (qp, qv), "(not (%s %s))" % (qp, qv), "(>= (%s %s) 1)" % (qf, qv)])
                effs.append("(forall (%s - %s) (when %s (and %s)))" % (qv, qt, cond, " ".join(dict.fromkeys(body))))
                self.n_forall += 1
        if not effs:
            effs.append("(z)")
        self.eff_text = "(and %s)" % " ".join(dict.fromkeys(effs))

    def text(self):
        if self.typed:
            ps = " ".join("%s - %s" % p for p in self.params)
        else:
            ps = " ".join(p for p, _ in self.params)
        return "(:action %s\n  :parameters (%s)\n  :precondition %s\n  :effect %s)" % (self.name, ps, self.pre_text, self.eff_text)

    def ground_key(self, f, args):
        env = {p: a for (p, _), a in zip(self.params, args)}
        return _atom_text(f[0], [env[v] for v in f[1]])


class GenDomain:
    def __init__(self, rng, name, typed=True, n_actions=None, numeric=True):
        self.name, self.typed = name, typed
        self.actions = [GenAction(rng, i, typed) for i in range(n_actions or rng.randint(1, 3))]

    def text(self):
        def sig(tys):
            return "".join(" %s%s" % (_var(t), " - " + t if self.typed else "") for t in tys)
        out = ["(define (domain %s)" % self.name,
               "(:requirements :typing :fluents :conditional-effects :universal-preconditions)" if self.typed else "(:requirements :strips)"]
        if self.typed:
            out.append("(:types a b - object)")
        out.append("(:predicates %s)" % " ".join("(%s%s)" % (n, sig(t)) for n, t in PREDS.items()))
        if self.typed:
            out.append("(:functions %s)" % " ".join("(%s%s)" % (n, sig(t)) for n, t in FUNCS.items()))
        out += [a.text() for a in self.actions]
        out.append(")")
        return "\n".join(out)


def gen_problem(rng, dom, name, order=None):
    """objects in a random type order (the order decides whether the D15 'continue' is the last iteration)"""
    groups = [("a", OBJS["a"]), ("b", OBJS["b"])]
    if order is None:
        order = rng.random() < 0.5
    if order:
        groups.reverse()
    if dom.typed:
        objs = " ".join("%s - %s" % (" ".join(o), t) for t, o in groups)
    else:
        objs = " ".join(" ".join(o) for t, o in groups) + " - object"
    init, keys = [], []
    for n, sig in PREDS.items():
        for args in _tuples(sig):
            if rng.random() < 0.6:
                init.append(_atom_text(n, args))
    for n, sig in (FUNCS.items() if dom.typed else []):
        for args in _tuples(sig):
            if rng.random() < 0.85:
                init.append("(= %s %s)" % (_atom_text(n, args), rng.choice([0, 1, 2, 4, 10])))
                keys.append(_atom_text(n, args))
    text = "(define (problem %s) (:domain %s)\n(:objects %s)\n(:init %s)\n(:goal (and (z))))" % (name, dom.name, objs, " ".join(init))
    return text, keys, [o for _, os_ in groups for o in os_]


def _tuples(sig):
    out = [[]]
    for t in sig:
        out = [x + [o] for x in out for o in OBJS[t]]
    return out


def gen_agent_domain(rng, k, typed=True):
    """small agent domain for the combine operation; introduces its own types"""
    tys = ["agent%d" % k, "thing"]
    if typed:
        return ("(define (domain ma)\n(:requirements :typing)\n(:types %s - object)\n(:predicates (at%d ?x - %s) (free ?t - thing))\n"
                "(:action go%d :parameters (?x - %s ?t - thing) :precondition (and (at%d ?x)) :effect (and (not (at%d ?x)) (free ?t))))"
                % (" ".join(tys), k, tys[0], k, tys[0], k, k))
    return ("(define (domain ma)\n(:requirements :strips)\n(:predicates (at%d ?x) (free ?t))\n"
            "(:action go%d :parameters (?x ?t) :precondition (and (at%d ?x)) :effect (and (not (at%d ?x)) (free ?t))))" % (k, k, k, k))


# ------------------------------------------------------------------------------------------ history generator
def gen_history(rng, hid, tier, n_ops=None, style=None):
    """A job for ops_c07.history.  The first ops set the stage (parse domain, parse problem, an operator)."""
    style = style or rng.choice(["sim", "sim", "sim", "domains", "mixed"])
    main = GenDomain(rng, "d0", typed=rng.random() < 0.85)
    doms = [main]
    if style != "sim":
        doms.append(GenDomain(rng, "d1", typed=rng.random() < 0.4, n_actions=1))
    probs = []
    for j in range(rng.choice([1, 1, 2])):
        probs.append(gen_problem(rng, main, "pr%d" % j))
    ma = [[gen_agent_domain(rng, k, typed=rng.random() < 0.9) for k in range(rng.randint(1, 3))]]
    n_ops = n_ops or rng.randint(3, 12)
    ops = [{"k": "parse_domain", "src": 0}, {"k": "parse_problem", "src": 0, "dom": 0}]

    def mk_op():
        a = rng.randrange(len(main.actions))
        act = main.actions[a]
        args = [rng.choice(OBJS[t]) for _, t in act.params]
        return {"k": "mk_op", "dom": 0, "act": act.name, "ai": a, "args": args,
                "objs": (rng.randrange(8) if rng.random() < 0.8 else None)}

    ops.append(mk_op())
    weights = {"sim": [("apply", 30), ("applicable", 10), ("mk_op", 10), ("triplet", 10), ("ground", 3), ("copy", 4),
                       ("serialize", 6), ("typed_serialize", 2), ("state_objects", 2), ("str_op", 4), ("str_action", 5),
                       ("export", 6), ("parse_problem", 3)],
               "domains": [("parse_domain", 14), ("new_domain", 10), ("combine", 14), ("export", 16), ("str_action", 6),
                           ("apply", 10), ("mk_op", 5), ("triplet", 4)],
               "mixed": [("apply", 20), ("applicable", 6), ("mk_op", 8), ("triplet", 8), ("copy", 3), ("serialize", 5),
                         ("str_action", 4), ("export", 8), ("parse_domain", 6), ("new_domain", 5), ("combine", 8),
                         ("parse_problem", 3), ("str_op", 3), ("ground", 2)]}[style]
    names = [n for n, w in weights for _ in range(w)]
    while len(ops) < n_ops:
        k = rng.choice(names)
        if k == "apply":
            fl = rng.choice([(False, False), (False, False), (True, False), (False, True), (True, True)])
            ops.append({"k": "apply", "op": rng.randrange(8), "st": rng.randrange(16), "allow": fl[0], "skip": fl[1]})
        elif k == "applicable":
            ops.append({"k": "applicable", "op": rng.randrange(8), "st": rng.randrange(16)})
        elif k == "mk_op":
            ops.append(mk_op())
        elif k == "triplet":
            a = rng.randrange(len(main.actions))
            act = main.actions[a]
            args = [rng.choice(OBJS[t]) for _, t in act.params]
            ops.append({"k": "triplet", "dom": 0, "st": rng.randrange(16), "objs": rng.randrange(16), "ai": a, "args": args,
                        "call": "(%s %s)" % (act.name, " ".join(args)), "allow": rng.random() < 0.25})
        elif k in ("ground", "str_op"):
            ops.append({"k": k, "op": rng.randrange(8)})
        elif k in ("copy", "serialize", "typed_serialize", "state_objects"):
            ops.append({"k": k, "st": rng.randrange(16)})
        elif k == "str_action":
            a = rng.randrange(len(main.actions))
            ops.append({"k": k, "dom": 0, "act": main.actions[a].name, "ai": a})
        elif k == "export":
            ops.append({"k": k, "dom": rng.randrange(8)})
        elif k == "parse_problem":
            ops.append({"k": k, "src": rng.randrange(len(probs)), "dom": 0})
        elif k == "parse_domain":
            ops.append({"k": k, "src": rng.randrange(len(doms))})
        elif k == "new_domain":
            ops.append({"k": k})
        elif k == "combine":
            ops.append({"k": k, "src": 0, "dummy": rng.random() < 0.3})
    return {"op": "c07.history", "id": hid, "doms": [d.text() for d in doms], "probs": [p[0] for p in probs],
            "ma": ma, "ops": ops, "style": style,
            "_shape": {"doms": doms, "probs": probs}}
